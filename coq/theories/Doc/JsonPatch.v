(* Executable model of github.com/evanphx/json-patch v4.1.0 (patch.go): DecodePatch + Patch.Apply,
   as used by doccomposer.applyJSON and patchvalidator.validateJSONPatches.  Definitions only.

   The library keeps the document as a graph of *lazyNode pointers.  [copy] and [move] store the SAME
   pointer at the destination (no deep copy), so two places of the document can share one mutable
   container, and a container can even become its own descendant.  The model therefore works on a
   heap of container nodes addressed by index; scalars are immutable and stay inline.

   [Crash] stands for a Go panic of the real library (recoverable; composer.applyJSON now turns it
   into an error, see [apply_json_outcome]):
     - index out of range on a negative array index in get/set (replace, test, copy, move),
     - nil dereference: walking into a node created by  "value": null;  [test] without a value member
       against a null/absent target;  lazyNode.equal reaching a nil pointer (null inside a container),
     - assignment to a nil map (document text "null"),
     - "makeslice: len out of range" when [copy]/[move] write at an index >= 2^45.
   [Fatal] stands for a fatal runtime error (the process dies, recover() does not help):
     - unbounded recursion in json.Marshal when a container became reachable from itself (stack
       overflow); it happens only when every operation succeeded, at the final marshal,
     - out of memory when [copy]/[move] write far behind the end of an array: the library allocates
       index+1 pointers.  Abstraction: more than [pad_limit] padding elements (and index < 2^45)
       counts as Fatal; the real outcome between [pad_limit] and the available memory is a very large
       but successful allocation.

   Laziness of the real library (it works on raw JSON text) is invisible on the AST except:
     - scalars are compared as compacted TEXT by [test]; on the AST they are compared by [json_eqb].
       Both agree when document and patch were produced by the same encoder from decoded values
       (differential tests do that);
     - duplicate member names: Go's map decoding keeps the last one; the model does the same when a
       container is loaded ([jlast], [load]). *)
From Coq Require Import String List NArith ZArith Bool.
From Coq.Strings Require Import Byte.
From SV Require Import Base.Bytes Json.Ast.
Import ListNotations.
Local Open Scope Z_scope.

(* [Crash] = a Go panic that recover() can catch; [Fatal] = a fatal runtime error that kills the process *)
Inductive outcome := Ok (d : json) | Err | Crash | Fatal.

(* results of the internal steps *)
Inductive res (A : Type) := ROk (a : A) | RErr | RCrash | RFatal.
Arguments ROk {A} a.
Arguments RErr {A}.
Arguments RCrash {A}.
Arguments RFatal {A}.

Definition rbind {A B} (r : res A) (f : A -> res B) : res B :=
  match r with ROk a => f a | RErr => RErr | RCrash => RCrash | RFatal => RFatal end.

(* ---------- RFC 6901 pointers as the library reads them ---------- *)

Definition slash : byte := "/"%byte.
Definition tilde : byte := "~"%byte.

(* strings.Split(path, "/") : always at least one piece *)
Fixpoint split_slash (p : bytes) : list bytes :=
  match p with
  | [] => [[]]
  | c :: r =>
    if Byte.eqb c slash then [] :: split_slash r
    else match split_slash r with
         | [] => [[c]]            (* unreachable *)
         | x :: xs => (c :: x) :: xs
         end
  end.

(* strings.NewReplacer("~1", "/", "~0", "~").Replace *)
Fixpoint decode_key (k : bytes) : bytes :=
  match k with
  | c :: ((d :: r) as t) =>
    if Byte.eqb c tilde then
      if Byte.eqb d "1"%byte then slash :: decode_key r
      else if Byte.eqb d "0"%byte then tilde :: decode_key r
      else c :: decode_key t
    else c :: decode_key t
  | _ => k
  end.

(* findObject: at least one "/" is required; the text before the first "/" is IGNORED (quirk:
   "x/a/b" addresses the same place as "/a/b"); every token is unescaped. *)
Definition decode_pointer (p : bytes) : option (list bytes) :=
  match split_slash p with
  | _ :: ((_ :: _) as toks) => Some (map decode_key toks)
  | _ => None
  end.

(* ---------- strconv.Atoi on a 64-bit platform ---------- *)

Definition digit_val (b : byte) : option Z :=
  let n := Z.of_N (Byte.to_N b) in
  if (48 <=? n) && (n <=? 57) then Some (n - 48) else None.

Fixpoint digits_val (acc : Z) (s : bytes) : option Z :=
  match s with
  | [] => Some acc
  | c :: r => match digit_val c with Some d => digits_val (acc * 10 + d) r | None => None end
  end.

Definition max_int : Z := 9223372036854775807.

Definition atoi (s : bytes) : option Z :=
  let '(neg, ds) :=
    match s with
    | c :: r => if Byte.eqb c "-"%byte then (true, r) else if Byte.eqb c "+"%byte then (false, r) else (false, s)
    | [] => (false, s)
    end in
  match ds with
  | [] => None
  | _ => match digits_val 0 ds with
         | None => None
         | Some v => let v' := if neg then - v else v in
                     if (- max_int - 1 <=? v') && (v' <=? max_int) then Some v' else None
         end
  end.

(* ---------- the pointer graph ---------- *)

(* what a *lazyNode slot holds *)
Inductive hval :=
| HNil                (* nil pointer: a JSON null met while decoding a container, or an absent "value" *)
| HRawNil             (* &lazyNode{raw: nil}: the op member "value": null *)
| HScalar (j : json)  (* bool / number / string *)
| HRef (r : nat).     (* a container node of the heap *)

Inductive cnode :=
| CDoc (m : list (bytes * hval))
| CAry (l : list hval)
| CNilDoc.            (* nil map: only the root, when the document text is "null" *)

Definition heap := list cnode.

Fixpoint hget (k : bytes) (m : list (bytes * hval)) : option hval :=
  match m with
  | [] => None
  | (k', v) :: r => if bytes_eqb k k' then Some v else hget k r
  end.

Fixpoint hset (k : bytes) (v : hval) (m : list (bytes * hval)) : list (bytes * hval) :=
  match m with
  | [] => [(k, v)]
  | (k', v') :: r => if bytes_eqb k k' then (k, v) :: r else (k', v') :: hset k v r
  end.

Fixpoint hremove (k : bytes) (m : list (bytes * hval)) : list (bytes * hval) :=
  match m with
  | [] => []
  | (k', v) :: r => if bytes_eqb k k' then hremove k r else (k', v) :: hremove k r
  end.

Fixpoint has_key {A} (k : bytes) (m : list (bytes * A)) : bool :=
  match m with
  | [] => false
  | (k', _) :: r => bytes_eqb k k' || has_key k r
  end.

(* member lookup where the LAST occurrence wins (Go map decoding) *)
Fixpoint jlast (k : bytes) (m : list (bytes * json)) : option json :=
  match m with
  | [] => None
  | (k', v) :: r =>
    match jlast k r with
    | Some x => Some x
    | None => if bytes_eqb k k' then Some v else None
    end
  end.

Fixpoint upd_nth {A} (n : nat) (x : A) (l : list A) : list A :=
  match l, n with
  | [], _ => []
  | _ :: r, O => x :: r
  | y :: r, S n' => y :: upd_nth n' x r
  end.

(* json.Unmarshal of a value into the graph: containers are allocated (children first), null becomes
   a nil pointer.  Eager instead of lazy; see the header. *)
Fixpoint load (j : json) (h : heap) {struct j} : hval * heap :=
  match j with
  | JNull => (HNil, h)
  | JBool _ | JNum _ | JStr _ => (HScalar j, h)
  | JArr l =>
    let '(vs, h1) :=
      (fix go (l : list json) (h : heap) {struct l} : list hval * heap :=
         match l with
         | [] => ([], h)
         | x :: r => let '(v, h1) := load x h in
                     let '(vs, h2) := go r h1 in (v :: vs, h2)
         end) l h in
    (HRef (length h1), h1 ++ [CAry vs])
  | JObj m =>
    let '(ms, h1) :=
      (fix go (m : list (bytes * json)) (h : heap) {struct m} : list (bytes * hval) * heap :=
         match m with
         | [] => ([], h)
         | (k, x) :: r => let '(v, h1) := load x h in
                          let '(ms, h2) := go r h1 in
                          (if has_key k ms then ms else (k, v) :: ms, h2)
         end) m h in
    (HRef (length h1), h1 ++ [CDoc ms])
  end.

(* ---------- container methods ---------- *)

Definition pad_limit : Z := 65536.
(* make([]*lazyNode, n) panics when 8*n exceeds maxAlloc = 2^48 (linux/amd64), i.e. n = idx+1 > 2^45 *)
Definition makeslice_limit : Z := 35184372088832.

Definition zlen {A} (l : list A) : Z := Z.of_nat (length l).

Definition is_dash (k : bytes) : bool := bytes_eqb k [ "-"%byte ].

(* partialDoc.get / partialArray.get *)
Definition c_get (c : cnode) (key : bytes) : res hval :=
  match c with
  | CDoc m => ROk (match hget key m with Some v => v | None => HNil end)
  | CNilDoc => ROk HNil
  | CAry l =>
    match atoi key with
    | None => RErr
    | Some idx =>
      if idx >=? zlen l then RErr
      else if idx <? 0 then RCrash                       (* d[idx] with idx < 0 *)
      else ROk (nth (Z.to_nat idx) l HNil)
    end
  end.

(* partialDoc.set / partialArray.set *)
Definition c_set (c : cnode) (key : bytes) (v : hval) : res cnode :=
  match c with
  | CDoc m => ROk (CDoc (hset key v m))
  | CNilDoc => RCrash                                    (* assignment to entry in nil map *)
  | CAry l =>
    if is_dash key then ROk (CAry (l ++ [v]))
    else match atoi key with
         | None => RErr
         | Some idx =>
           if idx =? max_int then RErr                   (* idx+1 wraps; idx >= len(ary) *)
           else if idx <? 0 then RCrash                  (* ary[idx], idx < 0 *)
           else if idx <? zlen l then ROk (CAry (upd_nth (Z.to_nat idx) v l))
           else if idx >=? makeslice_limit then RCrash    (* make([]*lazyNode, idx+1): len out of range *)
           else if idx - zlen l >? pad_limit then RFatal  (* make([]*lazyNode, idx+1): out of memory *)
           else ROk (CAry (l ++ repeat HNil (Z.to_nat (idx - zlen l)) ++ [v]))
         end
  end.

(* partialDoc.add / partialArray.add (SupportNegativeIndices = true) *)
Definition c_add (c : cnode) (key : bytes) (v : hval) : res cnode :=
  match c with
  | CDoc m => ROk (CDoc (hset key v m))
  | CNilDoc => RCrash
  | CAry l =>
    if is_dash key then ROk (CAry (l ++ [v]))
    else match atoi key with
         | None => RErr
         | Some idx =>
           let n := zlen l + 1 in
           if idx >=? n then RErr
           else if idx <? - n then RErr
           else let i := Z.to_nat (if idx <? 0 then idx + n else idx) in
                ROk (CAry (firstn i l ++ v :: skipn i l))
         end
  end.

(* partialDoc.remove / partialArray.remove *)
Definition c_remove (c : cnode) (key : bytes) : res cnode :=
  match c with
  | CDoc m => if has_key key m then ROk (CDoc (hremove key m)) else RErr
  | CNilDoc => RErr
  | CAry l =>
    match atoi key with
    | None => RErr
    | Some idx =>
      let n := zlen l in
      if idx >=? n then RErr
      else if idx <? - n then RErr
      else let i := Z.to_nat (if idx <? 0 then idx + n else idx) in
           ROk (CAry (firstn i l ++ skipn (S i) l))
    end
  end.

Definition node_at (h : heap) (r : nat) : cnode := nth r h CNilDoc.

(* findObject: walk all tokens but the last from the root container [r] *)
Fixpoint walk (h : heap) (r : nat) (parts : list bytes) : res nat :=
  match parts with
  | [] => ROk r
  | p :: rest =>
    rbind (c_get (node_at h r) p) (fun next =>
      match next with
      | HNil => RErr                 (* next == nil *)
      | HRawNil => RCrash            (* isArray reads next.raw, which is nil *)
      | HScalar _ => RErr            (* intoDoc fails *)
      | HRef r' => walk h r' rest
      end)
  end.

(* container + last key; [c_get] errors inside the walk also give "con == nil" *)
Definition find_object (h : heap) (root : nat) (path : bytes) : res (nat * bytes) :=
  match decode_pointer path with
  | None => RErr
  | Some toks =>
    match walk h root (removelast toks) with
    | ROk r => ROk (r, last toks [])
    | RErr => RErr
    | RCrash => RCrash
    | RFatal => RFatal
    end
  end.

(* ---------- lazyNode.equal (receiver: document node, argument: the op value) ---------- *)

Inductive tri := TTrue | TFalse | TCrash.

(* combination for object members: Go iterates the map in random order and stops at the first
   member that is not equal, so with both an unequal and a crashing member either can be hit:
   the model reports the worst case *)
Definition tri_and_any (a b : tri) : tri :=
  match a, b with
  | TCrash, _ | _, TCrash => TCrash
  | TFalse, _ | _, TFalse => TFalse
  | _, _ => TTrue
  end.

(* sequential (arrays) *)
Definition tri_and_seq (a : tri) (b : tri) : tri :=
  match a with TTrue => b | _ => a end.

Definition unknown_str : bytes := bs "unknown"%string.

(* [top] : [o] is the op value itself (JNull = lazyNode with raw == nil); otherwise [o] sits inside a
   decoded container (JNull = nil pointer) *)
Fixpoint hequal (h : heap) (n : hval) (o : json) (top : bool) {struct o} : tri :=
  match n with
  | HNil => TCrash                                        (* method on nil receiver reads n.which *)
  | HRawNil =>
    match o with
    | JNull => if top then TTrue else TCrash
    | _ => TFalse
    end
  | HScalar j =>
    match o with
    | JNull => if top then TFalse else TCrash
    | _ => if json_eqb j o then TTrue else TFalse
    end
  | HRef r =>
    match node_at h r with
    | CNilDoc => TFalse                                   (* unreachable: never the target of HRef *)
    | CDoc m =>
      match o with
      | JNull => if top then TFalse else TCrash
      | JObj om =>
        let missing := existsb (fun kv => negb (has_key (fst kv) om)) m in
        let pairs :=
          (fix go (om : list (bytes * json)) {struct om} : tri :=
             match om with
             | [] => TTrue
             | (k, ov) :: rest =>
               let here :=
                 if has_key k rest then TTrue               (* a later duplicate wins *)
                 else match hget k m with
                      | None => TTrue                       (* only members of the document are visited *)
                      | Some v =>
                        match v, ov with
                        | HNil, JNull => TTrue              (* v == nil && ov == nil *)
                        | _, _ => hequal h v ov false
                        end
                      end in
               tri_and_any here (go rest)
             end) om in
        tri_and_any pairs (if missing then TFalse else TTrue)
      | _ => TFalse
      end
    | CAry l =>
      match o with
      | JNull => if top then TFalse else TCrash
      | JArr ol =>
        if negb (Nat.eqb (length l) (length ol)) then TFalse
        else (fix go (l : list hval) (ol : list json) {struct ol} : tri :=
                match l, ol with
                | v :: l', ov :: ol' => tri_and_seq (hequal h v ov false) (go l' ol')
                | _, _ => TTrue
                end) l ol
      | _ => TFalse
      end
    end
  end.

(* ---------- operations ---------- *)

Record op := { o_kind : bytes; o_path : bytes; o_from : bytes; o_value : option json }.

Definition str_member (k : bytes) (m : list (bytes * json)) : bytes :=
  match jlast k m with
  | Some (JStr s) => s
  | _ => unknown_str       (* absent, null or not a string: the literal "unknown" *)
  end.

Definition decode_op (j : json) : option op :=
  match j with
  | JNull => Some {| o_kind := unknown_str; o_path := unknown_str; o_from := unknown_str; o_value := None |}
  | JObj m => Some {| o_kind := str_member (bs "op"%string) m; o_path := str_member (bs "path"%string) m;
                      o_from := str_member (bs "from"%string) m; o_value := jlast (bs "value"%string) m |}
  | _ => None
  end.

Fixpoint decode_ops (l : list json) : option (list op) :=
  match l with
  | [] => Some []
  | j :: r => match decode_op j, decode_ops r with
              | Some o, Some os => Some (o :: os)
              | _, _ => None
              end
  end.

(* DecodePatch *)
Definition decode_patch (ops : json) : option (list op) :=
  match ops with
  | JNull => Some []
  | JArr l => decode_ops l
  | _ => None
  end.

(* op.value() as a node: absent -> nil pointer, null -> lazyNode{raw:nil} *)
Definition value_node (o : op) (h : heap) : hval * heap :=
  match o_value o with
  | None => (HNil, h)
  | Some JNull => (HRawNil, h)
  | Some j => load j h
  end.

Definition put (h : heap) (r : nat) (c : cnode) : heap := upd_nth r c h.

Definition op_add (h : heap) (root : nat) (o : op) : res heap :=
  rbind (find_object h root (o_path o)) (fun '(r, key) =>
    let '(v, h1) := value_node o h in
    rbind (c_add (node_at h1 r) key v) (fun c => ROk (put h1 r c))).

Definition op_remove (h : heap) (root : nat) (o : op) : res heap :=
  rbind (find_object h root (o_path o)) (fun '(r, key) =>
    rbind (c_remove (node_at h r) key) (fun c => ROk (put h r c))).

Definition op_replace (h : heap) (root : nat) (o : op) : res heap :=
  rbind (find_object h root (o_path o)) (fun '(r, key) =>
    rbind (c_get (node_at h r) key) (fun _ =>
      let '(v, h1) := value_node o h in
      rbind (c_set (node_at h1 r) key v) (fun c => ROk (put h1 r c)))).

Definition op_move (h : heap) (root : nat) (o : op) : res heap :=
  rbind (find_object h root (o_from o)) (fun '(r, key) =>
    rbind (c_get (node_at h r) key) (fun v =>
      rbind (c_remove (node_at h r) key) (fun c =>
        let h1 := put h r c in
        rbind (find_object h1 root (o_path o)) (fun '(r2, key2) =>
          rbind (c_set (node_at h1 r2) key2 v) (fun c2 => ROk (put h1 r2 c2)))))).

Definition op_copy (h : heap) (root : nat) (o : op) : res heap :=
  rbind (find_object h root (o_from o)) (fun '(r, key) =>
    rbind (c_get (node_at h r) key) (fun v =>
      rbind (find_object h root (o_path o)) (fun '(r2, key2) =>
        rbind (c_set (node_at h r2) key2 v) (fun c2 => ROk (put h r2 c2))))).

Definition op_test (h : heap) (root : nat) (o : op) : res heap :=
  rbind (find_object h root (o_path o)) (fun '(r, key) =>
    rbind (c_get (node_at h r) key) (fun v =>
      match v with
      | HNil =>
        match o_value o with
        | None => RCrash                 (* op.value() == nil; .raw dereferences it *)
        | Some JNull => ROk h
        | Some _ => RErr
        end
      | _ =>
        match o_value o with
        | None => RErr
        | Some ov =>
          match hequal h v ov true with
          | TTrue => ROk h
          | TFalse => RErr
          | TCrash => RCrash
          end
        end
      end)).

Definition kind_is (o : op) (s : String.string) : bool := bytes_eqb (o_kind o) (bs s).

Definition apply_op (h : heap) (root : nat) (o : op) : res heap :=
  if kind_is o "add" then op_add h root o
  else if kind_is o "remove" then op_remove h root o
  else if kind_is o "replace" then op_replace h root o
  else if kind_is o "move" then op_move h root o
  else if kind_is o "test" then op_test h root o
  else if kind_is o "copy" then op_copy h root o
  else RErr.

Fixpoint apply_ops (h : heap) (root : nat) (os : list op) : res heap :=
  match os with
  | [] => ROk h
  | o :: r => rbind (apply_op h root o) (fun h1 => apply_ops h1 root r)
  end.

(* json.Marshal of the graph.  [None] = the fuel ran out.  With fuel > number of nodes this happens
   exactly when a container is reachable from itself, where the real encoder recurses forever. *)
Fixpoint unfold (fuel : nat) (h : heap) (v : hval) : option json :=
  match v with
  | HNil | HRawNil => Some JNull
  | HScalar j => Some j
  | HRef r =>
    match fuel with
    | O => None
    | S f =>
      match node_at h r with
      | CNilDoc => Some JNull
      | CDoc m =>
        match (fix go (m : list (bytes * hval)) : option (list (bytes * json)) :=
                 match m with
                 | [] => Some []
                 | (k, x) :: rest =>
                   match unfold f h x, go rest with
                   | Some j, Some js => Some ((k, j) :: js)
                   | _, _ => None
                   end
                 end) m with
        | Some js => Some (JObj js)
        | None => None
        end
      | CAry l =>
        match (fix go (l : list hval) : option (list json) :=
                 match l with
                 | [] => Some []
                 | x :: rest =>
                   match unfold f h x, go rest with
                   | Some j, Some js => Some (j :: js)
                   | _, _ => None
                   end
                 end) l with
        | Some js => Some (JArr js)
        | None => None
        end
      end
    end
  end.

(* Unmarshal of the document into the root container (partialDoc unless the text starts with '[') *)
Definition load_root (d : json) : option (nat * heap) :=
  match d with
  | JNull => Some (O, [CNilDoc])
  | JObj _ | JArr _ =>
    match load d [] with
    | (HRef r, h) => Some (r, h)
    | _ => None
    end
  | _ => None
  end.

(* DecodePatch(ops) followed by Apply(doc) *)
Definition jp_apply (ops : json) (d : json) : outcome :=
  match decode_patch ops with
  | None => Err
  | Some os =>
    match load_root d with
    | None => Err
    | Some (root, h) =>
      match apply_ops h root os with
      | RErr => Err
      | RCrash => Crash
      | RFatal => Fatal
      | ROk h' =>
        match unfold (S (length h')) h' (HRef root) with
        | Some j => Ok j
        | None => Fatal        (* cyclic node: json.Marshal overflows the stack *)
        end
      end
    end
  end.

Definition jp_apply_opt (ops : json) (d : json) : option json :=
  match jp_apply ops d with Ok j => Some j | _ => None end.

(* doccomposer.applyJSON (since commit 9f6d729): a panic of the library is recovered and returned as an
   error; fatal errors still kill the process *)
Definition apply_json_outcome (ops : json) (d : json) : outcome :=
  match jp_apply ops d with Crash => Err | o => o end.

(* object member of a document (None when absent or when the document is not an object) *)
Definition jmember (k : String.string) (d : json) : option json :=
  match d with JObj m => jget (bs k) m | _ => None end.

(* ---------- examples (each confirmed against the real library) ---------- *)

Definition mk_op (kind path : String.string) (extra : list (bytes * json)) : json :=
  JObj ((bs "op", JStr (bs kind)) :: (bs "path", JStr (bs path)) :: extra).
Definition jn (n : N) : json := JNum n.   (* any fixed bit pattern serves as an opaque number *)
Definition ex_doc : json := JObj [(bs "a", JArr [jn 1; jn 2])].

Example ex_add_dash :
  jp_apply (JArr [mk_op "add" "/a/-" [(bs "value", jn 9)]]) ex_doc = Ok (JObj [(bs "a", JArr [jn 1; jn 2; jn 9])]).
Proof. reflexivity. Qed.

Example ex_add_neg :   (* add accepts negative indices: -1 appends *)
  jp_apply (JArr [mk_op "add" "/a/-1" [(bs "value", jn 9)]]) ex_doc = Ok (JObj [(bs "a", JArr [jn 1; jn 2; jn 9])]).
Proof. reflexivity. Qed.

Example ex_replace_neg_crash :
  jp_apply (JArr [mk_op "replace" "/a/-1" [(bs "value", jn 9)]]) ex_doc = Crash.
Proof. reflexivity. Qed.

Example ex_copy_into_self_fatal :
  jp_apply (JArr [mk_op "copy" "/a/-" [(bs "from", JStr (bs "/a"))]]) ex_doc = Fatal.
Proof. reflexivity. Qed.

Example ex_copy_aliases :   (* copy shares the node: the later add is visible at both places *)
  jp_apply (JArr [mk_op "copy" "/b" [(bs "from", JStr (bs "/a"))]; mk_op "add" "/b/-" [(bs "value", jn 3)]]) ex_doc
  = Ok (JObj [(bs "a", JArr [jn 1; jn 2; jn 3]); (bs "b", JArr [jn 1; jn 2; jn 3])]).
Proof. reflexivity. Qed.

Example ex_copy_pads :
  jp_apply (JArr [mk_op "copy" "/a/4" [(bs "from", JStr (bs "/a/0"))]]) ex_doc
  = Ok (JObj [(bs "a", JArr [jn 1; jn 2; JNull; JNull; jn 1])]).
Proof. reflexivity. Qed.
