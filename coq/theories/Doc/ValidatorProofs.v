(* C18, validation half: what acceptance by ValidateDelta / patchvalidator.Validate guarantees
   (model: SV.Doc.Validator), and where the code falls short of the property text. *)
From Coq Require Import String List NArith ZArith Bool Lia.
From Coq.Strings Require Import Byte.
From SV Require Import Base.Bytes Json.Ast Doc.JsonPatch Doc.Validator.
Import ListNotations.

(* ---------- byte strings ---------- *)

Lemma bytes_eqb_eq : forall a b, bytes_eqb a b = true -> a = b.
Proof.
  induction a as [|x a IH]; intros [|y b] H; cbn in H; try discriminate; auto.
  apply andb_true_iff in H. destruct H as [Hx Hr].
  apply Byte.byte_dec_bl in Hx. subst y. f_equal. auto.
Qed.

Lemma bytes_eqb_refl : forall a, bytes_eqb a a = true.
Proof.
  induction a as [|x a IH]; cbn; auto.
  rewrite IH, andb_true_r. apply Byte.byte_dec_lb. reflexivity.
Qed.

Lemma mem_bytes_In : forall x l, mem_bytes x l = true -> In x l.
Proof.
  intros x l H. unfold mem_bytes in H. apply existsb_exists in H.
  destruct H as [y [Hy He]]. apply bytes_eqb_eq in He. subst y. exact Hy.
Qed.

Lemma In_mem_bytes : forall x l, In x l -> mem_bytes x l = true.
Proof.
  intros x l H. unfold mem_bytes. apply existsb_exists. exists x. split; auto. apply bytes_eqb_refl.
Qed.

Lemma nodup_bytes_NoDup : forall l, nodup_bytes l = true -> NoDup l.
Proof.
  induction l as [|x l IH]; intros H; cbn in H.
  - constructor.
  - apply andb_true_iff in H. destruct H as [Hx Hl]. constructor; auto.
    intros Hin. apply In_mem_bytes in Hin. rewrite Hin in Hx. discriminate.
Qed.

(* ---------- readable rules ---------- *)

(* ids: 1 to 50 bytes of [A-Za-z0-9_-] *)
Lemma id_ok_spec : forall id,
  id_ok id = true <-> (1 <= length id <= 50)%nat /\ Forall (fun b => urlsafe_byte b = true) id.
Proof.
  intros id. unfold id_ok, max_id_length. split.
  - intros H. apply andb_true_iff in H. destruct H as [H Hall].
    apply andb_true_iff in H. destruct H as [Hle Hne].
    apply Nat.leb_le in Hle. apply negb_true_iff in Hne. apply Nat.eqb_neq in Hne.
    split; [lia|]. apply Forall_forall. apply forallb_forall. exact Hall.
  - intros [[Hlo Hhi] Hall]. apply andb_true_iff. split.
    + apply andb_true_iff. split.
      * apply Nat.leb_le. exact Hhi.
      * apply negb_true_iff. apply Nat.eqb_neq. lia.
    + apply forallb_forall. apply Forall_forall. exact Hall.
Qed.

(* a key entry: id rule, type permitted for every declared purpose, exactly one key-material member *)
Definition key_rules (m : list (bytes * json)) : Prop :=
  id_ok (entry_id m) = true
  /\ (forall p, In p (key_purposes m) -> In p allowed_purposes /\ In (entry_type m) (key_types_for p))
  /\ key_material_count m = 1%nat.

(* a service entry; [eps] selects the endpoints the statement speaks about *)
Definition service_rules (uri_ok : bytes -> bool) (eps : list (bytes * json) -> list bytes)
  (m : list (bytes * json)) : Prop :=
  id_ok (entry_id m) = true
  /\ (1 <= length (entry_type m) <= 30)%nat
  /\ Forall (fun u => uri_ok u = true) (eps m).

Definition patch_rules (uri_ok : bytes -> bool) (eps : list (bytes * json) -> list bytes)
  (enabled : list bytes) (p : json) : Prop :=
  (exists a, patch_action p = Some a /\ In a enabled)
  /\ Forall key_rules (patch_keys p) /\ NoDup (map entry_id (patch_keys p))
  /\ Forall (service_rules uri_ok eps) (patch_services p) /\ NoDup (map entry_id (patch_services p))
  /\ (forall ops, patch_jsonpatch p = Some ops -> jsonpatch_paths_ok ops = true)
  (* no element escapes: the raw arrays consist of exactly the validated object entries, and the
     sections of a replace document are absent, null or arrays *)
  /\ patch_key_elems p = map JObj (patch_keys p)
  /\ patch_service_elems p = map JObj (patch_services p)
  /\ patch_sections_typed p = true.

(* ---------- entries ---------- *)

Lemma key_entry_rules : forall m, key_entry_ok m = true -> key_rules m.
Proof.
  intros m H. unfold key_entry_ok in H.
  apply andb_true_iff in H. destruct H as [H Hmat].
  apply andb_true_iff in H. destruct H as [H Htp].
  apply andb_true_iff in H. destruct H as [H Hpur].
  apply andb_true_iff in H. destruct H as [Hprop Hid].
  split; [exact Hid|]. split.
  - intros p Hp. split.
    + unfold key_purposes_ok in Hpur. apply andb_true_iff in Hpur. destruct Hpur as [_ Hall].
      apply mem_bytes_In. eapply forallb_forall in Hall; eauto.
    + unfold key_type_purpose_ok in Htp. apply andb_true_iff in Htp. destruct Htp as [_ Hall].
      apply mem_bytes_In. eapply forallb_forall in Hall; eauto.
  - unfold key_properties_ok in Hprop.
    apply andb_true_iff in Hprop. destruct Hprop as [Hprop _].
    apply andb_true_iff in Hprop. destruct Hprop as [_ Hx].
    unfold key_material_count.
    destruct (has_member "publicKeyJwk" m), (has_member "publicKeyBase58" m); cbn in Hx; try discriminate; reflexivity.
Qed.

Lemma public_keys_rules : forall keys,
  public_keys_ok keys = true -> Forall key_rules keys /\ NoDup (map entry_id keys).
Proof.
  intros keys H. unfold public_keys_ok in H. apply andb_true_iff in H. destruct H as [Hall Hnd].
  split.
  - apply Forall_forall. intros m Hm. apply key_entry_rules. eapply forallb_forall in Hall; eauto.
  - apply nodup_bytes_NoDup. exact Hnd.
Qed.

Section Oracles.
Variable uri_ok : bytes -> bool.
Variable uri_parse : bytes -> option bytes.

Definition strings_of (l : list json) : list bytes :=
  flat_map (fun e => match e with JStr s => [s] | _ => [] end) l.

Lemma endpoint_objects_all : forall l,
  endpoint_objects_ok uri_ok l = true -> Forall (fun u => uri_ok u = true) (strings_of l).
Proof.
  unfold strings_of.
  induction l as [|e l IH]; intros H.
  - constructor.
  - destruct e as [| b | n | s | l' | m']; simpl in H; simpl; try (apply IH; exact H).
    apply andb_true_iff in H. destruct H as [Hu Hr].
    unfold validate_uri in Hu. apply andb_true_iff in Hu. destruct Hu as [_ Hu].
    constructor; auto.
Qed.

Lemma service_entry_rules : forall m,
  service_entry_ok uri_ok m = true -> service_rules uri_ok service_endpoints m.
Proof.
  intros m H. unfold service_entry_ok, max_service_type_length in H.
  apply andb_true_iff in H. destruct H as [H Hep].
  apply andb_true_iff in H. destruct H as [H Hle].
  apply andb_true_iff in H. destruct H as [Hid Hne].
  apply Nat.leb_le in Hle. apply negb_true_iff in Hne. apply Nat.eqb_neq in Hne.
  split; [exact Hid|]. split; [lia|].
  unfold service_endpoints.
  unfold service_endpoint_ok in Hep.
  destruct (member "serviceEndpoint" m) as [e|]; [|constructor].
  destruct e; try constructor.
  - unfold validate_uri in Hep. apply andb_true_iff in Hep. apply Hep.
  - constructor.
  - apply endpoint_objects_all in Hep. exact Hep.
Qed.

Lemma services_rules : forall svcs,
  services_ok uri_ok svcs = true ->
  Forall (service_rules uri_ok service_endpoints) svcs /\ NoDup (map entry_id svcs).
Proof.
  intros svcs H. unfold services_ok in H. apply andb_true_iff in H. destruct H as [Hall Hnd].
  split.
  - apply Forall_forall. intros m Hm. apply service_entry_rules. eapply forallb_forall in Hall; eauto.
  - apply nodup_bytes_NoDup. exact Hnd.
Qed.

(* ---------- one patch ---------- *)

Lemma vbool_accept : forall b, vbool b = VAccept -> b = true.
Proof. intros [|] H; [reflexivity|discriminate]. Qed.

Lemma validate_patch_rules : forall p,
  validate_patch_out uri_ok uri_parse p = VAccept ->
  Forall key_rules (patch_keys p) /\ NoDup (map entry_id (patch_keys p))
  /\ Forall (service_rules uri_ok service_endpoints) (patch_services p)
  /\ NoDup (map entry_id (patch_services p))
  /\ (forall ops, patch_jsonpatch p = Some ops -> jsonpatch_paths_ok ops = true).
Proof.
  intros p H. unfold validate_patch_out in H.
  unfold patch_keys, patch_services, patch_jsonpatch.
  destruct (patch_action p) as [a|]; [|discriminate].
  destruct (patch_value p) as [v|]; [|discriminate].
  destruct (bytes_eqb a (B "replace")) eqn:Erep.
  { apply bytes_eqb_eq in Erep. subst a. cbn.
    destruct v; try discriminate.
    apply vbool_accept in H.
    apply andb_true_iff in H. destruct H as [H Hs].
    apply andb_true_iff in H. destruct H as [H Hk].
    apply public_keys_rules in Hk. apply services_rules in Hs.
    destruct Hk as [Hk1 Hk2]. destruct Hs as [Hs1 Hs2].
    repeat split; auto. intros ops Hops. discriminate. }
  destruct (bytes_eqb a (B "ietf-json-patch")) eqn:Ejp.
  { apply bytes_eqb_eq in Ejp. subst a. cbn.
    repeat split; try constructor.
    intros ops Hops. inversion Hops. subst ops.
    destruct (required_array v); [|discriminate].
    unfold jsonpatch_paths_ok. rewrite H. reflexivity. }
  destruct (bytes_eqb a (B "add-public-keys")) eqn:Eak.
  { apply vbool_accept in H. apply andb_true_iff in H. destruct H as [_ Hk].
    apply public_keys_rules in Hk. destruct Hk as [Hk1 Hk2].
    apply bytes_eqb_eq in Eak. subst a. cbn.
    repeat split; auto; try constructor. intros ops Hops. discriminate. }
  destruct (bytes_eqb a (B "remove-public-keys")) eqn:Erk.
  { apply bytes_eqb_eq in Erk. subst a. cbn.
    repeat split; try constructor. intros ops Hops. discriminate. }
  destruct (bytes_eqb a (B "add-services")) eqn:Eas.
  { apply vbool_accept in H. apply andb_true_iff in H. destruct H as [_ Hs].
    apply services_rules in Hs. destruct Hs as [Hs1 Hs2].
    apply bytes_eqb_eq in Eas. subst a. cbn.
    repeat split; auto; try constructor. intros ops Hops. discriminate. }
  cbn.
  repeat split; try constructor. intros ops Hops. discriminate.
Qed.

Lemma all_objects_map : forall l,
  all_objects l = true -> l = map JObj (object_entries (Some (JArr l))).
Proof.
  unfold object_entries. induction l as [|e l IH]; intros H; [reflexivity|].
  cbn [all_objects forallb] in H. apply andb_true_iff in H. destruct H as [He Hl].
  destruct e; try discriminate. cbn [flat_map app map]. f_equal. apply IH. exact Hl.
Qed.

Lemma optional_section : forall j,
  optional_object_array j = true ->
  array_elems j = map JObj (object_entries j)
  /\ match j with None | Some JNull | Some (JArr _) => true | _ => false end = true.
Proof.
  intros [[| | | |l|]|] H; cbn in H; try discriminate; try (split; reflexivity).
  split; [apply all_objects_map; exact H|reflexivity].
Qed.

(* commit a4ab443: nothing in a publicKeys / services array escapes validation *)
Lemma validate_patch_elems : forall p,
  validate_patch_out uri_ok uri_parse p = VAccept ->
  patch_key_elems p = map JObj (patch_keys p)
  /\ patch_service_elems p = map JObj (patch_services p)
  /\ patch_sections_typed p = true.
Proof.
  intros p H. unfold validate_patch_out in H.
  unfold patch_key_elems, patch_service_elems, patch_sections_typed, patch_keys, patch_services.
  destruct (patch_action p) as [a|]; [|discriminate].
  destruct (patch_value p) as [v|]; [|discriminate].
  destruct (bytes_eqb a (B "replace")) eqn:Erep.
  { apply bytes_eqb_eq in Erep. subst a. cbn.
    destruct v; try discriminate.
    apply vbool_accept in H.
    apply andb_true_iff in H. destruct H as [H _].
    apply andb_true_iff in H. destruct H as [H _].
    apply andb_true_iff in H. destruct H as [H Hos].
    apply andb_true_iff in H. destruct H as [_ Hok].
    apply optional_section in Hok. apply optional_section in Hos.
    destruct Hok as [Hk1 Hk2]. destruct Hos as [Hs1 Hs2].
    split; [exact Hk1|]. split; [exact Hs1|]. rewrite Hk2, Hs2. reflexivity. }
  destruct (bytes_eqb a (B "ietf-json-patch")) eqn:Ejp.
  { apply bytes_eqb_eq in Ejp. subst a. cbn. destruct v; repeat split. }
  destruct (bytes_eqb a (B "add-public-keys")) eqn:Eak.
  { apply vbool_accept in H. apply andb_true_iff in H. destruct H as [H _].
    apply andb_true_iff in H. destruct H as [Hreq Hobj].
    apply bytes_eqb_eq in Eak. subst a. cbn.
    destruct v; try discriminate. cbn in Hobj. split; [apply all_objects_map; exact Hobj|]. split; reflexivity. }
  destruct (bytes_eqb a (B "remove-public-keys")) eqn:Erk.
  { apply bytes_eqb_eq in Erk. subst a. cbn. destruct v; repeat split. }
  destruct (bytes_eqb a (B "add-services")) eqn:Eas.
  { apply vbool_accept in H. apply andb_true_iff in H. destruct H as [H _].
    apply andb_true_iff in H. destruct H as [Hreq Hobj].
    apply bytes_eqb_eq in Eas. subst a. cbn.
    destruct v; try discriminate. cbn in Hobj. split; [reflexivity|]. split; [apply all_objects_map; exact Hobj|reflexivity]. }
  cbn. destruct v; repeat split.
Qed.

(* ---------- the delta ---------- *)

Lemma validate_patches_rules : forall enabled ps,
  validate_patches_out uri_ok uri_parse enabled ps = VAccept ->
  Forall (patch_rules uri_ok service_endpoints enabled) ps.
Proof.
  intros enabled ps. induction ps as [|p ps IH]; intros H.
  - constructor.
  - cbn in H. destruct (patch_action p) as [a|] eqn:Ea; [|discriminate].
    destruct (mem_bytes a enabled) eqn:Een; [|discriminate].
    destruct (validate_patch_out uri_ok uri_parse p) eqn:Ev; cbn in H; try discriminate.
    constructor; auto.
    unfold patch_rules. split.
    + exists a. split; auto. apply mem_bytes_In. exact Een.
    + destruct (validate_patch_rules p Ev) as [A [B0 [C [D E]]]].
      destruct (validate_patch_elems p Ev) as [F [G K]].
      repeat split; auto.
Qed.

(* THEOREM validated_rules.
   An accepted delta has at least one patch, and for every patch: its action is configured and enabled;
   every key entry has a 1-50 byte URL-safe id, a type permitted for each declared purpose (each purpose
   being one of the five allowed ones) and exactly one key-material member; key ids are pairwise
   distinct within the patch; every service entry has a 1-50 byte URL-safe id, a type of 1-30 bytes,
   and ALL its endpoints (a string endpoint, or every string element of an endpoint array) are valid
   URIs; service ids are pairwise distinct; every operation of a JSON patch passed the pointer check
   on "path" and "from"; the raw publicKeys / services arrays consist of exactly these object entries
   (nothing is skipped, commit a4ab443) and the sections of a replace document are absent, null or
   arrays; see also [validated_rules_elems].  (Before commit e1e5aec only the first string of an endpoint array was
   checked; the old counterexample is [old_bad_endpoint_now_rejected] below.) *)
Theorem validated_rules : forall enabled ps,
  validate_delta_patches uri_ok uri_parse enabled ps = true ->
  ps <> [] /\ Forall (patch_rules uri_ok service_endpoints enabled) ps.
Proof.
  intros enabled ps H. unfold validate_delta_patches, validate_delta_patches_out in H.
  destruct ps as [|p ps]; [discriminate|].
  split; [discriminate|].
  apply validate_patches_rules.
  destruct (validate_patches_out uri_ok uri_parse enabled (p :: ps)); try discriminate. reflexivity.
Qed.

(* the same rules stated over the RAW arrays: every element of a carried publicKeys / services array
   (add-public-keys, add-services, replace) is an object satisfying the key / service rules *)
Definition elem_rules (R : list (bytes * json) -> Prop) (e : json) : Prop := exists m, e = JObj m /\ R m.

Corollary validated_rules_elems : forall enabled ps,
  validate_delta_patches uri_ok uri_parse enabled ps = true ->
  Forall (fun p => Forall (elem_rules key_rules) (patch_key_elems p)
                   /\ Forall (elem_rules (service_rules uri_ok service_endpoints)) (patch_service_elems p)) ps.
Proof.
  intros enabled ps H. apply validated_rules in H. destruct H as [_ H].
  eapply Forall_impl; [|exact H]. intros p Hp.
  destruct Hp as [_ [Hk [_ [Hs [_ [_ [Ek [Es _]]]]]]]]. rewrite Ek, Es. split.
  - apply Forall_forall. intros e He. apply in_map_iff in He. destruct He as [m [Em Hin]].
    exists m. split; [auto|]. eapply Forall_forall in Hk; eauto.
  - apply Forall_forall. intros e He. apply in_map_iff in He. destruct He as [m [Em Hin]].
    exists m. split; [auto|]. eapply Forall_forall in Hs; eauto.
Qed.

End Oracles.

(* ---------- the inputs that used to slip through (each confirmed against the repaired code) ---------- *)

(* decidable stand-in for url.ParseRequestURI, exact on the two URIs used here *)
Definition uri_ok_demo (u : bytes) : bool := has_prefix (B "https://") u.
Definition uri_parse_demo (u : bytes) : option bytes := Some u.

(* {"action":"add-services","services":[{"id":"s","type":"t","serviceEndpoint":["https://ok","not a uri"]}]}
   was accepted before commit e1e5aec; it is rejected now *)
Definition bad_endpoint_patch : json :=
  JObj [(B "action", JStr (B "add-services"));
        (B "services", JArr [JObj [(B "id", JStr (B "s")); (B "type", JStr (B "t"));
                                   (B "serviceEndpoint", JArr [JStr (B "https://ok"); JStr (B "not a uri")])]])].

Example old_bad_endpoint_now_rejected :
  validate_delta_patches uri_ok_demo uri_parse_demo all_actions [bad_endpoint_patch] = false.
Proof. reflexivity. Qed.

(* {"action":"add-public-keys","publicKeys":["junk"]} was accepted (the entry was skipped, so it escaped
   every rule) before commit a4ab443; it is rejected now, as are ill-typed replace sections *)
Definition replace_patch (doc : json) : json := JObj [(B "action", JStr (B "replace")); (B "document", doc)].

Example non_object_entries_now_rejected :
  validate_patch uri_ok_demo uri_parse_demo
    (JObj [(B "action", JStr (B "add-public-keys")); (B "publicKeys", JArr [JStr (B "junk")])]) = false
  /\ validate_patch uri_ok_demo uri_parse_demo
    (JObj [(B "action", JStr (B "add-public-keys")); (B "publicKeys", JArr [ex_key; JNum 1])]) = false
  /\ validate_patch uri_ok_demo uri_parse_demo
    (JObj [(B "action", JStr (B "add-services")); (B "services", JArr [JNull])]) = false
  /\ validate_patch uri_ok_demo uri_parse_demo (replace_patch (JObj [(B "publicKeys", JArr [JStr (B "junk")])])) = false
  /\ validate_patch uri_ok_demo uri_parse_demo (replace_patch (JObj [(B "services", JArr [JNum 1])])) = false
  /\ validate_patch uri_ok_demo uri_parse_demo (replace_patch (JObj [(B "publicKeys", JStr (B "oops"))])) = false.
Proof. repeat split; reflexivity. Qed.

(* {"action":"replace","document":{"publicKeys":null}}: a nil entry passes validateOptionalObjectArray,
   and so do an absent section and an empty array (confirmed on the real code) *)
Example replace_null_or_empty_sections_accepted :
  validate_patch uri_ok_demo uri_parse_demo (replace_patch (JObj [(B "publicKeys", JNull)])) = true
  /\ validate_patch uri_ok_demo uri_parse_demo (replace_patch (JObj [])) = true
  /\ validate_patch uri_ok_demo uri_parse_demo (replace_patch (JObj [(B "publicKeys", JArr []); (B "services", JNull)])) = true.
Proof. repeat split; reflexivity. Qed.

(* {"action":"ietf-json-patch","patches":[{"op":"add","path":null,"value":1}]} made the validator panic
   before commit cb19e9e; it is an ordinary rejection now, and the model never yields VPanic *)
Example null_path_now_rejected :
  validate_patch_out uri_ok_demo uri_parse_demo
    (JObj [(B "action", JStr (B "ietf-json-patch"));
           (B "patches", JArr [JObj [(B "op", JStr (B "add")); (B "path", JNull); (B "value", JNum 1)]])]) = VReject.
Proof. reflexivity. Qed.

Lemma jsonpatch_ops_never_panic : forall l, jsonpatch_ops_out l <> VPanic.
Proof.
  induction l as [|o l IH]; cbn [jsonpatch_ops_out]; [discriminate|].
  assert (Ho : jsonpatch_op_out o = VAccept \/ jsonpatch_op_out o = VReject).
  { unfold jsonpatch_op_out. destruct o; auto.
    destruct (jlast (B "path") m); auto.
    match goal with |- vbool ?b = _ \/ _ => destruct b; cbn; auto end. }
  destruct Ho as [Ho|Ho]; rewrite Ho; cbn; [exact IH|discriminate].
Qed.

Lemma jsonpatch_paths_never_panic : forall ops, jsonpatch_paths_out ops <> VPanic.
Proof.
  intros ops. unfold jsonpatch_paths_out. destruct ops; try discriminate.
  destruct (forallb _ l); [apply jsonpatch_ops_never_panic|discriminate].
Qed.

(* hypotheses of [validated_rules] hold for a non-trivial delta *)
Example validated_rules_nonvacuous :
  validate_delta_patches uri_ok_demo uri_parse_demo all_actions
    [JObj [(B "action", JStr (B "add-public-keys")); (B "publicKeys", JArr [ex_key])];
     JObj [(B "action", JStr (B "add-services"));
           (B "services", JArr [JObj [(B "id", JStr (B "s")); (B "type", JStr (B "t"));
                                      (B "serviceEndpoint", JArr [JStr (B "https://ok"); JStr (B "https://also-ok")])]])];
     JObj [(B "action", JStr (B "ietf-json-patch"));
           (B "patches", JArr [JObj [(B "op", JStr (B "move")); (B "from", JStr (B "/x")); (B "path", JStr (B "/y"))]])]] = true.
Proof. reflexivity. Qed.

Example validated_rules_elems_nonvacuous :
  patch_key_elems (JObj [(B "action", JStr (B "add-public-keys")); (B "publicKeys", JArr [ex_key])]) = [ex_key]
  /\ patch_key_elems (replace_patch (JObj [(B "publicKeys", JArr [ex_key])])) = [ex_key]
  /\ validate_delta_patches uri_ok_demo uri_parse_demo all_actions
       [replace_patch (JObj [(B "publicKeys", JArr [ex_key])])] = true.
Proof. repeat split; reflexivity. Qed.
