(* Proofs about the DID document transformer and the document metadata models (property C19). *)
From Coq Require Import List ZArith NArith Bool String Lia.
From Coq.Strings Require Import Byte.
From SV Require Import Base.Bytes Json.Ast Doc.Transformer.
Import ListNotations.

(* ---------- byte strings ---------- *)
Lemma tr_bytes_eqb_eq : forall a b, bytes_eqb a b = true <-> a = b.
Proof.
  induction a as [|x a IH]; intros [|y b]; cbn [bytes_eqb]; split; intro H; try reflexivity; try discriminate.
  - apply andb_true_iff in H. destruct H as [Hxy Hab].
    apply Byte.byte_dec_bl in Hxy. apply IH in Hab. subst. reflexivity.
  - inversion H; subst. apply andb_true_iff. split.
    + apply Byte.byte_dec_lb. reflexivity.
    + apply IH. reflexivity.
Qed.

Lemma tr_bytes_eqb_refl : forall a, bytes_eqb a a = true.
Proof. intro a. apply tr_bytes_eqb_eq. reflexivity. Qed.

Lemma tr_bytes_eqb_neq : forall a b, bytes_eqb a b = false <-> a <> b.
Proof.
  intros a b. split.
  - intros H E. apply tr_bytes_eqb_eq in E. congruence.
  - intro H. destruct (bytes_eqb a b) eqn:E; [|reflexivity]. apply tr_bytes_eqb_eq in E. contradiction.
Qed.

Lemma mem_bytes_In : forall x l, mem_bytes x l = true <-> In x l.
Proof.
  intros x l. induction l as [|y l IH]; cbn [mem_bytes In].
  - split; [discriminate|contradiction].
  - rewrite orb_true_iff, IH, tr_bytes_eqb_eq. split; intros [H|H]; auto.
Qed.

(* ---------- member lookup through the constructions used by the models ---------- *)
Lemma jget_app : forall k a b, jget k (a ++ b) = match jget k a with Some v => Some v | None => jget k b end.
Proof.
  intros k a b. induction a as [|[k' v] a IH]; cbn [jget app]; [reflexivity|].
  destruct (bytes_eqb k k'); [reflexivity|exact IH].
Qed.

Lemma jget_member_if : forall k c k' v,
  jget k (member_if c k' v) = if c && bytes_eqb k k' then Some v else None.
Proof. intros k [|] k' v; cbn [member_if jget andb]; [destruct (bytes_eqb k k')|]; reflexivity. Qed.

Lemma jget_member_opt : forall k k' o,
  jget k (member_opt k' o) = if bytes_eqb k k' then o else None.
Proof. intros k k' [v|]; cbn [member_opt jget]; destruct (bytes_eqb k k'); reflexivity. Qed.

Lemma jget_cons : forall k k' v r, jget k ((k', v) :: r) = if bytes_eqb k k' then Some v else jget k r.
Proof. reflexivity. Qed.

(* evaluates comparisons between literal names *)
Ltac eval_names :=
  repeat match goal with
  | |- context [bytes_eqb (bs ?a) (bs ?b)] =>
    let v := eval vm_compute in (bytes_eqb (bs a) (bs b)) in
    change (bytes_eqb (bs a) (bs b)) with v
  end.

Ltac jget_steps :=
  repeat (rewrite ?jget_app, ?jget_member_if, ?jget_member_opt, ?jget_cons; eval_names;
          cbn [andb orb negb]; rewrite ?andb_false_r, ?andb_true_r; cbv iota).

Lemma In_member_if : forall k v c k' v', In (k, v) (member_if c k' v') -> k = k'.
Proof. intros k v [|] k' v' H; cbn in H; [destruct H as [H|[]]; congruence|contradiction]. Qed.

Lemma In_member_opt : forall k v k' o, In (k, v) (member_opt k' o) -> k = k'.
Proof. intros k v k' [x|] H; cbn in H; [destruct H as [H|[]]; congruence|contradiction]. Qed.

(* splits a membership hypothesis over the list constructions of the models and identifies the name *)
Ltac in_members Hin k :=
  repeat first
    [ apply in_app_or in Hin; destruct Hin as [Hin|Hin]
    | apply In_member_if in Hin; subst k
    | apply In_member_opt in Hin; subst k
    | apply in_inv in Hin; destruct Hin as [Hin|Hin]; [injection Hin as Hin _; subst k|]
    | apply in_nil in Hin; contradiction ].

(* ================= metadata ================= *)

(* Every member of the metadata equals the corresponding field of the resolution model / transformation info,
   under exactly the code's conditions, and there are no other members. *)
Theorem metadata_faithful : forall opts rm info md,
  document_metadata opts rm info = Some md ->
  exists published mdm mm,
    ti_published info = Some published /\ md = JObj mdm /\
    jget (bs "method") mdm = Some (JObj mm) /\
    jget (bs "published") mm = Some (JBool published) /\
    jget (bs "recoveryCommitment") mm =
      (if nonempty (rm_recovery_commitment rm) then Some (JStr (rm_recovery_commitment rm)) else None) /\
    jget (bs "updateCommitment") mm =
      (if nonempty (rm_update_commitment rm) then Some (JStr (rm_update_commitment rm)) else None) /\
    jget (bs "anchorOrigin") mm =
      (if json_eqb (rm_anchor_origin rm) JNull then None else Some (rm_anchor_origin rm)) /\
    jget (bs "unpublishedOperations") mm =
      (if o_incl_unpublished opts && nonempty (rm_unpublished_ops rm)
       then Some (JArr (unpublished_operations (rm_unpublished_ops rm))) else None) /\
    jget (bs "publishedOperations") mm =
      (if o_incl_published opts && nonempty (rm_published_ops rm)
       then Some (JArr (published_operations (rm_published_ops rm))) else None) /\
    jget (bs "deactivated") mdm = (if rm_deactivated rm then Some (JBool true) else None) /\
    jget (bs "canonicalId") mdm = option_map JStr (ti_canonical info) /\
    jget (bs "equivalentId") mdm = option_map jstrs (ti_equivalent info) /\
    jget (bs "created") mdm = (if published then Some (JStr (rfc3339 (rm_created rm))) else None) /\
    jget (bs "versionId") mdm = (if nonempty (rm_version_id rm) then Some (JStr (rm_version_id rm)) else None) /\
    jget (bs "updated") mdm =
      (if nonempty (rm_version_id rm) && (0 <? rm_updated rm)%Z then Some (JStr (rfc3339 (rm_updated rm))) else None) /\
    (forall k v, In (k, v) mdm ->
       In k [bs "method"; bs "deactivated"; bs "canonicalId"; bs "equivalentId"; bs "created"; bs "versionId"; bs "updated"]) /\
    (forall k v, In (k, v) mm ->
       In k [bs "published"; bs "recoveryCommitment"; bs "updateCommitment"; bs "anchorOrigin";
             bs "unpublishedOperations"; bs "publishedOperations"]).
Proof.
  intros opts rm info md H. unfold document_metadata in H.
  destruct (rm_doc rm) as [| | | | |doc] eqn:Hdoc; try discriminate.
  destruct (ti_published info) as [published|] eqn:Hpub; [|discriminate].
  injection H as H. subst md.
  eexists published, _, _. split; [reflexivity|]. split; [reflexivity|].
  split; [jget_steps; reflexivity|].
  unfold method_metadata.
  split; [jget_steps; reflexivity|].
  split; [jget_steps; destruct (nonempty (rm_recovery_commitment rm)); reflexivity|].
  split; [jget_steps; destruct (nonempty (rm_recovery_commitment rm)), (nonempty (rm_update_commitment rm)); reflexivity|].
  split; [jget_steps; destruct (json_eqb (rm_anchor_origin rm) JNull); reflexivity|].
  split; [jget_steps; destruct (o_incl_unpublished opts && nonempty (rm_unpublished_ops rm)); reflexivity|].
  split; [jget_steps; destruct (o_incl_published opts && nonempty (rm_published_ops rm)); reflexivity|].
  split; [jget_steps; destruct (rm_deactivated rm); reflexivity|].
  split; [jget_steps; destruct (ti_canonical info); reflexivity|].
  split; [jget_steps; destruct (ti_equivalent info); reflexivity|].
  split; [jget_steps; destruct published; reflexivity|].
  split; [jget_steps; destruct (nonempty (rm_version_id rm)); reflexivity|].
  split; [jget_steps; destruct (nonempty (rm_version_id rm) && (0 <? rm_updated rm)%Z); reflexivity|].
  split.
  - intros k v Hin.
    in_members Hin k; cbn [In]; auto 10.
  - intros k v Hin.
    in_members Hin k; cbn [In]; auto 10.
Qed.

(* ================= transformer ================= *)

(* reading the result *)
Definition out_doc (out : json) : members :=
  match out with
  | JObj m => match jget (bs "didDocument") m with Some (JObj d) => d | _ => [] end
  | _ => []
  end.
Definition out_metadata (out : json) : option json :=
  match out with JObj m => jget (bs "didDocumentMetadata") m | _ => None end.
Definition arr_of (o : option json) : list json := match o with Some (JArr l) => l | _ => [] end.
Definition vm_member (k : bytes) (vm : json) : option json := match vm with JObj m => jget k m | _ => None end.

Lemma string_array_strs : forall l, string_array (Some (JArr (map JStr l))) = l.
Proof.
  intro l. cbn [string_array]. induction l as [|s l IH]; cbn [map flat_map app]; [reflexivity|].
  rewrite IH. reflexivity.
Qed.

Lemma jget_filter_names : forall (f : bytes -> bool) k m,
  f k = true -> jget k (filter (fun kv : bytes * json => f (fst kv)) m) = jget k m.
Proof.
  intros f k m Hf. induction m as [|[k' v] m IH]; cbn [filter fst]; [reflexivity|].
  destruct (f k') eqn:Hk'.
  - cbn [jget]. rewrite IH. reflexivity.
  - cbn [jget]. destruct (bytes_eqb k k') eqn:E; [|exact IH].
    apply tr_bytes_eqb_eq in E. subst k'. congruence.
Qed.

Section TransformProofs.
  Variable b58 : bytes -> bytes.
  Variable multibase58 : bytes -> bytes.
  Variable b64url_decode : bytes -> option bytes.

  Notation transform := (transform_did b58 multibase58 b64url_decode).
  Notation vmethod := (verification_method b58 multibase58 b64url_decode).
  Notation vmethods := (verification_methods b58 multibase58 b64url_decode).
  Notation kmaterial := (key_material b58 multibase58 b64url_decode).
  Notation ed_key := (ed25519_public_key b64url_decode).

  Lemma transform_did_inv : forall opts rm info out,
    transform opts rm info = Some out ->
    exists did internal md vms,
      ti_id info = Some did /\ rm_doc rm = JObj internal /\
      document_metadata opts rm info = Some md /\
      vmethods opts did (public_keys internal) = Some vms /\
      out = JObj [(bs "@context", JStr did_resolution_context);
                  (bs "didDocument", external_document opts did internal vms);
                  (bs "didDocumentMetadata", md)].
  Proof.
    intros opts rm info out H. unfold transform_did in H.
    destruct (document_metadata opts rm info) as [md|] eqn:Hmd; [|discriminate].
    destruct (ti_id info) as [did|] eqn:Hid; [|discriminate].
    destruct (rm_doc rm) as [| | | | |internal] eqn:Hdoc; try discriminate.
    destruct (vmethods opts did (public_keys internal)) as [vms|] eqn:Hvms; [|discriminate].
    injection H as H. subst out.
    exists did, internal, md, vms. repeat split; try assumption; reflexivity.
  Qed.

  Lemma out_doc_transform : forall opts did internal vms md,
    out_doc (JObj [(bs "@context", JStr did_resolution_context);
                   (bs "didDocument", external_document opts did internal vms);
                   (bs "didDocumentMetadata", md)])
    = match external_document opts did internal vms with JObj d => d | _ => [] end.
  Proof. intros. unfold out_doc. jget_steps. reflexivity. Qed.

  Lemma vmethods_Forall2 : forall opts did keys vms,
    vmethods opts did keys = Some vms ->
    Forall2 (fun pk vm => vmethod opts did pk = Some vm) keys vms.
  Proof.
    intros opts did keys. induction keys as [|pk keys IH]; intros vms H; cbn [verification_methods] in H.
    - injection H as H. subst vms. constructor.
    - destruct (vmethod opts did pk) as [vm|] eqn:Hvm; [|discriminate].
      destruct (vmethods opts did keys) as [vms'|] eqn:Hvms; [|discriminate].
      injection H as H. subst vms. constructor; [exact Hvm|apply IH; reflexivity].
  Qed.

  Lemma vmethod_shape : forall opts did pk vm,
    vmethod opts did pk = Some vm ->
    exists mat c,
      kmaterial pk = Some mat /\ lookup_ctx (key_type pk) (key_ctx_map opts) = Some c /\
      vm = JObj [(bs "id", JStr (qualify opts did (key_id pk)));
                 (bs "type", JStr (key_type pk));
                 (bs "controller", JStr did);
                 mat].
  Proof.
    intros opts did pk vm H. unfold verification_method in H.
    destruct (kmaterial pk) as [mat|] eqn:Hmat; [|discriminate].
    destruct (lookup_ctx (key_type pk) (key_ctx_map opts)) as [c|] eqn:Hc; [|discriminate].
    injection H as H. subst vm. exists mat, c. repeat split; reflexivity.
  Qed.

  (* what "the same key material" means, case by case as in processKeys *)
  Definition material_preserved (pk : members) (vm : json) : Prop :=
    match key_jwk pk with
    | Some jwk =>
      if bytes_eqb (key_type pk) ed25519_2018 then
        exists x, jose_buffer b64url_decode (str_entry (jget (bs "x") jwk)) = Some x /\
                  vm_member (bs "publicKeyBase58") vm = Some (JStr (b58 (pad32 x))) /\
                  vm_member (bs "publicKeyJwk") vm = None
      else if bytes_eqb (key_type pk) ed25519_2020 then
        exists x, jose_buffer b64url_decode (str_entry (jget (bs "x") jwk)) = Some x /\
                  vm_member (bs "publicKeyMultibase") vm = Some (JStr (multibase58 (pad32 x))) /\
                  vm_member (bs "publicKeyJwk") vm = None
      else vm_member (bs "publicKeyJwk") vm = Some (JObj jwk)
    | None =>
      let b := str_entry (jget (bs "publicKeyBase58") pk) in
      let m := str_entry (jget (bs "publicKeyMultibase") pk) in
      if nonempty b then vm_member (bs "publicKeyBase58") vm = Some (JStr b)
      else if nonempty m then vm_member (bs "publicKeyMultibase") vm = Some (JStr m)
      else vm_member (bs "publicKeyJwk") vm = Some JNull
    end.

  Lemma ed_key_inv : forall jwk k,
    ed_key jwk = Some k ->
    exists x, jose_buffer b64url_decode (str_entry (jget (bs "x") jwk)) = Some x /\ k = pad32 x.
  Proof.
    intros jwk k H. unfold ed25519_public_key in H.
    destruct (bytes_eqb (str_entry (jget (bs "kty") jwk)) (bs "OKP")
              && bytes_eqb (str_entry (jget (bs "crv") jwk)) (bs "Ed25519")); [|discriminate].
    destruct (jose_buffer b64url_decode (str_entry (jget (bs "x") jwk))) as [x|]; [|discriminate].
    destruct (jose_buffer b64url_decode (str_entry (jget (bs "y") jwk))) as [y|]; [|discriminate].
    injection H as H. exists x. split; [reflexivity|symmetry; exact H].
  Qed.

  Lemma vmethod_material : forall opts did pk vm,
    vmethod opts did pk = Some vm -> material_preserved pk vm.
  Proof.
    intros opts did pk vm H. apply vmethod_shape in H.
    destruct H as [mat [c [Hmat [_ Hvm]]]]. subst vm.
    unfold material_preserved, key_material in *.
    destruct (key_jwk pk) as [jwk|].
    - destruct (bytes_eqb (key_type pk) ed25519_2018).
      + destruct (ed_key jwk) as [k|] eqn:Hk; [|discriminate].
        injection Hmat as Hmat. subst mat. apply ed_key_inv in Hk. destruct Hk as [x [Hx Hk]]. subst k.
        exists x. split; [exact Hx|]. unfold vm_member. split; jget_steps; reflexivity.
      + destruct (bytes_eqb (key_type pk) ed25519_2020).
        * destruct (ed_key jwk) as [k|] eqn:Hk; [|discriminate].
          injection Hmat as Hmat. subst mat. apply ed_key_inv in Hk. destruct Hk as [x [Hx Hk]]. subst k.
          exists x. split; [exact Hx|]. unfold vm_member. split; jget_steps; reflexivity.
        * injection Hmat as Hmat. subst mat. unfold vm_member. jget_steps. reflexivity.
    - cbv zeta in *.
      destruct (nonempty (str_entry (jget (bs "publicKeyBase58") pk))).
      + injection Hmat as Hmat. subst mat. unfold vm_member. jget_steps. reflexivity.
      + destruct (nonempty (str_entry (jget (bs "publicKeyMultibase") pk))).
        * injection Hmat as Hmat. subst mat. unfold vm_member. jget_steps. reflexivity.
        * injection Hmat as Hmat. subst mat. unfold vm_member. jget_steps. reflexivity.
  Qed.

  Lemma vmethod_fields : forall opts did pk vm,
    vmethod opts did pk = Some vm ->
    vm_member (bs "id") vm = Some (JStr (qualify opts did (key_id pk))) /\
    vm_member (bs "type") vm = Some (JStr (key_type pk)) /\
    vm_member (bs "controller") vm = Some (JStr did) /\
    vm_member (bs "purposes") vm = None.
  Proof.
    intros opts did pk vm H. apply vmethod_shape in H.
    destruct H as [[mk mv] [c [Hmat [_ Hvm]]]]. subst vm. unfold vm_member.
    repeat split; jget_steps; try reflexivity.
    (* purposes: the material member has one of three names *)
    unfold key_material in Hmat.
    destruct (key_jwk pk) as [jwk|].
    - destruct (bytes_eqb (key_type pk) ed25519_2018).
      + destruct (ed_key jwk); [|discriminate]. injection Hmat as Hk _. subst mk. reflexivity.
      + destruct (bytes_eqb (key_type pk) ed25519_2020).
        * destruct (ed_key jwk); [|discriminate]. injection Hmat as Hk _. subst mk. reflexivity.
        * injection Hmat as Hk _. subst mk. reflexivity.
    - cbv zeta in Hmat.
      destruct (nonempty (str_entry (jget (bs "publicKeyBase58") pk))).
      + injection Hmat as Hk _. subst mk. reflexivity.
      + destruct (nonempty (str_entry (jget (bs "publicKeyMultibase") pk)));
          injection Hmat as Hk _; subst mk; reflexivity.
  Qed.

  (* the members of the external document, one by one *)
  Lemma external_document_members : forall opts did internal vms,
    exists d, external_document opts did internal vms = JObj d /\
      jget (bs "alsoKnownAs") d =
        (if nonempty (also_known_as internal) then Some (jstrs (also_known_as internal)) else None) /\
      jget (bs "@context") d =
        Some (JArr (base_contexts opts did
                    ++ (if nonempty vms then map JStr (key_contexts opts (public_keys internal)) else []))) /\
      jget (bs "id") d = Some (JStr did) /\
      jget (bs "verificationMethod") d = (if nonempty vms then Some (JArr vms) else None) /\
      (forall p, In p purposes_all ->
         jget p d = (if nonempty (relationship_section p opts did (public_keys internal))
                     then Some (JArr (relationship_section p opts did (public_keys internal))) else None)) /\
      jget (bs "service") d =
        (if nonempty (services internal) then Some (JArr (map (service_out opts did) (services internal))) else None) /\
      jget (bs "publicKey") d = None /\
      (forall k v, In (k, v) d ->
         In k ([bs "alsoKnownAs"; bs "@context"; bs "id"; bs "verificationMethod"] ++ purposes_all ++ [bs "service"])).
  Proof.
    intros opts did internal vms. eexists. split; [reflexivity|].
    unfold relationship_members, purposes_all. cbn [flat_map].
    split; [jget_steps; destruct (nonempty (also_known_as internal)); reflexivity|].
    split; [jget_steps; reflexivity|].
    split; [jget_steps; reflexivity|].
    split; [jget_steps; destruct (nonempty vms); reflexivity|].
    split.
    { intros p Hp. cbn [In] in Hp.
      destruct Hp as [Hp|[Hp|[Hp|[Hp|[Hp|[]]]]]]; subst p; jget_steps; cbn [jget];
        repeat match goal with |- context [if nonempty ?s then _ else _] => destruct (nonempty s) end;
        reflexivity. }
    split.
    { jget_steps. cbn [jget]. destruct (nonempty (services internal)); reflexivity. }
    split.
    { jget_steps. cbn [jget]. reflexivity. }
    intros k v Hin. in_members Hin k; cbn [In app]; auto 12.
  Qed.

  (* ---- 1. every internal key exactly once, in order ---- *)
  Theorem each_key_once : forall opts rm info out,
    transform opts rm info = Some out ->
    exists did internal,
      ti_id info = Some did /\ rm_doc rm = JObj internal /\
      let keys := public_keys internal in
      let vms := arr_of (jget (bs "verificationMethod") (out_doc out)) in
      map (vm_member (bs "id")) vms = map (fun pk => Some (JStr (qualify opts did (key_id pk)))) keys /\
      Forall (fun vm => vm_member (bs "controller") vm = Some (JStr did)) vms /\
      Forall2 (fun pk vm => vm_member (bs "type") vm = Some (JStr (key_type pk)) /\
                            vm_member (bs "purposes") vm = None /\
                            material_preserved pk vm) keys vms /\
      (jget (bs "verificationMethod") (out_doc out) = None <-> keys = []).
  Proof.
    intros opts rm info out H. apply transform_did_inv in H.
    destruct H as [did [internal [md [vms [Hid [Hdoc [_ [Hvms Hout]]]]]]]]. subst out.
    exists did, internal. split; [exact Hid|]. split; [exact Hdoc|].
    rewrite out_doc_transform.
    destruct (external_document_members opts did internal vms) as [d [Hd [_ [_ [_ [Hvm _]]]]]].
    rewrite Hd. cbv zeta. rewrite Hvm.
    apply vmethods_Forall2 in Hvms.
    assert (Harr : arr_of (if nonempty vms then Some (JArr vms) else None) = vms).
    { destruct vms; reflexivity. }
    rewrite Harr. clear Harr Hd Hvm d.
    split; [|split; [|split]].
    - induction Hvms as [|pk vm keys vms Hone Hrest IH]; [reflexivity|].
      cbn [map]. rewrite IH. apply vmethod_fields in Hone. destruct Hone as [Hf _]. rewrite Hf. reflexivity.
    - induction Hvms as [|pk vm keys vms Hone Hrest IH]; constructor; [|exact IH].
      apply vmethod_fields in Hone. tauto.
    - induction Hvms as [|pk vm keys vms Hone Hrest IH]; constructor; [|exact IH].
      split; [|split].
      + apply vmethod_fields in Hone. tauto.
      + apply vmethod_fields in Hone. tauto.
      + eapply vmethod_material. exact Hone.
    - destruct Hvms as [|pk vm keys vms Hone Hrest]; cbn [nonempty]; split; intro E; try reflexivity; discriminate.
  Qed.

  (* ---- 2. relationship sections ---- *)
  (* The code has no "general"/verificationMethod purpose: every key goes to verificationMethod whatever its
     purposes ([each_key_once]); a section holds references (strings), never embedded methods. *)
  Theorem relationships_exact : forall opts rm info out,
    transform opts rm info = Some out ->
    exists did internal,
      ti_id info = Some did /\ rm_doc rm = JObj internal /\
      forall p, In p purposes_all ->
        jget p (out_doc out) =
          (if nonempty (relationship_section p opts did (public_keys internal))
           then Some (JArr (relationship_section p opts did (public_keys internal))) else None).
  Proof.
    intros opts rm info out H. apply transform_did_inv in H.
    destruct H as [did [internal [md [vms [Hid [Hdoc [_ [_ Hout]]]]]]]]. subst out.
    exists did, internal. split; [exact Hid|]. split; [exact Hdoc|].
    rewrite out_doc_transform.
    destruct (external_document_members opts did internal vms) as [d [Hd [_ [_ [_ [_ [Hrel _]]]]]]].
    rewrite Hd. exact Hrel.
  Qed.

  (* when no key repeats a purpose, a section is the list of qualified ids of exactly the keys with that purpose *)
  Lemma filter_eqb_NoDup : forall p l, NoDup l ->
    filter (bytes_eqb p) l = if mem_bytes p l then [p] else [].
  Proof.
    intros p l Hnd. induction Hnd as [|x l Hx Hnd IH]; [reflexivity|].
    cbn [filter mem_bytes]. destruct (bytes_eqb p x) eqn:E.
    - apply tr_bytes_eqb_eq in E. subst x. cbn [orb]. rewrite IH.
      destruct (mem_bytes p l) eqn:M; [|reflexivity]. apply mem_bytes_In in M. contradiction.
    - cbn [orb]. exact IH.
  Qed.

  Lemma relationship_section_nodup : forall p opts did keys,
    (forall pk, In pk keys -> NoDup (key_purposes pk)) ->
    relationship_section p opts did keys =
    map (fun pk => JStr (qualify opts did (key_id pk))) (filter (fun pk => mem_bytes p (key_purposes pk)) keys).
  Proof.
    intros p opts did keys Hnd. unfold relationship_section.
    induction keys as [|pk keys IH]; [reflexivity|].
    cbn [flat_map filter]. rewrite IH by (intros pk' Hin; apply Hnd; right; exact Hin).
    rewrite filter_eqb_NoDup by (apply Hnd; left; reflexivity).
    destruct (mem_bytes p (key_purposes pk)); reflexivity.
  Qed.

  (* in general a key is referenced once per occurrence of the purpose *)
  Lemma relationship_section_count : forall p opts did keys,
    relationship_section p opts did keys =
    flat_map (fun pk => repeat (JStr (qualify opts did (key_id pk)))
                               (List.length (filter (bytes_eqb p) (key_purposes pk)))) keys.
  Proof.
    intros p opts did keys. unfold relationship_section.
    induction keys as [|pk keys IH]; [reflexivity|].
    cbn [flat_map]. rewrite IH. f_equal.
    induction (filter (bytes_eqb p) (key_purposes pk)) as [|x l IHl]; [reflexivity|].
    cbn [map List.length repeat]. rewrite IHl. reflexivity.
  Qed.

  (* ---- 3. services, alsoKnownAs, publicKey, contexts ---- *)
  Theorem services_projected : forall opts rm info out,
    transform opts rm info = Some out ->
    exists did internal,
      ti_id info = Some did /\ rm_doc rm = JObj internal /\
      jget (bs "service") (out_doc out) =
        (if nonempty (services internal) then Some (JArr (map (service_out opts did) (services internal))) else None).
  Proof.
    intros opts rm info out H. apply transform_did_inv in H.
    destruct H as [did [internal [md [vms [Hid [Hdoc [_ [_ Hout]]]]]]]]. subst out.
    exists did, internal. split; [exact Hid|]. split; [exact Hdoc|].
    rewrite out_doc_transform.
    destruct (external_document_members opts did internal vms) as [d [Hd [_ [_ [_ [_ [_ [Hsv _]]]]]]]].
    rewrite Hd. exact Hsv.
  Qed.

  (* an external service: DID-qualified id, type and endpoint as read by the accessors, other members untouched *)
  Lemma service_out_spec : forall opts did sv,
    exists m, service_out opts did sv = JObj m /\
      jget (bs "id") m = Some (JStr (qualify opts did (str_entry (jget (bs "id") sv)))) /\
      jget (bs "type") m = Some (JStr (str_entry (jget (bs "type") sv))) /\
      jget (bs "serviceEndpoint") m =
        Some (match jget (bs "serviceEndpoint") sv with Some v => v | None => JNull end) /\
      (forall k, reserved_service_member k = false -> jget k m = jget k sv).
  Proof.
    intros opts did sv. eexists. split; [reflexivity|].
    split; [jget_steps; reflexivity|]. split; [jget_steps; reflexivity|]. split; [jget_steps; reflexivity|].
    intros k Hk. pose proof Hk as Hk'. unfold reserved_service_member in Hk'.
    apply orb_false_iff in Hk'. destruct Hk' as [Hk' H3]. apply orb_false_iff in Hk'. destruct Hk' as [H1 H2].
    rewrite jget_app. rewrite !jget_cons, H1, H2, H3. cbn [jget].
    apply (jget_filter_names (fun k => negb (reserved_service_member k))). rewrite Hk. reflexivity.
  Qed.

  Theorem also_known_as_unchanged : forall opts rm info out,
    transform opts rm info = Some out ->
    exists internal,
      rm_doc rm = JObj internal /\
      jget (bs "alsoKnownAs") (out_doc out) =
        (if nonempty (also_known_as internal) then Some (jstrs (also_known_as internal)) else None) /\
      (* a non-empty array of strings is carried over as it is *)
      (forall l, l <> [] -> jget (bs "alsoKnownAs") internal = Some (jstrs l) ->
                 jget (bs "alsoKnownAs") (out_doc out) = jget (bs "alsoKnownAs") internal).
  Proof.
    intros opts rm info out H. apply transform_did_inv in H.
    destruct H as [did [internal [md [vms [Hid [Hdoc [_ [_ Hout]]]]]]]]. subst out.
    exists internal. split; [exact Hdoc|].
    rewrite out_doc_transform.
    destruct (external_document_members opts did internal vms) as [d [Hd [Haka _]]].
    rewrite Hd. split; [exact Haka|].
    intros l Hl Hin. rewrite Haka, Hin. unfold also_known_as. rewrite Hin. unfold jstrs.
    rewrite string_array_strs. destruct l; [contradiction|reflexivity].
  Qed.

  Theorem no_internal_publicKey : forall opts rm info out,
    transform opts rm info = Some out ->
    jget (bs "publicKey") (out_doc out) = None /\
    (* more: only these members can occur; other top-level members of the internal document are dropped *)
    (forall k v, In (k, v) (out_doc out) ->
       In k ([bs "alsoKnownAs"; bs "@context"; bs "id"; bs "verificationMethod"] ++ purposes_all ++ [bs "service"])).
  Proof.
    intros opts rm info out H. apply transform_did_inv in H.
    destruct H as [did [internal [md [vms [Hid [Hdoc [_ [_ Hout]]]]]]]]. subst out.
    rewrite out_doc_transform.
    destruct (external_document_members opts did internal vms) as [d [Hd [_ [_ [_ [_ [_ [_ [Hpk Hall]]]]]]]]].
    rewrite Hd. split; [exact Hpk|exact Hall].
  Qed.

  Lemma key_contexts_from_cover : forall m keys seen pk c,
    In pk keys -> lookup_ctx (key_type pk) m = Some c ->
    In c seen \/ In c (key_contexts_from seen m keys).
  Proof.
    intros m keys. induction keys as [|pk' keys IH]; intros seen pk c Hin Hc; [contradiction|].
    cbn [key_contexts_from]. destruct Hin as [Hin|Hin].
    - subst pk'. rewrite Hc. destruct (mem_bytes c seen) eqn:M.
      + left. apply mem_bytes_In. exact M.
      + right. left. reflexivity.
    - destruct (lookup_ctx (key_type pk') m) as [c'|].
      + destruct (mem_bytes c' seen) eqn:M.
        * apply IH with (pk := pk); assumption.
        * destruct (IH (c' :: seen) pk c Hin Hc) as [[E|Hs]|Hr].
          -- subst c'. right. left. reflexivity.
          -- left. exact Hs.
          -- right. right. exact Hr.
      + apply IH with (pk := pk); assumption.
  Qed.

  Theorem contexts_cover_key_types : forall opts rm info out,
    transform opts rm info = Some out ->
    exists did internal ctx,
      ti_id info = Some did /\ rm_doc rm = JObj internal /\
      jget (bs "@context") (out_doc out) = Some (JArr ctx) /\
      hd_error ctx = Some (JStr did_context) /\
      (forall c, In c (o_method_ctx opts) -> In (JStr c) ctx) /\
      (o_base opts = true -> In (JObj [(bs "@base", JStr did)]) ctx) /\
      forall pk, In pk (public_keys internal) ->
        exists c, lookup_ctx (key_type pk) (key_ctx_map opts) = Some c /\ In (JStr c) ctx.
  Proof.
    intros opts rm info out H. apply transform_did_inv in H.
    destruct H as [did [internal [md [vms [Hid [Hdoc [_ [Hvms Hout]]]]]]]]. subst out.
    eexists did, internal, _. split; [exact Hid|]. split; [exact Hdoc|].
    rewrite out_doc_transform.
    destruct (external_document_members opts did internal vms) as [d [Hd [_ [Hctx _]]]].
    rewrite Hd. split; [exact Hctx|].
    split; [reflexivity|].
    split.
    { intros c Hc. apply in_or_app. left. unfold base_contexts. apply in_or_app. right. apply in_or_app. left.
      apply in_map. exact Hc. }
    split.
    { intros Hb. apply in_or_app. left. unfold base_contexts. rewrite Hb.
      apply in_or_app. right. apply in_or_app. right. left. reflexivity. }
    intros pk Hpk. apply vmethods_Forall2 in Hvms.
    assert (Hex : exists vm, In vm vms /\ vmethod opts did pk = Some vm).
    { clear Hd Hctx. induction Hvms as [|pk' vm keys vms' Hone Hrest IH]; [contradiction|].
      destruct Hpk as [Hpk|Hpk].
      - subst pk'. exists vm. split; [left; reflexivity|exact Hone].
      - destruct (IH Hpk) as [vm' [Hin' Hvm']]. exists vm'. split; [right; exact Hin'|exact Hvm']. }
    destruct Hex as [vm [Hvin Hvm]]. apply vmethod_shape in Hvm.
    destruct Hvm as [mat [c [_ [Hc _]]]]. exists c. split; [exact Hc|].
    apply in_or_app. right. destruct vms as [|v0 vms']; [contradiction|]. cbn [nonempty].
    apply in_map. unfold key_contexts.
    destruct (key_contexts_from_cover (key_ctx_map opts) (public_keys internal) [] pk c Hpk Hc) as [[]|Hr].
    exact Hr.
  Qed.

  (* ---- 4. the metadata inside the resolution result ---- *)
  Theorem transform_metadata : forall opts rm info out,
    transform opts rm info = Some out ->
    exists md, document_metadata opts rm info = Some md /\ out_metadata out = Some md.
  Proof.
    intros opts rm info out H. apply transform_did_inv in H.
    destruct H as [did [internal [md [vms [_ [_ [Hmd [_ Hout]]]]]]]]. subst out.
    exists md. split; [exact Hmd|]. unfold out_metadata. jget_steps. reflexivity.
  Qed.
End TransformProofs.

(* ================= RFC 3339 ================= *)
Local Open Scope Z_scope.

Lemma rfc3339_unfold : forall t,
  rfc3339 t =
  let '(y, m, d) := civil_from_days (t / 86400) in
  let s := t mod 86400 in
  dec_year y ++ [x2d] ++ dec2 m ++ [x2d] ++ dec2 d ++ [x54]
  ++ dec2 (s / 3600) ++ [x3a] ++ dec2 (s mod 3600 / 60) ++ [x3a] ++ dec2 (s mod 60) ++ [x5a].
Proof. intro t. unfold rfc3339. destruct (civil_from_days (t / 86400)) as [[y m] d]. reflexivity. Qed.

(* structure, for years below 10000 (time.Format prints later years with more digits; rfc3339_year_10000):
   20 bytes, separators at fixed positions *)
Theorem rfc3339_shape : forall t,
  fst (fst (civil_from_days (t / 86400))) < 10000 ->
  List.length (rfc3339 t) = 20%nat /\
  nth 4 (rfc3339 t) x00 = x2d /\ nth 7 (rfc3339 t) x00 = x2d /\ nth 10 (rfc3339 t) x00 = x54 /\
  nth 13 (rfc3339 t) x00 = x3a /\ nth 16 (rfc3339 t) x00 = x3a /\ nth 19 (rfc3339 t) x00 = x5a.
Proof.
  intros t Hy. rewrite rfc3339_unfold. destruct (civil_from_days (t / 86400)) as [[y m] d].
  cbn [fst] in Hy. apply Z.ltb_lt in Hy.
  cbv zeta. unfold dec_year. rewrite Hy. unfold dec4, dec2. cbn [app List.length nth]. repeat split; reflexivity.
Qed.

(* every digit position holds an ASCII digit *)
Lemma digit_range : forall n, (48 <= Byte.to_N (digit n) <= 57)%N.
Proof.
  intro n. unfold digit, byte_of_N.
  assert (Hm : 0 <= n mod 10 < 10) by (apply Z.mod_pos_bound; lia).
  destruct (Byte.of_N (Z.to_N (48 + n mod 10))) as [b|] eqn:E.
  - apply Byte.to_of_N in E. rewrite E. lia.
  - apply Byte.of_N_None_iff in E. lia.
Qed.

(* the calendar: day 0 is 1970-01-01 and each following day, up to 9999-12-31, is the next calendar day
   (Gregorian rules), checked exhaustively by computation over the 2932896 days of the range *)
Definition is_leap (y : Z) : bool := ((y mod 4 =? 0) && negb (y mod 100 =? 0)) || (y mod 400 =? 0).
Definition days_in_month (y m : Z) : Z :=
  if m =? 2 then (if is_leap y then 29 else 28)
  else if (m =? 4) || (m =? 6) || (m =? 9) || (m =? 11) then 30 else 31.
Definition next_day (c : Z * Z * Z) : Z * Z * Z :=
  let '(y, m, d) := c in
  if d <? days_in_month y m then (y, m, d + 1)
  else if m <? 12 then (y, m + 1, 1) else (y + 1, 1, 1).
Definition civil_eqb (a b : Z * Z * Z) : bool :=
  let '(y, m, d) := a in let '(y', m', d') := b in (y =? y') && (m =? m') && (d =? d').
Definition step_ok (d : Z) : bool := civil_eqb (civil_from_days (d + 1)) (next_day (civil_from_days d)).

Lemma civil_eqb_eq : forall a b, civil_eqb a b = true -> a = b.
Proof.
  intros [[y m] d] [[y' m'] d'] H. unfold civil_eqb in H.
  apply andb_true_iff in H. destruct H as [H Hd]. apply andb_true_iff in H. destruct H as [Hy Hm].
  apply Z.eqb_eq in Hy, Hm, Hd. subst. reflexivity.
Qed.

Definition range_step (f : Z -> bool) (p : Z * bool) : Z * bool := (fst p + 1, snd p && f (fst p)).

Lemma range_iter_sound : forall f n lo b,
  fst (Pos.iter (range_step f) (lo, b) n) = lo + Z.pos n /\
  (snd (Pos.iter (range_step f) (lo, b) n) = true -> b = true /\ forall i, lo <= i < lo + Z.pos n -> f i = true).
Proof.
  intros f n. induction n as [|n IH] using Pos.peano_ind; intros lo b.
  - cbn [Pos.iter range_step fst snd]. split; [reflexivity|].
    intro H. apply andb_true_iff in H. destruct H as [Hb Hf]. split; [exact Hb|].
    intros i Hi. assert (i = lo) by lia. subst i. exact Hf.
  - rewrite Pos.iter_succ. destruct (IH lo b) as [Hfst Hsnd].
    unfold range_step at 1 3. cbn [fst snd]. rewrite Hfst. split; [lia|].
    intro H. apply andb_true_iff in H. destruct H as [Hprev Hf].
    destruct (Hsnd Hprev) as [Hb Hall]. split; [exact Hb|].
    intros i Hi. destruct (Z.eq_dec i (lo + Z.pos n)) as [E|E]; [subst i; exact Hf|apply Hall; lia].
Qed.

(* one full 400-year era, 1970-01-01 .. 2370-01-01, by computation *)
Lemma era_steps_ok : snd (Pos.iter (range_step step_ok) (0, true) 146097) = true.
Proof. vm_cast_no_check (eq_refl true). Qed.

(* shifting by an era (146097 days) adds 400 years *)
Definition shift_era (c : Z * Z * Z) : Z * Z * Z := let '(y, m, d) := c in (y + 400, m, d).

Lemma civil_from_days_era : forall d, civil_from_days (d + 146097) = shift_era (civil_from_days d).
Proof.
  intro d. unfold civil_from_days, shift_era. cbv zeta.
  replace (d + 146097 + 719468) with (d + 719468 + 1 * 146097) by lia.
  rewrite Z.div_add by lia.
  set (z := d + 719468). set (era := z / 146097).
  replace (z + 1 * 146097 - (era + 1) * 146097) with (z - era * 146097) by lia.
  set (doe := z - era * 146097).
  set (yoe := (doe - doe / 1460 + doe / 36524 - doe / 146096) / 365).
  set (doy := doe - (365 * yoe + yoe / 4 - yoe / 100)).
  set (mp := (5 * doy + 2) / 153).
  apply f_equal2; [apply f_equal2; [lia|reflexivity]|reflexivity].
Qed.

Lemma is_leap_era : forall y, is_leap (y + 400) = is_leap y.
Proof.
  intro y. unfold is_leap.
  replace ((y + 400) mod 4) with (y mod 4) by (replace (y + 400) with (y + 100 * 4) by lia; rewrite Z.mod_add by lia; reflexivity).
  replace ((y + 400) mod 100) with (y mod 100) by (replace (y + 400) with (y + 4 * 100) by lia; rewrite Z.mod_add by lia; reflexivity).
  replace ((y + 400) mod 400) with (y mod 400) by (replace (y + 400) with (y + 1 * 400) by lia; rewrite Z.mod_add by lia; reflexivity).
  reflexivity.
Qed.

Lemma next_day_era : forall c, next_day (shift_era c) = shift_era (next_day c).
Proof.
  intros [[y m] d]. unfold next_day, shift_era, days_in_month. rewrite is_leap_era.
  destruct (d <? (if m =? 2 then if is_leap y then 29 else 28
                  else if (m =? 4) || (m =? 6) || (m =? 9) || (m =? 11) then 30 else 31)); [reflexivity|].
  destruct (m <? 12); [reflexivity|]. apply f_equal2; [apply f_equal2; [lia|reflexivity]|reflexivity].
Qed.

(* The calendar: day 0 is 1970-01-01 and every following day is the next calendar day by the Gregorian rules.
   (One era is checked by computation, the era shift does the rest; this covers all t >= 0.) *)
Theorem civil_from_days_calendar :
  civil_from_days 0 = (1970, 1, 1) /\
  forall d, 0 <= d -> civil_from_days (d + 1) = next_day (civil_from_days d).
Proof.
  split; [reflexivity|].
  intros d Hd. pattern d. apply Zlt_0_ind; [|exact Hd].
  clear d Hd. intros d IH Hd.
  destruct (Z_lt_ge_dec d 146097) as [Hlt|Hge].
  - apply civil_eqb_eq.
    destruct (range_iter_sound step_ok 146097 0 true) as [_ H].
    destruct (H era_steps_ok) as [_ Hall]. apply (Hall d). lia.
  - replace d with (d - 146097 + 146097) by lia.
    replace (d - 146097 + 146097 + 1) with (d - 146097 + 1 + 146097) by lia.
    rewrite !civil_from_days_era, IH by lia. symmetry. apply next_day_era.
Qed.

(* anchor points *)
Example rfc3339_anchor_1 : rfc3339 1 = bs "1970-01-01T00:00:01Z". Proof. reflexivity. Qed.
Example rfc3339_anchor_2 : rfc3339 1582934399 = bs "2020-02-28T23:59:59Z". Proof. reflexivity. Qed.
Example rfc3339_anchor_3 : rfc3339 1583020800 = bs "2020-03-01T00:00:00Z". Proof. reflexivity. Qed.
Example rfc3339_anchor_4 : rfc3339 4107542400 = bs "2100-03-01T00:00:00Z". Proof. reflexivity. Qed.
Example rfc3339_anchor_5 : rfc3339 2147483648 = bs "2038-01-19T03:14:08Z". Proof. reflexivity. Qed.
Local Close Scope Z_scope.

(* ================= non-vacuity and witnesses ================= *)
Definition sample_x : bytes := bs "AQIDBAUGBwgJCgsMDQ4PEBESExQVFhcYGRobHB0eHyA".   (* bytes 1..32 *)
Definition sample_doc : json :=
  JObj [(bs "publicKey", JArr [
           JObj [(bs "id", JStr (bs "signing")); (bs "type", JStr ed25519_2018);
                 (bs "publicKeyJwk", JObj [(bs "kty", JStr (bs "OKP")); (bs "crv", JStr (bs "Ed25519")); (bs "x", JStr sample_x)]);
                 (bs "purposes", JArr [JStr (bs "authentication"); JStr (bs "assertionMethod")])];
           JObj [(bs "id", JStr (bs "general")); (bs "type", JStr (bs "JsonWebKey2020"));
                 (bs "publicKeyJwk", JObj [(bs "kty", JStr (bs "EC")); (bs "crv", JStr (bs "P-256"));
                                           (bs "x", JStr (bs "eA")); (bs "y", JStr (bs "eQ"))])];
           JObj [(bs "id", JStr (bs "twice")); (bs "type", JStr (bs "X25519KeyAgreementKey2019"));
                 (bs "publicKeyBase58", JStr (bs "3M5RCDjPTWPkKSN3sxUmmMqHbmRPegYP1tjcKyrDbt9J"));
                 (bs "purposes", JArr [JStr (bs "keyAgreement"); JStr (bs "keyAgreement")])]]);
        (bs "service", JArr [JObj [(bs "id", JStr (bs "hub")); (bs "type", JStr (bs "LinkedDomains"));
                                   (bs "serviceEndpoint", JStr (bs "https://example.com")); (bs "priority", JNum 0)]]);
        (bs "alsoKnownAs", JArr [JStr (bs "https://blog.example")]);
        (bs "extra", JBool true)].
Definition sample_rm : rmodel :=
  {| rm_doc := sample_doc; rm_created := 1600000000; rm_updated := 1600000600;
     rm_update_commitment := bs "EiU"; rm_recovery_commitment := bs "EiR"; rm_deactivated := false;
     rm_anchor_origin := JStr (bs "origin"); rm_equivalent_refs := [bs "ipfs"]; rm_canonical_ref := bs "uEiC";
     rm_version_id := bs "EiV"; rm_published_ops := []; rm_unpublished_ops := [] |}.
Definition sample_opts : topts :=
  {| o_base := false; o_method_ctx := []; o_key_ctx := []; o_incl_published := false; o_incl_unpublished := false |}.
Definition sample_info : tinfo := tinfo_published (bs "did:sidetree") (bs "did:sidetree:EiDsuffix") (bs "EiDsuffix") sample_rm.
(* placeholder oracle values: the text is not the real base58 of the key, only the shape matters here *)
Definition sample_b58 (k : bytes) : bytes := bs "BASE58-OF-KEY".

(* the hypotheses of the theorems above are satisfiable: this document transforms, with three keys *)
Example sample_transforms :
  exists out, transform_did sample_b58 (fun k => x7a :: sample_b58 k) b64url_decode_impl sample_opts sample_rm sample_info = Some out
              /\ List.length (arr_of (jget (bs "verificationMethod") (out_doc out))) = 3%nat
              /\ jget (bs "extra") (out_doc out) = None.
Proof. eexists. split; [vm_compute; reflexivity|]. split; vm_compute; reflexivity. Qed.

Example sample_metadata :
  exists md, document_metadata sample_opts sample_rm sample_info = Some md.
Proof. eexists. vm_compute. reflexivity. Qed.

(* witness: a purpose listed twice in a key gives two references to that key in the section
   ("exactly once" in the property text needs duplicate-free purposes, see relationship_section_nodup) *)
Example duplicate_purpose_witness :
  relationship_section (bs "keyAgreement") sample_opts (bs "did:x:1") (public_keys match sample_doc with JObj m => m | _ => [] end)
  = [JStr (bs "did:x:1#twice"); JStr (bs "did:x:1#twice")].
Proof. vm_compute. reflexivity. Qed.

(* witness: an Ed25519 JWK whose x decodes to 3 bytes is accepted and zero-padded to 32 bytes
   (so the re-encoded key is not "the same bytes") *)
Example short_x_witness :
  ed25519_public_key b64url_decode_impl [(bs "kty", JStr (bs "OKP")); (bs "crv", JStr (bs "Ed25519")); (bs "x", JStr (bs "AQID"))]
  = Some ([x01; x02; x03] ++ repeat x00 29).
Proof. vm_compute. reflexivity. Qed.
