(* Document metadata (property C19, second half): model of
     pkg/versions/1_0/doctransformer/metadata/metadata.go  (Metadata.CreateDocumentMetadata)
     pkg/dochandler/handler.go  (GetTransformationInfoForPublished / ForUnpublished / GetHint)
   and of time.Unix(t,0).UTC().Format(time.RFC3339).  Definitions only.

   The records shared with the DID transformer (tinfo, topts, rmodel) live here because the transformer calls
   CreateDocumentMetadata first; Doc/Transformer.v re-exports this file.

   Conventions
   - strings are UTF-8 byte strings; the model does not describe what json.Marshal does with invalid UTF-8
     (it substitutes U+FFFD), inputs are assumed valid UTF-8;
   - objects ([JObj]) given as input stand for Go maps: member names are assumed pairwise distinct. *)
From Coq Require Import List ZArith NArith Bool String.
From Coq.Strings Require Import Byte.
From SV Require Import Base.Bytes Json.Ast.
Import ListNotations.

(* protocol.TransformationInfo is a map[string]interface{}; the four keys that the code reads.
   [None] = key absent.  (A present key of another dynamic type is outside this record:
   published of non-bool type makes CreateDocumentMetadata panic at published.(bool); an id of non-string type
   panics at id.(string) when the @base option is on, see Corr/Transformer.v.) *)
Record tinfo := {
  ti_id : option bytes;                 (* info["id"] *)
  ti_published : option bool;           (* info["published"] *)
  ti_canonical : option bytes;          (* info["canonicalId"] *)
  ti_equivalent : option (list bytes)   (* info["equivalentId"], a non-nil []string *) }.

(* didtransformer.Transformer fields (metadata.Metadata has only the last two) *)
Record topts := {
  o_base : bool;                        (* WithBase *)
  o_method_ctx : list bytes;            (* WithMethodContext *)
  o_key_ctx : list (bytes * bytes);     (* WithKeyContext: key type -> context; [] = not given = default map *)
  o_incl_published : bool;              (* WithIncludePublishedOperations *)
  o_incl_unpublished : bool             (* WithIncludeUnpublishedOperations *) }.

(* the fields of protocol.ResolutionModel that transformer and metadata read *)
Record rmodel := {
  rm_doc : json;                        (* Doc: JObj m = a map; JNull = nil map; anything else is not a Go value *)
  rm_created : Z;                       (* CreatedTime *)
  rm_updated : Z;                       (* UpdatedTime *)
  rm_update_commitment : bytes;
  rm_recovery_commitment : bytes;
  rm_deactivated : bool;
  rm_anchor_origin : json;              (* interface{}; JNull = nil *)
  rm_equivalent_refs : list bytes;      (* read by GetTransformationInfoForPublished only *)
  rm_canonical_ref : bytes;             (* read by GetTransformationInfoForPublished only *)
  rm_version_id : bytes;
  (* operation lists: every element is the JSON image of the *operation.AnchoredOperation
     (json.Marshal of it: type, uniqueSuffix, operation (base64), transactionTime, transactionNumber,
      protocolVersion, and canonicalReference / equivalentReferences / anchorOrigin when non-empty) *)
  rm_published_ops : list json;
  rm_unpublished_ops : list json }.

(* ---------- RFC 3339 (UTC, whole seconds) ---------- *)
Local Open Scope Z_scope.

Definition digit (n : Z) : byte := byte_of_N (Z.to_N (48 + n mod 10)).
Definition dec2 (n : Z) : bytes := [digit (n / 10); digit n].
Definition dec4 (n : Z) : bytes := [digit (n / 1000); digit (n / 100); digit (n / 10); digit n].

(* time's appendInt(year, 4): at least four digits (years from 10000 on take more) *)
Fixpoint dec_digits (fuel : nat) (n : Z) (acc : bytes) : bytes :=
  match fuel with
  | O => acc
  | S f => if n <? 10 then digit n :: acc else dec_digits f (n / 10) (digit n :: acc)
  end.
Definition dec_year (y : Z) : bytes := if y <? 10000 then dec4 y else dec_digits 24 y [].

(* civil date from the number of days since 1970-01-01 (proleptic Gregorian calendar) *)
Definition civil_from_days (days : Z) : Z * Z * Z :=
  let z := days + 719468 in
  let era := z / 146097 in
  let doe := z - era * 146097 in
  let yoe := (doe - doe / 1460 + doe / 36524 - doe / 146096) / 365 in
  let doy := doe - (365 * yoe + yoe / 4 - yoe / 100) in
  let mp := (5 * doy + 2) / 153 in
  let d := doy - (153 * mp + 2) / 5 + 1 in
  let m := if mp <? 10 then mp + 3 else mp - 9 in
  let y := yoe + era * 400 + (if m <=? 2 then 1 else 0) in
  (y, m, d).

(* time.Unix(t,0).UTC().Format(time.RFC3339); meant for t >= 0 *)
Definition rfc3339 (t : Z) : bytes :=
  let days := t / 86400 in
  let s := t mod 86400 in
  let '(y, m, d) := civil_from_days days in
  dec_year y ++ [x2d] ++ dec2 m ++ [x2d] ++ dec2 d ++ [x54]
  ++ dec2 (s / 3600) ++ [x3a] ++ dec2 (s mod 3600 / 60) ++ [x3a] ++ dec2 (s mod 60) ++ [x5a].

Example rfc3339_epoch : rfc3339 0 = bs "1970-01-01T00:00:00Z". Proof. reflexivity. Qed.
Example rfc3339_leap : rfc3339 951782400 = bs "2000-02-29T00:00:00Z". Proof. reflexivity. Qed.
Example rfc3339_year_10000 : rfc3339 253402300800 = bs "10000-01-01T00:00:00Z". Proof. reflexivity. Qed.
Example rfc3339_last : rfc3339 253402300799 = bs "9999-12-31T23:59:59Z". Proof. reflexivity. Qed.

Local Close Scope Z_scope.

(* ---------- small helpers ---------- *)
Definition nonempty {A} (l : list A) : bool := match l with [] => false | _ => true end.
Definition jstrs (l : list bytes) : json := JArr (map JStr l).
Definition member_if (c : bool) (k : bytes) (v : json) : list (bytes * json) := if c then [(k, v)] else [].
Definition member_opt (k : bytes) (o : option json) : list (bytes * json) :=
  match o with Some v => [(k, v)] | None => [] end.
Fixpoint mem_bytes (x : bytes) (l : list bytes) : bool :=
  match l with [] => false | y :: r => bytes_eqb x y || mem_bytes x r end.

(* ---------- operations in the method metadata ---------- *)
Definition op_member (k : bytes) (op : json) : option json :=
  match op with JObj m => jget k m | _ => None end.

(* uint64 fields arrive as doubles; for non-negative doubles the order of the bit patterns is the numeric order *)
Definition op_num (k : bytes) (op : json) : N :=
  match op_member k op with Some (JNum b) => b | _ => 0%N end.
Definition op_str (k : bytes) (op : json) : bytes :=
  match op_member k op with Some (JStr s) => s | _ => [] end.

(* the less function of sortOperations *)
Definition op_ltb (a b : json) : bool :=
  let ta := op_num (bs "transactionTime") a in
  let tb := op_num (bs "transactionTime") b in
  if negb (N.eqb ta tb) then N.ltb ta tb
  else N.ltb (op_num (bs "transactionNumber") a) (op_num (bs "transactionNumber") b).

(* sort.Slice is an insertion sort (stable) for at most 12 elements; for longer lists with ties the order of
   tied elements produced by pdqsort is not described by this model *)
Fixpoint insert_op (x : json) (l : list json) : list json :=
  match l with
  | [] => [x]
  | y :: r => if op_ltb x y then x :: l else y :: insert_op x r
  end.
Definition sort_ops (l : list json) : list json := fold_left (fun acc x => insert_op x acc) l [].

(* copy of the named members that are present, in the given order *)
Definition project_members (names : list bytes) (op : json) : json :=
  JObj (flat_map (fun k => member_opt k (op_member k op)) names).

Definition unpublished_fields : list bytes :=
  [bs "type"; bs "operation"; bs "transactionTime"; bs "protocolVersion"; bs "anchorOrigin"].
Definition published_fields : list bytes :=
  [bs "type"; bs "operation"; bs "transactionTime"; bs "transactionNumber"; bs "protocolVersion";
   bs "canonicalReference"; bs "equivalentReferences"; bs "anchorOrigin"].

(* getUnpublishedOperations *)
Definition unpublished_operations (ops : list json) : list json :=
  map (project_members unpublished_fields) (sort_ops ops).

(* getPublishedOperations: sort, then keep the first operation of every canonical reference *)
Fixpoint dedup_ops (seen : list bytes) (l : list json) : list json :=
  match l with
  | [] => []
  | op :: r =>
    let c := op_str (bs "canonicalReference") op in
    if mem_bytes c seen then dedup_ops seen r
    else project_members published_fields op :: dedup_ops (c :: seen) r
  end.
Definition published_operations (ops : list json) : list json := dedup_ops [] (sort_ops ops).

(* ---------- CreateDocumentMetadata ---------- *)
Definition method_metadata (opts : topts) (rm : rmodel) (published : bool) : list (bytes * json) :=
  [(bs "published", JBool published)]
  ++ member_if (nonempty (rm_recovery_commitment rm)) (bs "recoveryCommitment") (JStr (rm_recovery_commitment rm))
  ++ member_if (nonempty (rm_update_commitment rm)) (bs "updateCommitment") (JStr (rm_update_commitment rm))
  ++ member_if (negb (json_eqb (rm_anchor_origin rm) JNull)) (bs "anchorOrigin") (rm_anchor_origin rm)
  ++ member_if (o_incl_unpublished opts && nonempty (rm_unpublished_ops rm))
       (bs "unpublishedOperations") (JArr (unpublished_operations (rm_unpublished_ops rm)))
  ++ member_if (o_incl_published opts && nonempty (rm_published_ops rm))
       (bs "publishedOperations") (JArr (published_operations (rm_published_ops rm))).

(* None = error *)
Definition document_metadata (opts : topts) (rm : rmodel) (info : tinfo) : option json :=
  match rm_doc rm with
  | JObj _ =>
    match ti_published info with
    | None => None                                       (* "published is required ..." *)
    | Some published =>
      Some (JObj (
        [(bs "method", JObj (method_metadata opts rm published))]
        ++ member_if (rm_deactivated rm) (bs "deactivated") (JBool true)
        ++ member_opt (bs "canonicalId") (option_map JStr (ti_canonical info))
        ++ member_opt (bs "equivalentId") (option_map jstrs (ti_equivalent info))
        ++ member_if published (bs "created") (JStr (rfc3339 (rm_created rm)))
        ++ member_if (nonempty (rm_version_id rm)) (bs "versionId") (JStr (rm_version_id rm))
        ++ member_if (nonempty (rm_version_id rm) && (0 <? rm_updated rm)%Z)
             (bs "updated") (JStr (rfc3339 (rm_updated rm)))))
    end
  | _ => None                                            (* rm.Doc == nil *)
  end.

(* ---------- transformation info (pkg/dochandler/handler.go) ---------- *)
Definition colon : bytes := [x3a].

(* GetTransformationInfoForPublished(namespace, id, suffix, internalResult) *)
Definition tinfo_published (namespace id suffix : bytes) (rm : rmodel) : tinfo :=
  let cref := if nonempty (rm_canonical_ref rm) then colon ++ rm_canonical_ref rm else [] in
  let canonical := namespace ++ cref ++ colon ++ suffix in
  {| ti_id := Some id;
     ti_published := Some true;
     ti_canonical := Some canonical;
     ti_equivalent :=
       Some (canonical :: map (fun r => namespace ++ colon ++ r ++ colon ++ suffix) (rm_equivalent_refs rm)) |}.

(* strings.Contains *)
Fixpoint is_prefix (p s : bytes) : bool :=
  match p, s with
  | [], _ => true
  | _ :: _, [] => false
  | a :: p', b :: s' => Byte.eqb a b && is_prefix p' s'
  end.
Fixpoint contains_bytes (s sub : bytes) : bool :=
  is_prefix sub s || match s with [] => false | _ :: s' => contains_bytes s' sub end.

(* GetTransformationInfoForUnpublished(namespace, domain, label, suffix, createRequestJCS) *)
Definition tinfo_unpublished (namespace domain label suffix jcs : bytes) : tinfo :=
  let id := if nonempty label then namespace ++ colon ++ label ++ colon ++ suffix
            else namespace ++ colon ++ suffix in
  let eq1 := if nonempty jcs then [id] else [] in
  let eq2 := if nonempty label && nonempty domain
             then [if negb (contains_bytes label domain)
                   then namespace ++ colon ++ domain ++ colon ++ label ++ colon ++ suffix else id]
             else [] in
  let eqs := eq1 ++ eq2 in
  {| ti_id := Some (if nonempty jcs then id ++ colon ++ jcs else id);
     ti_published := Some false;
     ti_canonical := None;
     ti_equivalent := if nonempty eqs then Some eqs else None |}.

(* GetHint(id, namespace, suffix): None = error; strings.LastIndex *)
Fixpoint last_index_from (i : Z) (s sub : bytes) : option Z :=
  let here := if is_prefix sub s then Some i else None in
  match s with
  | [] => here
  | _ :: s' => match last_index_from (i + 1)%Z s' sub with Some j => Some j | None => here end
  end.
Fixpoint drop (n : nat) (s : bytes) : bytes :=
  match n, s with O, _ => s | S n', _ :: s' => drop n' s' | S _, [] => [] end.
Definition get_hint (id namespace suffix : bytes) : option bytes :=
  match last_index_from 0%Z id suffix with
  | None => None
  | Some pos =>
    let lo := (Z.of_nat (List.length namespace) + 1)%Z in
    let hi := (pos - 1)%Z in
    if (hi <? lo)%Z then Some []
    else Some (firstn (Z.to_nat (hi - lo)) (drop (Z.to_nat lo) id))
  end.
