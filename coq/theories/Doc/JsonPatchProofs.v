(* C18, JSON-patch half: properties of the model of evanphx/json-patch v4.1.0 (SV.Doc.JsonPatch) and of
   the path check of patchvalidator.validateJSONPatches (SV.Doc.Validator.jsonpatch_paths_ok). *)
From Coq Require Import String List NArith ZArith Bool Lia.
From Coq.Strings Require Import Byte.
From SV Require Import Base.Bytes Json.Ast Doc.JsonPatch Doc.Validator Doc.ValidatorProofs.
Import ListNotations.

(* ====================================================================================== *)
(* 1. jp_apply is a total function; the crash classes of the real library, with witnesses   *)
(* ====================================================================================== *)

(* totality is by construction (structural recursion, fuel only in [unfold]) *)
Theorem jp_total : forall ops d, exists o, jp_apply ops d = o.
Proof. intros ops d. eexists. reflexivity. Qed.

Definition S_ (s : string) : json := JStr (bs s).
Definition opj (kind path : string) (extra : list (bytes * json)) : json := mk_op kind path extra.
Definition doc_a12 : json := JObj [(bs "a", JArr [jn 1; jn 2])].

(* (a) negative array index in get/set: replace, test, copy (from), move (from and path).
       Real library: panic "index out of range [-1]" for each of
       [{"op":"replace","path":"/a/-1","value":9}]   [{"op":"test","path":"/a/-1","value":2}]
       [{"op":"copy","from":"/a/-1","path":"/b"}]     [{"op":"move","from":"/a/-1","path":"/b"}]
       [{"op":"move","from":"/a/0","path":"/a/-1"}]   on {"a":[1,2]};
       remove and add accept negative indices ("/a/-1" removes the last / appends). *)
Theorem jp_crash_witness_negative_index :
  jp_apply (JArr [opj "replace" "/a/-1" [(bs "value", jn 9)]]) doc_a12 = Crash
  /\ jp_apply (JArr [opj "test" "/a/-1" [(bs "value", jn 2)]]) doc_a12 = Crash
  /\ jp_apply (JArr [opj "copy" "/b" [(bs "from", S_ "/a/-1")]]) doc_a12 = Crash
  /\ jp_apply (JArr [opj "move" "/b" [(bs "from", S_ "/a/-1")]]) doc_a12 = Crash
  /\ jp_apply (JArr [opj "move" "/a/-1" [(bs "from", S_ "/a/0")]]) doc_a12 = Crash
  /\ jp_apply (JArr [opj "remove" "/a/-1" []]) doc_a12 = Ok (JObj [(bs "a", JArr [jn 1])]).
Proof. repeat split; vm_compute; reflexivity. Qed.

(* (b) a container stored inside itself: json.Marshal recurses until the stack overflows (fatal).
       [{"op":"copy","from":"/a","path":"/a/-"}] on {"a":[1,2]};
       also without [from] being a prefix of [path], through the alias that copy creates:
       [{"op":"copy","from":"/a","path":"/b"},{"op":"move","from":"/a","path":"/b/c"}] on {"a":{"x":1}} *)
Theorem jp_crash_witness_cycle :
  jp_apply (JArr [opj "copy" "/a/-" [(bs "from", S_ "/a")]]) doc_a12 = Fatal
  /\ jp_apply (JArr [opj "copy" "/b" [(bs "from", S_ "/a")]; opj "move" "/b/c" [(bs "from", S_ "/a")]])
              (JObj [(bs "a", JObj [(bs "x", jn 1)])]) = Fatal.
Proof. split; vm_compute; reflexivity. Qed.

(* (c) nil dereferences:
       [{"op":"add","path":"/a","value":null},{"op":"add","path":"/a/b","value":1}] on {}
       [{"op":"test","path":"/zz"}] on {}            (no value member, target absent)
       [{"op":"test","path":"/a","value":[null]}] on {"a":[null]}
   (d) [{"op":"add","path":"/a","value":1}] on the document null: assignment to entry in nil map
   (e) [{"op":"copy","from":"/a/0","path":"/a/99999999999"}] on {"a":[1,2]}: out of memory
       (9223372036854775806: makeslice panic); a small excess pads with null instead of failing *)
Theorem jp_crash_witness_other :
  jp_apply (JArr [opj "add" "/a" [(bs "value", JNull)]; opj "add" "/a/b" [(bs "value", jn 1)]]) (JObj []) = Crash
  /\ jp_apply (JArr [opj "test" "/zz" []]) (JObj []) = Crash
  /\ jp_apply (JArr [opj "test" "/a" [(bs "value", JArr [JNull])]]) (JObj [(bs "a", JArr [JNull])]) = Crash
  /\ jp_apply (JArr [opj "add" "/a" [(bs "value", jn 1)]]) JNull = Crash
  /\ jp_apply (JArr [opj "copy" "/a/99999999999" [(bs "from", S_ "/a/0")]]) doc_a12 = Fatal
  /\ jp_apply (JArr [opj "copy" "/a/9223372036854775806" [(bs "from", S_ "/a/0")]]) doc_a12 = Crash.
Proof. repeat split; vm_compute; reflexivity. Qed.

(* ====================================================================================== *)
(* 2. the inputs that defeated the old path check                                           *)
(* ====================================================================================== *)

Definition doc_pk : json :=
  JObj [(bs "publicKey", JArr [JObj [(bs "id", S_ "k1")]]); (bs "service", JArr [JObj [(bs "id", S_ "s1")]]);
        (bs "x", jn 1)].

(* (ii) only "path" is checked, not "from":
        [{"op":"move","from":"/publicKey","path":"/y"}] is accepted and removes the key section *)
Definition ops_move_from : json := JArr [opj "move" "/y" [(bs "from", S_ "/publicKey")]].

(* (ii') copy shares the node, so the section can be edited through the copy:
        [{"op":"copy","from":"/publicKey","path":"/y"},{"op":"add","path":"/y/-","value":{"id":"evil"}}] *)
Definition ops_copy_alias : json :=
  JArr [opj "copy" "/y" [(bs "from", S_ "/publicKey")];
        opj "add" "/y/-" [(bs "value", JObj [(bs "id", S_ "evil")])]].

(* (iii) findObject ignores the text before the first "/", the prefix test does not:
         [{"op":"remove","path":"x/publicKey"}] is accepted and removes the key section *)
Definition ops_no_leading_slash : json := JArr [opj "remove" "x/publicKey" []].

(* The three operation lists that used to be accepted (findings (ii), (ii'), (iii)) are rejected by
   the repaired validateJSONPatches (commits cb19e9e, 4fc3d15) ... *)
Example old_witnesses_now_rejected :
  jsonpatch_paths_ok ops_move_from = false
  /\ jsonpatch_paths_ok ops_copy_alias = false
  /\ jsonpatch_paths_ok ops_no_leading_slash = false.
Proof. repeat split; reflexivity. Qed.

(* ... while the library itself is unchanged and would still damage the sections if they got through *)
Example engine_alone_does_not_protect :
  (exists d', jp_apply ops_move_from doc_pk = Ok d' /\ jmember "publicKey" d' = None)
  /\ (exists d', jp_apply ops_copy_alias doc_pk = Ok d'
        /\ jmember "publicKey" d' = Some (JArr [JObj [(bs "id", S_ "k1")]; JObj [(bs "id", S_ "evil")]]))
  /\ (exists d', jp_apply ops_no_leading_slash doc_pk = Ok d' /\ jmember "publicKey" d' = None).
Proof. split; [|split]; eexists; split; vm_compute; reflexivity. Qed.

(* ====================================================================================== *)
(* 3. pointer decoding and array insertion                                                  *)
(* ====================================================================================== *)

Definition b_slash : byte := "/"%byte.
Definition b_tilde : byte := "~"%byte.

(* RFC 6901 escaping of one token *)
Fixpoint encode_key (k : bytes) : bytes :=
  match k with
  | [] => []
  | c :: r =>
    if Byte.eqb c b_tilde then b_tilde :: "0"%byte :: encode_key r
    else if Byte.eqb c b_slash then b_tilde :: "1"%byte :: encode_key r
    else c :: encode_key r
  end.

Example decode_key_examples :
  decode_key (bs "a~1b") = bs "a/b" /\ decode_key (bs "m~0n") = bs "m~n"
  /\ decode_key (bs "~01") = bs "~1" /\ decode_key (bs "~2~") = bs "~2~".
Proof. repeat split; reflexivity. Qed.

Lemma byte_eqb_true : forall a b, Byte.eqb a b = true -> a = b.
Proof. intros a b H. apply Byte.byte_dec_bl. exact H. Qed.

Lemma decode_key_plain : forall c e, Byte.eqb c b_tilde = false -> decode_key (c :: e) = c :: decode_key e.
Proof.
  intros c e H. destruct e as [|d t]; [reflexivity|].
  cbn [decode_key]. unfold tilde. fold b_tilde. rewrite H. reflexivity.
Qed.

(* unescaping inverts escaping: "~1" -> "/", "~0" -> "~" *)
Lemma decode_encode_key : forall k, decode_key (encode_key k) = k.
Proof.
  induction k as [|c r IH]; [reflexivity|].
  cbn [encode_key].
  destruct (Byte.eqb c b_tilde) eqn:Et.
  - apply byte_eqb_true in Et. subst c. cbn. f_equal. exact IH.
  - destruct (Byte.eqb c b_slash) eqn:Es.
    + apply byte_eqb_true in Es. subst c. cbn. f_equal. exact IH.
    + rewrite decode_key_plain by exact Et. f_equal. exact IH.
Qed.

(* an escaped token contains no "/" , so splitting a pointer built from escaped tokens is exact *)
Lemma encode_key_no_slash : forall k, ~ In b_slash (encode_key k).
Proof.
  induction k as [|c r IH]; cbn [encode_key]; [intros []|].
  destruct (Byte.eqb c b_tilde) eqn:Et.
  - intros [H|[H|H]]; try discriminate. auto.
  - destruct (Byte.eqb c b_slash) eqn:Es.
    + intros [H|[H|H]]; try discriminate. auto.
    + intros [H|H]; auto. subst c. vm_compute in Es. discriminate.
Qed.

(* add with "-" appends *)
Lemma add_dash_appends : forall l v, c_add (CAry l) [ "-"%byte ] v = ROk (CAry (l ++ [v])).
Proof. intros l v. reflexivity. Qed.

(* add at an index i in 0..len inserts before position i and shifts the rest *)
Lemma add_at_index_shifts : forall l key i v,
  is_dash key = false -> atoi key = Some (Z.of_nat i) -> (i <= length l)%nat ->
  c_add (CAry l) key v = ROk (CAry (firstn i l ++ v :: skipn i l)).
Proof.
  intros l key i v Hd Ha Hi. unfold c_add. rewrite Hd, Ha. unfold zlen.
  destruct (Z.of_nat i >=? Z.of_nat (length l) + 1)%Z eqn:E1; [lia|].
  destruct (Z.of_nat i <? - (Z.of_nat (length l) + 1))%Z eqn:E2; [lia|].
  destruct (Z.of_nat i <? 0)%Z eqn:E3; [lia|].
  rewrite Nat2Z.id. reflexivity.
Qed.

Lemma add_at_index_length : forall l key i v c,
  is_dash key = false -> atoi key = Some (Z.of_nat i) -> (i <= length l)%nat ->
  c_add (CAry l) key v = ROk c -> exists l', c = CAry l' /\ length l' = S (length l) /\ nth i l' HNil = v.
Proof.
  intros l key i v c Hd Ha Hi H. rewrite (add_at_index_shifts l key i v Hd Ha Hi) in H.
  inversion H. subst c. eexists. split; [reflexivity|]. split.
  - rewrite app_length. cbn [length]. rewrite firstn_length, skipn_length. lia.
  - rewrite app_nth2; rewrite firstn_length; [|lia].
    replace (i - Nat.min i (length l))%nat with O by lia. reflexivity.
Qed.

(* ====================================================================================== *)
(* 4. what the path check does protect: a frame theorem on the pointer graph               *)
(* ====================================================================================== *)

Definition children (c : cnode) : list hval :=
  match c with CDoc m => map snd m | CAry l => l | CNilDoc => [] end.

Definition vfresh (lo hi : nat) (v : hval) : Prop :=
  match v with HRef r => (lo <= r < hi)%nat | _ => True end.

(* induction principle for the nested type *)
Section JsonInd.
Variable P : json -> Prop.
Hypothesis Hnull : P JNull.
Hypothesis Hbool : forall b, P (JBool b).
Hypothesis Hnum : forall n, P (JNum n).
Hypothesis Hstr : forall s, P (JStr s).
Hypothesis Harr : forall l, Forall P l -> P (JArr l).
Hypothesis Hobj : forall m, Forall (fun kv => P (snd kv)) m -> P (JObj m).
Fixpoint json_rect' (j : json) : P j :=
  match j with
  | JNull => Hnull
  | JBool b => Hbool b
  | JNum n => Hnum n
  | JStr s => Hstr s
  | JArr l => Harr l ((fix go (l : list json) : Forall P l :=
                         match l with [] => Forall_nil _ | x :: r => Forall_cons _ (json_rect' x) (go r) end) l)
  | JObj m => Hobj m ((fix go (m : list (bytes * json)) : Forall (fun kv => P (snd kv)) m :=
                         match m with [] => Forall_nil _ | kv :: r => Forall_cons _ (json_rect' (snd kv)) (go r) end) m)
  end.
End JsonInd.

Definition load_list :=
  fix go (l : list json) (h : heap) {struct l} : list hval * heap :=
    match l with
    | [] => ([], h)
    | x :: r => let '(v, h1) := load x h in let '(vs, h2) := go r h1 in (v :: vs, h2)
    end.

Definition load_members :=
  fix go (m : list (bytes * json)) (h : heap) {struct m} : list (bytes * hval) * heap :=
    match m with
    | [] => ([], h)
    | (k, x) :: r => let '(v, h1) := load x h in
                     let '(ms, h2) := go r h1 in
                     (if has_key k ms then ms else (k, v) :: ms, h2)
    end.

Lemma load_arr_eq : forall l h,
  load (JArr l) h = let '(vs, h1) := load_list l h in (HRef (length h1), h1 ++ [CAry vs]).
Proof. reflexivity. Qed.

Lemma load_obj_eq : forall m h,
  load (JObj m) h = let '(ms, h1) := load_members m h in (HRef (length h1), h1 ++ [CDoc ms]).
Proof. reflexivity. Qed.

Definition ext_ok (lo hi : nat) (ext : list cnode) : Prop :=
  Forall (fun c => Forall (vfresh lo hi) (children c)) ext.

Definition load_ok (j : json) : Prop :=
  forall h v h1, load j h = (v, h1) ->
  exists ext, h1 = h ++ ext /\ vfresh (length h) (length h1) v /\ ext_ok (length h) (length h1) ext.

Lemma vfresh_mono : forall lo hi lo' hi' v, (lo' <= lo)%nat -> (hi <= hi')%nat -> vfresh lo hi v -> vfresh lo' hi' v.
Proof. intros lo hi lo' hi' [| | |r] H1 H2 H; cbn in *; auto. lia. Qed.

Lemma Forall_vfresh_mono : forall lo hi lo' hi' l, (lo' <= lo)%nat -> (hi <= hi')%nat ->
  Forall (vfresh lo hi) l -> Forall (vfresh lo' hi') l.
Proof. intros lo hi lo' hi' l H1 H2 H. eapply Forall_impl; [|exact H]. intros a. apply vfresh_mono; auto. Qed.

Lemma ext_mono : forall lo hi lo' hi' ext, (lo' <= lo)%nat -> (hi <= hi')%nat -> ext_ok lo hi ext -> ext_ok lo' hi' ext.
Proof. intros lo hi lo' hi' ext H1 H2 H. eapply Forall_impl; [|exact H]. intros c. apply Forall_vfresh_mono; auto. Qed.

Lemma load_list_ok : forall l, Forall load_ok l ->
  forall h vs h1, load_list l h = (vs, h1) ->
  exists ext, h1 = h ++ ext /\ Forall (vfresh (length h) (length h1)) vs /\ ext_ok (length h) (length h1) ext.
Proof.
  induction l as [|x r IH]; intros HF h vs h1 H.
  - cbn in H. inversion H. subst. exists []. rewrite app_nil_r. repeat split; constructor.
  - inversion HF as [|x' r' Hx Hr]. subst.
    cbn [load_list] in H. destruct (load x h) as [v ha] eqn:Ea.
    fold load_list in H. destruct (load_list r ha) as [vs' hb] eqn:Eb.
    inversion H. subst vs h1. clear H.
    apply Hx in Ea. destruct Ea as [e1 [He1 [Hv He1c]]].
    apply (IH Hr) in Eb. destruct Eb as [e2 [He2 [Hvs He2c]]].
    assert (L1 : (length h <= length ha)%nat) by (subst ha; rewrite app_length; lia).
    assert (L2 : (length ha <= length hb)%nat) by (subst hb; rewrite app_length; lia).
    exists (e1 ++ e2). split; [subst hb ha; rewrite app_assoc; reflexivity|]. split.
    + constructor.
      * eapply vfresh_mono; [| |exact Hv]; lia.
      * eapply Forall_vfresh_mono; [| |exact Hvs]; lia.
    + apply Forall_app. split.
      * eapply ext_mono; [| |exact He1c]; lia.
      * eapply ext_mono; [| |exact He2c]; lia.
Qed.

Lemma load_members_ok : forall m, Forall (fun kv => load_ok (snd kv)) m ->
  forall h ms h1, load_members m h = (ms, h1) ->
  exists ext, h1 = h ++ ext /\ Forall (vfresh (length h) (length h1)) (map snd ms) /\ ext_ok (length h) (length h1) ext.
Proof.
  induction m as [|[k x] r IH]; intros HF h ms h1 H.
  - cbn in H. inversion H. subst. exists []. rewrite app_nil_r. repeat split; constructor.
  - inversion HF as [|x' r' Hx Hr]. subst. cbn [snd] in Hx.
    cbn [load_members] in H. destruct (load x h) as [v ha] eqn:Ea.
    fold load_members in H. destruct (load_members r ha) as [ms' hb] eqn:Eb.
    inversion H. subst ms h1. clear H.
    apply Hx in Ea. destruct Ea as [e1 [He1 [Hv He1c]]].
    apply (IH Hr) in Eb. destruct Eb as [e2 [He2 [Hvs He2c]]].
    assert (L1 : (length h <= length ha)%nat) by (subst ha; rewrite app_length; lia).
    assert (L2 : (length ha <= length hb)%nat) by (subst hb; rewrite app_length; lia).
    exists (e1 ++ e2). split; [subst hb ha; rewrite app_assoc; reflexivity|]. split.
    + assert (Hvs' : Forall (vfresh (length h) (length hb)) (map snd ms')).
      { eapply Forall_vfresh_mono; [| |exact Hvs]; lia. }
      destruct (has_key k ms'); auto. cbn. constructor; auto.
      eapply vfresh_mono; [| |exact Hv]; lia.
    + apply Forall_app. split.
      * eapply ext_mono; [| |exact He1c]; lia.
      * eapply ext_mono; [| |exact He2c]; lia.
Qed.

Lemma load_spec : forall j, load_ok j.
Proof.
  apply json_rect'; unfold load_ok.
  - intros h v h1 H. cbn in H. inversion H. subst. exists []. rewrite app_nil_r. repeat split; constructor.
  - intros b h v h1 H. cbn in H. inversion H. subst. exists []. rewrite app_nil_r. repeat split; constructor.
  - intros n h v h1 H. cbn in H. inversion H. subst. exists []. rewrite app_nil_r. repeat split; constructor.
  - intros s h v h1 H. cbn in H. inversion H. subst. exists []. rewrite app_nil_r. repeat split; constructor.
  - intros l HF h v h1 H. rewrite load_arr_eq in H.
    destruct (load_list l h) as [vs ha] eqn:Ea. inversion H. subst v h1. clear H.
    apply (load_list_ok l HF) in Ea. destruct Ea as [e [He [Hvs Hec]]].
    assert (L1 : (length h <= length ha)%nat) by (subst ha; rewrite app_length; lia).
    exists (e ++ [CAry vs]). split; [subst ha; rewrite app_assoc; reflexivity|].
    rewrite app_length. cbn [length]. split.
    + cbn. lia.
    + apply Forall_app. split.
      * eapply ext_mono; [| |exact Hec]; lia.
      * constructor; [|constructor]. cbn [children]. eapply Forall_vfresh_mono; [| |exact Hvs]; lia.
  - intros m HF h v h1 H. rewrite load_obj_eq in H.
    destruct (load_members m h) as [ms ha] eqn:Ea. inversion H. subst v h1. clear H.
    apply (load_members_ok m HF) in Ea. destruct Ea as [e [He [Hvs Hec]]].
    assert (L1 : (length h <= length ha)%nat) by (subst ha; rewrite app_length; lia).
    exists (e ++ [CDoc ms]). split; [subst ha; rewrite app_assoc; reflexivity|].
    rewrite app_length. cbn [length]. split.
    + cbn. lia.
    + apply Forall_app. split.
      * eapply ext_mono; [| |exact Hec]; lia.
      * constructor; [|constructor]. cbn [children]. eapply Forall_vfresh_mono; [| |exact Hvs]; lia.
Qed.

(* ---------- small list facts ---------- *)

Lemma length_upd_nth : forall A (l : list A) n x, length (upd_nth n x l) = length l.
Proof. induction l as [|y l IH]; intros [|n] x; cbn; auto. Qed.

Lemma nth_upd_nth_eq : forall A (l : list A) n x d, (n < length l)%nat -> nth n (upd_nth n x l) d = x.
Proof. induction l as [|y l IH]; intros [|n] x d H; cbn in *; try lia; auto. apply IH. lia. Qed.

Lemma nth_upd_nth_neq : forall A (l : list A) n n' x d, n <> n' -> nth n' (upd_nth n x l) d = nth n' l d.
Proof. induction l as [|y l IH]; intros [|n] [|n'] x d H; cbn; auto; try congruence. Qed.

Lemma Forall_upd_nth : forall A (Q : A -> Prop) l n x, Forall Q l -> Q x -> Forall Q (upd_nth n x l).
Proof.
  induction l as [|y l IH]; intros [|n] x Hl Hx; cbn; auto; inversion Hl; subst; constructor; auto.
Qed.

Lemma Forall_firstn_skipn : forall A (Q : A -> Prop) i l, Forall Q l -> Forall Q (firstn i l) /\ Forall Q (skipn i l).
Proof. intros A Q i l H. rewrite <- (firstn_skipn i l) in H. apply Forall_app in H. exact H. Qed.

Lemma Forall_repeat : forall A (Q : A -> Prop) x n, Q x -> Forall Q (repeat x n).
Proof. intros A Q x n H. induction n; cbn; constructor; auto. Qed.

Lemma hget_In : forall k m v, hget k m = Some v -> In (k, v) m.
Proof.
  induction m as [|[k' x] m IH]; intros v H; cbn in H; [discriminate|].
  destruct (bytes_eqb k k') eqn:E.
  - apply bytes_eqb_eq in E. subst k'. inversion H. subst. left. reflexivity.
  - right. auto.
Qed.

Lemma In_hset : forall k v m k' x, In (k', x) (hset k v m) -> (k' = k /\ x = v) \/ In (k', x) m.
Proof.
  induction m as [|[k0 x0] m IH]; intros k' x H; cbn in H.
  - destruct H as [H|[]]. inversion H. auto.
  - destruct (bytes_eqb k k0) eqn:E.
    + destruct H as [H|H]; [inversion H; auto|]. right. right. exact H.
    + destruct H as [H|H]; [right; left; exact H|]. apply IH in H. destruct H; auto. right. right. exact H.
Qed.

Lemma hget_hset_other : forall k v m k', bytes_eqb k' k = false -> hget k' (hset k v m) = hget k' m.
Proof.
  induction m as [|[k0 x0] m IH]; intros k' H; cbn.
  - rewrite H. reflexivity.
  - destruct (bytes_eqb k k0) eqn:E.
    + apply bytes_eqb_eq in E. subst k0. cbn. rewrite H. reflexivity.
    + cbn. destruct (bytes_eqb k' k0); auto.
Qed.

Lemma In_hremove : forall k m k' x, In (k', x) (hremove k m) -> In (k', x) m.
Proof.
  induction m as [|[k0 x0] m IH]; intros k' x H; cbn in H; auto.
  destruct (bytes_eqb k k0); [right; auto|]. destruct H as [H|H]; [left; exact H|right; auto].
Qed.

Lemma hget_hremove_other : forall k m k', bytes_eqb k' k = false -> hget k' (hremove k m) = hget k' m.
Proof.
  induction m as [|[k0 x0] m IH]; intros k' H; cbn; auto.
  destruct (bytes_eqb k k0) eqn:E.
  - apply bytes_eqb_eq in E. subst k0. rewrite H. auto.
  - cbn. destruct (bytes_eqb k' k0); auto.
Qed.

Lemma Forall_snd_hset : forall (Q : hval -> Prop) k v m, Forall Q (map snd m) -> Q v -> Forall Q (map snd (hset k v m)).
Proof.
  intros Q k v m Hm Hv. apply Forall_forall. intros x Hx. apply in_map_iff in Hx.
  destruct Hx as [[k' x'] [Hs Hin]]. cbn in Hs. subst x'. apply In_hset in Hin.
  destruct Hin as [[_ Hx]|Hin]; [subst; auto|].
  eapply Forall_forall in Hm; [exact Hm|]. apply in_map_iff. exists (k', x). auto.
Qed.

Lemma Forall_snd_hremove : forall (Q : hval -> Prop) k m, Forall Q (map snd m) -> Forall Q (map snd (hremove k m)).
Proof.
  intros Q k m Hm. apply Forall_forall. intros x Hx. apply in_map_iff in Hx.
  destruct Hx as [[k' x'] [Hs Hin]]. cbn in Hs. subst x'. apply In_hremove in Hin.
  eapply Forall_forall in Hm; [exact Hm|]. apply in_map_iff. exists (k', x). auto.
Qed.

(* ---------- container methods and children ---------- *)

Lemma c_get_child : forall c k v, c_get c k = ROk v -> v = HNil \/ In v (children c).
Proof.
  intros [m|l|] k v H; cbn in H.
  - inversion H. destruct (hget k m) as [x|] eqn:E; auto.
    right. apply hget_In in E. cbn. apply in_map_iff. exists (k, x). auto.
  - destruct (atoi k) as [idx|]; [|discriminate].
    destruct (idx >=? zlen l)%Z eqn:E1; [discriminate|].
    destruct (idx <? 0)%Z eqn:E2; [discriminate|].
    inversion H. right. cbn. apply nth_In. unfold zlen in E1. lia.
  - inversion H. auto.
Qed.

Lemma c_set_children : forall (Q : hval -> Prop) c k v c',
  c_set c k v = ROk c' -> Forall Q (children c) -> Q v -> Q HNil -> Forall Q (children c').
Proof.
  intros Q [m|l|] k v c' H Hc Hv Hn; cbn in H; [| |discriminate].
  - inversion H. cbn. apply Forall_snd_hset; auto.
  - cbn in Hc. destruct (is_dash k).
    { inversion H. cbn. apply Forall_app. split; auto. }
    destruct (atoi k) as [idx|]; [|discriminate].
    destruct (idx =? max_int)%Z; [discriminate|].
    destruct (idx <? 0)%Z; [discriminate|].
    destruct (idx <? zlen l)%Z.
    { inversion H. cbn. apply Forall_upd_nth; auto. }
    destruct (idx >=? makeslice_limit)%Z; [discriminate|].
    destruct (idx - zlen l >? pad_limit)%Z; [discriminate|].
    inversion H. cbn. apply Forall_app. split; auto. apply Forall_app. split; [apply Forall_repeat; auto|auto].
Qed.

Lemma c_add_children : forall (Q : hval -> Prop) c k v c',
  c_add c k v = ROk c' -> Forall Q (children c) -> Q v -> Forall Q (children c').
Proof.
  intros Q [m|l|] k v c' H Hc Hv; cbn in H; [| |discriminate].
  - inversion H. cbn [children]. apply Forall_snd_hset; auto.
  - cbn in Hc. destruct (is_dash k).
    { inversion H. cbn [children]. apply Forall_app. split; auto. }
    destruct (atoi k) as [idx|]; [|discriminate].
    destruct (idx >=? zlen l + 1)%Z; [discriminate|].
    destruct (idx <? - (zlen l + 1))%Z; [discriminate|].
    cbv zeta in H. inversion H as [Hc']. cbn [children].
    set (i := Z.to_nat _).
    destruct (Forall_firstn_skipn _ Q i l Hc) as [Hf Hs].
    apply Forall_app. split; auto.
Qed.

Lemma c_remove_children : forall (Q : hval -> Prop) c k c',
  c_remove c k = ROk c' -> Forall Q (children c) -> Forall Q (children c').
Proof.
  intros Q [m|l|] k c' H Hc; cbn in H; [| |discriminate].
  - destruct (has_key k m); [|discriminate]. inversion H. cbn [children]. apply Forall_snd_hremove; auto.
  - cbn in Hc. destruct (atoi k) as [idx|]; [|discriminate].
    destruct (idx >=? zlen l)%Z; [discriminate|].
    destruct (idx <? - zlen l)%Z; [discriminate|].
    cbv zeta in H. inversion H as [Hc']. cbn [children].
    set (i := Z.to_nat _).
    destruct (Forall_firstn_skipn _ Q i l Hc) as [Hf _]. destruct (Forall_firstn_skipn _ Q (S i) l Hc) as [_ Hs].
    apply Forall_app. split; auto.
Qed.

(* ---------- the invariant ---------- *)

Section Frame.
Variable prot : bytes -> bool.     (* protected member names of the root object *)
Variable S : nat -> bool.          (* protected container nodes *)
Variable root : nat.

(* a value that may sit in an unprotected place *)
Definition okv (n : nat) (v : hval) : Prop :=
  match v with HRef r => S r = false /\ r <> root /\ (r < n)%nat | _ => True end.

Record Inv (h : heap) : Prop := {
  inv_root_lt : (root < length h)%nat;
  inv_S_lt : forall r, S r = true -> (r < length h)%nat;
  inv_S_root : S root = false;
  inv_nodes : forall r, S r = false -> r <> root -> Forall (okv (length h)) (children (node_at h r));
  inv_rootnode : exists rm, node_at h root = CDoc rm
                            /\ forall k v, In (k, v) rm -> prot k = false -> okv (length h) v }.

Definition Frame (h h' : heap) : Prop :=
  (length h <= length h')%nat
  /\ (forall r, S r = true -> node_at h' r = node_at h r)
  /\ (forall rm, node_at h root = CDoc rm ->
        exists rm', node_at h' root = CDoc rm' /\ forall k, prot k = true -> hget k rm' = hget k rm).

Lemma Frame_refl : forall h, Frame h h.
Proof. intros h. split; [lia|]. split; auto. intros rm H. exists rm. auto. Qed.

Lemma Frame_trans : forall h1 h2 h3, Frame h1 h2 -> Frame h2 h3 -> Frame h1 h3.
Proof.
  intros h1 h2 h3 [L1 [N1 R1]] [L2 [N2 R2]]. split; [lia|]. split.
  - intros r Hr. rewrite N2, N1; auto.
  - intros rm Hrm. destruct (R1 rm Hrm) as [rm2 [H2 K2]]. destruct (R2 rm2 H2) as [rm3 [H3 K3]].
    exists rm3. split; auto. intros k Hk. rewrite K3, K2; auto.
Qed.

Lemma okv_mono : forall n n' v, (n <= n')%nat -> okv n v -> okv n' v.
Proof. intros n n' [| | |r] Hle H; cbn in *; auto. destruct H as [A [B C]]. repeat split; auto. lia. Qed.

Lemma okv_nil : forall n, okv n HNil.
Proof. intros n. exact I. Qed.

(* reading from an unprotected place yields an unprotected value *)
Lemma get_okv : forall h r key v,
  Inv h -> S r = false -> (r = root -> prot key = false) ->
  c_get (node_at h r) key = ROk v -> okv (length h) v.
Proof.
  intros h r key v HI HS Hk Hg.
  destruct (Nat.eq_dec r root) as [E|E].
  - subst r. destruct (inv_rootnode h HI) as [rm [Hrm Hmem]]. rewrite Hrm in Hg. cbn in Hg.
    inversion Hg. destruct (hget key rm) as [x|] eqn:Ex; [|exact I].
    apply hget_In in Ex. eapply Hmem; eauto.
  - apply c_get_child in Hg. destruct Hg as [Hg|Hg]; [subst v; exact I|].
    pose proof (inv_nodes h HI r HS E) as HF. eapply Forall_forall in HF; eauto.
Qed.

(* findObject never enters a protected node when the first token is not a protected name *)
Lemma walk_unprot : forall h, Inv h -> forall parts r0 r,
  walk h r0 parts = ROk r -> S r0 = false -> (r0 < length h)%nat ->
  (r0 = root -> match parts with [] => True | p :: _ => prot p = false end) ->
  S r = false /\ (r < length h)%nat /\ (r = root -> parts = [] /\ r0 = root).
Proof.
  intros h HI parts. induction parts as [|p rest IH]; intros r0 r Hw HS Hlt Hfirst.
  - cbn in Hw. inversion Hw. subst. auto.
  - cbn [walk] in Hw. unfold rbind in Hw.
    destruct (c_get (node_at h r0) p) as [next| | |] eqn:Eg; try discriminate.
    assert (Hok : okv (length h) next) by (eapply get_okv; eauto).
    destruct next as [| | j | r']; try discriminate.
    cbn in Hok. destruct Hok as [HS' [Hne Hlt']].
    apply IH in Hw; auto; [|intros E; contradiction].
    destruct Hw as [A [B C]]. split; auto. split; auto.
    intros E. apply C in E. destruct E as [_ E]. contradiction.
Qed.

Definition unprot (p : bytes) : Prop :=
  match decode_pointer p with Some (t :: _) => prot t = false | _ => True end.

Lemma decode_pointer_nonempty : forall p, decode_pointer p <> Some [].
Proof.
  intros p. unfold decode_pointer. destruct (split_slash p) as [|x [|y l]]; try discriminate.
Qed.

Lemma removelast_first : forall (t : bytes) ts,
  match removelast (t :: ts) with [] => ts = [] | p :: _ => p = t end.
Proof. intros t [|t2 ts]; cbn; auto. Qed.

Lemma find_object_unprot : forall h p r key,
  Inv h -> unprot p -> find_object h root p = ROk (r, key) ->
  S r = false /\ (r < length h)%nat /\ (r = root -> prot key = false).
Proof.
  intros h p r key HI Hu Hf. unfold find_object in Hf. unfold unprot in Hu.
  destruct (decode_pointer p) as [toks|] eqn:Ed; [|discriminate].
  destruct (walk h root (removelast toks)) as [r1| | |] eqn:Ew; try discriminate.
  inversion Hf. subst r1 key. clear Hf.
  destruct toks as [|t ts]; [exfalso; eapply decode_pointer_nonempty; eauto|].
  pose proof (removelast_first t ts) as Hrl.
  apply (walk_unprot h HI) in Ew; [|apply (inv_S_root h HI)|apply (inv_root_lt h HI)|].
  - destruct Ew as [A [B C]]. split; auto. split; auto. intros E. apply C in E. destruct E as [E _].
    rewrite E in Hrl. subst ts. cbn. exact Hu.
  - intros _. destruct (removelast (t :: ts)); auto. subst. exact Hu.
Qed.

(* ---------- updates ---------- *)

Lemma length_put : forall h r c, length (put h r c) = length h.
Proof. intros. apply length_upd_nth. Qed.

Lemma node_at_put_eq : forall h r c, (r < length h)%nat -> node_at (put h r c) r = c.
Proof. intros. apply nth_upd_nth_eq. auto. Qed.

Lemma node_at_put_neq : forall h r r' c, r <> r' -> node_at (put h r c) r' = node_at h r'.
Proof. intros. apply nth_upd_nth_neq. auto. Qed.

Lemma put_ok : forall h r c',
  Inv h -> S r = false -> (r < length h)%nat ->
  (r <> root -> Forall (okv (length h)) (children c')) ->
  (r = root -> exists rm rm', node_at h root = CDoc rm /\ c' = CDoc rm'
        /\ (forall k v, In (k, v) rm' -> prot k = false -> okv (length h) v)
        /\ (forall k, prot k = true -> hget k rm' = hget k rm)) ->
  Inv (put h r c') /\ Frame h (put h r c').
Proof.
  intros h r c' HI HS Hlt Hother Hroot. split.
  - constructor; rewrite ?length_put.
    + apply (inv_root_lt h HI).
    + apply (inv_S_lt h HI).
    + apply (inv_S_root h HI).
    + intros r1 HS1 Hne. destruct (Nat.eq_dec r r1) as [E|E].
      * subst r1. rewrite node_at_put_eq by auto. auto.
      * rewrite node_at_put_neq by auto. apply (inv_nodes h HI); auto.
    + destruct (Nat.eq_dec r root) as [E|E].
      * destruct (Hroot E) as [rm [rm' [A [B [C D]]]]]. subst r c'.
        exists rm'. rewrite node_at_put_eq by auto. auto.
      * rewrite node_at_put_neq by auto. apply (inv_rootnode h HI).
  - split; [rewrite length_put; lia|]. split.
    + intros r1 HS1. apply node_at_put_neq. intros E. subst r1. rewrite HS in HS1. discriminate.
    + intros rm0 Hrm0. destruct (Nat.eq_dec r root) as [E|E].
      * destruct (Hroot E) as [rm [rm' [A [B [C D]]]]]. subst r c'.
        rewrite A in Hrm0. inversion Hrm0. subst rm0.
        exists rm'. rewrite node_at_put_eq by auto. auto.
      * exists rm0. rewrite node_at_put_neq by auto. auto.
Qed.

Lemma prot_differs : forall k key, prot k = true -> prot key = false -> bytes_eqb k key = false.
Proof.
  intros k key H1 H2. destruct (bytes_eqb k key) eqn:E; auto.
  apply bytes_eqb_eq in E. subst. rewrite H1 in H2. discriminate.
Qed.

Lemma set_ok : forall h r key v c',
  Inv h -> S r = false -> (r < length h)%nat -> (r = root -> prot key = false) -> okv (length h) v ->
  (c_set (node_at h r) key v = ROk c' \/ c_add (node_at h r) key v = ROk c') ->
  Inv (put h r c') /\ Frame h (put h r c').
Proof.
  intros h r key v c' HI HS Hlt Hk Hv Hop. apply put_ok; auto.
  - intros Hne. pose proof (inv_nodes h HI r HS Hne) as HF.
    destruct Hop as [Hop|Hop].
    + eapply c_set_children; eauto. exact I.
    + eapply c_add_children; eauto.
  - intros E. subst r. destruct (inv_rootnode h HI) as [rm [Hrm Hmem]].
    rewrite Hrm in Hop. exists rm, (hset key v rm). split; auto. split.
    { destruct Hop as [Hop|Hop]; cbn in Hop; inversion Hop; reflexivity. }
    split.
    + intros k x Hin Hp. apply In_hset in Hin. destruct Hin as [[_ Hx]|Hin]; [subst x; auto|]. eapply Hmem; eauto.
    + intros k Hp. apply hget_hset_other. apply prot_differs; auto.
Qed.

Lemma remove_ok : forall h r key c',
  Inv h -> S r = false -> (r < length h)%nat -> (r = root -> prot key = false) ->
  c_remove (node_at h r) key = ROk c' ->
  Inv (put h r c') /\ Frame h (put h r c').
Proof.
  intros h r key c' HI HS Hlt Hk Hop. apply put_ok; auto.
  - intros Hne. pose proof (inv_nodes h HI r HS Hne) as HF. eapply c_remove_children; eauto.
  - intros E. subst r. destruct (inv_rootnode h HI) as [rm [Hrm Hmem]].
    rewrite Hrm in Hop. exists rm, (hremove key rm). split; auto. split.
    { cbn in Hop. destruct (has_key key rm); inversion Hop. reflexivity. }
    split.
    + intros k x Hin Hp. apply In_hremove in Hin. eapply Hmem; eauto.
    + intros k Hp. apply hget_hremove_other. apply prot_differs; auto.
Qed.

(* loading the op value only appends fresh nodes *)
Lemma extend_ok : forall h ext,
  Inv h -> ext_ok (length h) (length (h ++ ext)) ext ->
  Inv (h ++ ext) /\ Frame h (h ++ ext)
  /\ (forall r, (r < length h)%nat -> node_at (h ++ ext) r = node_at h r)
  /\ (forall v, vfresh (length h) (length (h ++ ext)) v -> okv (length (h ++ ext)) v).
Proof.
  intros h ext HI Hext.
  assert (Hold : forall r, (r < length h)%nat -> node_at (h ++ ext) r = node_at h r).
  { intros r Hr. unfold node_at. apply app_nth1. exact Hr. }
  assert (Hfresh : forall v, vfresh (length h) (length (h ++ ext)) v -> okv (length (h ++ ext)) v).
  { intros [| | |r] Hv; cbn in *; auto. destruct Hv as [Hlo Hhi]. repeat split; auto.
    - destruct (S r) eqn:E; auto. apply (inv_S_lt h HI) in E. lia.
    - pose proof (inv_root_lt h HI). lia. }
  assert (Hlen : (length h <= length (h ++ ext))%nat) by (rewrite app_length; lia).
  split; [|split; [|split; auto]].
  - constructor.
    + pose proof (inv_root_lt h HI). lia.
    + intros r Hr. apply (inv_S_lt h HI) in Hr. lia.
    + apply (inv_S_root h HI).
    + intros r HS Hne. destruct (Nat.lt_ge_cases r (length h)) as [Hr|Hr].
      * rewrite Hold by auto. eapply Forall_impl; [|apply (inv_nodes h HI r HS Hne)].
        intros a. apply okv_mono. exact Hlen.
      * unfold node_at. destruct (Nat.lt_ge_cases r (length (h ++ ext))) as [Hr2|Hr2].
        -- rewrite app_nth2 by lia.
           assert (Hin : In (nth (r - length h) ext CNilDoc) ext).
           { apply nth_In. rewrite app_length in Hr2. lia. }
           unfold ext_ok in Hext. eapply Forall_forall in Hext; [|exact Hin].
           eapply Forall_impl; [|exact Hext]. exact Hfresh.
        -- rewrite nth_overflow by lia. constructor.
    + destruct (inv_rootnode h HI) as [rm [Hrm Hmem]]. exists rm.
      rewrite Hold by apply (inv_root_lt h HI). split; auto.
      intros k v Hin Hp. eapply okv_mono; [exact Hlen|]. eapply Hmem; eauto.
  - split; [exact Hlen|]. split.
    + intros r Hr. apply Hold. apply (inv_S_lt h HI). exact Hr.
    + intros rm Hrm. exists rm. rewrite Hold by apply (inv_root_lt h HI). auto.
Qed.

Lemma value_node_ok : forall h o v h1,
  Inv h -> value_node o h = (v, h1) ->
  Inv h1 /\ Frame h h1 /\ okv (length h1) v
  /\ (forall r, (r < length h)%nat -> node_at h1 r = node_at h r).
Proof.
  intros h o v h1 HI H. unfold value_node in H.
  destruct (o_value o) as [j|].
  - destruct j; try (inversion H; subst; split; [auto|split; [apply Frame_refl|split; [exact I|auto]]]; fail).
    + apply load_spec in H. destruct H as [ext [He [Hv Hext]]]. subst h1.
      destruct (extend_ok h ext HI Hext) as [A [B [C D]]]. auto.
    + apply load_spec in H. destruct H as [ext [He [Hv Hext]]]. subst h1.
      destruct (extend_ok h ext HI Hext) as [A [B [C D]]]. auto.
  - inversion H. subst. split; [auto|split; [apply Frame_refl|split; [exact I|auto]]].
Qed.

(* ---------- operations ---------- *)

Definition op_unprot (o : op) : Prop :=
  unprot (o_path o) /\ ((kind_is o "move" || kind_is o "copy") = true -> unprot (o_from o)).

Lemma op_add_ok : forall h o h', Inv h -> unprot (o_path o) -> op_add h root o = ROk h' -> Inv h' /\ Frame h h'.
Proof.
  intros h o h' HI Hu H. unfold op_add in H.
  destruct (find_object h root (o_path o)) as [[r key]| | |] eqn:Ef; cbn [rbind] in H; try discriminate.
  destruct (value_node o h) as [v h1] eqn:Ev.
  destruct (c_add (node_at h1 r) key v) as [c| | |] eqn:Ec; cbn [rbind] in H; try discriminate.
  inversion H. subst h'. clear H.
  destruct (find_object_unprot h _ r key HI Hu Ef) as [HS [Hlt Hk]].
  destruct (value_node_ok h o v h1 HI Ev) as [HI1 [HF1 [Hv Hsame]]].
  assert (Hlt1 : (r < length h1)%nat) by (destruct HF1 as [L _]; lia).
  destruct (set_ok h1 r key v c HI1 HS Hlt1 Hk Hv (or_intror Ec)) as [A B].
  split; auto. eapply Frame_trans; eauto.
Qed.

Lemma op_remove_ok : forall h o h', Inv h -> unprot (o_path o) -> op_remove h root o = ROk h' -> Inv h' /\ Frame h h'.
Proof.
  intros h o h' HI Hu H. unfold op_remove in H.
  destruct (find_object h root (o_path o)) as [[r key]| | |] eqn:Ef; cbn [rbind] in H; try discriminate.
  destruct (c_remove (node_at h r) key) as [c| | |] eqn:Ec; cbn [rbind] in H; try discriminate.
  inversion H. subst h'. clear H.
  destruct (find_object_unprot h _ r key HI Hu Ef) as [HS [Hlt Hk]].
  eapply remove_ok; eauto.
Qed.

Lemma op_replace_ok : forall h o h', Inv h -> unprot (o_path o) -> op_replace h root o = ROk h' -> Inv h' /\ Frame h h'.
Proof.
  intros h o h' HI Hu H. unfold op_replace in H.
  destruct (find_object h root (o_path o)) as [[r key]| | |] eqn:Ef; cbn [rbind] in H; try discriminate.
  destruct (c_get (node_at h r) key) as [old| | |] eqn:Eg; cbn [rbind] in H; try discriminate.
  destruct (value_node o h) as [v h1] eqn:Ev.
  destruct (c_set (node_at h1 r) key v) as [c| | |] eqn:Ec; cbn [rbind] in H; try discriminate.
  inversion H. subst h'. clear H.
  destruct (find_object_unprot h _ r key HI Hu Ef) as [HS [Hlt Hk]].
  destruct (value_node_ok h o v h1 HI Ev) as [HI1 [HF1 [Hv Hsame]]].
  assert (Hlt1 : (r < length h1)%nat) by (destruct HF1 as [L _]; lia).
  destruct (set_ok h1 r key v c HI1 HS Hlt1 Hk Hv (or_introl Ec)) as [A B].
  split; auto. eapply Frame_trans; eauto.
Qed.

Lemma op_move_ok : forall h o h', Inv h -> unprot (o_path o) -> unprot (o_from o) ->
  op_move h root o = ROk h' -> Inv h' /\ Frame h h'.
Proof.
  intros h o h' HI Hu Hufrom H. unfold op_move in H.
  destruct (find_object h root (o_from o)) as [[r key]| | |] eqn:Ef; cbn [rbind] in H; try discriminate.
  destruct (c_get (node_at h r) key) as [v| | |] eqn:Eg; cbn [rbind] in H; try discriminate.
  destruct (c_remove (node_at h r) key) as [c| | |] eqn:Ec; cbn [rbind] in H; try discriminate.
  destruct (find_object (put h r c) root (o_path o)) as [[r2 key2]| | |] eqn:Ef2; cbn [rbind] in H; try discriminate.
  destruct (c_set (node_at (put h r c) r2) key2 v) as [c2| | |] eqn:Ec2; cbn [rbind] in H; try discriminate.
  inversion H. subst h'. clear H.
  destruct (find_object_unprot h _ r key HI Hufrom Ef) as [HS [Hlt Hk]].
  pose proof (get_okv h r key v HI HS Hk Eg) as Hv.
  destruct (remove_ok h r key c HI HS Hlt Hk Ec) as [HI1 HF1].
  destruct (find_object_unprot _ _ r2 key2 HI1 Hu Ef2) as [HS2 [Hlt2 Hk2]].
  rewrite <- (length_put h r c) in Hv.
  destruct (set_ok _ r2 key2 v c2 HI1 HS2 Hlt2 Hk2 Hv (or_introl Ec2)) as [A B].
  split; auto. eapply Frame_trans; eauto.
Qed.

Lemma op_copy_ok : forall h o h', Inv h -> unprot (o_path o) -> unprot (o_from o) ->
  op_copy h root o = ROk h' -> Inv h' /\ Frame h h'.
Proof.
  intros h o h' HI Hu Hufrom H. unfold op_copy in H.
  destruct (find_object h root (o_from o)) as [[r key]| | |] eqn:Ef; cbn [rbind] in H; try discriminate.
  destruct (c_get (node_at h r) key) as [v| | |] eqn:Eg; cbn [rbind] in H; try discriminate.
  destruct (find_object h root (o_path o)) as [[r2 key2]| | |] eqn:Ef2; cbn [rbind] in H; try discriminate.
  destruct (c_set (node_at h r2) key2 v) as [c2| | |] eqn:Ec2; cbn [rbind] in H; try discriminate.
  inversion H. subst h'. clear H.
  destruct (find_object_unprot h _ r key HI Hufrom Ef) as [HS [Hlt Hk]].
  pose proof (get_okv h r key v HI HS Hk Eg) as Hv.
  destruct (find_object_unprot _ _ r2 key2 HI Hu Ef2) as [HS2 [Hlt2 Hk2]].
  eapply set_ok; eauto.
Qed.

Lemma op_test_same : forall h o h', op_test h root o = ROk h' -> h' = h.
Proof.
  intros h o h' H. unfold op_test in H.
  destruct (find_object h root (o_path o)) as [[r key]| | |]; cbn [rbind] in H; try discriminate.
  destruct (c_get (node_at h r) key) as [v| | |]; cbn [rbind] in H; try discriminate.
  destruct (o_value o) as [ov|].
  - destruct v.
    + destruct ov; try discriminate; inversion H; reflexivity.
    + destruct (hequal h HRawNil ov true); try discriminate; inversion H; reflexivity.
    + destruct (hequal h (HScalar j) ov true); try discriminate; inversion H; reflexivity.
    + destruct (hequal h (HRef r0) ov true); try discriminate; inversion H; reflexivity.
  - destruct v; discriminate.
Qed.

Lemma apply_op_ok : forall h o h', Inv h -> op_unprot o -> apply_op h root o = ROk h' -> Inv h' /\ Frame h h'.
Proof.
  intros h o h' HI [Hp Hf] H. unfold apply_op in H.
  destruct (kind_is o "add"); [eapply op_add_ok; eauto|].
  destruct (kind_is o "remove"); [eapply op_remove_ok; eauto|].
  destruct (kind_is o "replace"); [eapply op_replace_ok; eauto|].
  destruct (kind_is o "move") eqn:Em; [eapply op_move_ok; eauto|].
  destruct (kind_is o "test"); [apply op_test_same in H; subst; split; [auto|apply Frame_refl]|].
  destruct (kind_is o "copy") eqn:Ec; [eapply op_copy_ok; eauto|].
  discriminate.
Qed.

Theorem apply_ops_frame : forall os h h',
  Inv h -> Forall op_unprot os -> apply_ops h root os = ROk h' -> Inv h' /\ Frame h h'.
Proof.
  induction os as [|o os IH]; intros h h' HI HF H.
  - cbn in H. inversion H. subst. split; [auto|apply Frame_refl].
  - inversion HF as [|o' os' Ho Hos]. subst.
    cbn [apply_ops] in H. destruct (apply_op h root o) as [h1| | |] eqn:E1; cbn [rbind] in H; try discriminate.
    destruct (apply_op_ok h o h1 HI Ho E1) as [HI1 HF1].
    destruct (IH h1 h' HI1 Hos H) as [A B]. split; auto. eapply Frame_trans; eauto.
Qed.

(* ---------- the protected part marshals to the same JSON ---------- *)

Definition vprot (v : hval) : Prop := match v with HRef r => S r = true | _ => True end.
Definition closed (h : heap) : Prop := forall r, S r = true -> Forall vprot (children (node_at h r)).

Lemma unfold_frame : forall h h', closed h -> (forall r, S r = true -> node_at h' r = node_at h r) ->
  forall f v, vprot v -> unfold f h' v = unfold f h v.
Proof.
  intros h h' Hcl Hsame. induction f as [|f IH]; intros v Hv.
  - destruct v; reflexivity.
  - destruct v as [| | j | r]; try reflexivity.
    cbn in Hv. cbn [unfold]. rewrite (Hsame r Hv).
    pose proof (Hcl r Hv) as Hch.
    destruct (node_at h r) as [m|l|]; [| |reflexivity].
    + cbn [children] in Hch.
      assert (E : forall m, Forall vprot (map snd m) ->
        (fix go (m : list (bytes * hval)) : option (list (bytes * json)) :=
           match m with
           | [] => Some []
           | (k, x) :: rest => match unfold f h' x, go rest with Some j, Some js => Some ((k, j) :: js) | _, _ => None end
           end) m =
        (fix go (m : list (bytes * hval)) : option (list (bytes * json)) :=
           match m with
           | [] => Some []
           | (k, x) :: rest => match unfold f h x, go rest with Some j, Some js => Some ((k, j) :: js) | _, _ => None end
           end) m).
      { induction m0 as [|[k x] m0 IHm]; intros HF; [reflexivity|].
        cbn [map snd] in HF. inversion HF as [|a b Hx Hr]. subst.
        rewrite (IH x Hx). rewrite (IHm Hr). reflexivity. }
      rewrite (E m Hch). reflexivity.
    + cbn [children] in Hch.
      assert (E : forall l, Forall vprot l ->
        (fix go (l : list hval) : option (list json) :=
           match l with
           | [] => Some []
           | x :: rest => match unfold f h' x, go rest with Some j, Some js => Some (j :: js) | _, _ => None end
           end) l =
        (fix go (l : list hval) : option (list json) :=
           match l with
           | [] => Some []
           | x :: rest => match unfold f h x, go rest with Some j, Some js => Some (j :: js) | _, _ => None end
           end) l).
      { induction l0 as [|x l0 IHl]; intros HF; [reflexivity|].
        inversion HF as [|a b Hx Hr]. subst.
        rewrite (IH x Hx). rewrite (IHl Hr). reflexivity. }
      rewrite (E l Hch). reflexivity.
Qed.

(* THEOREM jsonpatch_protects_partial (graph level).
   If every operation's [path] - and, for move and copy, its [from] - has a first token that is not a
   protected name, then after a successful run every protected root member still holds the same slot
   content, no protected node was written, and so each protected member marshals to the same JSON. *)
Theorem jsonpatch_protects_partial : forall os h h',
  Inv h -> closed h -> Forall op_unprot os -> apply_ops h root os = ROk h' ->
  forall rm, node_at h root = CDoc rm ->
  exists rm', node_at h' root = CDoc rm'
    /\ forall k, prot k = true -> hget k rm' = hget k rm
       /\ forall f v, hget k rm = Some v -> vprot v -> unfold f h' v = unfold f h v.
Proof.
  intros os h h' HI Hcl HF H rm Hrm.
  destruct (apply_ops_frame os h h' HI HF H) as [_ [_ [Hsame Hroot]]].
  destruct (Hroot rm Hrm) as [rm' [Hrm' Hk]].
  exists rm'. split; auto. intros k Hp. split; auto.
  intros f v _ Hv. apply unfold_frame; auto.
Qed.

End Frame.

(* ---------- the hypotheses hold for a concrete document (non-vacuity) ---------- *)

Definition prot_sections (k : bytes) : bool := bytes_eqb k (bs "publicKey") || bytes_eqb k (bs "service").
Definition ex_heap : heap := match load_root doc_pk with Some (_, h) => h | None => [] end.
Definition ex_S (r : nat) : bool := (r <? 4)%nat.   (* nodes 0-3 are the two sections, 4 is the root *)

Example ex_inv : Inv prot_sections ex_S 4 ex_heap /\ closed ex_S ex_heap.
Proof.
  split.
  - constructor.
    + vm_compute. lia.
    + intros r H. unfold ex_S in H. apply Nat.ltb_lt in H. vm_compute. lia.
    + reflexivity.
    + intros r H Hne. unfold ex_S in H. apply Nat.ltb_ge in H.
      destruct r as [|[|[|[|[|r]]]]]; try lia. unfold node_at.
      rewrite nth_overflow; [constructor|]. change (length ex_heap) with 5%nat. lia.
    + eexists. split; [vm_compute; reflexivity|].
      intros k v [H|[H|[H|[]]]] Hp; inversion H; subst; try (vm_compute in Hp; discriminate). exact I.
  - intros r H. unfold ex_S in H. apply Nat.ltb_lt in H.
    destruct r as [|[|[|[|r]]]]; try lia; vm_compute; repeat constructor.
Qed.

Example ex_ops_unprot :
  match decode_patch (JArr [opj "add" "/x/y" [(bs "value", jn 1)]; opj "copy" "/z" [(bs "from", S_ "/x")]]) with
  | Some os => Forall (op_unprot prot_sections) os
  | None => False
  end.
Proof. vm_compute. repeat constructor; intros; discriminate. Qed.
