(* C18, JSON-patch half: properties of the model of evanphx/json-patch v4.1.0 (SV.Doc.JsonPatch) and of
   the path check of patchvalidator.validateJSONPatches (SV.Doc.Validator.jsonpatch_paths_ok). *)
From Coq Require Import String List NArith ZArith Bool Lia.
From Coq.Strings Require Import Byte.
From SV Require Import Base.Bytes Json.Ast Doc.JsonPatch Doc.Validator Doc.ValidatorProofs.
Import ListNotations.

(* ====================================================================================== *)
(* 1. jp_apply is a total function; the crash classes of the real library, with witnesses   *)
(* ====================================================================================== *)

(* totality is by construction (structural recursion, fuel only in [unfold]) *)
Theorem jp_total : forall ops d, exists o, jp_apply ops d = o.
Proof. intros ops d. eexists. reflexivity. Qed.

Definition S_ (s : string) : json := JStr (bs s).
Definition opj (kind path : string) (extra : list (bytes * json)) : json := mk_op kind path extra.
Definition doc_a12 : json := JObj [(bs "a", JArr [jn 1; jn 2])].

(* (a) negative array index in get/set: replace, test, copy (from), move (from and path).
       Real library: panic "index out of range [-1]" for each of
       [{"op":"replace","path":"/a/-1","value":9}]   [{"op":"test","path":"/a/-1","value":2}]
       [{"op":"copy","from":"/a/-1","path":"/b"}]     [{"op":"move","from":"/a/-1","path":"/b"}]
       [{"op":"move","from":"/a/0","path":"/a/-1"}]   on {"a":[1,2]};
       remove and add accept negative indices ("/a/-1" removes the last / appends). *)
Theorem jp_crash_witness_negative_index :
  jp_apply (JArr [opj "replace" "/a/-1" [(bs "value", jn 9)]]) doc_a12 = Crash
  /\ jp_apply (JArr [opj "test" "/a/-1" [(bs "value", jn 2)]]) doc_a12 = Crash
  /\ jp_apply (JArr [opj "copy" "/b" [(bs "from", S_ "/a/-1")]]) doc_a12 = Crash
  /\ jp_apply (JArr [opj "move" "/b" [(bs "from", S_ "/a/-1")]]) doc_a12 = Crash
  /\ jp_apply (JArr [opj "move" "/a/-1" [(bs "from", S_ "/a/0")]]) doc_a12 = Crash
  /\ jp_apply (JArr [opj "remove" "/a/-1" []]) doc_a12 = Ok (JObj [(bs "a", JArr [jn 1])]).
Proof. repeat split; vm_compute; reflexivity. Qed.

(* (b) a container stored inside itself: json.Marshal recurses until the stack overflows (fatal).
       [{"op":"copy","from":"/a","path":"/a/-"}] on {"a":[1,2]};
       also without [from] being a prefix of [path], through the alias that copy creates:
       [{"op":"copy","from":"/a","path":"/b"},{"op":"move","from":"/a","path":"/b/c"}] on {"a":{"x":1}} *)
Theorem jp_crash_witness_cycle :
  jp_apply (JArr [opj "copy" "/a/-" [(bs "from", S_ "/a")]]) doc_a12 = Fatal
  /\ jp_apply (JArr [opj "copy" "/b" [(bs "from", S_ "/a")]; opj "move" "/b/c" [(bs "from", S_ "/a")]])
              (JObj [(bs "a", JObj [(bs "x", jn 1)])]) = Fatal.
Proof. split; vm_compute; reflexivity. Qed.

(* (c) nil dereferences:
       [{"op":"add","path":"/a","value":null},{"op":"add","path":"/a/b","value":1}] on {}
       [{"op":"test","path":"/zz"}] on {}            (no value member, target absent)
       [{"op":"test","path":"/a","value":[null]}] on {"a":[null]}
   (d) [{"op":"add","path":"/a","value":1}] on the document null: assignment to entry in nil map
   (e) [{"op":"copy","from":"/a/0","path":"/a/99999999999"}] on {"a":[1,2]}: out of memory
       (9223372036854775806: makeslice panic); a small excess pads with null instead of failing *)
Theorem jp_crash_witness_other :
  jp_apply (JArr [opj "add" "/a" [(bs "value", JNull)]; opj "add" "/a/b" [(bs "value", jn 1)]]) (JObj []) = Crash
  /\ jp_apply (JArr [opj "test" "/zz" []]) (JObj []) = Crash
  /\ jp_apply (JArr [opj "test" "/a" [(bs "value", JArr [JNull])]]) (JObj [(bs "a", JArr [JNull])]) = Crash
  /\ jp_apply (JArr [opj "add" "/a" [(bs "value", jn 1)]]) JNull = Crash
  /\ jp_apply (JArr [opj "copy" "/a/99999999999" [(bs "from", S_ "/a/0")]]) doc_a12 = Fatal
  /\ jp_apply (JArr [opj "copy" "/a/9223372036854775806" [(bs "from", S_ "/a/0")]]) doc_a12 = Crash.
Proof. repeat split; vm_compute; reflexivity. Qed.

(* ====================================================================================== *)
(* 2. the inputs that defeated the old path check                                           *)
(* ====================================================================================== *)

Definition doc_pk : json :=
  JObj [(bs "publicKey", JArr [JObj [(bs "id", S_ "k1")]]); (bs "service", JArr [JObj [(bs "id", S_ "s1")]]);
        (bs "x", jn 1)].

(* (ii) only "path" is checked, not "from":
        [{"op":"move","from":"/publicKey","path":"/y"}] is accepted and removes the key section *)
Definition ops_move_from : json := JArr [opj "move" "/y" [(bs "from", S_ "/publicKey")]].

(* (ii') copy shares the node, so the section can be edited through the copy:
        [{"op":"copy","from":"/publicKey","path":"/y"},{"op":"add","path":"/y/-","value":{"id":"evil"}}] *)
Definition ops_copy_alias : json :=
  JArr [opj "copy" "/y" [(bs "from", S_ "/publicKey")];
        opj "add" "/y/-" [(bs "value", JObj [(bs "id", S_ "evil")])]].

(* (iii) findObject ignores the text before the first "/", the prefix test does not:
         [{"op":"remove","path":"x/publicKey"}] is accepted and removes the key section *)
Definition ops_no_leading_slash : json := JArr [opj "remove" "x/publicKey" []].

(* The three operation lists that used to be accepted (findings (ii), (ii'), (iii)) are rejected by
   the repaired validateJSONPatches (commits cb19e9e, 4fc3d15) ... *)
Example old_witnesses_now_rejected :
  jsonpatch_paths_ok ops_move_from = false
  /\ jsonpatch_paths_ok ops_copy_alias = false
  /\ jsonpatch_paths_ok ops_no_leading_slash = false.
Proof. repeat split; reflexivity. Qed.

(* ... while the library itself is unchanged and would still damage the sections if they got through *)
Example engine_alone_does_not_protect :
  (exists d', jp_apply ops_move_from doc_pk = Ok d' /\ jmember "publicKey" d' = None)
  /\ (exists d', jp_apply ops_copy_alias doc_pk = Ok d'
        /\ jmember "publicKey" d' = Some (JArr [JObj [(bs "id", S_ "k1")]; JObj [(bs "id", S_ "evil")]]))
  /\ (exists d', jp_apply ops_no_leading_slash doc_pk = Ok d' /\ jmember "publicKey" d' = None).
Proof. split; [|split]; eexists; split; vm_compute; reflexivity. Qed.

(* ====================================================================================== *)
(* 3. pointer decoding and array insertion                                                  *)
(* ====================================================================================== *)

Definition b_slash : byte := "/"%byte.
Definition b_tilde : byte := "~"%byte.

(* RFC 6901 escaping of one token *)
Fixpoint encode_key (k : bytes) : bytes :=
  match k with
  | [] => []
  | c :: r =>
    if Byte.eqb c b_tilde then b_tilde :: "0"%byte :: encode_key r
    else if Byte.eqb c b_slash then b_tilde :: "1"%byte :: encode_key r
    else c :: encode_key r
  end.

Example decode_key_examples :
  decode_key (bs "a~1b") = bs "a/b" /\ decode_key (bs "m~0n") = bs "m~n"
  /\ decode_key (bs "~01") = bs "~1" /\ decode_key (bs "~2~") = bs "~2~".
Proof. repeat split; reflexivity. Qed.

Lemma byte_eqb_true : forall a b, Byte.eqb a b = true -> a = b.
Proof. intros a b H. apply Byte.byte_dec_bl. exact H. Qed.

Lemma decode_key_plain : forall c e, Byte.eqb c b_tilde = false -> decode_key (c :: e) = c :: decode_key e.
Proof.
  intros c e H. destruct e as [|d t]; [reflexivity|].
  cbn [decode_key]. unfold tilde. fold b_tilde. rewrite H. reflexivity.
Qed.

(* unescaping inverts escaping: "~1" -> "/", "~0" -> "~" *)
Lemma decode_encode_key : forall k, decode_key (encode_key k) = k.
Proof.
  induction k as [|c r IH]; [reflexivity|].
  cbn [encode_key].
  destruct (Byte.eqb c b_tilde) eqn:Et.
  - apply byte_eqb_true in Et. subst c. cbn. f_equal. exact IH.
  - destruct (Byte.eqb c b_slash) eqn:Es.
    + apply byte_eqb_true in Es. subst c. cbn. f_equal. exact IH.
    + rewrite decode_key_plain by exact Et. f_equal. exact IH.
Qed.

(* an escaped token contains no "/" , so splitting a pointer built from escaped tokens is exact *)
Lemma encode_key_no_slash : forall k, ~ In b_slash (encode_key k).
Proof.
  induction k as [|c r IH]; cbn [encode_key]; [intros []|].
  destruct (Byte.eqb c b_tilde) eqn:Et.
  - intros [H|[H|H]]; try discriminate. auto.
  - destruct (Byte.eqb c b_slash) eqn:Es.
    + intros [H|[H|H]]; try discriminate. auto.
    + intros [H|H]; auto. subst c. vm_compute in Es. discriminate.
Qed.

(* add with "-" appends *)
Lemma add_dash_appends : forall l v, c_add (CAry l) [ "-"%byte ] v = ROk (CAry (l ++ [v])).
Proof. intros l v. reflexivity. Qed.

(* add at an index i in 0..len inserts before position i and shifts the rest *)
Lemma add_at_index_shifts : forall l key i v,
  is_dash key = false -> atoi key = Some (Z.of_nat i) -> (i <= length l)%nat ->
  c_add (CAry l) key v = ROk (CAry (firstn i l ++ v :: skipn i l)).
Proof.
  intros l key i v Hd Ha Hi. unfold c_add. rewrite Hd, Ha. unfold zlen.
  destruct (Z.of_nat i >=? Z.of_nat (length l) + 1)%Z eqn:E1; [lia|].
  destruct (Z.of_nat i <? - (Z.of_nat (length l) + 1))%Z eqn:E2; [lia|].
  destruct (Z.of_nat i <? 0)%Z eqn:E3; [lia|].
  rewrite Nat2Z.id. reflexivity.
Qed.

Lemma add_at_index_length : forall l key i v c,
  is_dash key = false -> atoi key = Some (Z.of_nat i) -> (i <= length l)%nat ->
  c_add (CAry l) key v = ROk c -> exists l', c = CAry l' /\ length l' = S (length l) /\ nth i l' HNil = v.
Proof.
  intros l key i v c Hd Ha Hi H. rewrite (add_at_index_shifts l key i v Hd Ha Hi) in H.
  inversion H. subst c. eexists. split; [reflexivity|]. split.
  - rewrite app_length. cbn [length]. rewrite firstn_length, skipn_length. lia.
  - rewrite app_nth2; rewrite firstn_length; [|lia].
    replace (i - Nat.min i (length l))%nat with O by lia. reflexivity.
Qed.

(* ====================================================================================== *)
(* 4. what the path check does protect: a frame theorem on the pointer graph               *)
(* ====================================================================================== *)

Definition children (c : cnode) : list hval :=
  match c with CDoc m => map snd m | CAry l => l | CNilDoc => [] end.

Definition vfresh (lo hi : nat) (v : hval) : Prop :=
  match v with HRef r => (lo <= r < hi)%nat | _ => True end.

(* induction principle for the nested type *)
Section JsonInd.
Variable P : json -> Prop.
Hypothesis Hnull : P JNull.
Hypothesis Hbool : forall b, P (JBool b).
Hypothesis Hnum : forall n, P (JNum n).
Hypothesis Hstr : forall s, P (JStr s).
Hypothesis Harr : forall l, Forall P l -> P (JArr l).
Hypothesis Hobj : forall m, Forall (fun kv => P (snd kv)) m -> P (JObj m).
Fixpoint json_rect' (j : json) : P j :=
  match j with
  | JNull => Hnull
  | JBool b => Hbool b
  | JNum n => Hnum n
  | JStr s => Hstr s
  | JArr l => Harr l ((fix go (l : list json) : Forall P l :=
                         match l with [] => Forall_nil _ | x :: r => Forall_cons _ (json_rect' x) (go r) end) l)
  | JObj m => Hobj m ((fix go (m : list (bytes * json)) : Forall (fun kv => P (snd kv)) m :=
                         match m with [] => Forall_nil _ | kv :: r => Forall_cons _ (json_rect' (snd kv)) (go r) end) m)
  end.
End JsonInd.

Definition load_list :=
  fix go (l : list json) (h : heap) {struct l} : list hval * heap :=
    match l with
    | [] => ([], h)
    | x :: r => let '(v, h1) := load x h in let '(vs, h2) := go r h1 in (v :: vs, h2)
    end.

Definition load_members :=
  fix go (m : list (bytes * json)) (h : heap) {struct m} : list (bytes * hval) * heap :=
    match m with
    | [] => ([], h)
    | (k, x) :: r => let '(v, h1) := load x h in
                     let '(ms, h2) := go r h1 in
                     (if has_key k ms then ms else (k, v) :: ms, h2)
    end.

Lemma load_arr_eq : forall l h,
  load (JArr l) h = let '(vs, h1) := load_list l h in (HRef (length h1), h1 ++ [CAry vs]).
Proof. reflexivity. Qed.

Lemma load_obj_eq : forall m h,
  load (JObj m) h = let '(ms, h1) := load_members m h in (HRef (length h1), h1 ++ [CDoc ms]).
Proof. reflexivity. Qed.

Definition ext_ok (lo hi : nat) (ext : list cnode) : Prop :=
  Forall (fun c => Forall (vfresh lo hi) (children c)) ext.

Definition load_ok (j : json) : Prop :=
  forall h v h1, load j h = (v, h1) ->
  exists ext, h1 = h ++ ext /\ vfresh (length h) (length h1) v /\ ext_ok (length h) (length h1) ext.

Lemma vfresh_mono : forall lo hi lo' hi' v, (lo' <= lo)%nat -> (hi <= hi')%nat -> vfresh lo hi v -> vfresh lo' hi' v.
Proof. intros lo hi lo' hi' [| | |r] H1 H2 H; cbn in *; auto. lia. Qed.

Lemma Forall_vfresh_mono : forall lo hi lo' hi' l, (lo' <= lo)%nat -> (hi <= hi')%nat ->
  Forall (vfresh lo hi) l -> Forall (vfresh lo' hi') l.
Proof. intros lo hi lo' hi' l H1 H2 H. eapply Forall_impl; [|exact H]. intros a. apply vfresh_mono; auto. Qed.

Lemma ext_mono : forall lo hi lo' hi' ext, (lo' <= lo)%nat -> (hi <= hi')%nat -> ext_ok lo hi ext -> ext_ok lo' hi' ext.
Proof. intros lo hi lo' hi' ext H1 H2 H. eapply Forall_impl; [|exact H]. intros c. apply Forall_vfresh_mono; auto. Qed.

Lemma load_list_ok : forall l, Forall load_ok l ->
  forall h vs h1, load_list l h = (vs, h1) ->
  exists ext, h1 = h ++ ext /\ Forall (vfresh (length h) (length h1)) vs /\ ext_ok (length h) (length h1) ext.
Proof.
  induction l as [|x r IH]; intros HF h vs h1 H.
  - cbn in H. inversion H. subst. exists []. rewrite app_nil_r. repeat split; constructor.
  - inversion HF as [|x' r' Hx Hr]. subst.
    cbn [load_list] in H. destruct (load x h) as [v ha] eqn:Ea.
    fold load_list in H. destruct (load_list r ha) as [vs' hb] eqn:Eb.
    inversion H. subst vs h1. clear H.
    apply Hx in Ea. destruct Ea as [e1 [He1 [Hv He1c]]].
    apply (IH Hr) in Eb. destruct Eb as [e2 [He2 [Hvs He2c]]].
    assert (L1 : (length h <= length ha)%nat) by (subst ha; rewrite app_length; lia).
    assert (L2 : (length ha <= length hb)%nat) by (subst hb; rewrite app_length; lia).
    exists (e1 ++ e2). split; [subst hb ha; rewrite app_assoc; reflexivity|]. split.
    + constructor.
      * eapply vfresh_mono; [| |exact Hv]; lia.
      * eapply Forall_vfresh_mono; [| |exact Hvs]; lia.
    + apply Forall_app. split.
      * eapply ext_mono; [| |exact He1c]; lia.
      * eapply ext_mono; [| |exact He2c]; lia.
Qed.

Lemma load_members_ok : forall m, Forall (fun kv => load_ok (snd kv)) m ->
  forall h ms h1, load_members m h = (ms, h1) ->
  exists ext, h1 = h ++ ext /\ Forall (vfresh (length h) (length h1)) (map snd ms) /\ ext_ok (length h) (length h1) ext.
Proof.
  induction m as [|[k x] r IH]; intros HF h ms h1 H.
  - cbn in H. inversion H. subst. exists []. rewrite app_nil_r. repeat split; constructor.
  - inversion HF as [|x' r' Hx Hr]. subst. cbn [snd] in Hx.
    cbn [load_members] in H. destruct (load x h) as [v ha] eqn:Ea.
    fold load_members in H. destruct (load_members r ha) as [ms' hb] eqn:Eb.
    inversion H. subst ms h1. clear H.
    apply Hx in Ea. destruct Ea as [e1 [He1 [Hv He1c]]].
    apply (IH Hr) in Eb. destruct Eb as [e2 [He2 [Hvs He2c]]].
    assert (L1 : (length h <= length ha)%nat) by (subst ha; rewrite app_length; lia).
    assert (L2 : (length ha <= length hb)%nat) by (subst hb; rewrite app_length; lia).
    exists (e1 ++ e2). split; [subst hb ha; rewrite app_assoc; reflexivity|]. split.
    + assert (Hvs' : Forall (vfresh (length h) (length hb)) (map snd ms')).
      { eapply Forall_vfresh_mono; [| |exact Hvs]; lia. }
      destruct (has_key k ms'); auto. cbn. constructor; auto.
      eapply vfresh_mono; [| |exact Hv]; lia.
    + apply Forall_app. split.
      * eapply ext_mono; [| |exact He1c]; lia.
      * eapply ext_mono; [| |exact He2c]; lia.
Qed.

Lemma load_spec : forall j, load_ok j.
Proof.
  apply json_rect'; unfold load_ok.
  - intros h v h1 H. cbn in H. inversion H. subst. exists []. rewrite app_nil_r. repeat split; constructor.
  - intros b h v h1 H. cbn in H. inversion H. subst. exists []. rewrite app_nil_r. repeat split; constructor.
  - intros n h v h1 H. cbn in H. inversion H. subst. exists []. rewrite app_nil_r. repeat split; constructor.
  - intros s h v h1 H. cbn in H. inversion H. subst. exists []. rewrite app_nil_r. repeat split; constructor.
  - intros l HF h v h1 H. rewrite load_arr_eq in H.
    destruct (load_list l h) as [vs ha] eqn:Ea. inversion H. subst v h1. clear H.
    apply (load_list_ok l HF) in Ea. destruct Ea as [e [He [Hvs Hec]]].
    assert (L1 : (length h <= length ha)%nat) by (subst ha; rewrite app_length; lia).
    exists (e ++ [CAry vs]). split; [subst ha; rewrite app_assoc; reflexivity|].
    rewrite app_length. cbn [length]. split.
    + cbn. lia.
    + apply Forall_app. split.
      * eapply ext_mono; [| |exact Hec]; lia.
      * constructor; [|constructor]. cbn [children]. eapply Forall_vfresh_mono; [| |exact Hvs]; lia.
  - intros m HF h v h1 H. rewrite load_obj_eq in H.
    destruct (load_members m h) as [ms ha] eqn:Ea. inversion H. subst v h1. clear H.
    apply (load_members_ok m HF) in Ea. destruct Ea as [e [He [Hvs Hec]]].
    assert (L1 : (length h <= length ha)%nat) by (subst ha; rewrite app_length; lia).
    exists (e ++ [CDoc ms]). split; [subst ha; rewrite app_assoc; reflexivity|].
    rewrite app_length. cbn [length]. split.
    + cbn. lia.
    + apply Forall_app. split.
      * eapply ext_mono; [| |exact Hec]; lia.
      * constructor; [|constructor]. cbn [children]. eapply Forall_vfresh_mono; [| |exact Hvs]; lia.
Qed.

(* ---------- small list facts ---------- *)

Lemma length_upd_nth : forall A (l : list A) n x, length (upd_nth n x l) = length l.
Proof. induction l as [|y l IH]; intros [|n] x; cbn; auto. Qed.

Lemma nth_upd_nth_eq : forall A (l : list A) n x d, (n < length l)%nat -> nth n (upd_nth n x l) d = x.
Proof. induction l as [|y l IH]; intros [|n] x d H; cbn in *; try lia; auto. apply IH. lia. Qed.

Lemma nth_upd_nth_neq : forall A (l : list A) n n' x d, n <> n' -> nth n' (upd_nth n x l) d = nth n' l d.
Proof. induction l as [|y l IH]; intros [|n] [|n'] x d H; cbn; auto; try congruence. Qed.

Lemma Forall_upd_nth : forall A (Q : A -> Prop) l n x, Forall Q l -> Q x -> Forall Q (upd_nth n x l).
Proof.
  induction l as [|y l IH]; intros [|n] x Hl Hx; cbn; auto; inversion Hl; subst; constructor; auto.
Qed.

Lemma Forall_firstn_skipn : forall A (Q : A -> Prop) i l, Forall Q l -> Forall Q (firstn i l) /\ Forall Q (skipn i l).
Proof. intros A Q i l H. rewrite <- (firstn_skipn i l) in H. apply Forall_app in H. exact H. Qed.

Lemma Forall_repeat : forall A (Q : A -> Prop) x n, Q x -> Forall Q (repeat x n).
Proof. intros A Q x n H. induction n; cbn; constructor; auto. Qed.

Lemma hget_In : forall k m v, hget k m = Some v -> In (k, v) m.
Proof.
  induction m as [|[k' x] m IH]; intros v H; cbn in H; [discriminate|].
  destruct (bytes_eqb k k') eqn:E.
  - apply bytes_eqb_eq in E. subst k'. inversion H. subst. left. reflexivity.
  - right. auto.
Qed.

Lemma In_hset : forall k v m k' x, In (k', x) (hset k v m) -> (k' = k /\ x = v) \/ In (k', x) m.
Proof.
  induction m as [|[k0 x0] m IH]; intros k' x H; cbn in H.
  - destruct H as [H|[]]. inversion H. auto.
  - destruct (bytes_eqb k k0) eqn:E.
    + destruct H as [H|H]; [inversion H; auto|]. right. right. exact H.
    + destruct H as [H|H]; [right; left; exact H|]. apply IH in H. destruct H; auto. right. right. exact H.
Qed.

Lemma hget_hset_other : forall k v m k', bytes_eqb k' k = false -> hget k' (hset k v m) = hget k' m.
Proof.
  induction m as [|[k0 x0] m IH]; intros k' H; cbn.
  - rewrite H. reflexivity.
  - destruct (bytes_eqb k k0) eqn:E.
    + apply bytes_eqb_eq in E. subst k0. cbn. rewrite H. reflexivity.
    + cbn. destruct (bytes_eqb k' k0); auto.
Qed.

Lemma In_hremove : forall k m k' x, In (k', x) (hremove k m) -> In (k', x) m.
Proof.
  induction m as [|[k0 x0] m IH]; intros k' x H; cbn in H; auto.
  destruct (bytes_eqb k k0); [right; auto|]. destruct H as [H|H]; [left; exact H|right; auto].
Qed.

Lemma hget_hremove_other : forall k m k', bytes_eqb k' k = false -> hget k' (hremove k m) = hget k' m.
Proof.
  induction m as [|[k0 x0] m IH]; intros k' H; cbn; auto.
  destruct (bytes_eqb k k0) eqn:E.
  - apply bytes_eqb_eq in E. subst k0. rewrite H. auto.
  - cbn. destruct (bytes_eqb k' k0); auto.
Qed.

Lemma Forall_snd_hset : forall (Q : hval -> Prop) k v m, Forall Q (map snd m) -> Q v -> Forall Q (map snd (hset k v m)).
Proof.
  intros Q k v m Hm Hv. apply Forall_forall. intros x Hx. apply in_map_iff in Hx.
  destruct Hx as [[k' x'] [Hs Hin]]. cbn in Hs. subst x'. apply In_hset in Hin.
  destruct Hin as [[_ Hx]|Hin]; [subst; auto|].
  eapply Forall_forall in Hm; [exact Hm|]. apply in_map_iff. exists (k', x). auto.
Qed.

Lemma Forall_snd_hremove : forall (Q : hval -> Prop) k m, Forall Q (map snd m) -> Forall Q (map snd (hremove k m)).
Proof.
  intros Q k m Hm. apply Forall_forall. intros x Hx. apply in_map_iff in Hx.
  destruct Hx as [[k' x'] [Hs Hin]]. cbn in Hs. subst x'. apply In_hremove in Hin.
  eapply Forall_forall in Hm; [exact Hm|]. apply in_map_iff. exists (k', x). auto.
Qed.

(* ---------- container methods and children ---------- *)

Lemma c_get_child : forall c k v, c_get c k = ROk v -> v = HNil \/ In v (children c).
Proof.
  intros [m|l|] k v H; cbn in H.
  - inversion H. destruct (hget k m) as [x|] eqn:E; auto.
    right. apply hget_In in E. cbn. apply in_map_iff. exists (k, x). auto.
  - destruct (atoi k) as [idx|]; [|discriminate].
    destruct (idx >=? zlen l)%Z eqn:E1; [discriminate|].
    destruct (idx <? 0)%Z eqn:E2; [discriminate|].
    inversion H. right. cbn. apply nth_In. unfold zlen in E1. lia.
  - inversion H. auto.
Qed.

Lemma c_set_children : forall (Q : hval -> Prop) c k v c',
  c_set c k v = ROk c' -> Forall Q (children c) -> Q v -> Q HNil -> Forall Q (children c').
Proof.
  intros Q [m|l|] k v c' H Hc Hv Hn; cbn in H; [| |discriminate].
  - inversion H. cbn. apply Forall_snd_hset; auto.
  - cbn in Hc. destruct (is_dash k).
    { inversion H. cbn. apply Forall_app. split; auto. }
    destruct (atoi k) as [idx|]; [|discriminate].
    destruct (idx =? max_int)%Z; [discriminate|].
    destruct (idx <? 0)%Z; [discriminate|].
    destruct (idx <? zlen l)%Z.
    { inversion H. cbn. apply Forall_upd_nth; auto. }
    destruct (idx >=? makeslice_limit)%Z; [discriminate|].
    destruct (idx - zlen l >? pad_limit)%Z; [discriminate|].
    inversion H. cbn. apply Forall_app. split; auto. apply Forall_app. split; [apply Forall_repeat; auto|auto].
Qed.

Lemma c_add_children : forall (Q : hval -> Prop) c k v c',
  c_add c k v = ROk c' -> Forall Q (children c) -> Q v -> Forall Q (children c').
Proof.
  intros Q [m|l|] k v c' H Hc Hv; cbn in H; [| |discriminate].
  - inversion H. cbn [children]. apply Forall_snd_hset; auto.
  - cbn in Hc. destruct (is_dash k).
    { inversion H. cbn [children]. apply Forall_app. split; auto. }
    destruct (atoi k) as [idx|]; [|discriminate].
    destruct (idx >=? zlen l + 1)%Z; [discriminate|].
    destruct (idx <? - (zlen l + 1))%Z; [discriminate|].
    cbv zeta in H. inversion H as [Hc']. cbn [children].
    set (i := Z.to_nat _).
    destruct (Forall_firstn_skipn _ Q i l Hc) as [Hf Hs].
    apply Forall_app. split; auto.
Qed.

Lemma c_remove_children : forall (Q : hval -> Prop) c k c',
  c_remove c k = ROk c' -> Forall Q (children c) -> Forall Q (children c').
Proof.
  intros Q [m|l|] k c' H Hc; cbn in H; [| |discriminate].
  - destruct (has_key k m); [|discriminate]. inversion H. cbn [children]. apply Forall_snd_hremove; auto.
  - cbn in Hc. destruct (atoi k) as [idx|]; [|discriminate].
    destruct (idx >=? zlen l)%Z; [discriminate|].
    destruct (idx <? - zlen l)%Z; [discriminate|].
    cbv zeta in H. inversion H as [Hc']. cbn [children].
    set (i := Z.to_nat _).
    destruct (Forall_firstn_skipn _ Q i l Hc) as [Hf _]. destruct (Forall_firstn_skipn _ Q (S i) l Hc) as [_ Hs].
    apply Forall_app. split; auto.
Qed.

(* ---------- the invariant ---------- *)

Section Frame.
Variable prot : bytes -> bool.     (* protected member names of the root object *)
Variable S : nat -> bool.          (* protected container nodes *)
Variable root : nat.

(* a value that may sit in an unprotected place *)
Definition okv (n : nat) (v : hval) : Prop :=
  match v with HRef r => S r = false /\ r <> root /\ (r < n)%nat | _ => True end.

Record Inv (h : heap) : Prop := {
  inv_root_lt : (root < length h)%nat;
  inv_S_lt : forall r, S r = true -> (r < length h)%nat;
  inv_S_root : S root = false;
  inv_nodes : forall r, S r = false -> r <> root -> Forall (okv (length h)) (children (node_at h r));
  inv_rootnode : exists rm, node_at h root = CDoc rm
                            /\ forall k v, In (k, v) rm -> prot k = false -> okv (length h) v }.

Definition Frame (h h' : heap) : Prop :=
  (length h <= length h')%nat
  /\ (forall r, S r = true -> node_at h' r = node_at h r)
  /\ (forall rm, node_at h root = CDoc rm ->
        exists rm', node_at h' root = CDoc rm' /\ forall k, prot k = true -> hget k rm' = hget k rm).

Lemma Frame_refl : forall h, Frame h h.
Proof. intros h. split; [lia|]. split; auto. intros rm H. exists rm. auto. Qed.

Lemma Frame_trans : forall h1 h2 h3, Frame h1 h2 -> Frame h2 h3 -> Frame h1 h3.
Proof.
  intros h1 h2 h3 [L1 [N1 R1]] [L2 [N2 R2]]. split; [lia|]. split.
  - intros r Hr. rewrite N2, N1; auto.
  - intros rm Hrm. destruct (R1 rm Hrm) as [rm2 [H2 K2]]. destruct (R2 rm2 H2) as [rm3 [H3 K3]].
    exists rm3. split; auto. intros k Hk. rewrite K3, K2; auto.
Qed.

Lemma okv_mono : forall n n' v, (n <= n')%nat -> okv n v -> okv n' v.
Proof. intros n n' [| | |r] Hle H; cbn in *; auto. destruct H as [A [B C]]. repeat split; auto. lia. Qed.

Lemma okv_nil : forall n, okv n HNil.
Proof. intros n. exact I. Qed.

(* reading from an unprotected place yields an unprotected value *)
Lemma get_okv : forall h r key v,
  Inv h -> S r = false -> (r = root -> prot key = false) ->
  c_get (node_at h r) key = ROk v -> okv (length h) v.
Proof.
  intros h r key v HI HS Hk Hg.
  destruct (Nat.eq_dec r root) as [E|E].
  - subst r. destruct (inv_rootnode h HI) as [rm [Hrm Hmem]]. rewrite Hrm in Hg. cbn in Hg.
    inversion Hg. destruct (hget key rm) as [x|] eqn:Ex; [|exact I].
    apply hget_In in Ex. eapply Hmem; eauto.
  - apply c_get_child in Hg. destruct Hg as [Hg|Hg]; [subst v; exact I|].
    pose proof (inv_nodes h HI r HS E) as HF. eapply Forall_forall in HF; eauto.
Qed.

(* findObject never enters a protected node when the first token is not a protected name *)
Lemma walk_unprot : forall h, Inv h -> forall parts r0 r,
  walk h r0 parts = ROk r -> S r0 = false -> (r0 < length h)%nat ->
  (r0 = root -> match parts with [] => True | p :: _ => prot p = false end) ->
  S r = false /\ (r < length h)%nat /\ (r = root -> parts = [] /\ r0 = root).
Proof.
  intros h HI parts. induction parts as [|p rest IH]; intros r0 r Hw HS Hlt Hfirst.
  - cbn in Hw. inversion Hw. subst. auto.
  - cbn [walk] in Hw. unfold rbind in Hw.
    destruct (c_get (node_at h r0) p) as [next| | |] eqn:Eg; try discriminate.
    assert (Hok : okv (length h) next) by (eapply get_okv; eauto).
    destruct next as [| | j | r']; try discriminate.
    cbn in Hok. destruct Hok as [HS' [Hne Hlt']].
    apply IH in Hw; auto; [|intros E; contradiction].
    destruct Hw as [A [B C]]. split; auto. split; auto.
    intros E. apply C in E. destruct E as [_ E]. contradiction.
Qed.

Definition unprot (p : bytes) : Prop :=
  match decode_pointer p with Some (t :: _) => prot t = false | _ => True end.

Lemma decode_pointer_nonempty : forall p, decode_pointer p <> Some [].
Proof.
  intros p. unfold decode_pointer. destruct (split_slash p) as [|x [|y l]]; try discriminate.
Qed.

Lemma removelast_first : forall (t : bytes) ts,
  match removelast (t :: ts) with [] => ts = [] | p :: _ => p = t end.
Proof. intros t [|t2 ts]; cbn; auto. Qed.

Lemma find_object_unprot : forall h p r key,
  Inv h -> unprot p -> find_object h root p = ROk (r, key) ->
  S r = false /\ (r < length h)%nat /\ (r = root -> prot key = false).
Proof.
  intros h p r key HI Hu Hf. unfold find_object in Hf. unfold unprot in Hu.
  destruct (decode_pointer p) as [toks|] eqn:Ed; [|discriminate].
  destruct (walk h root (removelast toks)) as [r1| | |] eqn:Ew; try discriminate.
  inversion Hf. subst r1 key. clear Hf.
  destruct toks as [|t ts]; [exfalso; eapply decode_pointer_nonempty; eauto|].
  pose proof (removelast_first t ts) as Hrl.
  apply (walk_unprot h HI) in Ew; [|apply (inv_S_root h HI)|apply (inv_root_lt h HI)|].
  - destruct Ew as [A [B C]]. split; auto. split; auto. intros E. apply C in E. destruct E as [E _].
    rewrite E in Hrl. subst ts. cbn. exact Hu.
  - intros _. destruct (removelast (t :: ts)); auto. subst. exact Hu.
Qed.

(* ---------- updates ---------- *)

Lemma length_put : forall h r c, length (put h r c) = length h.
Proof. intros. apply length_upd_nth. Qed.

Lemma node_at_put_eq : forall h r c, (r < length h)%nat -> node_at (put h r c) r = c.
Proof. intros. apply nth_upd_nth_eq. auto. Qed.

Lemma node_at_put_neq : forall h r r' c, r <> r' -> node_at (put h r c) r' = node_at h r'.
Proof. intros. apply nth_upd_nth_neq. auto. Qed.

Lemma put_ok : forall h r c',
  Inv h -> S r = false -> (r < length h)%nat ->
  (r <> root -> Forall (okv (length h)) (children c')) ->
  (r = root -> exists rm rm', node_at h root = CDoc rm /\ c' = CDoc rm'
        /\ (forall k v, In (k, v) rm' -> prot k = false -> okv (length h) v)
        /\ (forall k, prot k = true -> hget k rm' = hget k rm)) ->
  Inv (put h r c') /\ Frame h (put h r c').
Proof.
  intros h r c' HI HS Hlt Hother Hroot. split.
  - constructor; rewrite ?length_put.
    + apply (inv_root_lt h HI).
    + apply (inv_S_lt h HI).
    + apply (inv_S_root h HI).
    + intros r1 HS1 Hne. destruct (Nat.eq_dec r r1) as [E|E].
      * subst r1. rewrite node_at_put_eq by auto. auto.
      * rewrite node_at_put_neq by auto. apply (inv_nodes h HI); auto.
    + destruct (Nat.eq_dec r root) as [E|E].
      * destruct (Hroot E) as [rm [rm' [A [B [C D]]]]]. subst r c'.
        exists rm'. rewrite node_at_put_eq by auto. auto.
      * rewrite node_at_put_neq by auto. apply (inv_rootnode h HI).
  - split; [rewrite length_put; lia|]. split.
    + intros r1 HS1. apply node_at_put_neq. intros E. subst r1. rewrite HS in HS1. discriminate.
    + intros rm0 Hrm0. destruct (Nat.eq_dec r root) as [E|E].
      * destruct (Hroot E) as [rm [rm' [A [B [C D]]]]]. subst r c'.
        rewrite A in Hrm0. inversion Hrm0. subst rm0.
        exists rm'. rewrite node_at_put_eq by auto. auto.
      * exists rm0. rewrite node_at_put_neq by auto. auto.
Qed.

Lemma prot_differs : forall k key, prot k = true -> prot key = false -> bytes_eqb k key = false.
Proof.
  intros k key H1 H2. destruct (bytes_eqb k key) eqn:E; auto.
  apply bytes_eqb_eq in E. subst. rewrite H1 in H2. discriminate.
Qed.

Lemma set_ok : forall h r key v c',
  Inv h -> S r = false -> (r < length h)%nat -> (r = root -> prot key = false) -> okv (length h) v ->
  (c_set (node_at h r) key v = ROk c' \/ c_add (node_at h r) key v = ROk c') ->
  Inv (put h r c') /\ Frame h (put h r c').
Proof.
  intros h r key v c' HI HS Hlt Hk Hv Hop. apply put_ok; auto.
  - intros Hne. pose proof (inv_nodes h HI r HS Hne) as HF.
    destruct Hop as [Hop|Hop].
    + eapply c_set_children; eauto. exact I.
    + eapply c_add_children; eauto.
  - intros E. subst r. destruct (inv_rootnode h HI) as [rm [Hrm Hmem]].
    rewrite Hrm in Hop. exists rm, (hset key v rm). split; auto. split.
    { destruct Hop as [Hop|Hop]; cbn in Hop; inversion Hop; reflexivity. }
    split.
    + intros k x Hin Hp. apply In_hset in Hin. destruct Hin as [[_ Hx]|Hin]; [subst x; auto|]. eapply Hmem; eauto.
    + intros k Hp. apply hget_hset_other. apply prot_differs; auto.
Qed.

Lemma remove_ok : forall h r key c',
  Inv h -> S r = false -> (r < length h)%nat -> (r = root -> prot key = false) ->
  c_remove (node_at h r) key = ROk c' ->
  Inv (put h r c') /\ Frame h (put h r c').
Proof.
  intros h r key c' HI HS Hlt Hk Hop. apply put_ok; auto.
  - intros Hne. pose proof (inv_nodes h HI r HS Hne) as HF. eapply c_remove_children; eauto.
  - intros E. subst r. destruct (inv_rootnode h HI) as [rm [Hrm Hmem]].
    rewrite Hrm in Hop. exists rm, (hremove key rm). split; auto. split.
    { cbn in Hop. destruct (has_key key rm); inversion Hop. reflexivity. }
    split.
    + intros k x Hin Hp. apply In_hremove in Hin. eapply Hmem; eauto.
    + intros k Hp. apply hget_hremove_other. apply prot_differs; auto.
Qed.

(* loading the op value only appends fresh nodes *)
Lemma extend_ok : forall h ext,
  Inv h -> ext_ok (length h) (length (h ++ ext)) ext ->
  Inv (h ++ ext) /\ Frame h (h ++ ext)
  /\ (forall r, (r < length h)%nat -> node_at (h ++ ext) r = node_at h r)
  /\ (forall v, vfresh (length h) (length (h ++ ext)) v -> okv (length (h ++ ext)) v).
Proof.
  intros h ext HI Hext.
  assert (Hold : forall r, (r < length h)%nat -> node_at (h ++ ext) r = node_at h r).
  { intros r Hr. unfold node_at. apply app_nth1. exact Hr. }
  assert (Hfresh : forall v, vfresh (length h) (length (h ++ ext)) v -> okv (length (h ++ ext)) v).
  { intros [| | |r] Hv; cbn in *; auto. destruct Hv as [Hlo Hhi]. repeat split; auto.
    - destruct (S r) eqn:E; auto. apply (inv_S_lt h HI) in E. lia.
    - pose proof (inv_root_lt h HI). lia. }
  assert (Hlen : (length h <= length (h ++ ext))%nat) by (rewrite app_length; lia).
  split; [|split; [|split; auto]].
  - constructor.
    + pose proof (inv_root_lt h HI). lia.
    + intros r Hr. apply (inv_S_lt h HI) in Hr. lia.
    + apply (inv_S_root h HI).
    + intros r HS Hne. destruct (Nat.lt_ge_cases r (length h)) as [Hr|Hr].
      * rewrite Hold by auto. eapply Forall_impl; [|apply (inv_nodes h HI r HS Hne)].
        intros a. apply okv_mono. exact Hlen.
      * unfold node_at. destruct (Nat.lt_ge_cases r (length (h ++ ext))) as [Hr2|Hr2].
        -- rewrite app_nth2 by lia.
           assert (Hin : In (nth (r - length h) ext CNilDoc) ext).
           { apply nth_In. rewrite app_length in Hr2. lia. }
           unfold ext_ok in Hext. eapply Forall_forall in Hext; [|exact Hin].
           eapply Forall_impl; [|exact Hext]. exact Hfresh.
        -- rewrite nth_overflow by lia. constructor.
    + destruct (inv_rootnode h HI) as [rm [Hrm Hmem]]. exists rm.
      rewrite Hold by apply (inv_root_lt h HI). split; auto.
      intros k v Hin Hp. eapply okv_mono; [exact Hlen|]. eapply Hmem; eauto.
  - split; [exact Hlen|]. split.
    + intros r Hr. apply Hold. apply (inv_S_lt h HI). exact Hr.
    + intros rm Hrm. exists rm. rewrite Hold by apply (inv_root_lt h HI). auto.
Qed.

Lemma value_node_ok : forall h o v h1,
  Inv h -> value_node o h = (v, h1) ->
  Inv h1 /\ Frame h h1 /\ okv (length h1) v
  /\ (forall r, (r < length h)%nat -> node_at h1 r = node_at h r).
Proof.
  intros h o v h1 HI H. unfold value_node in H.
  destruct (o_value o) as [j|].
  - destruct j; try (inversion H; subst; split; [auto|split; [apply Frame_refl|split; [exact I|auto]]]; fail).
    + apply load_spec in H. destruct H as [ext [He [Hv Hext]]]. subst h1.
      destruct (extend_ok h ext HI Hext) as [A [B [C D]]]. auto.
    + apply load_spec in H. destruct H as [ext [He [Hv Hext]]]. subst h1.
      destruct (extend_ok h ext HI Hext) as [A [B [C D]]]. auto.
  - inversion H. subst. split; [auto|split; [apply Frame_refl|split; [exact I|auto]]].
Qed.

(* ---------- operations ---------- *)

Definition op_unprot (o : op) : Prop :=
  unprot (o_path o) /\ ((kind_is o "move" || kind_is o "copy") = true -> unprot (o_from o)).

Lemma op_add_ok : forall h o h', Inv h -> unprot (o_path o) -> op_add h root o = ROk h' -> Inv h' /\ Frame h h'.
Proof.
  intros h o h' HI Hu H. unfold op_add in H.
  destruct (find_object h root (o_path o)) as [[r key]| | |] eqn:Ef; cbn [rbind] in H; try discriminate.
  destruct (value_node o h) as [v h1] eqn:Ev.
  destruct (c_add (node_at h1 r) key v) as [c| | |] eqn:Ec; cbn [rbind] in H; try discriminate.
  inversion H. subst h'. clear H.
  destruct (find_object_unprot h _ r key HI Hu Ef) as [HS [Hlt Hk]].
  destruct (value_node_ok h o v h1 HI Ev) as [HI1 [HF1 [Hv Hsame]]].
  assert (Hlt1 : (r < length h1)%nat) by (destruct HF1 as [L _]; lia).
  destruct (set_ok h1 r key v c HI1 HS Hlt1 Hk Hv (or_intror Ec)) as [A B].
  split; auto. eapply Frame_trans; eauto.
Qed.

Lemma op_remove_ok : forall h o h', Inv h -> unprot (o_path o) -> op_remove h root o = ROk h' -> Inv h' /\ Frame h h'.
Proof.
  intros h o h' HI Hu H. unfold op_remove in H.
  destruct (find_object h root (o_path o)) as [[r key]| | |] eqn:Ef; cbn [rbind] in H; try discriminate.
  destruct (c_remove (node_at h r) key) as [c| | |] eqn:Ec; cbn [rbind] in H; try discriminate.
  inversion H. subst h'. clear H.
  destruct (find_object_unprot h _ r key HI Hu Ef) as [HS [Hlt Hk]].
  eapply remove_ok; eauto.
Qed.

Lemma op_replace_ok : forall h o h', Inv h -> unprot (o_path o) -> op_replace h root o = ROk h' -> Inv h' /\ Frame h h'.
Proof.
  intros h o h' HI Hu H. unfold op_replace in H.
  destruct (find_object h root (o_path o)) as [[r key]| | |] eqn:Ef; cbn [rbind] in H; try discriminate.
  destruct (c_get (node_at h r) key) as [old| | |] eqn:Eg; cbn [rbind] in H; try discriminate.
  destruct (value_node o h) as [v h1] eqn:Ev.
  destruct (c_set (node_at h1 r) key v) as [c| | |] eqn:Ec; cbn [rbind] in H; try discriminate.
  inversion H. subst h'. clear H.
  destruct (find_object_unprot h _ r key HI Hu Ef) as [HS [Hlt Hk]].
  destruct (value_node_ok h o v h1 HI Ev) as [HI1 [HF1 [Hv Hsame]]].
  assert (Hlt1 : (r < length h1)%nat) by (destruct HF1 as [L _]; lia).
  destruct (set_ok h1 r key v c HI1 HS Hlt1 Hk Hv (or_introl Ec)) as [A B].
  split; auto. eapply Frame_trans; eauto.
Qed.

Lemma op_move_ok : forall h o h', Inv h -> unprot (o_path o) -> unprot (o_from o) ->
  op_move h root o = ROk h' -> Inv h' /\ Frame h h'.
Proof.
  intros h o h' HI Hu Hufrom H. unfold op_move in H.
  destruct (find_object h root (o_from o)) as [[r key]| | |] eqn:Ef; cbn [rbind] in H; try discriminate.
  destruct (c_get (node_at h r) key) as [v| | |] eqn:Eg; cbn [rbind] in H; try discriminate.
  destruct (c_remove (node_at h r) key) as [c| | |] eqn:Ec; cbn [rbind] in H; try discriminate.
  destruct (find_object (put h r c) root (o_path o)) as [[r2 key2]| | |] eqn:Ef2; cbn [rbind] in H; try discriminate.
  destruct (c_set (node_at (put h r c) r2) key2 v) as [c2| | |] eqn:Ec2; cbn [rbind] in H; try discriminate.
  inversion H. subst h'. clear H.
  destruct (find_object_unprot h _ r key HI Hufrom Ef) as [HS [Hlt Hk]].
  pose proof (get_okv h r key v HI HS Hk Eg) as Hv.
  destruct (remove_ok h r key c HI HS Hlt Hk Ec) as [HI1 HF1].
  destruct (find_object_unprot _ _ r2 key2 HI1 Hu Ef2) as [HS2 [Hlt2 Hk2]].
  rewrite <- (length_put h r c) in Hv.
  destruct (set_ok _ r2 key2 v c2 HI1 HS2 Hlt2 Hk2 Hv (or_introl Ec2)) as [A B].
  split; auto. eapply Frame_trans; eauto.
Qed.

Lemma op_copy_ok : forall h o h', Inv h -> unprot (o_path o) -> unprot (o_from o) ->
  op_copy h root o = ROk h' -> Inv h' /\ Frame h h'.
Proof.
  intros h o h' HI Hu Hufrom H. unfold op_copy in H.
  destruct (find_object h root (o_from o)) as [[r key]| | |] eqn:Ef; cbn [rbind] in H; try discriminate.
  destruct (c_get (node_at h r) key) as [v| | |] eqn:Eg; cbn [rbind] in H; try discriminate.
  destruct (find_object h root (o_path o)) as [[r2 key2]| | |] eqn:Ef2; cbn [rbind] in H; try discriminate.
  destruct (c_set (node_at h r2) key2 v) as [c2| | |] eqn:Ec2; cbn [rbind] in H; try discriminate.
  inversion H. subst h'. clear H.
  destruct (find_object_unprot h _ r key HI Hufrom Ef) as [HS [Hlt Hk]].
  pose proof (get_okv h r key v HI HS Hk Eg) as Hv.
  destruct (find_object_unprot _ _ r2 key2 HI Hu Ef2) as [HS2 [Hlt2 Hk2]].
  eapply set_ok; eauto.
Qed.

Lemma op_test_same : forall h o h', op_test h root o = ROk h' -> h' = h.
Proof.
  intros h o h' H. unfold op_test in H.
  destruct (find_object h root (o_path o)) as [[r key]| | |]; cbn [rbind] in H; try discriminate.
  destruct (c_get (node_at h r) key) as [v| | |]; cbn [rbind] in H; try discriminate.
  destruct (o_value o) as [ov|].
  - destruct v.
    + destruct ov; try discriminate; inversion H; reflexivity.
    + destruct (hequal h HRawNil ov true); try discriminate; inversion H; reflexivity.
    + destruct (hequal h (HScalar j) ov true); try discriminate; inversion H; reflexivity.
    + destruct (hequal h (HRef r0) ov true); try discriminate; inversion H; reflexivity.
  - destruct v; discriminate.
Qed.

Lemma apply_op_ok : forall h o h', Inv h -> op_unprot o -> apply_op h root o = ROk h' -> Inv h' /\ Frame h h'.
Proof.
  intros h o h' HI [Hp Hf] H. unfold apply_op in H.
  destruct (kind_is o "add"); [eapply op_add_ok; eauto|].
  destruct (kind_is o "remove"); [eapply op_remove_ok; eauto|].
  destruct (kind_is o "replace"); [eapply op_replace_ok; eauto|].
  destruct (kind_is o "move") eqn:Em; [eapply op_move_ok; eauto|].
  destruct (kind_is o "test"); [apply op_test_same in H; subst; split; [auto|apply Frame_refl]|].
  destruct (kind_is o "copy") eqn:Ec; [eapply op_copy_ok; eauto|].
  discriminate.
Qed.

Theorem apply_ops_frame : forall os h h',
  Inv h -> Forall op_unprot os -> apply_ops h root os = ROk h' -> Inv h' /\ Frame h h'.
Proof.
  induction os as [|o os IH]; intros h h' HI HF H.
  - cbn in H. inversion H. subst. split; [auto|apply Frame_refl].
  - inversion HF as [|o' os' Ho Hos]. subst.
    cbn [apply_ops] in H. destruct (apply_op h root o) as [h1| | |] eqn:E1; cbn [rbind] in H; try discriminate.
    destruct (apply_op_ok h o h1 HI Ho E1) as [HI1 HF1].
    destruct (IH h1 h' HI1 Hos H) as [A B]. split; auto. eapply Frame_trans; eauto.
Qed.

(* ---------- the protected part marshals to the same JSON ---------- *)

Definition vprot (v : hval) : Prop := match v with HRef r => S r = true | _ => True end.
Definition closed (h : heap) : Prop := forall r, S r = true -> Forall vprot (children (node_at h r)).

Lemma unfold_frame : forall h h', closed h -> (forall r, S r = true -> node_at h' r = node_at h r) ->
  forall f v, vprot v -> unfold f h' v = unfold f h v.
Proof.
  intros h h' Hcl Hsame. induction f as [|f IH]; intros v Hv.
  - destruct v; reflexivity.
  - destruct v as [| | j | r]; try reflexivity.
    cbn in Hv. cbn [unfold]. rewrite (Hsame r Hv).
    pose proof (Hcl r Hv) as Hch.
    destruct (node_at h r) as [m|l|]; [| |reflexivity].
    + cbn [children] in Hch.
      assert (E : forall m, Forall vprot (map snd m) ->
        (fix go (m : list (bytes * hval)) : option (list (bytes * json)) :=
           match m with
           | [] => Some []
           | (k, x) :: rest => match unfold f h' x, go rest with Some j, Some js => Some ((k, j) :: js) | _, _ => None end
           end) m =
        (fix go (m : list (bytes * hval)) : option (list (bytes * json)) :=
           match m with
           | [] => Some []
           | (k, x) :: rest => match unfold f h x, go rest with Some j, Some js => Some ((k, j) :: js) | _, _ => None end
           end) m).
      { induction m0 as [|[k x] m0 IHm]; intros HF; [reflexivity|].
        cbn [map snd] in HF. inversion HF as [|a b Hx Hr]. subst.
        rewrite (IH x Hx). rewrite (IHm Hr). reflexivity. }
      rewrite (E m Hch). reflexivity.
    + cbn [children] in Hch.
      assert (E : forall l, Forall vprot l ->
        (fix go (l : list hval) : option (list json) :=
           match l with
           | [] => Some []
           | x :: rest => match unfold f h' x, go rest with Some j, Some js => Some (j :: js) | _, _ => None end
           end) l =
        (fix go (l : list hval) : option (list json) :=
           match l with
           | [] => Some []
           | x :: rest => match unfold f h x, go rest with Some j, Some js => Some (j :: js) | _, _ => None end
           end) l).
      { induction l0 as [|x l0 IHl]; intros HF; [reflexivity|].
        inversion HF as [|a b Hx Hr]. subst.
        rewrite (IH x Hx). rewrite (IHl Hr). reflexivity. }
      rewrite (E l Hch). reflexivity.
Qed.

(* THEOREM jsonpatch_protects_partial (graph level; the JSON-level statement [jsonpatch_protects] is
   derived from it in section 5).
   If every operation's [path] - and, for move and copy, its [from] - has a first token that is not a
   protected name, then after a successful run every protected root member still holds the same slot
   content, no protected node was written, and so each protected member marshals to the same JSON. *)
Theorem jsonpatch_protects_partial : forall os h h',
  Inv h -> closed h -> Forall op_unprot os -> apply_ops h root os = ROk h' ->
  forall rm, node_at h root = CDoc rm ->
  exists rm', node_at h' root = CDoc rm'
    /\ forall k, prot k = true -> hget k rm' = hget k rm
       /\ forall f v, hget k rm = Some v -> vprot v -> unfold f h' v = unfold f h v.
Proof.
  intros os h h' HI Hcl HF H rm Hrm.
  destruct (apply_ops_frame os h h' HI HF H) as [_ [_ [Hsame Hroot]]].
  destruct (Hroot rm Hrm) as [rm' [Hrm' Hk]].
  exists rm'. split; auto. intros k Hp. split; auto.
  intros f v _ Hv. apply unfold_frame; auto.
Qed.

End Frame.

(* ---------- the hypotheses hold for a concrete document (non-vacuity) ---------- *)

Definition prot_sections (k : bytes) : bool := bytes_eqb k (bs "publicKey") || bytes_eqb k (bs "service").
Definition ex_heap : heap := match load_root doc_pk with Some (_, h) => h | None => [] end.
Definition ex_S (r : nat) : bool := (r <? 4)%nat.   (* nodes 0-3 are the two sections, 4 is the root *)

Example ex_inv : Inv prot_sections ex_S 4 ex_heap /\ closed ex_S ex_heap.
Proof.
  split.
  - constructor.
    + vm_compute. lia.
    + intros r H. unfold ex_S in H. apply Nat.ltb_lt in H. vm_compute. lia.
    + reflexivity.
    + intros r H Hne. unfold ex_S in H. apply Nat.ltb_ge in H.
      destruct r as [|[|[|[|[|r]]]]]; try lia. unfold node_at.
      rewrite nth_overflow; [constructor|]. change (length ex_heap) with 5%nat. lia.
    + eexists. split; [vm_compute; reflexivity|].
      intros k v [H|[H|[H|[]]]] Hp; inversion H; subst; try (vm_compute in Hp; discriminate). exact I.
  - intros r H. unfold ex_S in H. apply Nat.ltb_lt in H.
    destruct r as [|[|[|[|r]]]]; try lia; vm_compute; repeat constructor.
Qed.

Example ex_ops_unprot :
  match decode_patch (JArr [opj "add" "/x/y" [(bs "value", jn 1)]; opj "copy" "/z" [(bs "from", S_ "/x")]]) with
  | Some os => Forall (op_unprot prot_sections) os
  | None => False
  end.
Proof. vm_compute. repeat constructor; intros; discriminate. Qed.

(* ====================================================================================== *)
(* 5. from the graph-level frame theorem to the JSON-level statement                        *)
(* ====================================================================================== *)

(* the code's rule is a string prefix test: names that START WITH "service" / "publicKey" *)
Definition prot_prefix (k : bytes) : bool := has_prefix (bs "service") k || has_prefix (bs "publicKey") k.

(* ---------- 5a. accepted pointers are unprotected ---------- *)

Lemma has_prefix_trans : forall p x s, has_prefix p x = true -> has_prefix x s = true -> has_prefix p s = true.
Proof.
  induction p as [|a p IH]; intros x s H1 H2; [reflexivity|].
  destruct x as [|b x]; [discriminate|]. destruct s as [|c s]; [discriminate|].
  cbn in *. apply andb_true_iff in H1. destruct H1 as [E1 H1]. apply andb_true_iff in H2. destruct H2 as [E2 H2].
  apply byte_eqb_true in E1. apply byte_eqb_true in E2. subst.
  apply andb_true_iff. split; [apply Byte.byte_dec_lb; reflexivity|]. eapply IH; eauto.
Qed.

Lemma split_first_prefix : forall s, exists x xs, split_slash s = x :: xs /\ has_prefix x s = true.
Proof.
  induction s as [|c r IH].
  - exists [], []. split; reflexivity.
  - cbn [split_slash]. destruct (Byte.eqb c slash).
    + exists [], (split_slash r). split; reflexivity.
    + destruct IH as [x [xs [E H]]]. rewrite E. exists (c :: x), xs. split; [reflexivity|].
      cbn. rewrite H. rewrite andb_true_r. apply Byte.byte_dec_lb. reflexivity.
Qed.

Definition plain (p : bytes) : Prop := Forall (fun b => Byte.eqb b tilde = false /\ Byte.eqb b slash = false) p.

(* unescaping cannot create a "~"- and "/"-free prefix that was not there before *)
Lemma prefix_decode_key : forall p x, plain p -> has_prefix p (decode_key x) = true -> has_prefix p x = true.
Proof.
  induction p as [|a p IH]; intros x Hp H; [reflexivity|].
  inversion Hp as [|a' p' [Ha1 Ha2] Hp']. subst.
  destruct x as [|c [|d r]].
  - cbn in H. discriminate.
  - cbn in H. exact H.
  - cbn [decode_key] in H.
    destruct (Byte.eqb c tilde) eqn:Ec.
    + apply byte_eqb_true in Ec. subst c.
      destruct (Byte.eqb d "1"%byte).
      { cbn in H. apply andb_true_iff in H. destruct H as [E _]. apply byte_eqb_true in E. subst a.
        vm_compute in Ha2. discriminate. }
      destruct (Byte.eqb d "0"%byte).
      { cbn in H. apply andb_true_iff in H. destruct H as [E _]. apply byte_eqb_true in E. subst a.
        vm_compute in Ha1. discriminate. }
      cbn in H. apply andb_true_iff in H. destruct H as [E _]. apply byte_eqb_true in E. subst a.
      vm_compute in Ha1. discriminate.
    + cbn [has_prefix] in H. apply andb_true_iff in H. destruct H as [E H].
      cbn [has_prefix]. rewrite E. cbn. apply IH; auto.
Qed.

Lemma plain_service : plain (bs "service").
Proof. repeat constructor. Qed.
Lemma plain_publicKey : plain (bs "publicKey").
Proof. repeat constructor. Qed.

Lemma pointer_ok_unprot : forall s, pointer_ok (JStr s) = true -> unprot prot_prefix s.
Proof.
  intros s H. unfold pointer_ok in H. apply andb_true_iff in H. destruct H as [Hlead Hprot].
  apply negb_true_iff in Hprot. unfold protected_path in Hprot. apply orb_false_iff in Hprot.
  destruct Hprot as [Hs Hk].
  unfold unprot, decode_pointer.
  destruct s as [|c rest]; [exact I|].
  apply byte_eqb_true in Hlead. subst c.
  change (split_slash ("/"%byte :: rest)) with ([] :: split_slash rest).
  destruct (split_first_prefix rest) as [x [xs [E Hx]]]. rewrite E. cbn [map].
  unfold prot_prefix. apply orb_false_iff. split.
  - destruct (has_prefix (bs "service") (decode_key x)) eqn:Ep; [|reflexivity].
    apply prefix_decode_key in Ep; [|apply plain_service].
    pose proof (has_prefix_trans _ _ _ Ep Hx) as Ht.
    change (has_prefix (B "/service") ("/"%byte :: rest)) with (has_prefix (bs "service") rest) in Hs.
    rewrite Ht in Hs. discriminate.
  - destruct (has_prefix (bs "publicKey") (decode_key x)) eqn:Ep; [|reflexivity].
    apply prefix_decode_key in Ep; [|apply plain_publicKey].
    pose proof (has_prefix_trans _ _ _ Ep Hx) as Ht.
    change (has_prefix (B "/publicKey") ("/"%byte :: rest)) with (has_prefix (bs "publicKey") rest) in Hk.
    rewrite Ht in Hk. discriminate.
Qed.

Lemma unprot_unknown : unprot prot_prefix unknown_str.
Proof. exact I. Qed.

Lemma op_accepted_unprot : forall o,
  jsonpatch_op_out o = VAccept -> exists d, decode_op o = Some d /\ op_unprot prot_prefix d.
Proof.
  intros o H. unfold jsonpatch_op_out in H. destruct o as [| | | | |m]; try discriminate.
  destruct (jlast (B "path") m) as [pj|] eqn:Ep; [|discriminate].
  apply vbool_accept in H. apply andb_true_iff in H. destruct H as [Hp Hf].
  eexists. split; [reflexivity|]. unfold op_unprot. cbn [o_path o_from]. unfold str_member.
  change (bs "path") with (B "path"). change (bs "from") with (B "from"). rewrite Ep.
  destruct pj as [| | |s| |]; try discriminate.
  split; [apply pointer_ok_unprot; exact Hp|]. intros _.
  destruct (jlast (B "from") m) as [fj|]; [|apply unprot_unknown].
  destruct fj as [| | |f| |]; try discriminate. apply pointer_ok_unprot. exact Hf.
Qed.

Lemma ops_accepted_unprot : forall l,
  jsonpatch_ops_out l = VAccept -> exists os, decode_ops l = Some os /\ Forall (op_unprot prot_prefix) os.
Proof.
  induction l as [|o l IH]; intros H.
  - exists []. split; [reflexivity|constructor].
  - cbn [jsonpatch_ops_out] in H. destruct (jsonpatch_op_out o) eqn:Eo; cbn in H; try discriminate.
    destruct (op_accepted_unprot o Eo) as [d [Ed Hd]]. destruct (IH H) as [os [Eos Hos]].
    exists (d :: os). split; [cbn; rewrite Ed, Eos; reflexivity|constructor; auto].
Qed.

(* accepted by validateJSONPatches => every operation's path and from are unprotected *)
Lemma paths_ok_unprot : forall ops,
  jsonpatch_paths_ok ops = true -> exists os, decode_patch ops = Some os /\ Forall (op_unprot prot_prefix) os.
Proof.
  intros ops H. unfold jsonpatch_paths_ok, jsonpatch_paths_out in H.
  destruct ops as [| | | |l|]; try discriminate.
  - exists []. split; [reflexivity|constructor].
  - destruct (forallb _ l); [|discriminate].
    destruct (jsonpatch_ops_out l) eqn:E; try discriminate. apply ops_accepted_unprot. exact E.
Qed.

(* ---------- 5b. the loaded document satisfies the invariant ---------- *)

(* protected nodes of a freshly loaded root object: the heap is filled member by member, so the node
   ranges of the members form a partition; a node is protected iff the member that owns it is *)
Fixpoint Sfun (prot : bytes -> bool) (m : list (bytes * json)) (h : heap) (r : nat) : bool :=
  match m with
  | [] => false
  | (k, x) :: rest =>
    let '(_, h1) := load x h in
    if (r <? length h1)%nat then (length h <=? r)%nat && prot k else Sfun prot rest h1 r
  end.

Lemma load_members_cons : forall k x r h,
  load_members ((k, x) :: r) h =
  let '(v, h1) := load x h in let '(ms, h2) := load_members r h1 in
  (if has_key k ms then ms else (k, v) :: ms, h2).
Proof. reflexivity. Qed.

Definition same_status (prot : bytes -> bool) (m : list (bytes * json)) (h H : heap) (b : bool) (c : hval) : Prop :=
  match c with
  | HRef r' => (length h <= r' < length H)%nat /\ Sfun prot m h r' = b
  | _ => True
  end.

Lemma Sfun_spec : forall prot m h ms H,
  load_members m h = (ms, H) ->
  (exists e, H = h ++ e)
  /\ (forall r, (r < length h)%nat \/ (length H <= r)%nat -> Sfun prot m h r = false)
  /\ (forall r, (length h <= r < length H)%nat ->
        Forall (same_status prot m h H (Sfun prot m h r)) (children (node_at H r)))
  /\ (forall k v, In (k, v) ms -> same_status prot m h H (prot k) v).
Proof.
  intros prot. induction m as [|[k x] rest IH]; intros h ms H Hl.
  - cbn in Hl. inversion Hl. subst. split; [exists []; rewrite app_nil_r; reflexivity|].
    split; [reflexivity|]. split; [intros r Hr; lia|]. intros k v [].
  - rewrite load_members_cons in Hl.
    destruct (load x h) as [v0 h1] eqn:Ex. destruct (load_members rest h1) as [ms' H'] eqn:Er.
    inversion Hl as [[Hms HH]]. subst H'. clear Hl.
    destruct (load_spec x h v0 h1 Ex) as [e1 [He1 [Hv0 Hext1]]].
    destruct (IH h1 ms' H Er) as [[e2 He2] [P1 [P2 P3]]].
    assert (L1 : (length h <= length h1)%nat) by (subst h1; rewrite app_length; lia).
    assert (L2 : (length h1 <= length H)%nat) by (subst H; rewrite app_length; lia).
    assert (Sin : forall r, (length h <= r < length h1)%nat -> Sfun prot ((k, x) :: rest) h r = prot k).
    { intros r Hr. cbn [Sfun]. rewrite Ex.
      destruct (r <? length h1)%nat eqn:E1; [|apply Nat.ltb_ge in E1; lia].
      destruct (length h <=? r)%nat eqn:E2; [reflexivity|apply Nat.leb_gt in E2; lia]. }
    assert (Sout : forall r, (length h1 <= r)%nat -> Sfun prot ((k, x) :: rest) h r = Sfun prot rest h1 r).
    { intros r Hr. cbn [Sfun]. rewrite Ex.
      destruct (r <? length h1)%nat eqn:E1; [apply Nat.ltb_lt in E1; lia|reflexivity]. }
    split; [exists (e1 ++ e2); subst H h1; rewrite app_assoc; reflexivity|].
    split; [|split].
    + intros r [Hr|Hr].
      * cbn [Sfun]. rewrite Ex. destruct (r <? length h1)%nat eqn:E1; [|apply Nat.ltb_ge in E1; lia].
        destruct (length h <=? r)%nat eqn:E2; [apply Nat.leb_le in E2; lia|reflexivity].
      * rewrite Sout by lia. apply P1. right. exact Hr.
    + intros r Hr. destruct (Nat.lt_ge_cases r (length h1)) as [Hlt|Hge].
      * (* a node of this member: its children are in the same range *)
        rewrite Sin by lia.
        assert (Hnode : node_at H r = nth (r - length h) e1 CNilDoc).
        { unfold node_at. subst H. rewrite app_nth1 by lia. subst h1. rewrite app_nth2 by lia. reflexivity. }
        rewrite Hnode.
        assert (Hin : In (nth (r - length h) e1 CNilDoc) e1).
        { apply nth_In. subst h1. rewrite app_length in Hlt. lia. }
        unfold ext_ok in Hext1. eapply Forall_forall in Hext1; [|exact Hin].
        eapply Forall_impl; [|exact Hext1]. intros c Hc. destruct c as [| | |r']; cbn [same_status vfresh okv vprot]; auto.
        cbn [same_status vfresh okv vprot] in Hc. split; [lia|]. apply Sin. lia.
      * rewrite Sout by lia.
        eapply Forall_impl; [|apply (P2 r); lia]. intros c Hc. destruct c as [| | |r']; cbn [same_status vfresh okv vprot]; auto.
        cbn [same_status vfresh okv vprot] in Hc. destruct Hc as [Hb Hs]. split; [lia|]. rewrite Sout by lia. exact Hs.
    + intros k' v' Hin.
      assert (Hcase : (k' = k /\ v' = v0) \/ In (k', v') ms').
      { destruct (has_key k ms'); [right; exact Hin|].
        destruct Hin as [E|Hin]; [inversion E; auto|auto]. }
      destruct Hcase as [[Ek Ev]|Hin'].
      * subst k' v'. destruct v0 as [| | |r']; cbn [same_status vfresh okv vprot]; auto. cbn [same_status vfresh okv vprot] in Hv0. split; [lia|]. apply Sin. exact Hv0.
      * pose proof (P3 k' v' Hin') as Hs. destruct v' as [| | |r']; cbn [same_status vfresh okv vprot]; auto.
        cbn [same_status vfresh okv vprot] in Hs. destruct Hs as [Hb Hs]. split; [lia|]. rewrite Sout by lia. exact Hs.
Qed.

(* the root object loaded by jp_apply *)
Lemma load_root_obj : forall m,
  exists ms H, load_members m [] = (ms, H) /\ load_root (JObj m) = Some (length H, H ++ [CDoc ms]).
Proof.
  intros m. destruct (load_members m []) as [ms H] eqn:E. exists ms, H. split; [reflexivity|].
  unfold load_root. rewrite load_obj_eq. rewrite E. reflexivity.
Qed.

Lemma node_at_app_old : forall (h e : heap) r, (r < length h)%nat -> node_at (h ++ e) r = node_at h r.
Proof. intros. unfold node_at. apply app_nth1. auto. Qed.

Lemma node_at_app_last : forall (h : heap) c, node_at (h ++ [c]) (length h) = c.
Proof. intros. unfold node_at. rewrite app_nth2 by lia. rewrite Nat.sub_diag. reflexivity. Qed.

Lemma loaded_root_inv : forall prot m ms H,
  load_members m [] = (ms, H) ->
  let St := Sfun prot m [] in
  let h0 := H ++ [CDoc ms] in
  Inv prot St (length H) h0 /\ closed St h0
  /\ (forall k v, In (k, v) ms -> prot k = true -> vprot St v).
Proof.
  intros prot m ms H Hl St h0.
  destruct (Sfun_spec prot m [] ms H Hl) as [_ [P1 [P2 P3]]]. cbn [length] in *.
  assert (Hlen : length (H ++ [CDoc ms]) = S (length H)) by (rewrite app_length; cbn; lia).
  unfold h0 in *. clear h0.
  split; [|split].
  - constructor.
    + lia.
    + intros r Hr. destruct (Nat.lt_ge_cases r (length H)) as [Hlt|Hge]; [lia|].
      unfold St in Hr. rewrite P1 in Hr by (right; exact Hge). discriminate.
    + apply P1. right. lia.
    + intros r HS Hne. destruct (Nat.lt_ge_cases r (length H)) as [Hlt|Hge].
      * rewrite node_at_app_old by exact Hlt.
        eapply Forall_impl; [|apply (P2 r); lia]. intros c Hc. destruct c as [| | |r']; cbn [same_status vfresh okv vprot]; auto.
        cbn [same_status vfresh okv vprot] in Hc. destruct Hc as [Hb Hs]. cbn [length] in Hb. split; [unfold St in *; rewrite Hs; exact HS|]. split; lia.
      * unfold node_at. rewrite nth_overflow; [constructor|]. rewrite app_length. cbn. lia.
    + exists ms. split; [apply node_at_app_last|].
      intros k v Hin Hp. pose proof (P3 k v Hin) as Hs. destruct v as [| | |r']; cbn [same_status vfresh okv vprot]; auto.
      cbn [same_status vfresh okv vprot] in Hs. destruct Hs as [Hb Hs]. cbn [length] in Hb. rewrite Hp in Hs.
      split; [exact Hs|]. split; lia.
  - intros r Hr. destruct (Nat.lt_ge_cases r (length H)) as [Hlt|Hge].
    + rewrite node_at_app_old by exact Hlt.
      eapply Forall_impl; [|apply (P2 r); lia]. intros c Hc. destruct c as [| | |r']; cbn [same_status vfresh okv vprot]; auto.
      cbn [same_status vfresh okv vprot] in Hc. destruct Hc as [_ Hs]. fold St in Hs. rewrite Hr in Hs. exact Hs.
    + unfold St in Hr. rewrite P1 in Hr by (right; exact Hge). discriminate.
  - intros k v Hin Hp. pose proof (P3 k v Hin) as Hs. destruct v as [| | |r']; cbn [same_status vfresh okv vprot]; auto.
    cbn [same_status vfresh okv vprot] in Hs. destruct Hs as [_ Hs]. rewrite Hp in Hs. exact Hs.
Qed.

(* ---------- 5c. marshalling a loaded value gives the value back ---------- *)

(* member names pairwise distinct in every object (what Go-decoded documents satisfy) *)
Fixpoint wf (j : json) : bool :=
  match j with
  | JArr l => (fix go (l : list json) : bool := match l with [] => true | x :: r => wf x && go r end) l
  | JObj m => nodup_bytes (map fst m)
              && (fix go (m : list (bytes * json)) : bool :=
                    match m with [] => true | (_, x) :: r => wf x && go r end) m
  | _ => true
  end.

Definition wf_list := fix go (l : list json) : bool := match l with [] => true | x :: r => wf x && go r end.
Definition wf_members := fix go (m : list (bytes * json)) : bool :=
  match m with [] => true | (_, x) :: r => wf x && go r end.

Lemma wf_arr : forall l, wf (JArr l) = wf_list l.
Proof. reflexivity. Qed.
Lemma wf_obj : forall m, wf (JObj m) = nodup_bytes (map fst m) && wf_members m.
Proof. reflexivity. Qed.

Definition unfold_members (f : nat) (h : heap) :=
  fix go (m : list (bytes * hval)) : option (list (bytes * json)) :=
    match m with
    | [] => Some []
    | (k, x) :: rest =>
      match unfold f h x, go rest with
      | Some j, Some js => Some ((k, j) :: js)
      | _, _ => None
      end
    end.

Definition unfold_list (f : nat) (h : heap) :=
  fix go (l : list hval) : option (list json) :=
    match l with
    | [] => Some []
    | x :: rest =>
      match unfold f h x, go rest with
      | Some j, Some js => Some (j :: js)
      | _, _ => None
      end
    end.

Lemma unfold_ref : forall f h r,
  unfold (S f) h (HRef r) =
  match node_at h r with
  | CNilDoc => Some JNull
  | CDoc m => match unfold_members f h m with Some js => Some (JObj js) | None => None end
  | CAry l => match unfold_list f h l with Some js => Some (JArr js) | None => None end
  end.
Proof. reflexivity. Qed.

Definition extends (h H : heap) : Prop := exists e, H = h ++ e.

Lemma extends_trans : forall a b c, extends a b -> extends b c -> extends a c.
Proof. intros a b c [e1 E1] [e2 E2]. exists (e1 ++ e2). subst. rewrite app_assoc. reflexivity. Qed.

Lemma extends_len : forall a b, extends a b -> (length a <= length b)%nat.
Proof. intros a b [e E]. subst. rewrite app_length. lia. Qed.

Definition RT (j : json) : Prop :=
  wf j = true -> forall h v h1, load j h = (v, h1) ->
  forall H f, extends h1 H -> (length h1 <= f)%nat -> unfold f H v = Some j.

Lemma has_key_mem : forall A k (m : list (bytes * A)), has_key k m = mem_bytes k (map fst m).
Proof. induction m as [|[k' x] m IH]; cbn; [reflexivity|]. rewrite IH. reflexivity. Qed.

(* names of the loaded members are names of the source members *)
Lemma load_members_keys : forall m h ms H k,
  load_members m h = (ms, H) -> has_key k ms = true -> has_key k m = true.
Proof.
  induction m as [|[k0 x] rest IH]; intros h ms H k Hl Hk.
  - cbn in Hl. inversion Hl. subst. discriminate.
  - rewrite load_members_cons in Hl. destruct (load x h) as [v0 h1]. destruct (load_members rest h1) as [ms' H'] eqn:Er.
    inversion Hl. subst. cbn [has_key].
    destruct (has_key k0 ms') eqn:E0.
    + apply orb_true_iff. right. eapply IH; eauto.
    + cbn [has_key] in Hk. apply orb_true_iff in Hk. apply orb_true_iff. destruct Hk as [Hk|Hk]; [left; exact Hk|right; eapply IH; eauto].
Qed.

Lemma RT_list : forall l, Forall RT l -> wf_list l = true ->
  forall h vs ha, load_list l h = (vs, ha) ->
  forall H f, extends ha H -> (length ha <= f)%nat -> unfold_list f H vs = Some l.
Proof.
  induction l as [|x r IH]; intros HF Hwf h vs ha Hl H f Hext Hf.
  - cbn in Hl. inversion Hl. reflexivity.
  - inversion HF as [|x' r' Hx Hr]. subst.
    cbn [wf_list] in Hwf. apply andb_true_iff in Hwf. destruct Hwf as [Wx Wr].
    cbn [load_list] in Hl. destruct (load x h) as [v hb] eqn:Ea.
    fold load_list in Hl. destruct (load_list r hb) as [vs' hc] eqn:Eb.
    inversion Hl. subst vs ha. clear Hl.
    assert (Hbc : extends hb hc).
    { assert (HFok : Forall load_ok r) by (apply Forall_forall; intros; apply load_spec).
      destruct (load_list_ok r HFok hb vs' hc Eb) as [e [He _]]. exists e. exact He. }
    cbn [unfold_list].
    rewrite (Hx Wx h v hb Ea H f (extends_trans _ _ _ Hbc Hext)) by (pose proof (extends_len _ _ Hbc); lia).
    fold (unfold_list f H). rewrite (IH Hr Wr hb vs' hc Eb H f Hext Hf). reflexivity.
Qed.

Lemma RT_members : forall m, Forall (fun kv => RT (snd kv)) m ->
  nodup_bytes (map fst m) = true -> wf_members m = true ->
  forall h ms ha, load_members m h = (ms, ha) ->
  forall H f, extends ha H -> (length ha <= f)%nat -> unfold_members f H ms = Some m.
Proof.
  induction m as [|[k x] r IH]; intros HF Hnd Hwf h ms ha Hl H f Hext Hf.
  - cbn in Hl. inversion Hl. reflexivity.
  - inversion HF as [|x' r' Hx Hr]. subst. cbn [snd] in Hx.
    cbn [wf_members] in Hwf. apply andb_true_iff in Hwf. destruct Hwf as [Wx Wr].
    cbn [map fst nodup_bytes] in Hnd. apply andb_true_iff in Hnd. destruct Hnd as [Hk Hnd].
    apply negb_true_iff in Hk.
    rewrite load_members_cons in Hl. destruct (load x h) as [v hb] eqn:Ea.
    destruct (load_members r hb) as [ms' hc] eqn:Eb.
    assert (Hnk : has_key k ms' = false).
    { destruct (has_key k ms') eqn:E; [|reflexivity].
      apply (load_members_keys r hb ms' hc k Eb) in E. rewrite has_key_mem in E. rewrite E in Hk. discriminate. }
    rewrite Hnk in Hl. inversion Hl. subst ms ha. clear Hl.
    assert (Hbc : extends hb hc).
    { assert (HFok : Forall (fun kv => load_ok (snd kv)) r) by (apply Forall_forall; intros; apply load_spec).
      destruct (load_members_ok r HFok hb ms' hc Eb) as [e [He _]]. exists e. exact He. }
    cbn [unfold_members].
    rewrite (Hx Wx h v hb Ea H f (extends_trans _ _ _ Hbc Hext)) by (pose proof (extends_len _ _ Hbc); lia).
    fold (unfold_members f H). rewrite (IH Hr Hnd Wr hb ms' hc Eb H f Hext Hf). reflexivity.
Qed.

Lemma node_at_extends_last : forall ha c H, extends (ha ++ [c]) H -> node_at H (length ha) = c.
Proof.
  intros ha c H [e E]. subst. unfold node_at. rewrite app_nth1 by (rewrite app_length; cbn; lia).
  rewrite app_nth2 by lia. rewrite Nat.sub_diag. reflexivity.
Qed.

Lemma extends_drop_last : forall ha (c : cnode) H, extends (ha ++ [c]) H -> extends ha H.
Proof. intros ha c H [e E]. exists ([c] ++ e). subst. rewrite app_assoc. reflexivity. Qed.

Lemma RT_all : forall j, RT j.
Proof.
  apply json_rect'; unfold RT.
  - intros _ h v h1 Hl H f _ _. cbn in Hl. inversion Hl. destruct f; reflexivity.
  - intros b _ h v h1 Hl H f _ _. cbn in Hl. inversion Hl. destruct f; reflexivity.
  - intros n _ h v h1 Hl H f _ _. cbn in Hl. inversion Hl. destruct f; reflexivity.
  - intros s _ h v h1 Hl H f _ _. cbn in Hl. inversion Hl. destruct f; reflexivity.
  - intros l HF Hwf h v h1 Hl H f Hext Hf. rewrite wf_arr in Hwf. rewrite load_arr_eq in Hl.
    destruct (load_list l h) as [vs ha] eqn:Ea. inversion Hl. subst v h1. clear Hl.
    rewrite app_length in Hf. cbn [length] in Hf.
    destruct f as [|f]; [lia|]. rewrite unfold_ref. rewrite (node_at_extends_last ha _ H Hext).
    rewrite (RT_list l HF Hwf h vs ha Ea H f (extends_drop_last _ _ _ Hext)) by lia. reflexivity.
  - intros m HF Hwf h v h1 Hl H f Hext Hf. rewrite wf_obj in Hwf. apply andb_true_iff in Hwf.
    destruct Hwf as [Hnd Hwm]. rewrite load_obj_eq in Hl.
    destruct (load_members m h) as [ms ha] eqn:Ea. inversion Hl. subst v h1. clear Hl.
    rewrite app_length in Hf. cbn [length] in Hf.
    destruct f as [|f]; [lia|]. rewrite unfold_ref. rewrite (node_at_extends_last ha _ H Hext).
    rewrite (RT_members m HF Hnd Hwm h ms ha Ea H f (extends_drop_last _ _ _ Hext)) by lia. reflexivity.
Qed.

(* lookup commutes with marshalling the members *)
Lemma jget_unfold_members : forall f h rm js k,
  unfold_members f h rm = Some js ->
  jget k js = match hget k rm with Some v => unfold f h v | None => None end.
Proof.
  induction rm as [|[k0 v0] rm IH]; intros js k Hu.
  - cbn in Hu. inversion Hu. reflexivity.
  - cbn [unfold_members] in Hu. destruct (unfold f h v0) as [j0|] eqn:E0; [|discriminate].
    fold (unfold_members f h) in Hu. destruct (unfold_members f h rm) as [js'|] eqn:Er; [|discriminate].
    inversion Hu. subst js. cbn [jget hget]. destruct (bytes_eqb k k0); [symmetry; exact E0|].
    apply IH. reflexivity.
Qed.

(* ---------- 5d. the JSON-level theorem ---------- *)

Definition jfield (k : bytes) (d : json) : option json := match d with JObj m => jget k m | _ => None end.

(* THEOREM jsonpatch_protects.
   Hypotheses: the document is a JSON object whose objects have pairwise distinct member names ([wf],
   true of every document the composer passes, since it comes from a Go map); the operation list was
   accepted by the (repaired) validateJSONPatches; the library returned a document.
   Conclusion: every root member whose name starts with "service" or "publicKey" - in particular the
   members "publicKey" and "service" - is present/absent as before and has the same value. *)
Theorem jsonpatch_protects_prefix : forall ops m d' k,
  wf (JObj m) = true -> jsonpatch_paths_ok ops = true -> jp_apply ops (JObj m) = Ok d' ->
  prot_prefix k = true -> jfield k d' = jget k m.
Proof.
  intros ops m d' k Hwf Hok Happ Hk.
  destruct (paths_ok_unprot ops Hok) as [os [Hdec Hun]].
  destruct (load_root_obj m) as [ms [H [Hl Hroot]]].
  unfold jp_apply in Happ. rewrite Hdec, Hroot in Happ.
  destruct (apply_ops (H ++ [CDoc ms]) (length H) os) as [h'| | |] eqn:Eops; try discriminate.
  destruct (unfold (S (length h')) h' (HRef (length H))) as [j|] eqn:Eun; [|discriminate].
  inversion Happ. subst j. clear Happ.
  destruct (loaded_root_inv prot_prefix m ms H Hl) as [HI [Hcl Hvp]].
  destruct (apply_ops_frame prot_prefix _ _ os _ h' HI Hun Eops) as [_ [Hlen [Hsame Hrootf]]].
  destruct (Hrootf ms (node_at_app_last H (CDoc ms))) as [rm' [Hrm' Hslots]].
  rewrite unfold_ref in Eun. rewrite Hrm' in Eun.
  destruct (unfold_members (length h') h' rm') as [js|] eqn:Ejs; [|discriminate].
  inversion Eun. subst d'. clear Eun. cbn [jfield].
  rewrite (jget_unfold_members _ _ _ _ k Ejs). rewrite (Hslots k Hk).
  (* the source side *)
  rewrite wf_obj in Hwf. apply andb_true_iff in Hwf. destruct Hwf as [Hnd Hwm].
  assert (Hext0 : extends H (H ++ [CDoc ms])) by (exists [CDoc ms]; reflexivity).
  assert (Hf : (length H <= length h')%nat).
  { rewrite app_length in Hlen. lia. }
  assert (HRT : unfold_members (length h') (H ++ [CDoc ms]) ms = Some m).
  { apply (RT_members m) with (h := []) (ha := H); auto.
    apply Forall_forall. intros kv _. apply RT_all. }
  rewrite (jget_unfold_members _ _ _ _ k HRT).
  destruct (hget k ms) as [v|] eqn:Ev; [|reflexivity].
  apply (unfold_frame (Sfun prot_prefix m []) _ h' Hcl Hsame).
  apply (Hvp k v); [apply hget_In; exact Ev|exact Hk].
Qed.

(* the statement asked for: the two sections are untouched *)
Corollary jsonpatch_protects : forall ops m d',
  wf (JObj m) = true -> jsonpatch_paths_ok ops = true -> jp_apply ops (JObj m) = Ok d' ->
  jmember "publicKey" d' = jget (bs "publicKey") m /\ jmember "service" d' = jget (bs "service") m.
Proof.
  intros ops m d' Hwf Hok Happ. split.
  - apply (jsonpatch_protects_prefix ops m d' (bs "publicKey") Hwf Hok Happ). reflexivity.
  - apply (jsonpatch_protects_prefix ops m d' (bs "service") Hwf Hok Happ). reflexivity.
Qed.

(* the composer-level outcome returns the same documents *)
Corollary apply_json_protects : forall ops m d',
  wf (JObj m) = true -> jsonpatch_paths_ok ops = true -> apply_json_outcome ops (JObj m) = Ok d' ->
  jmember "publicKey" d' = jget (bs "publicKey") m /\ jmember "service" d' = jget (bs "service") m.
Proof.
  intros ops m d' Hwf Hok Happ. apply (jsonpatch_protects ops m d' Hwf Hok).
  unfold apply_json_outcome in Happ. destruct (jp_apply ops (JObj m)); try discriminate. exact Happ.
Qed.

(* hypotheses are satisfiable and the conclusion is not trivial: an accepted list that rewrites the rest *)
Example jsonpatch_protects_nonvacuous :
  let ops := JArr [opj "add" "/x" [(bs "value", JObj [(bs "publicKey", jn 7)])];
                   opj "copy" "/y" [(bs "from", S_ "/x")]; opj "remove" "/x/publicKey" []] in
  wf doc_pk = true /\ jsonpatch_paths_ok ops = true
  /\ jp_apply ops doc_pk = Ok (JObj [(bs "publicKey", JArr [JObj [(bs "id", S_ "k1")]]);
                                     (bs "service", JArr [JObj [(bs "id", S_ "s1")]]);
                                     (bs "x", JObj []); (bs "y", JObj [])]).
Proof. repeat split; vm_compute; reflexivity. Qed.

(* ====================================================================================== *)
(* 6. where Fatal (unrecoverable) outcomes come from                                       *)
(* ====================================================================================== *)

(* [jp_apply] yields Fatal in exactly two places: a container write that returns RFatal, or the final
   marshal of a graph in which a container is reachable from itself.  Of the container methods only
   [c_set] (the destination write of copy and move; replace reaches it only for an existing index)
   can return RFatal, and exactly for an array index far behind the end: *)
Lemma c_set_fatal : forall c k v,
  c_set c k v = RFatal <->
  exists l idx, c = CAry l /\ is_dash k = false /\ atoi k = Some idx
                /\ (idx - zlen l > pad_limit)%Z /\ (idx < makeslice_limit)%Z.
Proof.
  intros c k v. split.
  - destruct c as [m|l|]; cbn; try discriminate.
    destruct (is_dash k) eqn:Ed; [discriminate|].
    destruct (atoi k) as [idx|] eqn:Ea; [|discriminate].
    destruct (idx =? max_int)%Z; [discriminate|].
    destruct (idx <? 0)%Z; [discriminate|].
    destruct (idx <? zlen l)%Z; [discriminate|].
    destruct (idx >=? makeslice_limit)%Z eqn:Em; [discriminate|].
    destruct (idx - zlen l >? pad_limit)%Z eqn:Ep; [|discriminate].
    intros _. exists l, idx. repeat split; auto; lia.
  - intros [l [idx [Hc [Hd [Ha [Hp Hm]]]]]]. subst c. cbn. rewrite Hd, Ha.
    assert (Hpl : (pad_limit = 65536)%Z) by reflexivity.
    assert (Hml : (makeslice_limit = 35184372088832)%Z) by reflexivity.
    assert (Hmi : (max_int = 9223372036854775807)%Z) by reflexivity.
    assert (Hz : (0 <= zlen l)%Z) by (unfold zlen; lia).
    destruct (idx =? max_int)%Z eqn:E1; [lia|].
    destruct (idx <? 0)%Z eqn:E2; [lia|].
    destruct (idx <? zlen l)%Z eqn:E3; [lia|].
    destruct (idx >=? makeslice_limit)%Z eqn:E4; [lia|].
    destruct (idx - zlen l >? pad_limit)%Z eqn:E5; [reflexivity|lia].
Qed.

Lemma c_add_not_fatal : forall c k v, c_add c k v <> RFatal.
Proof.
  intros [m|l|] k v; cbn; try discriminate.
  destruct (is_dash k); [discriminate|]. destruct (atoi k); [|discriminate].
  destruct (_ >=? _)%Z; [discriminate|]. destruct (_ <? _)%Z; discriminate.
Qed.

Lemma c_remove_not_fatal : forall c k, c_remove c k <> RFatal.
Proof.
  intros [m|l|] k; cbn; try discriminate.
  - destruct (has_key k m); discriminate.
  - destruct (atoi k); [|discriminate].
    destruct (_ >=? _)%Z; [discriminate|]. destruct (_ <? _)%Z; discriminate.
Qed.

Lemma c_get_not_fatal : forall c k, c_get c k <> RFatal.
Proof.
  intros [m|l|] k; cbn; try discriminate.
  destruct (atoi k); [|discriminate].
  destruct (_ >=? _)%Z; [discriminate|]. destruct (_ <? _)%Z; discriminate.
Qed.

(* accepted by the repaired validation, still fatal when applied (known findings, confirmed on the real
   composer in a child process): *)
Example fatal_cycle_accepted :
  let ops := JArr [opj "copy" "/a/-" [(bs "from", S_ "/a")]] in
  jsonpatch_paths_ok ops = true /\ apply_json_outcome ops doc_a12 = Fatal.
Proof. split; vm_compute; reflexivity. Qed.

Example fatal_cycle_via_alias_accepted :
  let ops := JArr [opj "copy" "/b" [(bs "from", S_ "/a")]; opj "move" "/b/c" [(bs "from", S_ "/a")]] in
  jsonpatch_paths_ok ops = true /\ apply_json_outcome ops (JObj [(bs "a", JObj [(bs "x", jn 1)])]) = Fatal.
Proof. split; vm_compute; reflexivity. Qed.

Example fatal_far_index_accepted :
  let ops := JArr [opj "copy" "/a/99999999999" [(bs "from", S_ "/a/0")]] in
  jsonpatch_paths_ok ops = true /\ apply_json_outcome ops doc_a12 = Fatal.
Proof. split; vm_compute; reflexivity. Qed.

(* the recoverable panics are errors at the composer level *)
Example panics_become_errors :
  apply_json_outcome (JArr [opj "replace" "/a/-1" [(bs "value", jn 9)]]) doc_a12 = Err
  /\ apply_json_outcome (JArr [opj "test" "/zz" []]) (JObj []) = Err
  /\ apply_json_outcome (JArr [opj "copy" "/a/9223372036854775806" [(bs "from", S_ "/a/0")]]) doc_a12 = Err.
Proof. repeat split; vm_compute; reflexivity. Qed.
