(* DID document transformer (property C19, first half): model of
     pkg/versions/1_0/doctransformer/didtransformer/transformer.go  (Transformer.TransformDocument)
     pkg/versions/1_0/doctransformer/doctransformer/transformer.go  (generic Transformer.TransformDocument)
   on top of the accessors of pkg/document.  Definitions only.
   The records tinfo / topts / rmodel are defined in Doc/Metadata.v and re-exported here.

   The result is the JSON image of *document.ResolutionResult as json.Marshal shows it,
     {"@context": ..., "didDocument": ..., "didDocumentMetadata": ...}
   to be compared up to member order ([json_equiv]).  [None] = the call returned an error. *)
From Coq Require Import List ZArith NArith Bool String.
From Coq.Strings Require Import Byte.
From SV Require Import Base.Bytes Json.Ast.
From SV Require Export Doc.Metadata.
Import ListNotations.

(* ---------- constants ---------- *)
Definition did_context : bytes := bs "https://www.w3.org/ns/did/v1".
Definition did_resolution_context : bytes := bs "https://w3id.org/did-resolution/v1".
Definition ed25519_2018 : bytes := bs "Ed25519VerificationKey2018".
Definition ed25519_2020 : bytes := bs "Ed25519VerificationKey2020".

Definition default_key_ctx : list (bytes * bytes) :=
  [(bs "Bls12381G2Key2020", bs "https://w3id.org/security/suites/bls12381-2020/v1");
   (bs "JsonWebKey2020", bs "https://w3id.org/security/suites/jws-2020/v1");
   (bs "EcdsaSecp256k1VerificationKey2019", bs "https://w3id.org/security/suites/secp256k1-2019/v1");
   (bs "Ed25519VerificationKey2018", bs "https://w3id.org/security/suites/ed25519-2018/v1");
   (bs "Ed25519VerificationKey2020", bs "https://w3id.org/security/suites/ed25519-2020/v1");
   (bs "X25519KeyAgreementKey2019", bs "https://w3id.org/security/suites/x25519-2019/v1")].

(* the five relationship sections; the purpose name of a key and the section name coincide *)
Definition purposes_all : list bytes :=
  [bs "authentication"; bs "assertionMethod"; bs "keyAgreement"; bs "capabilityDelegation"; bs "capabilityInvocation"].

(* ---------- accessors of pkg/document ---------- *)
Definition members := list (bytes * json).

(* stringEntry: "" unless the entry is a string *)
Definition str_entry (o : option json) : bytes := match o with Some (JStr s) => s | _ => [] end.

(* StringArray: the string elements of an array, others skipped; nil unless an array *)
Definition string_array (o : option json) : list bytes :=
  match o with
  | Some (JArr l) => flat_map (fun e => match e with JStr s => [s] | _ => [] end) l
  | _ => []
  end.

(* ParsePublicKeys / ParseServices: the object elements of an array, others skipped; nil unless an array *)
Definition objects_of (o : option json) : list members :=
  match o with
  | Some (JArr l) => flat_map (fun e => match e with JObj m => [m] | _ => [] end) l
  | _ => []
  end.

Definition public_keys (doc : members) : list members := objects_of (jget (bs "publicKey") doc).
Definition services (doc : members) : list members := objects_of (jget (bs "service") doc).
Definition also_known_as (doc : members) : list bytes := string_array (jget (bs "alsoKnownAs") doc).

Definition key_id (pk : members) : bytes := str_entry (jget (bs "id") pk).
Definition key_type (pk : members) : bytes := str_entry (jget (bs "type") pk).
Definition key_purposes (pk : members) : list bytes := string_array (jget (bs "purposes") pk).
(* PublicKeyJwk: non-nil exactly when the member is an object *)
Definition key_jwk (pk : members) : option members :=
  match jget (bs "publicKeyJwk") pk with Some (JObj j) => Some j | _ => None end.

(* getObjectID *)
Definition qualify (opts : topts) (did oid : bytes) : bytes :=
  if o_base opts then x23 :: oid else did ++ x23 :: oid.

(* t.keyCtx after New: the default map when none / an empty one was given *)
Definition key_ctx_map (opts : topts) : list (bytes * bytes) :=
  match o_key_ctx opts with [] => default_key_ctx | m => m end.
Fixpoint lookup_ctx (k : bytes) (m : list (bytes * bytes)) : option bytes :=
  match m with
  | [] => None
  | (k', v) :: r => if bytes_eqb k k' then Some v else lookup_ctx k r
  end.

(* ---------- base64url as used by go-jose's byteBuffer (base64.RawURLEncoding.DecodeString) ----------
   '\r' and '\n' are skipped, no padding character is accepted, trailing bits are not checked. *)
Definition b64url_val (b : byte) : option N :=
  let n := Byte.to_N b in
  if (65 <=? n)%N && (n <=? 90)%N then Some (n - 65)%N
  else if (97 <=? n)%N && (n <=? 122)%N then Some (n - 71)%N
  else if (48 <=? n)%N && (n <=? 57)%N then Some (n + 4)%N
  else if (n =? 45)%N then Some 62%N
  else if (n =? 95)%N then Some 63%N
  else None.

Fixpoint b64_values (s : bytes) : option (list N) :=
  match s with
  | [] => Some []
  | b :: r =>
    if Byte.eqb b x0a || Byte.eqb b x0d then b64_values r
    else match b64url_val b, b64_values r with
         | Some v, Some vs => Some (v :: vs)
         | _, _ => None
         end
  end.

Fixpoint b64_groups (fuel : nat) (v : list N) : option bytes :=
  match fuel with
  | O => None
  | S f =>
    match v with
    | [] => Some []
    | [_] => None
    | [a; b] => Some [byte_of_N ((a * 4 + b / 16) mod 256)]
    | [a; b; c] => Some [byte_of_N ((a * 4 + b / 16) mod 256); byte_of_N ((b * 16 + c / 4) mod 256)]
    | a :: b :: c :: d :: r =>
      match b64_groups f r with
      | Some t => Some (byte_of_N ((a * 4 + b / 16) mod 256) :: byte_of_N ((b * 16 + c / 4) mod 256)
                        :: byte_of_N ((c * 64 + d) mod 256) :: t)
      | None => None
      end
    end
  end.

Definition b64url_decode_impl (s : bytes) : option bytes :=
  match b64_values s with
  | Some v => b64_groups (S (List.length v)) v
  | None => None
  end.

Section Transform.
  (* Oracles: behaviour of libraries that is not modelled.
     b58 k            = base58.Encode(k)                       (btcsuite/btcutil/base58)
     multibase58 k    = multibase.Encode(multibase.Base58BTC, k)  (which is "z" ++ base58 k)
     b64url_decode s  = base64.RawURLEncoding.DecodeString(s), None on error
                        ([b64url_decode_impl] above is a validated implementation) *)
  Variable b58 : bytes -> bytes.
  Variable multibase58 : bytes -> bytes.
  Variable b64url_decode : bytes -> option bytes.

  (* go-jose byteBuffer.UnmarshalJSON: the empty string is accepted without decoding *)
  Definition jose_buffer (s : bytes) : option bytes :=
    match s with [] => Some [] | _ => b64url_decode s end.

  (* rawJSONWebKey.edPublicKey: copy(publicKey[0:32], x) - shorter values are zero-padded, longer ones truncated *)
  Definition pad32 (k : bytes) : bytes := firstn 32 (k ++ repeat x00 32).

  (* getED2519PublicKey / internaljws.GetED25519PublicKey: only kty, crv, x, y of the JWK are looked at
     (as strings; members of other types count as "").  Every other kty / crv ends in an error. *)
  Definition ed25519_public_key (jwk : members) : option bytes :=
    if bytes_eqb (str_entry (jget (bs "kty") jwk)) (bs "OKP")
       && bytes_eqb (str_entry (jget (bs "crv") jwk)) (bs "Ed25519")
    then match jose_buffer (str_entry (jget (bs "x") jwk)), jose_buffer (str_entry (jget (bs "y") jwk)) with
         | Some x, Some _ => Some (pad32 x)
         | _, _ => None
         end
    else None.

  (* the value member of a verification method; None = error *)
  Definition key_material (pk : members) : option (bytes * json) :=
    match key_jwk pk with
    | Some jwk =>
      if bytes_eqb (key_type pk) ed25519_2018 then
        option_map (fun k => (bs "publicKeyBase58", JStr (b58 k))) (ed25519_public_key jwk)
      else if bytes_eqb (key_type pk) ed25519_2020 then
        option_map (fun k => (bs "publicKeyMultibase", JStr (multibase58 k))) (ed25519_public_key jwk)
      else Some (bs "publicKeyJwk", JObj jwk)
    | None =>
      let b := str_entry (jget (bs "publicKeyBase58") pk) in
      let m := str_entry (jget (bs "publicKeyMultibase") pk) in
      if nonempty b then Some (bs "publicKeyBase58", JStr b)
      else if nonempty m then Some (bs "publicKeyMultibase", JStr m)
      else Some (bs "publicKeyJwk", JNull)
    end.

  (* one iteration of the loop of processKeys: the external key; None = error
     (Ed25519 conversion failed, or no context registered for the key type) *)
  Definition verification_method (opts : topts) (did : bytes) (pk : members) : option json :=
    match key_material pk, lookup_ctx (key_type pk) (key_ctx_map opts) with
    | Some mat, Some _ =>
      Some (JObj [(bs "id", JStr (qualify opts did (key_id pk)));
                  (bs "type", JStr (key_type pk));
                  (bs "controller", JStr did);
                  mat])
    | _, _ => None
    end.

  Fixpoint verification_methods (opts : topts) (did : bytes) (keys : list members) : option (list json) :=
    match keys with
    | [] => Some []
    | pk :: r =>
      match verification_method opts did pk, verification_methods opts did r with
      | Some vm, Some vms => Some (vm :: vms)
      | _, _ => None
      end
    end.

  (* the contexts of the key types in order of first use (types without a context contribute nothing here;
     they make [verification_methods] fail) *)
  Fixpoint key_contexts_from (seen : list bytes) (m : list (bytes * bytes)) (keys : list members) : list bytes :=
    match keys with
    | [] => []
    | pk :: r =>
      match lookup_ctx (key_type pk) m with
      | Some c => if mem_bytes c seen then key_contexts_from seen m r else c :: key_contexts_from (c :: seen) m r
      | None => key_contexts_from seen m r
      end
    end.
  Definition key_contexts (opts : topts) (keys : list members) : list bytes :=
    key_contexts_from [] (key_ctx_map opts) keys.

  (* the array put under [purpose]: one reference (a string, the qualified id) per occurrence of [purpose]
     in the purposes of a key, in key order *)
  Definition relationship_section (purpose : bytes) (opts : topts) (did : bytes) (keys : list members) : list json :=
    flat_map (fun pk => map (fun _ => JStr (qualify opts did (key_id pk)))
                            (filter (bytes_eqb purpose) (key_purposes pk))) keys.

  Definition relationship_members (opts : topts) (did : bytes) (keys : list members) : members :=
    flat_map (fun p => let s := relationship_section p opts did keys in member_if (nonempty s) p (JArr s))
             purposes_all.

  (* processServices: id, type, serviceEndpoint recomputed, every other member copied *)
  Definition reserved_service_member (k : bytes) : bool :=
    bytes_eqb k (bs "id") || bytes_eqb k (bs "type") || bytes_eqb k (bs "serviceEndpoint").
  Definition service_out (opts : topts) (did : bytes) (sv : members) : json :=
    JObj ([(bs "id", JStr (qualify opts did (str_entry (jget (bs "id") sv))));
           (bs "type", JStr (str_entry (jget (bs "type") sv)));
           (bs "serviceEndpoint", match jget (bs "serviceEndpoint") sv with Some v => v | None => JNull end)]
          ++ filter (fun kv => negb (reserved_service_member (fst kv))) sv).

  (* the context array before key contexts are appended *)
  Definition base_contexts (opts : topts) (did : bytes) : list json :=
    [JStr did_context] ++ map JStr (o_method_ctx opts)
    ++ (if o_base opts then [JObj [(bs "@base", JStr did)]] else []).

  (* the external document, given the converted keys *)
  Definition external_document (opts : topts) (did : bytes) (internal : members) (vms : list json) : json :=
    let keys := public_keys internal in
    let svcs := services internal in
    JObj (member_if (nonempty (also_known_as internal)) (bs "alsoKnownAs") (jstrs (also_known_as internal))
          ++ [(bs "@context",
               JArr (base_contexts opts did ++ (if nonempty vms then map JStr (key_contexts opts keys) else [])));
              (bs "id", JStr did)]
          ++ member_if (nonempty vms) (bs "verificationMethod") (JArr vms)
          ++ relationship_members opts did keys
          ++ member_if (nonempty svcs) (bs "service") (JArr (map (service_out opts did) svcs))).

  (* didtransformer.Transformer.TransformDocument *)
  Definition transform_did (opts : topts) (rm : rmodel) (info : tinfo) : option json :=
    match document_metadata opts rm info with
    | None => None
    | Some md =>
      match ti_id info, rm_doc rm with
      | Some did, JObj internal =>
        match verification_methods opts did (public_keys internal) with
        | None => None                     (* "failed to transform public keys for did document" *)
        | Some vms =>
          Some (JObj [(bs "@context", JStr did_resolution_context);
                      (bs "didDocument", external_document opts did internal vms);
                      (bs "didDocumentMetadata", md)])
        end
      | _, _ => None                       (* "id is required for document transformation" *)
      end
    end.
End Transform.

(* doctransformer.Transformer.TransformDocument (generic documents): the internal document with "id" set;
   the "@context" member is null because the Go result struct leaves that field nil there *)
Definition transform_generic (opts : topts) (rm : rmodel) (info : tinfo) : option json :=
  match document_metadata opts rm info with
  | None => None
  | Some md =>
    match ti_id info, rm_doc rm with
    | Some id, JObj internal =>
      Some (JObj [(bs "@context", JNull);
                  (bs "didDocument", JObj (jset (bs "id") (JStr id) internal));
                  (bs "didDocumentMetadata", md)])
    | _, _ => None
    end
  end.
