(* Proofs about the patch application model (C17).  See Doc/Composer.v for the model. *)
From Coq Require Import List NArith Bool String Lia Permutation.
From Coq.Strings Require Import Byte.
From SV Require Import Base.Bytes Json.Ast Doc.Composer.
Import ListNotations.

(* ------------------------------------------------------------------------------------------------ *)
(* byte strings                                                                                      *)

Lemma bytes_eqb_eq : forall a b, bytes_eqb a b = true <-> a = b.
Proof.
  induction a as [|x a IH]; intros [|y b]; cbn [bytes_eqb]; split; intro H; try reflexivity; try discriminate.
  - apply andb_true_iff in H. destruct H as [Hxy Hab].
    apply Byte.byte_dec_bl in Hxy. apply IH in Hab. subst. reflexivity.
  - inversion H; subst. apply andb_true_iff. split.
    + apply Byte.byte_dec_lb. reflexivity.
    + apply IH. reflexivity.
Qed.

Lemma bytes_eqb_refl : forall a, bytes_eqb a a = true.
Proof. intro a. apply bytes_eqb_eq. reflexivity. Qed.

Lemma bytes_eqb_neq : forall a b, bytes_eqb a b = false <-> a <> b.
Proof.
  intros a b. split.
  - intros H E. apply bytes_eqb_eq in E. rewrite E in H. discriminate.
  - intro H. destruct (bytes_eqb a b) eqn:E; [|reflexivity]. apply bytes_eqb_eq in E. contradiction.
Qed.

Lemma bytes_eqb_sym : forall a b, bytes_eqb a b = bytes_eqb b a.
Proof.
  intros a b. destruct (bytes_eqb a b) eqn:E.
  - apply bytes_eqb_eq in E. subst. symmetry. apply bytes_eqb_refl.
  - symmetry. apply bytes_eqb_neq. apply bytes_eqb_neq in E. intro H. apply E. symmetry. exact H.
Qed.

Lemma bmem_In : forall x l, bmem x l = true <-> In x l.
Proof.
  intros x l. unfold bmem. rewrite existsb_exists. split.
  - intros [y [Hin He]]. apply bytes_eqb_eq in He. subst. exact Hin.
  - intro Hin. exists x. split; [exact Hin|apply bytes_eqb_refl].
Qed.

Lemma bmem_not_In : forall x l, bmem x l = false <-> ~ In x l.
Proof.
  intros x l. split.
  - intros H Hin. apply bmem_In in Hin. rewrite Hin in H. discriminate.
  - intro H. destruct (bmem x l) eqn:E; [|reflexivity]. apply bmem_In in E. contradiction.
Qed.

(* ------------------------------------------------------------------------------------------------ *)
(* object members                                                                                    *)

Lemma jget_jset_same : forall k v m, jget k (jset k v m) = Some v.
Proof.
  intros k v m. induction m as [|[k' v'] r IH]; cbn [jset jget].
  - rewrite bytes_eqb_refl. reflexivity.
  - destruct (bytes_eqb k k') eqn:E; cbn [jget].
    + rewrite bytes_eqb_refl. reflexivity.
    + rewrite E. exact IH.
Qed.

Lemma jget_jset_other : forall k k' v m, k <> k' -> jget k' (jset k v m) = jget k' m.
Proof.
  intros k k' v m Hne. induction m as [|[k2 v2] r IH]; cbn [jset jget].
  - assert (E : bytes_eqb k' k = false) by (apply bytes_eqb_neq; intro H; apply Hne; symmetry; exact H).
    rewrite E. reflexivity.
  - destruct (bytes_eqb k k2) eqn:E; cbn [jget].
    + apply bytes_eqb_eq in E. subst k2.
      assert (E2 : bytes_eqb k' k = false) by (apply bytes_eqb_neq; intro H; apply Hne; symmetry; exact H).
      rewrite E2. reflexivity.
    + destruct (bytes_eqb k' k2); [reflexivity|exact IH].
Qed.

Lemma doc_get_set_same : forall k v m, doc_get k (JObj (jset k v m)) = v.
Proof. intros. unfold doc_get. cbn [members]. rewrite jget_jset_same. reflexivity. Qed.

Lemma doc_get_set_other : forall k k' v m, k <> k' -> doc_get k' (JObj (jset k v m)) = doc_get k' (JObj m).
Proof. intros k k' v m H. unfold doc_get. cbn [members]. rewrite (jget_jset_other k k' v m H). reflexivity. Qed.

(* ------------------------------------------------------------------------------------------------ *)
(* lists of entries                                                                                  *)

Definition abs_l (l : list json) : omap json := map (fun e => (jid e, e)) l.
Definition abs_u (l : list bytes) : omap unit := map (fun u => (u, tt)) l.

Lemma abs_entries_eq : forall v, abs_entries v = abs_l (parse_entries v).
Proof. reflexivity. Qed.

Lemma parse_entries_objs : forall v, Forall (fun e => is_obj e = true) (parse_entries v).
Proof.
  intros v. apply Forall_forall. intros e Hin. destruct v; cbn [parse_entries] in Hin; try contradiction.
  apply filter_In in Hin. destruct Hin as [_ H]. exact H.
Qed.

Lemma filter_all : forall (A : Type) (f : A -> bool) l, Forall (fun x => f x = true) l -> filter f l = l.
Proof.
  intros A f l H. induction H as [|x l Hx Hl IH]; cbn [filter]; [reflexivity|]. rewrite Hx, IH. reflexivity.
Qed.

Lemma parse_entries_arr_or_null : forall l,
  Forall (fun e => is_obj e = true) l -> parse_entries (arr_or_null l) = l.
Proof.
  intros l H. destruct l as [|x r]; [reflexivity|]. cbn [arr_or_null parse_entries]. apply filter_all. exact H.
Qed.

Lemma strings_of_map_JStr : forall l, strings_of (map JStr l) = l.
Proof. induction l as [|x r IH]; cbn [map strings_of]; [reflexivity|]. rewrite IH. reflexivity. Qed.

Lemma string_array_arr_or_null : forall l, string_array (arr_or_null (map JStr l)) = l.
Proof.
  intros l. destruct l as [|x r]; [reflexivity|]. cbn [map arr_or_null string_array]. apply (strings_of_map_JStr (x :: r)).
Qed.

Lemma map_jid_update : forall cur e, map jid (update_entry cur e) = map jid cur.
Proof.
  intros cur e. unfold update_entry. induction cur as [|x r IH]; cbn [map]; [reflexivity|].
  rewrite IH. destruct (bytes_eqb (jid x) (jid e)) eqn:E; [|reflexivity].
  apply bytes_eqb_eq in E. rewrite E. reflexivity.
Qed.

Lemma update_absent : forall cur e, ~ In (jid e) (map jid cur) -> update_entry cur e = cur.
Proof.
  intros cur e. unfold update_entry. induction cur as [|x r IH]; intro H; cbn [map]; [reflexivity|].
  cbn [map In] in H. assert (Hx : jid x <> jid e) by tauto. apply bytes_eqb_neq in Hx. rewrite Hx.
  rewrite IH by tauto. reflexivity.
Qed.

(* on lists with pairwise distinct ids, updateKey (overwrite every match) is the ordered-map update *)
Lemma update_refines : forall cur e,
  NoDup (map jid cur) -> In (jid e) (map jid cur) -> abs_l (update_entry cur e) = omap_add (jid e) e (abs_l cur).
Proof.
  intros cur e. induction cur as [|x r IH]; intros Hnd Hin; [contradiction|].
  cbn [map] in Hnd. inversion Hnd as [|? ? Hnotin Hnd']; subst.
  unfold abs_l, update_entry. cbn [map omap_add]. rewrite (bytes_eqb_sym (jid e) (jid x)).
  destruct (bytes_eqb (jid x) (jid e)) eqn:E.
  - apply bytes_eqb_eq in E. rewrite E in Hnotin.
    fold (update_entry r e). rewrite (update_absent r e Hnotin). reflexivity.
  - f_equal. apply IH; [exact Hnd'|]. cbn [map In] in Hin. destruct Hin as [H|H]; [|exact H].
    apply bytes_eqb_neq in E. contradiction.
Qed.

Lemma omap_add_absent : forall (V : Type) k (v : V) m, ~ In k (map fst m) -> omap_add k v m = m ++ [(k, v)].
Proof.
  intros V k v m. induction m as [|[k' v'] r IH]; intro H; cbn [omap_add app]; [reflexivity|].
  cbn [map In fst] in H. assert (Hk : k <> k') by (intro E; apply H; left; symmetry; exact E).
  apply bytes_eqb_neq in Hk. rewrite Hk. rewrite IH by tauto. reflexivity.
Qed.

Lemma map_fst_abs_l : forall l, map fst (abs_l l) = map jid l.
Proof. intro l. unfold abs_l. rewrite map_map. reflexivity. Qed.

Lemma map_fst_abs_u : forall l, map fst (abs_u l) = l.
Proof. intro l. unfold abs_u. rewrite map_map. cbn [fst]. apply map_id. Qed.

Lemma abs_l_app : forall a b, abs_l (a ++ b) = abs_l a ++ abs_l b.
Proof. intros. unfold abs_l. apply map_app. Qed.

Lemma NoDup_snoc : forall (A : Type) (l : list A) x, NoDup l -> ~ In x l -> NoDup (l ++ [x]).
Proof.
  intros A l x Hnd Hx. induction Hnd as [|y l Hy Hnd IH]; cbn [app].
  - constructor; [intros []|constructor].
  - constructor.
    + intro Hin. apply in_app_or in Hin. destruct Hin as [Hin|[Hin|[]]]; [contradiction|].
      subst. apply Hx. left. reflexivity.
    + apply IH. intro Hin. apply Hx. right. exact Hin.
Qed.

(* the loop of applyAddPublicKeys / applyAddServiceEndpoints: the threaded id set is exactly the ids of [cur] *)
Lemma add_go_refines : forall adds cur,
  NoDup (map jid cur) ->
  abs_l (add_entries_go (map jid cur) cur adds) = omap_add_all adds (abs_l cur)
  /\ NoDup (map jid (add_entries_go (map jid cur) cur adds)).
Proof.
  induction adds as [|e r IH]; intros cur Hcur; cbn [add_entries_go].
  - split; [reflexivity|exact Hcur].
  - unfold omap_add_all. cbn [fold_left]. fold (omap_add_all r (omap_add (jid e) e (abs_l cur))).
    destruct (bmem (jid e) (map jid cur)) eqn:Em.
    + apply bmem_In in Em.
      rewrite <- (update_refines cur e Hcur Em).
      pose proof (IH (update_entry cur e)) as H. rewrite map_jid_update in H. apply H. exact Hcur.
    + apply bmem_not_In in Em.
      rewrite (omap_add_absent json (jid e) e (abs_l cur)) by (rewrite map_fst_abs_l; exact Em).
      change [(jid e, e)] with (abs_l [e]). rewrite <- abs_l_app.
      change [jid e] with (map jid [e]). rewrite <- map_app.
      apply IH. rewrite map_app. cbn [map]. apply NoDup_snoc; assumption.
Qed.

Lemma add_entries_refines : forall ex adds,
  NoDup (map jid ex) ->
  abs_l (add_entries ex adds) = omap_add_all adds (abs_l ex) /\ NoDup (map jid (add_entries ex adds)).
Proof. intros ex adds Hex. unfold add_entries. apply add_go_refines. exact Hex. Qed.

(* entries whose ids are fresh and pairwise distinct are simply appended *)
Lemma add_go_fresh : forall adds cur,
  NoDup (map jid adds) -> (forall e, In e adds -> ~ In (jid e) (map jid cur)) ->
  add_entries_go (map jid cur) cur adds = cur ++ adds.
Proof.
  induction adds as [|e r IH]; intros cur Hnd Hfresh; cbn [add_entries_go].
  - rewrite app_nil_r. reflexivity.
  - cbn [map] in Hnd. inversion Hnd as [|? ? He Hr]; subst.
    assert (Em : bmem (jid e) (map jid cur) = false) by (apply bmem_not_In; apply Hfresh; left; reflexivity).
    rewrite Em. change [jid e] with (map jid [e]). rewrite <- map_app. rewrite IH.
    + rewrite <- app_assoc. reflexivity.
    + exact Hr.
    + intros e' He'. rewrite map_app. cbn [map]. rewrite in_app_iff. cbn [In]. intros [H|[H|[]]].
      * exact (Hfresh e' (or_intror He') H).
      * apply He. rewrite H. apply in_map. exact He'.
Qed.

Lemma add_go_objs : forall adds cur ids,
  Forall (fun e => is_obj e = true) cur -> Forall (fun e => is_obj e = true) adds ->
  Forall (fun e => is_obj e = true) (add_entries_go ids cur adds).
Proof.
  induction adds as [|e r IH]; intros cur ids Hc Ha; cbn [add_entries_go]; [exact Hc|].
  inversion Ha as [|? ? He Hr]; subst.
  destruct (bmem (jid e) ids).
  - apply IH; [|exact Hr].
    unfold update_entry. apply Forall_forall. intros x Hx. apply in_map_iff in Hx. destruct Hx as [y [Hy Hin]].
    destruct (bytes_eqb (jid y) (jid e)); subst x; [exact He|].
    rewrite Forall_forall in Hc. apply Hc. exact Hin.
  - apply IH; [|exact Hr]. apply Forall_app. split; [exact Hc|]. constructor; [exact He|constructor].
Qed.

Lemma remove_objs : forall ex ids,
  Forall (fun e => is_obj e = true) ex -> Forall (fun e => is_obj e = true) (remove_entries ex ids).
Proof.
  intros ex ids H. unfold remove_entries. rewrite Forall_forall in *. intros x Hx. apply filter_In in Hx.
  apply H. tauto.
Qed.

(* removal *)
Lemma remove_one_refines : forall ex i,
  abs_l (filter (fun e => negb (bytes_eqb (jid e) i)) ex) = omap_remove i (abs_l ex).
Proof.
  intros ex i. induction ex as [|x r IH]; [reflexivity|].
  unfold abs_l. cbn [filter map omap_remove]. rewrite (bytes_eqb_sym i (jid x)).
  destruct (bytes_eqb (jid x) i); cbn [negb]; [exact IH|]. cbn [map]. f_equal. exact IH.
Qed.

Lemma remove_entries_cons : forall ex i r,
  remove_entries ex (i :: r) = remove_entries (filter (fun e => negb (bytes_eqb (jid e) i)) ex) r.
Proof.
  intros ex i r. unfold remove_entries. induction ex as [|x l IH]; [reflexivity|].
  cbn [filter bmem existsb]. destruct (bytes_eqb (jid x) i); cbn [negb orb].
  - exact IH.
  - cbn [filter]. fold (bmem (jid x) r). destruct (bmem (jid x) r); cbn [negb]; [exact IH|]. f_equal. exact IH.
Qed.

Lemma remove_entries_refines : forall ids ex, abs_l (remove_entries ex ids) = omap_remove_all ids (abs_l ex).
Proof.
  induction ids as [|i r IH]; intro ex.
  - unfold remove_entries, omap_remove_all. cbn [fold_left bmem existsb negb]. f_equal.
    apply filter_all. apply Forall_forall. reflexivity.
  - rewrite remove_entries_cons. rewrite IH. unfold omap_remove_all. cbn [fold_left].
    rewrite remove_one_refines. reflexivity.
Qed.

Lemma NoDup_map_filter : forall (A B : Type) (g : A -> B) (f : A -> bool) l,
  NoDup (map g l) -> NoDup (map g (filter f l)).
Proof.
  intros A B g f l. induction l as [|x r IH]; intro H; cbn [filter map]; [constructor|].
  cbn [map] in H. inversion H as [|? ? Hx Hr]; subst.
  destruct (f x); [|apply IH; exact Hr]. cbn [map]. constructor; [|apply IH; exact Hr].
  intro Hin. apply Hx. apply in_map_iff in Hin. destruct Hin as [y [Hy Hin]]. apply filter_In in Hin.
  apply in_map_iff. exists y. tauto.
Qed.

(* URIs *)
Lemma omap_add_unit_present : forall u (m : omap unit), In u (map fst m) -> omap_add u tt m = m.
Proof.
  intros u m. induction m as [|[k []] r IH]; intro H; [contradiction|]. cbn [omap_add].
  destruct (bytes_eqb u k) eqn:E.
  - apply bytes_eqb_eq in E. subst. reflexivity.
  - f_equal. apply IH. cbn [map fst In] in H. destruct H as [H|H]; [|exact H].
    apply bytes_eqb_neq in E. exfalso. apply E. symmetry. exact H.
Qed.

Lemma add_uris_go_refines : forall adds cur,
  abs_u (add_uris_go cur cur adds) = omap_add_uris adds (abs_u cur)
  /\ (NoDup cur -> NoDup (add_uris_go cur cur adds)).
Proof.
  induction adds as [|u r IH]; intros cur; cbn [add_uris_go].
  - split; [reflexivity|tauto].
  - unfold omap_add_uris. cbn [fold_left]. fold (omap_add_uris r (omap_add u tt (abs_u cur))).
    destruct (bmem u cur) eqn:Em.
    + apply bmem_In in Em.
      rewrite omap_add_unit_present by (rewrite map_fst_abs_u; exact Em). apply IH.
    + apply bmem_not_In in Em.
      rewrite omap_add_absent by (rewrite map_fst_abs_u; exact Em).
      change [(u, tt)] with (abs_u [u]). unfold abs_u at 2 3. rewrite <- map_app. fold (abs_u (cur ++ [u])).
      destruct (IH (cur ++ [u])) as [IH1 IH2].
      split; [exact IH1|]. intro Hcur. apply IH2. apply NoDup_snoc; assumption.
Qed.

Lemma add_uris_refines : forall ex adds,
  abs_u (add_uris ex adds) = omap_add_uris adds (abs_u ex) /\ (NoDup ex -> NoDup (add_uris ex adds)).
Proof. intros ex adds. unfold add_uris. apply add_uris_go_refines. Qed.

Lemma add_uris_go_fresh : forall adds cur,
  NoDup adds -> (forall u, In u adds -> ~ In u cur) -> add_uris_go cur cur adds = cur ++ adds.
Proof.
  induction adds as [|u r IH]; intros cur Hnd Hfresh; cbn [add_uris_go].
  - rewrite app_nil_r. reflexivity.
  - inversion Hnd as [|? ? Hu Hr]; subst.
    assert (Em : bmem u cur = false) by (apply bmem_not_In; apply Hfresh; left; reflexivity).
    rewrite Em. rewrite IH.
    + rewrite <- app_assoc. reflexivity.
    + exact Hr.
    + intros u' Hu'. rewrite in_app_iff. cbn [In]. intros [H|[H|[]]].
      * exact (Hfresh u' (or_intror Hu') H).
      * subst u'. contradiction.
Qed.

Lemma remove_uris_cons : forall ex i r,
  remove_uris ex (i :: r) = remove_uris (filter (fun u => negb (bytes_eqb u i)) ex) r.
Proof.
  intros ex i r. unfold remove_uris. induction ex as [|x l IH]; [reflexivity|].
  cbn [filter bmem existsb]. destruct (bytes_eqb x i); cbn [negb orb].
  - exact IH.
  - cbn [filter]. fold (bmem x r). destruct (bmem x r); cbn [negb]; [exact IH|]. f_equal. exact IH.
Qed.

Lemma remove_one_uri_refines : forall ex i,
  abs_u (filter (fun u => negb (bytes_eqb u i)) ex) = omap_remove i (abs_u ex).
Proof.
  intros ex i. induction ex as [|x r IH]; [reflexivity|].
  unfold abs_u. cbn [filter map omap_remove]. rewrite (bytes_eqb_sym i x).
  destruct (bytes_eqb x i); cbn [negb]; [exact IH|]. cbn [map]. f_equal. exact IH.
Qed.

Lemma remove_uris_refines : forall rem ex, abs_u (remove_uris ex rem) = omap_remove_all rem (abs_u ex).
Proof.
  induction rem as [|i r IH]; intro ex.
  - unfold remove_uris, omap_remove_all. cbn [fold_left bmem existsb negb]. f_equal.
    apply filter_all. apply Forall_forall. reflexivity.
  - rewrite remove_uris_cons. rewrite IH. unfold omap_remove_all. cbn [fold_left].
    rewrite remove_one_uri_refines. reflexivity.
Qed.

(* ------------------------------------------------------------------------------------------------ *)
(* document level                                                                                    *)

(* the entries of a section as the accessors see them *)
Definition sec (k : bytes) (d : json) : list json := parse_entries (doc_get k d).
Definition uris (d : json) : list bytes := string_array (doc_get d_alsoKnownAs d).

Lemma list_eq_filter_bmem_nil : forall (A : Type) (g : A -> bytes) l, filter (fun e => negb (bmem (g e) [])) l = l.
Proof. intros. apply filter_all. apply Forall_forall. reflexivity. Qed.

Section Proofs.
  Variable jp : json -> json -> option json.

  (* how applyPatch dispatches, per action *)
  Lemma dispatch_add_pk : forall d p v, patch_action p = Some a_add_pk -> patch_value p = Some v ->
    apply_patch jp d p = res_opt (apply_add_entries d_publicKey d v).
  Proof. intros d p v Ha Hv. unfold apply_patch, apply_patch_r. rewrite Ha, Hv. reflexivity. Qed.

  Lemma dispatch_rem_pk : forall d p v, patch_action p = Some a_rem_pk -> patch_value p = Some v ->
    apply_patch jp d p = res_opt (apply_remove_entries d_publicKey d v).
  Proof. intros d p v Ha Hv. unfold apply_patch, apply_patch_r. rewrite Ha, Hv. reflexivity. Qed.

  Lemma dispatch_add_svc : forall d p v, patch_action p = Some a_add_svc -> patch_value p = Some v ->
    apply_patch jp d p = res_opt (apply_add_entries d_service d v).
  Proof. intros d p v Ha Hv. unfold apply_patch, apply_patch_r. rewrite Ha, Hv. reflexivity. Qed.

  Lemma dispatch_rem_svc : forall d p v, patch_action p = Some a_rem_svc -> patch_value p = Some v ->
    apply_patch jp d p = res_opt (apply_remove_entries d_service d v).
  Proof. intros d p v Ha Hv. unfold apply_patch, apply_patch_r. rewrite Ha, Hv. reflexivity. Qed.

  Lemma dispatch_add_aka : forall d p v, patch_action p = Some a_add_aka -> patch_value p = Some v ->
    apply_patch jp d p = res_opt (apply_add_aka d v).
  Proof. intros d p v Ha Hv. unfold apply_patch, apply_patch_r. rewrite Ha, Hv. reflexivity. Qed.

  Lemma dispatch_rem_aka : forall d p v, patch_action p = Some a_rem_aka -> patch_value p = Some v ->
    apply_patch jp d p = res_opt (apply_remove_aka d v).
  Proof. intros d p v Ha Hv. unfold apply_patch, apply_patch_r. rewrite Ha, Hv. reflexivity. Qed.

  Lemma dispatch_replace : forall d p v, patch_action p = Some a_replace -> patch_value p = Some v ->
    apply_patch jp d p = res_opt (apply_replace v).
  Proof. intros d p v Ha Hv. unfold apply_patch, apply_patch_r. rewrite Ha, Hv. reflexivity. Qed.

  Lemma dispatch_json : forall d p v, patch_action p = Some a_json -> patch_value p = Some v ->
    apply_patch jp d p = res_opt (apply_json jp d v).
  Proof. intros d p v Ha Hv. unfold apply_patch, apply_patch_r. rewrite Ha, Hv. reflexivity. Qed.

  (* effect of the four entry-list operations on an object document: the section is rewritten, every other member
     is untouched *)
  Lemma add_section : forall k m v,
    exists d', res_opt (apply_add_entries k (JObj m) v) = Some d'
      /\ sec k d' = add_entries (sec k (JObj m)) (parse_entries v)
      /\ (forall k', k <> k' -> doc_get k' d' = doc_get k' (JObj m)).
  Proof.
    intros k m v. eexists. split; [reflexivity|]. split.
    - unfold sec. rewrite doc_get_set_same. apply parse_entries_arr_or_null.
      unfold add_entries. apply add_go_objs; apply parse_entries_objs.
    - intros k' Hk. apply doc_get_set_other. exact Hk.
  Qed.

  Lemma remove_section : forall k m v,
    exists d', res_opt (apply_remove_entries k (JObj m) v) = Some d'
      /\ sec k d' = remove_entries (sec k (JObj m)) (string_array v)
      /\ (forall k', k <> k' -> doc_get k' d' = doc_get k' (JObj m)).
  Proof.
    intros k m v. eexists. split; [reflexivity|]. split.
    - unfold sec. rewrite doc_get_set_same. apply parse_entries_arr_or_null.
      apply remove_objs. apply parse_entries_objs.
    - intros k' Hk. apply doc_get_set_other. exact Hk.
  Qed.

  Lemma add_aka_section : forall m v,
    exists d', res_opt (apply_add_aka (JObj m) v) = Some d'
      /\ uris d' = add_uris (uris (JObj m)) (string_array v)
      /\ (forall k', d_alsoKnownAs <> k' -> doc_get k' d' = doc_get k' (JObj m)).
  Proof.
    intros m v. eexists. split; [reflexivity|]. split.
    - unfold uris. rewrite doc_get_set_same. apply string_array_arr_or_null.
    - intros k' Hk. apply doc_get_set_other. exact Hk.
  Qed.

  Lemma remove_aka_section : forall m v,
    exists d', res_opt (apply_remove_aka (JObj m) v) = Some d'
      /\ uris d' = remove_uris (uris (JObj m)) (string_array v)
      /\ (forall k', d_alsoKnownAs <> k' -> doc_get k' d' = doc_get k' (JObj m)).
  Proof.
    intros m v. eexists. split; [reflexivity|]. split.
    - unfold uris. rewrite doc_get_set_same. apply string_array_arr_or_null.
    - intros k' Hk. apply doc_get_set_other. exact Hk.
  Qed.

  (* ---- list level facts behind theorem group 1 ---- *)

  Lemma add_entries_new : forall ex e, ~ In (jid e) (map jid ex) -> add_entries ex [e] = ex ++ [e].
  Proof.
    intros ex e H. unfold add_entries. cbn [add_entries_go]. apply bmem_not_In in H. rewrite H. reflexivity.
  Qed.

  Lemma add_entries_existing : forall pre x post e,
    jid x = jid e -> ~ In (jid e) (map jid pre) -> ~ In (jid e) (map jid post) ->
    add_entries (pre ++ x :: post) [e] = pre ++ e :: post.
  Proof.
    intros pre x post e Hx Hpre Hpost. unfold add_entries. cbn [add_entries_go].
    assert (Hin : bmem (jid e) (map jid (pre ++ x :: post)) = true).
    { apply bmem_In. rewrite map_app. apply in_or_app. right. left. exact Hx. }
    rewrite Hin. unfold update_entry. rewrite map_app. cbn [map].
    fold (update_entry pre e). fold (update_entry post e).
    rewrite (update_absent pre e Hpre), (update_absent post e Hpost).
    apply bytes_eqb_eq in Hx. rewrite Hx. reflexivity.
  Qed.

  Lemma add_uris_new : forall ex u, ~ In u ex -> add_uris ex [u] = ex ++ [u].
  Proof. intros ex u H. unfold add_uris. cbn [add_uris_go]. apply bmem_not_In in H. rewrite H. reflexivity. Qed.

  Lemma add_uris_existing : forall ex u, In u ex -> add_uris ex [u] = ex.
  Proof. intros ex u H. unfold add_uris. cbn [add_uris_go]. apply bmem_In in H. rewrite H. reflexivity. Qed.

  Lemma remove_entries_spec : forall ex ids e,
    In e (remove_entries ex ids) <-> In e ex /\ ~ In (jid e) ids.
  Proof.
    intros ex ids e. unfold remove_entries. rewrite filter_In. rewrite negb_true_iff, bmem_not_In. tauto.
  Qed.

  Lemma remove_entries_absent : forall ex ids,
    (forall i, In i ids -> ~ In i (map jid ex)) -> remove_entries ex ids = ex.
  Proof.
    intros ex ids H. unfold remove_entries. apply filter_all. apply Forall_forall. intros e He.
    apply negb_true_iff. apply bmem_not_In. intro Hin. apply (H _ Hin). apply in_map. exact He.
  Qed.

  Lemma remove_uris_spec : forall ex rem u, In u (remove_uris ex rem) <-> In u ex /\ ~ In u rem.
  Proof. intros ex rem u. unfold remove_uris. rewrite filter_In. rewrite negb_true_iff, bmem_not_In. tauto. Qed.

  Lemma remove_uris_absent : forall ex rem, (forall i, In i rem -> ~ In i ex) -> remove_uris ex rem = ex.
  Proof.
    intros ex rem H. unfold remove_uris. apply filter_all. apply Forall_forall. intros u Hu.
    apply negb_true_iff. apply bmem_not_In. intro Hin. exact (H _ Hin Hu).
  Qed.

  (* ---- 1. the four behaviours, on [apply_patch], for keys / services / URIs ---- *)

  (* adding an entry whose id is present (once) replaces that entry at its position; for URIs, adding a present URI
     changes nothing *)
  Theorem add_existing_replaces_in_place : forall m p,
    (forall pre x post e,
        patch_action p = Some a_add_pk -> patch_value p = Some (JArr [e]) -> is_obj e = true ->
        sec d_publicKey (JObj m) = pre ++ x :: post -> jid x = jid e ->
        ~ In (jid e) (map jid pre) -> ~ In (jid e) (map jid post) ->
        exists d', apply_patch jp (JObj m) p = Some d' /\ sec d_publicKey d' = pre ++ e :: post)
    /\ (forall pre x post e,
        patch_action p = Some a_add_svc -> patch_value p = Some (JArr [e]) -> is_obj e = true ->
        sec d_service (JObj m) = pre ++ x :: post -> jid x = jid e ->
        ~ In (jid e) (map jid pre) -> ~ In (jid e) (map jid post) ->
        exists d', apply_patch jp (JObj m) p = Some d' /\ sec d_service d' = pre ++ e :: post)
    /\ (forall u,
        patch_action p = Some a_add_aka -> patch_value p = Some (JArr [JStr u]) -> In u (uris (JObj m)) ->
        exists d', apply_patch jp (JObj m) p = Some d' /\ uris d' = uris (JObj m)).
  Proof.
    intros m p. split; [|split].
    - intros pre x post e Ha Hv He Hsec Hx Hpre Hpost.
      rewrite (dispatch_add_pk _ _ _ Ha Hv).
      destruct (add_section d_publicKey m (JArr [e])) as [d' [H1 [H2 _]]]. exists d'. split; [exact H1|].
      rewrite H2, Hsec. cbn [parse_entries filter]. rewrite He. apply add_entries_existing; assumption.
    - intros pre x post e Ha Hv He Hsec Hx Hpre Hpost.
      rewrite (dispatch_add_svc _ _ _ Ha Hv).
      destruct (add_section d_service m (JArr [e])) as [d' [H1 [H2 _]]]. exists d'. split; [exact H1|].
      rewrite H2, Hsec. cbn [parse_entries filter]. rewrite He. apply add_entries_existing; assumption.
    - intros u Ha Hv Hin. rewrite (dispatch_add_aka _ _ _ Ha Hv).
      destruct (add_aka_section m (JArr [JStr u])) as [d' [H1 [H2 _]]]. exists d'. split; [exact H1|].
      rewrite H2. cbn [string_array strings_of]. apply add_uris_existing. exact Hin.
  Qed.

  (* adding an entry whose id is absent appends it *)
  Theorem add_new_appends : forall m p,
    (forall e, patch_action p = Some a_add_pk -> patch_value p = Some (JArr [e]) -> is_obj e = true ->
        ~ In (jid e) (map jid (sec d_publicKey (JObj m))) ->
        exists d', apply_patch jp (JObj m) p = Some d' /\ sec d_publicKey d' = sec d_publicKey (JObj m) ++ [e])
    /\ (forall e, patch_action p = Some a_add_svc -> patch_value p = Some (JArr [e]) -> is_obj e = true ->
        ~ In (jid e) (map jid (sec d_service (JObj m))) ->
        exists d', apply_patch jp (JObj m) p = Some d' /\ sec d_service d' = sec d_service (JObj m) ++ [e])
    /\ (forall u, patch_action p = Some a_add_aka -> patch_value p = Some (JArr [JStr u]) ->
        ~ In u (uris (JObj m)) ->
        exists d', apply_patch jp (JObj m) p = Some d' /\ uris d' = uris (JObj m) ++ [u]).
  Proof.
    intros m p. split; [|split].
    - intros e Ha Hv He Hnin. rewrite (dispatch_add_pk _ _ _ Ha Hv).
      destruct (add_section d_publicKey m (JArr [e])) as [d' [H1 [H2 _]]]. exists d'. split; [exact H1|].
      rewrite H2. cbn [parse_entries filter]. rewrite He. apply add_entries_new. exact Hnin.
    - intros e Ha Hv He Hnin. rewrite (dispatch_add_svc _ _ _ Ha Hv).
      destruct (add_section d_service m (JArr [e])) as [d' [H1 [H2 _]]]. exists d'. split; [exact H1|].
      rewrite H2. cbn [parse_entries filter]. rewrite He. apply add_entries_new. exact Hnin.
    - intros u Ha Hv Hnin. rewrite (dispatch_add_aka _ _ _ Ha Hv).
      destruct (add_aka_section m (JArr [JStr u])) as [d' [H1 [H2 _]]]. exists d'. split; [exact H1|].
      rewrite H2. cbn [string_array strings_of]. apply add_uris_new. exact Hnin.
  Qed.

  (* removal keeps, in order, exactly the entries whose id is not listed; listed ids that are absent are ignored *)
  Theorem remove_deletes_ignores_absent : forall m p v,
    patch_value p = Some v ->
    (patch_action p = Some a_rem_pk ->
       exists d', apply_patch jp (JObj m) p = Some d'
         /\ sec d_publicKey d' = filter (fun e => negb (bmem (jid e) (string_array v))) (sec d_publicKey (JObj m))
         /\ (forall e, In e (sec d_publicKey d') <-> In e (sec d_publicKey (JObj m)) /\ ~ In (jid e) (string_array v))
         /\ ((forall i, In i (string_array v) -> ~ In i (map jid (sec d_publicKey (JObj m)))) ->
             sec d_publicKey d' = sec d_publicKey (JObj m)))
    /\ (patch_action p = Some a_rem_svc ->
       exists d', apply_patch jp (JObj m) p = Some d'
         /\ sec d_service d' = filter (fun e => negb (bmem (jid e) (string_array v))) (sec d_service (JObj m))
         /\ (forall e, In e (sec d_service d') <-> In e (sec d_service (JObj m)) /\ ~ In (jid e) (string_array v))
         /\ ((forall i, In i (string_array v) -> ~ In i (map jid (sec d_service (JObj m)))) ->
             sec d_service d' = sec d_service (JObj m)))
    /\ (patch_action p = Some a_rem_aka ->
       exists d', apply_patch jp (JObj m) p = Some d'
         /\ uris d' = filter (fun u => negb (bmem u (string_array v))) (uris (JObj m))
         /\ (forall u, In u (uris d') <-> In u (uris (JObj m)) /\ ~ In u (string_array v))
         /\ ((forall i, In i (string_array v) -> ~ In i (uris (JObj m))) -> uris d' = uris (JObj m))).
  Proof.
    intros m p v Hv. split; [|split]; intro Ha.
    - rewrite (dispatch_rem_pk _ _ _ Ha Hv).
      destruct (remove_section d_publicKey m v) as [d' [H1 [H2 _]]]. exists d'. split; [exact H1|].
      rewrite H2. split; [reflexivity|]. split.
      + intro e. apply remove_entries_spec.
      + apply remove_entries_absent.
    - rewrite (dispatch_rem_svc _ _ _ Ha Hv).
      destruct (remove_section d_service m v) as [d' [H1 [H2 _]]]. exists d'. split; [exact H1|].
      rewrite H2. split; [reflexivity|]. split.
      + intro e. apply remove_entries_spec.
      + apply remove_entries_absent.
    - rewrite (dispatch_rem_aka _ _ _ Ha Hv).
      destruct (remove_aka_section m v) as [d' [H1 [H2 _]]]. exists d'. split; [exact H1|].
      rewrite H2. split; [reflexivity|]. split.
      + intro u. apply remove_uris_spec.
      + apply remove_uris_absent.
  Qed.

  (* a replace patch yields, whatever the document was (nil included), a document with exactly the members publicKey
     and service, holding the given keys and services; also-known-as URIs and all other members are gone *)
  Theorem replace_resets : forall d p rm,
    patch_action p = Some a_replace -> patch_value p = Some (JObj rm) ->
    apply_patch jp d p
      = Some (JObj [(d_publicKey, doc_get pk_publicKeys (JObj rm)); (d_service, doc_get pk_services (JObj rm))])
    /\ (forall d', apply_patch jp d p = Some d' ->
          sec d_publicKey d' = parse_entries (doc_get pk_publicKeys (JObj rm))
          /\ sec d_service d' = parse_entries (doc_get pk_services (JObj rm))
          /\ uris d' = []
          /\ (forall k, k <> d_publicKey -> k <> d_service -> jget k (members d') = None)).
  Proof.
    intros d p rm Ha Hv. rewrite (dispatch_replace _ _ _ Ha Hv). cbn [apply_replace res_opt].
    split; [reflexivity|]. intros d' Hd'. inversion Hd'; subst d'. clear Hd'.
    split; [reflexivity|]. split; [reflexivity|]. split; [reflexivity|].
    intros k H1 H2. cbn [members jget].
    apply bytes_eqb_neq in H1. apply bytes_eqb_neq in H2. rewrite H1, H2. reflexivity.
  Qed.
End Proofs.

(* ------------------------------------------------------------------------------------------------ *)
(* 2. refinement of the ordered-map specification; 3. uniqueness of ids                               *)

Lemma ne_pk_svc : d_publicKey <> d_service. Proof. intro H. vm_compute in H. discriminate H. Qed.
Lemma ne_pk_aka : d_publicKey <> d_alsoKnownAs. Proof. intro H. vm_compute in H. discriminate H. Qed.
Lemma ne_svc_pk : d_service <> d_publicKey. Proof. intro H. vm_compute in H. discriminate H. Qed.
Lemma ne_svc_aka : d_service <> d_alsoKnownAs. Proof. intro H. vm_compute in H. discriminate H. Qed.
Lemma ne_aka_pk : d_alsoKnownAs <> d_publicKey. Proof. intro H. vm_compute in H. discriminate H. Qed.
Lemma ne_aka_svc : d_alsoKnownAs <> d_service. Proof. intro H. vm_compute in H. discriminate H. Qed.

(* the invariant: ids are pairwise distinct inside each section *)
Definition sections_nodup (d : json) : Prop :=
  NoDup (map jid (sec d_publicKey d)) /\ NoDup (map jid (sec d_service d)) /\ NoDup (uris d).

Lemma abs_doc_eq : forall d,
  abs_doc d = {| da_keys := abs_l (sec d_publicKey d); da_services := abs_l (sec d_service d); da_aka := abs_u (uris d) |}.
Proof. reflexivity. Qed.

Lemma sec_frame : forall k d d', doc_get k d' = doc_get k d -> sec k d' = sec k d.
Proof. intros k d d' H. unfold sec. rewrite H. reflexivity. Qed.

Lemma uris_frame : forall d d', doc_get d_alsoKnownAs d' = doc_get d_alsoKnownAs d -> uris d' = uris d.
Proof. intros d d' H. unfold uris. rewrite H. reflexivity. Qed.

Section Refinement.
  Variable jp : json -> json -> option json.

  (* For a document (an object), the abstraction of the patched document is the ordered-map operation applied to
     the abstraction of the document: add-* = omap_add of the patch entries in order (an id repeated inside the patch
     overwrites, in place, the entry added earlier), remove-* = omap_remove of the listed ids; the other two
     sections are unchanged.
     Remaining hypotheses: add-public-keys / add-services need the ids of the TOUCHED document section to be
     pairwise distinct (updateKey overwrites every entry with the id, the ordered map has one); nothing is assumed
     about the patch.  add-also-known-as and the three remove-* actions need no hypothesis at all. *)
  Theorem refines_ordered_map : forall m p v,
    patch_value p = Some v ->
    let a := abs_doc (JObj m) in
    (patch_action p = Some a_add_pk ->
       NoDup (map jid (sec d_publicKey (JObj m))) ->
       exists d', apply_patch jp (JObj m) p = Some d' /\
         abs_doc d' = {| da_keys := omap_add_all (parse_entries v) (da_keys a);
                         da_services := da_services a; da_aka := da_aka a |})
    /\ (patch_action p = Some a_rem_pk ->
       exists d', apply_patch jp (JObj m) p = Some d' /\
         abs_doc d' = {| da_keys := omap_remove_all (string_array v) (da_keys a);
                         da_services := da_services a; da_aka := da_aka a |})
    /\ (patch_action p = Some a_add_svc ->
       NoDup (map jid (sec d_service (JObj m))) ->
       exists d', apply_patch jp (JObj m) p = Some d' /\
         abs_doc d' = {| da_keys := da_keys a;
                         da_services := omap_add_all (parse_entries v) (da_services a); da_aka := da_aka a |})
    /\ (patch_action p = Some a_rem_svc ->
       exists d', apply_patch jp (JObj m) p = Some d' /\
         abs_doc d' = {| da_keys := da_keys a;
                         da_services := omap_remove_all (string_array v) (da_services a); da_aka := da_aka a |})
    /\ (patch_action p = Some a_add_aka ->
       exists d', apply_patch jp (JObj m) p = Some d' /\
         abs_doc d' = {| da_keys := da_keys a; da_services := da_services a;
                         da_aka := omap_add_uris (string_array v) (da_aka a) |})
    /\ (patch_action p = Some a_rem_aka ->
       exists d', apply_patch jp (JObj m) p = Some d' /\
         abs_doc d' = {| da_keys := da_keys a; da_services := da_services a;
                         da_aka := omap_remove_all (string_array v) (da_aka a) |}).
  Proof.
    intros m p v Hv a. subst a. rewrite (abs_doc_eq (JObj m)). cbn [da_keys da_services da_aka].
    split; [|split; [|split; [|split; [|split]]]].
    - intros Ha Hex. rewrite (dispatch_add_pk jp _ _ _ Ha Hv).
      destruct (add_section d_publicKey m v) as [d' [H1 [H2 H3]]]. exists d'. split; [exact H1|].
      rewrite abs_doc_eq. rewrite (sec_frame _ _ _ (H3 _ ne_pk_svc)), (uris_frame _ _ (H3 _ ne_pk_aka)).
      rewrite H2. rewrite (proj1 (add_entries_refines _ (parse_entries v) Hex)). reflexivity.
    - intros Ha. rewrite (dispatch_rem_pk jp _ _ _ Ha Hv).
      destruct (remove_section d_publicKey m v) as [d' [H1 [H2 H3]]]. exists d'. split; [exact H1|].
      rewrite abs_doc_eq. rewrite (sec_frame _ _ _ (H3 _ ne_pk_svc)), (uris_frame _ _ (H3 _ ne_pk_aka)).
      rewrite H2. rewrite remove_entries_refines. reflexivity.
    - intros Ha Hex. rewrite (dispatch_add_svc jp _ _ _ Ha Hv).
      destruct (add_section d_service m v) as [d' [H1 [H2 H3]]]. exists d'. split; [exact H1|].
      rewrite abs_doc_eq. rewrite (sec_frame _ _ _ (H3 _ ne_svc_pk)), (uris_frame _ _ (H3 _ ne_svc_aka)).
      rewrite H2. rewrite (proj1 (add_entries_refines _ (parse_entries v) Hex)). reflexivity.
    - intros Ha. rewrite (dispatch_rem_svc jp _ _ _ Ha Hv).
      destruct (remove_section d_service m v) as [d' [H1 [H2 H3]]]. exists d'. split; [exact H1|].
      rewrite abs_doc_eq. rewrite (sec_frame _ _ _ (H3 _ ne_svc_pk)), (uris_frame _ _ (H3 _ ne_svc_aka)).
      rewrite H2. rewrite remove_entries_refines. reflexivity.
    - intros Ha. rewrite (dispatch_add_aka jp _ _ _ Ha Hv).
      destruct (add_aka_section m v) as [d' [H1 [H2 H3]]]. exists d'. split; [exact H1|].
      rewrite abs_doc_eq. rewrite (sec_frame _ _ _ (H3 _ ne_aka_pk)), (sec_frame _ _ _ (H3 _ ne_aka_svc)).
      rewrite H2. rewrite (proj1 (add_uris_refines (uris (JObj m)) (string_array v))). reflexivity.
    - intros Ha. rewrite (dispatch_rem_aka jp _ _ _ Ha Hv).
      destruct (remove_aka_section m v) as [d' [H1 [H2 H3]]]. exists d'. split; [exact H1|].
      rewrite abs_doc_eq. rewrite (sec_frame _ _ _ (H3 _ ne_aka_pk)), (sec_frame _ _ _ (H3 _ ne_aka_svc)).
      rewrite H2. rewrite remove_uris_refines. reflexivity.
  Qed.

  (* 3. no hypothesis on the patch: whatever a set action carries, ids stay pairwise distinct *)
  Theorem ids_unique_preserved : forall m p v d',
    patch_value p = Some v ->
    (patch_action p = Some a_add_pk \/ patch_action p = Some a_rem_pk \/ patch_action p = Some a_add_svc
     \/ patch_action p = Some a_rem_svc \/ patch_action p = Some a_add_aka \/ patch_action p = Some a_rem_aka) ->
    sections_nodup (JObj m) ->
    apply_patch jp (JObj m) p = Some d' -> sections_nodup d'.
  Proof.
    intros m p v d' Hv Hact [Hk [Hs Hu]] Happ. unfold sections_nodup.
    destruct Hact as [Ha|[Ha|[Ha|[Ha|[Ha|Ha]]]]].
    - rewrite (dispatch_add_pk jp _ _ _ Ha Hv) in Happ.
      destruct (add_section d_publicKey m v) as [d2 [H1 [H2 H3]]]. rewrite H1 in Happ. inversion Happ; subst d2.
      rewrite (sec_frame _ _ _ (H3 _ ne_pk_svc)), (uris_frame _ _ (H3 _ ne_pk_aka)), H2.
      split; [|split; assumption]. apply (add_entries_refines _ (parse_entries v) Hk).
    - rewrite (dispatch_rem_pk jp _ _ _ Ha Hv) in Happ.
      destruct (remove_section d_publicKey m v) as [d2 [H1 [H2 H3]]]. rewrite H1 in Happ. inversion Happ; subst d2.
      rewrite (sec_frame _ _ _ (H3 _ ne_pk_svc)), (uris_frame _ _ (H3 _ ne_pk_aka)), H2.
      split; [|split; assumption]. unfold remove_entries. apply NoDup_map_filter. exact Hk.
    - rewrite (dispatch_add_svc jp _ _ _ Ha Hv) in Happ.
      destruct (add_section d_service m v) as [d2 [H1 [H2 H3]]]. rewrite H1 in Happ. inversion Happ; subst d2.
      rewrite (sec_frame _ _ _ (H3 _ ne_svc_pk)), (uris_frame _ _ (H3 _ ne_svc_aka)), H2.
      split; [assumption|split; [|assumption]]. apply (add_entries_refines _ (parse_entries v) Hs).
    - rewrite (dispatch_rem_svc jp _ _ _ Ha Hv) in Happ.
      destruct (remove_section d_service m v) as [d2 [H1 [H2 H3]]]. rewrite H1 in Happ. inversion Happ; subst d2.
      rewrite (sec_frame _ _ _ (H3 _ ne_svc_pk)), (uris_frame _ _ (H3 _ ne_svc_aka)), H2.
      split; [assumption|split; [|assumption]]. unfold remove_entries. apply NoDup_map_filter. exact Hs.
    - rewrite (dispatch_add_aka jp _ _ _ Ha Hv) in Happ.
      destruct (add_aka_section m v) as [d2 [H1 [H2 H3]]]. rewrite H1 in Happ. inversion Happ; subst d2.
      rewrite (sec_frame _ _ _ (H3 _ ne_aka_pk)), (sec_frame _ _ _ (H3 _ ne_aka_svc)), H2.
      split; [assumption|split; [assumption|]]. apply (add_uris_refines (uris (JObj m)) (string_array v)). exact Hu.
    - rewrite (dispatch_rem_aka jp _ _ _ Ha Hv) in Happ.
      destruct (remove_aka_section m v) as [d2 [H1 [H2 H3]]]. rewrite H1 in Happ. inversion Happ; subst d2.
      rewrite (sec_frame _ _ _ (H3 _ ne_aka_pk)), (sec_frame _ _ _ (H3 _ ne_aka_svc)), H2.
      split; [assumption|split; [assumption|]]. unfold remove_uris.
      rewrite <- (map_id (filter _ _)). apply NoDup_map_filter. rewrite map_id. exact Hu.
  Qed.
End Refinement.

(* Since commit 94b5572 an id carried twice by one patch yields ONE entry: the later one, at the position where
   the first was appended (before the fix both were appended; see the history of this file / finding D1). *)
Example dup_in_patch_keys :
  apply_patch jp_none (JObj [])
    (mk_patch a_add_pk pk_publicKeys (JArr [ex_key "k1" "a"; ex_key "k2" "x"; ex_key "k1" "b"]))
  = Some (JObj [(d_publicKey, JArr [ex_key "k1" "b"; ex_key "k2" "x"])]).
Proof. vm_compute. reflexivity. Qed.

Example dup_in_patch_services :
  apply_patch jp_none (JObj [(d_service, JArr [ex_key "s0" "old"])])
    (mk_patch a_add_svc pk_services (JArr [ex_key "s1" "a"; ex_key "s0" "new"; ex_key "s1" "b"]))
  = Some (JObj [(d_service, JArr [ex_key "s0" "new"; ex_key "s1" "b"])]).
Proof. vm_compute. reflexivity. Qed.

Example dup_in_patch_uris :
  apply_patch jp_none (JObj []) (mk_patch a_add_aka pk_uris (JArr [JStr (bs "u"); JStr (bs "w"); JStr (bs "u")]))
  = Some (JObj [(d_alsoKnownAs, JArr [JStr (bs "u"); JStr (bs "w")])]).
Proof. vm_compute. reflexivity. Qed.

(* the former counterexample now satisfies the refinement and keeps the ids distinct *)
Example dup_in_patch_refines :
  let v := JArr [ex_key "k1" "a"; ex_key "k1" "b"] in
  match apply_patch jp_none (JObj []) (mk_patch a_add_pk pk_publicKeys v) with
  | Some d' => da_keys (abs_doc d') = omap_add_all (parse_entries v) (da_keys (abs_doc (JObj [])))
               /\ da_keys (abs_doc d') = [(bs "k1", ex_key "k1" "b")]
  | None => False
  end.
Proof. vm_compute. split; reflexivity. Qed.

(* the hypothesis that remains (distinct ids in the touched section) holds for a non-trivial input, and is needed:
   on a section that already holds an id twice, updateKey overwrites both entries *)
Example refinement_hyps_inhabited :
  let d := JObj [(d_publicKey, JArr [ex_key "k1" "a"; ex_key "k2" "b"]); (d_alsoKnownAs, JArr [JStr (bs "u")])] in
  let v := JArr [ex_key "k2" "c"; ex_key "k3" "d"; ex_key "k3" "e"] in
  sections_nodup d /\
  apply_patch jp_none d (mk_patch a_add_pk pk_publicKeys v)
  = Some (JObj [(d_publicKey, JArr [ex_key "k1" "a"; ex_key "k2" "c"; ex_key "k3" "e"]);
                (d_alsoKnownAs, JArr [JStr (bs "u")])]).
Proof.
  cbv zeta. split.
  - unfold sections_nodup. vm_compute. repeat split; repeat constructor; cbn [In]; intuition discriminate.
  - vm_compute. reflexivity.
Qed.

Example section_nodup_needed :
  let d := JObj [(d_publicKey, JArr [ex_key "k1" "a"; ex_key "k1" "b"])] in
  let v := JArr [ex_key "k1" "c"] in
  match apply_patch jp_none d (mk_patch a_add_pk pk_publicKeys v) with
  | Some d' => da_keys (abs_doc d') = [(bs "k1", ex_key "k1" "c"); (bs "k1", ex_key "k1" "c")]
               /\ omap_add_all (parse_entries v) (da_keys (abs_doc d))
                  = [(bs "k1", ex_key "k1" "c"); (bs "k1", ex_key "k1" "b")]
  | None => False
  end.
Proof. vm_compute. split; reflexivity. Qed.

(* ------------------------------------------------------------------------------------------------ *)
(* 4. atomicity                                                                                      *)

Section Atomic.
  Variable jp : json -> json -> option json.

  Lemma apply_patches_res : forall ps d, apply_patches jp d ps = res_opt (apply_patches_r jp d ps).
  Proof.
    induction ps as [|p r IH]; intro d; cbn [apply_patches apply_patches_r]; [reflexivity|].
    unfold apply_patch. destruct (apply_patch_r jp d p) as [d1| |]; cbn [res_opt]; [apply IH|reflexivity|reflexivity].
  Qed.

  Definition obind (o : option json) (f : json -> option json) : option json :=
    match o with Some d => f d | None => None end.

  Theorem atomic_app : forall ps1 ps2 d,
    apply_patches jp d (ps1 ++ ps2) = obind (apply_patches jp d ps1) (fun d' => apply_patches jp d' ps2).
  Proof.
    induction ps1 as [|p r IH]; intros ps2 d; cbn [app apply_patches obind]; [reflexivity|].
    destruct (apply_patch jp d p) as [d1|]; [apply IH|reflexivity].
  Qed.

  (* the call fails as a whole exactly when some patch fails on the result of the patches before it; otherwise every
     patch has been applied, in order *)
  Theorem atomic : forall ps d,
    apply_patches jp d ps = None <->
    exists k dk p, nth_error ps k = Some p /\ apply_patches jp d (firstn k ps) = Some dk /\ apply_patch jp dk p = None.
  Proof.
    induction ps as [|p r IH]; intro d.
    - cbn [apply_patches]. split; [discriminate|]. intros [k [dk [p [Hn _]]]]. destruct k; discriminate Hn.
    - cbn [apply_patches]. destruct (apply_patch jp d p) as [d1|] eqn:E.
      + rewrite IH. split.
        * intros [k [dk [q [Hn [Hf Hq]]]]]. exists (S k), dk, q. cbn [nth_error firstn apply_patches].
          rewrite E. tauto.
        * intros [k [dk [q [Hn [Hf Hq]]]]]. destruct k as [|k].
          -- cbn [nth_error firstn apply_patches] in Hn, Hf. inversion Hn; subst q. inversion Hf; subst dk.
             rewrite E in Hq. discriminate Hq.
          -- cbn [nth_error firstn apply_patches] in Hn, Hf. rewrite E in Hf. exists k, dk, q. tauto.
      + split; [|reflexivity]. intros _. exists 0, d, p. cbn [nth_error firstn apply_patches]. tauto.
  Qed.

  Corollary all_applied : forall ps d d',
    apply_patches jp d ps = Some d' ->
    forall k, k <= List.length ps -> exists dk, apply_patches jp d (firstn k ps) = Some dk
                                  /\ apply_patches jp dk (skipn k ps) = Some d'.
  Proof.
    intros ps d d' H k _. rewrite <- (firstn_skipn k ps) in H. rewrite atomic_app in H.
    destruct (apply_patches jp d (firstn k ps)) as [dk|]; [|discriminate H]. exists dk. split; [reflexivity|exact H].
  Qed.
End Atomic.

(* ------------------------------------------------------------------------------------------------ *)
(* 5. PatchesFromDocument followed by ApplyPatches on the empty document                              *)

(* member names that need no JSON-pointer escaping *)
Definition name_plain (k : bytes) : bool :=
  forallb (fun b => negb (Byte.eqb b "/"%byte) && negb (Byte.eqb b "~"%byte)) k.

(* non-empty list of objects with pairwise distinct ids (a missing or non-string id counts as "") *)
Definition entries_ok (v : json) : Prop :=
  exists l, v = JArr l /\ l <> [] /\ Forall (fun e => is_obj e = true) l /\ NoDup (map jid l).

(* non-empty list of pairwise distinct strings *)
Definition uris_ok (v : json) : Prop := exists us, v = JArr (map JStr us) /\ us <> [] /\ NoDup us.

Definition is_section (k : bytes) : bool :=
  if bytes_eqb k d_publicKey then true else if bytes_eqb k d_service then true
  else if bytes_eqb k d_alsoKnownAs then true else false.

(* a well-formed member: the three sections are non-empty lists of objects / of strings WITHOUT REPEATED ids / URIs
   (since commit 94b5572 a repeated id collapses to one entry, so such a document is not reproduced; before the fix
   the repetition was reproduced and this condition was not needed); every other member name
   denotes itself as a JSON-pointer token ([name_plain]: no '/', no '~' - the property's premise "needs no JSON-pointer
   escaping").  Until the repair 5d68dd6 (F17) the name also had to denote itself when pasted into JSON text
   ([key_plain]: no quote, backslash or control byte); that condition is gone. *)
Definition wf_member (kv : bytes * json) : Prop :=
  if bytes_eqb (fst kv) d_publicKey then entries_ok (snd kv)
  else if bytes_eqb (fst kv) d_service then entries_ok (snd kv)
  else if bytes_eqb (fst kv) d_alsoKnownAs then uris_ok (snd kv)
  else name_plain (fst kv) = true.

Definition wf_document (m : list (bytes * json)) : Prop :=
  NoDup (map fst m) /\ has_id (JObj m) = false /\ Forall wf_member m.

Definition sec_patch (kv : bytes * json) : json :=
  if bytes_eqb (fst kv) d_publicKey then mk_patch a_add_pk pk_publicKeys (snd kv)
  else if bytes_eqb (fst kv) d_service then mk_patch a_add_svc pk_services (snd kv)
  else mk_patch a_add_aka pk_uris (snd kv).

Definition jp_op (kv : bytes * json) : json := jp_add_op (fst kv) (snd kv).
Definition issec (kv : bytes * json) : bool := is_section (fst kv).
Definition notsec (kv : bytes * json) : bool := negb (is_section (fst kv)).

Lemma insert_member_perm : forall k v l, Permutation (insert_member k v l) ((k, v) :: l).
Proof.
  intros k v l. induction l as [|[k' v'] r IH]; cbn [insert_member]; [apply Permutation_refl|].
  destruct (bytes_ltb k' k); [|apply Permutation_refl].
  eapply perm_trans; [apply perm_skip; exact IH|apply perm_swap].
Qed.

Lemma sort_members_perm : forall m, Permutation (sort_members m) m.
Proof.
  induction m as [|[k v] r IH]; cbn [sort_members]; [apply perm_nil|].
  eapply perm_trans; [apply insert_member_perm|apply perm_skip; exact IH].
Qed.

Lemma filter_partition_perm : forall (A : Type) (f : A -> bool) l,
  Permutation (filter f l ++ filter (fun x => negb (f x)) l) l.
Proof.
  intros A f l. induction l as [|x r IH]; cbn [filter]; [apply perm_nil|].
  destruct (f x); cbn [negb app].
  - apply perm_skip. exact IH.
  - eapply perm_trans; [apply Permutation_sym; apply Permutation_middle|apply perm_skip; exact IH].
Qed.

Lemma NoDup_app_parts : forall (A : Type) (a b : list A),
  NoDup (a ++ b) -> NoDup a /\ NoDup b /\ (forall x, In x a -> ~ In x b).
Proof.
  intros A a b. induction a as [|x r IH]; cbn [app]; intro H.
  - split; [constructor|]. split; [exact H|]. intros x [].
  - inversion H as [|? ? Hx Hr]; subst. destruct (IH Hr) as [H1 [H2 H3]]. split; [|split; [exact H2|]].
    + constructor; [|exact H1]. intro Hin. apply Hx. apply in_or_app. left. exact Hin.
    + intros y [Hy|Hy]; [subst y; intro Hin; apply Hx; apply in_or_app; right; exact Hin|apply H3; exact Hy].
Qed.

Lemma jget_none_notin : forall k m, ~ In k (map fst m) -> jget k m = None.
Proof.
  intros k m. induction m as [|[k' v] r IH]; intro H; cbn [jget]; [reflexivity|].
  cbn [map fst In] in H. assert (Hk : k <> k') by (intro E; apply H; left; symmetry; exact E).
  apply bytes_eqb_neq in Hk. rewrite Hk. apply IH. tauto.
Qed.

Lemma jget_none_app : forall k k' v m, jget k m = None -> k <> k' -> jget k (m ++ [(k', v)]) = None.
Proof.
  intros k k' v m. induction m as [|[k2 v2] r IH]; intros H Hne; cbn [app jget] in *.
  - apply bytes_eqb_neq in Hne. rewrite Hne. reflexivity.
  - destruct (bytes_eqb k k2); [discriminate H|]. apply IH; assumption.
Qed.

Lemma jset_absent : forall k v m, jget k m = None -> jset k v m = m ++ [(k, v)].
Proof.
  intros k v m. induction m as [|[k' v'] r IH]; intro H; cbn [jset jget app] in *; [reflexivity|].
  destruct (bytes_eqb k k'); [discriminate H|]. rewrite IH by exact H. reflexivity.
Qed.

Lemma add_entries_nil : forall l, NoDup (map jid l) -> add_entries [] l = l.
Proof.
  intros l H. unfold add_entries. change (map jid []) with (map jid (@nil json)).
  rewrite (add_go_fresh l [] H); [reflexivity|]. intros e _ [].
Qed.

Lemma add_uris_nil : forall l, NoDup l -> add_uris [] l = l.
Proof. intros l H. unfold add_uris. rewrite (add_uris_go_fresh l [] H); [reflexivity|]. intros u _ []. Qed.

Lemma uris_of_list_strs : forall us, uris_of_list (map JStr us) = Some us.
Proof. induction us as [|u r IH]; cbn [map uris_of_list]; [reflexivity|]. rewrite IH. reflexivity. Qed.

Lemma uris_of_ok : forall us, us <> [] -> uris_of (JArr (map JStr us)) = Some us.
Proof.
  intros us H. unfold uris_of. rewrite uris_of_list_strs. destruct us; [contradiction|reflexivity].
Qed.

Lemma sec_patch_1 : forall k v, bytes_eqb k d_publicKey = true -> sec_patch (k, v) = mk_patch a_add_pk pk_publicKeys v.
Proof. intros k v E. unfold sec_patch. cbn [fst snd]. rewrite E. reflexivity. Qed.

Lemma sec_patch_2 : forall k v, bytes_eqb k d_publicKey = false -> bytes_eqb k d_service = true ->
  sec_patch (k, v) = mk_patch a_add_svc pk_services v.
Proof. intros k v E1 E2. unfold sec_patch. cbn [fst snd]. rewrite E1, E2. reflexivity. Qed.

Lemma sec_patch_3 : forall k v, bytes_eqb k d_publicKey = false -> bytes_eqb k d_service = false ->
  sec_patch (k, v) = mk_patch a_add_aka pk_uris v.
Proof. intros k v E1 E2. unfold sec_patch. cbn [fst snd]. rewrite E1, E2. reflexivity. Qed.

(* what PatchesFromDocument emits for well-formed members, in the order of the members *)
Lemma pfd_go_wf : forall ms, Forall wf_member ms ->
  pfd_go ms = Some (map sec_patch (filter issec ms), map jp_op (filter notsec ms)).
Proof.
  induction ms as [|[k v] r IH]; intro H; cbn [pfd_go]; [reflexivity|].
  inversion H as [|? ? Hkv Hr]; subst. rewrite (IH Hr).
  unfold wf_member in Hkv. cbn [fst snd] in Hkv.
  cbn [filter]. change (issec (k, v)) with (is_section k). change (notsec (k, v)) with (negb (is_section k)).
  unfold is_section.
  destruct (bytes_eqb k d_publicKey) eqn:E1.
  - cbn [negb map]. rewrite (sec_patch_1 k v E1). reflexivity.
  - destruct (bytes_eqb k d_service) eqn:E2.
    + cbn [negb map]. rewrite (sec_patch_2 k v E1 E2). reflexivity.
    + destruct (bytes_eqb k d_alsoKnownAs) eqn:E3.
      * destruct Hkv as [us [Hv [Hne _]]]. subst v. rewrite (uris_of_ok us Hne).
        cbn [negb map]. rewrite (sec_patch_3 k _ E1 E2). reflexivity.
      * cbn [negb map]. reflexivity.
Qed.

Lemma pa_pk : forall v, patch_action (mk_patch a_add_pk pk_publicKeys v) = Some a_add_pk. Proof. reflexivity. Qed.
Lemma pv_pk : forall v, patch_value (mk_patch a_add_pk pk_publicKeys v) = Some v. Proof. reflexivity. Qed.
Lemma pa_svc : forall v, patch_action (mk_patch a_add_svc pk_services v) = Some a_add_svc. Proof. reflexivity. Qed.
Lemma pv_svc : forall v, patch_value (mk_patch a_add_svc pk_services v) = Some v. Proof. reflexivity. Qed.
Lemma pa_aka : forall v, patch_action (mk_patch a_add_aka pk_uris v) = Some a_add_aka. Proof. reflexivity. Qed.
Lemma pv_aka : forall v, patch_value (mk_patch a_add_aka pk_uris v) = Some v. Proof. reflexivity. Qed.
Lemma pa_json : forall v, patch_action (mk_patch a_json pk_patches v) = Some a_json. Proof. reflexivity. Qed.
Lemma pv_json : forall v, patch_value (mk_patch a_json pk_patches v) = Some v. Proof. reflexivity. Qed.

Section RoundTrip.
  Variable jp : json -> json -> option json.

  (* ASSUMPTION on the JSON-patch engine (github.com/evanphx/json-patch, not modelled here): a list of
     {"op":"add","path":"/k","value":v} whose names k need no pointer escaping, are pairwise distinct and are not
     members of the object document succeeds and yields the document extended with exactly those members. *)
  Hypothesis jp_add_fresh_members : forall kvs m,
    Forall (fun kv => name_plain (fst kv) = true) kvs -> NoDup (map fst kvs) ->
    (forall k, In k (map fst kvs) -> jget k m = None) ->
    exists m', jp (JArr (map jp_op kvs)) (JObj m) = Some (JObj m') /\ Permutation m' (m ++ kvs).

  Lemma apply_sec_patch : forall k v acc,
    wf_member (k, v) -> is_section k = true -> jget k acc = None ->
    apply_patch jp (JObj acc) (sec_patch (k, v)) = Some (JObj (acc ++ [(k, v)])).
  Proof.
    intros k v acc Hwf Hsec Hnone. unfold wf_member in Hwf. unfold is_section in Hsec. unfold sec_patch.
    cbn [fst snd] in *.
    destruct (bytes_eqb k d_publicKey) eqn:E1; [|destruct (bytes_eqb k d_service) eqn:E2;
                                                   [|destruct (bytes_eqb k d_alsoKnownAs) eqn:E3; [|discriminate Hsec]]].
    - apply bytes_eqb_eq in E1. subst k. destruct Hwf as [l [Hv [Hne [Hobj Hndl]]]]. subst v.
      rewrite (dispatch_add_pk jp (JObj acc) _ (JArr l) (pa_pk _) (pv_pk _)).
      unfold apply_add_entries, doc_get. cbn [members]. rewrite Hnone. cbn [parse_entries].
      rewrite (filter_all _ _ _ Hobj). rewrite (add_entries_nil l Hndl).
      destruct l as [|e l']; [contradiction|]. cbn [arr_or_null doc_set res_opt].
      rewrite (jset_absent _ _ _ Hnone). reflexivity.
    - apply bytes_eqb_eq in E2. subst k. destruct Hwf as [l [Hv [Hne [Hobj Hndl]]]]. subst v.
      rewrite (dispatch_add_svc jp (JObj acc) _ (JArr l) (pa_svc _) (pv_svc _)).
      unfold apply_add_entries, doc_get. cbn [members]. rewrite Hnone. cbn [parse_entries].
      rewrite (filter_all _ _ _ Hobj). rewrite (add_entries_nil l Hndl).
      destruct l as [|e l']; [contradiction|]. cbn [arr_or_null doc_set res_opt].
      rewrite (jset_absent _ _ _ Hnone). reflexivity.
    - apply bytes_eqb_eq in E3. subst k. destruct Hwf as [us [Hv [Hne Hndu]]]. subst v.
      rewrite (dispatch_add_aka jp (JObj acc) _ (JArr (map JStr us)) (pa_aka _) (pv_aka _)).
      unfold apply_add_aka, doc_get. cbn [members]. rewrite Hnone. cbn [string_array strings_of].
      rewrite strings_of_map_JStr. rewrite (add_uris_nil us Hndu).
      destruct us as [|u us']; [contradiction|]. cbn [map arr_or_null doc_set res_opt].
      rewrite (jset_absent _ _ _ Hnone). reflexivity.
  Qed.

  Lemma apply_sec_patches : forall secs acc,
    Forall wf_member secs -> Forall (fun kv => issec kv = true) secs -> NoDup (map fst secs) ->
    (forall k, In k (map fst secs) -> jget k acc = None) ->
    apply_patches jp (JObj acc) (map sec_patch secs) = Some (JObj (acc ++ secs)).
  Proof.
    induction secs as [|[k v] r IH]; intros acc Hwf Hsec Hnd Hnone; cbn [map apply_patches].
    - rewrite app_nil_r. reflexivity.
    - inversion Hwf as [|? ? Hwf1 Hwfr]; subst. inversion Hsec as [|? ? Hsec1 Hsecr]; subst.
      cbn [map fst] in Hnd. inversion Hnd as [|? ? Hk Hndr]; subst.
      rewrite (apply_sec_patch k v acc Hwf1 Hsec1 (Hnone k (or_introl eq_refl))).
      rewrite (IH (acc ++ [(k, v)]) Hwfr Hsecr Hndr).
      + rewrite <- app_assoc. reflexivity.
      + intros k' Hk'. apply jget_none_app.
        * apply Hnone. right. exact Hk'.
        * intro E. subst k'. contradiction.
  Qed.

  (* A well-formed document, converted to patches and applied to the empty document, gives back a document with
     exactly the same members (same names, same values; member order is not observable in Go).
     The conclusion [Permutation m' m] says: same member names with identical values.  The [json_equiv] form is
     [from_document_roundtrip_equiv] at the end of this file (via [perm_members_equiv]). *)
  Theorem from_document_roundtrip : forall m,
    wf_document m ->
    exists ps m', patches_from_document (JObj m) = Some ps
                  /\ apply_patches jp (JObj []) ps = Some (JObj m') /\ Permutation m' m.
  Proof.
    intros m [Hnd [Hid Hwf]].
    pose proof (sort_members_perm m) as Hperm.
    set (ms := sort_members m) in *.
    assert (Hwf' : Forall wf_member ms).
    { apply Forall_forall. intros kv Hin. rewrite Forall_forall in Hwf. apply Hwf.
      apply (Permutation_in _ Hperm). exact Hin. }
    assert (Hnd' : NoDup (map fst ms)).
    { apply (Permutation_NoDup (l := map fst m)); [|exact Hnd]. apply Permutation_map. apply Permutation_sym. exact Hperm. }
    pose proof (filter_partition_perm _ issec ms) as Hpart.
    fold notsec in Hpart. change (fun x => negb (issec x)) with notsec in Hpart.
    set (secs := filter issec ms) in *. set (others := filter notsec ms) in *.
    assert (Hnd2 : NoDup (map fst secs ++ map fst others)).
    { rewrite <- map_app. apply (Permutation_NoDup (l := map fst ms)); [|exact Hnd'].
      apply Permutation_map. apply Permutation_sym. exact Hpart. }
    destruct (NoDup_app_parts _ _ _ Hnd2) as [Hnds [Hndo Hdisj]].
    assert (Hsecs_wf : Forall wf_member secs).
    { apply Forall_forall. intros kv Hin. rewrite Forall_forall in Hwf'. apply Hwf'.
      unfold secs in Hin. apply filter_In in Hin. tauto. }
    assert (Hsecs_sec : Forall (fun kv => issec kv = true) secs).
    { apply Forall_forall. intros kv Hin. unfold secs in Hin. apply filter_In in Hin. tauto. }
    assert (Happ : apply_patches jp (JObj []) (map sec_patch secs) = Some (JObj secs)).
    { apply (apply_sec_patches secs [] Hsecs_wf Hsecs_sec Hnds). intros k _. reflexivity. }
    unfold patches_from_document. rewrite Hid. fold ms. rewrite (pfd_go_wf ms Hwf'). fold secs. fold others.
    destruct (map jp_op others) as [|j js] eqn:Hjs.
    - assert (Eo : others = []) by (destruct others; [reflexivity|discriminate Hjs]).
      exists (map sec_patch secs), secs. split; [reflexivity|]. split; [exact Happ|].
      rewrite Eo in Hpart. rewrite app_nil_r in Hpart. eapply perm_trans; [exact Hpart|exact Hperm].
    - assert (Hplain : Forall (fun kv => name_plain (fst kv) = true) others).
      { apply Forall_forall. intros [k v] Hin. unfold others in Hin. apply filter_In in Hin. destruct Hin as [Hin Hns].
        rewrite Forall_forall in Hwf'. specialize (Hwf' _ Hin). unfold wf_member in Hwf'.
        unfold notsec, is_section in Hns. cbn [fst snd] in *.
        destruct (bytes_eqb k d_publicKey); [discriminate Hns|].
        destruct (bytes_eqb k d_service); [discriminate Hns|].
        destruct (bytes_eqb k d_alsoKnownAs); [discriminate Hns|]. tauto. }
      destruct (jp_add_fresh_members others secs Hplain Hndo) as [m' [Hjp Hm']].
      { intros k Hk. apply jget_none_notin. intro Hin. exact (Hdisj k Hin Hk). }
      exists (map sec_patch secs ++ [mk_patch a_json pk_patches (JArr (j :: js))]), m'.
      split; [reflexivity|]. split.
      + rewrite atomic_app. rewrite Happ. unfold obind. cbn [apply_patches].
        rewrite (dispatch_json jp (JObj secs) _ (JArr (j :: js)) (pa_json _) (pv_json _)).
        unfold apply_json. rewrite <- Hjs. rewrite Hjp. reflexivity.
      + eapply perm_trans; [exact Hm'|]. eapply perm_trans; [exact Hpart|exact Hperm].
  Qed.
End RoundTrip.

(* ------------------------------------------------------------------------------------------------ *)
(* 6. bridge to [json_equiv]: facts about Json/Ast.v                                                  *)

Lemma byte_to_N_inj : forall x y, Byte.to_N x = Byte.to_N y -> x = y.
Proof.
  intros x y H. pose proof (Byte.of_to_N x) as Hx. pose proof (Byte.of_to_N y) as Hy.
  rewrite H in Hx. rewrite Hx in Hy. inversion Hy. reflexivity.
Qed.

Lemma bytes_ltb_irrefl : forall a, bytes_ltb a a = false.
Proof.
  induction a as [|x a IH]; cbn [bytes_ltb]; [reflexivity|]. rewrite N.ltb_irrefl. exact IH.
Qed.

Lemma bytes_ltb_trans : forall a b c, bytes_ltb a b = true -> bytes_ltb b c = true -> bytes_ltb a c = true.
Proof.
  induction a as [|x a IH]; intros [|y b] [|z c]; cbn [bytes_ltb]; intros H1 H2; try discriminate; try reflexivity.
  destruct (Byte.to_N x <? Byte.to_N y)%N eqn:Exy.
  - apply N.ltb_lt in Exy.
    destruct (Byte.to_N y <? Byte.to_N z)%N eqn:Eyz.
    + apply N.ltb_lt in Eyz. assert (E : (Byte.to_N x <? Byte.to_N z)%N = true) by (apply N.ltb_lt; lia).
      rewrite E. reflexivity.
    + destruct (Byte.to_N z <? Byte.to_N y)%N eqn:Ezy; [discriminate H2|].
      apply N.ltb_ge in Eyz. apply N.ltb_ge in Ezy.
      assert (E : (Byte.to_N x <? Byte.to_N z)%N = true) by (apply N.ltb_lt; lia). rewrite E. reflexivity.
  - destruct (Byte.to_N y <? Byte.to_N x)%N eqn:Eyx; [discriminate H1|].
    apply N.ltb_ge in Exy. apply N.ltb_ge in Eyx.
    assert (Hxy : Byte.to_N x = Byte.to_N y) by lia. rewrite Hxy.
    destruct (Byte.to_N y <? Byte.to_N z)%N; [reflexivity|].
    destruct (Byte.to_N z <? Byte.to_N y)%N; [discriminate H2|].
    exact (IH b c H1 H2).
Qed.

Lemma bytes_ltb_total : forall a b, bytes_ltb a b = false -> bytes_ltb b a = false -> a = b.
Proof.
  induction a as [|x a IH]; intros [|y b]; cbn [bytes_ltb]; intros H1 H2; try discriminate; try reflexivity.
  destruct (Byte.to_N x <? Byte.to_N y)%N eqn:Exy; [discriminate H1|].
  destruct (Byte.to_N y <? Byte.to_N x)%N eqn:Eyx; [discriminate H2|].
  apply N.ltb_ge in Exy. apply N.ltb_ge in Eyx.
  assert (Hxy : x = y) by (apply byte_to_N_inj; lia). subst y. f_equal. exact (IH b H1 H2).
Qed.

(* the member sort inside [norm], as a named function *)
Fixpoint nsort (m : list (bytes * json)) : list (bytes * json) :=
  match m with
  | [] => []
  | (k, v) :: r => insert_member k (norm v) (nsort r)
  end.

Lemma norm_obj : forall m, norm (JObj m) = JObj (nsort m).
Proof.
  induction m as [|[k v] r IH]; [reflexivity|].
  change (norm (JObj ((k, v) :: r)))
    with (JObj (insert_member k (norm v) (match norm (JObj r) with JObj x => x | _ => [] end))).
  rewrite IH. reflexivity.
Qed.

Definition nmember (kv : bytes * json) : bytes * json := (fst kv, norm (snd kv)).

Lemma nsort_perm : forall m, Permutation (nsort m) (map nmember m).
Proof.
  induction m as [|[k v] r IH]; cbn [nsort map]; [apply perm_nil|].
  eapply perm_trans; [apply insert_member_perm|]. apply perm_skip. exact IH.
Qed.

(* strictly increasing member names *)
Inductive ssorted : list (bytes * json) -> Prop :=
| ss_nil : ssorted []
| ss_cons : forall k v l, ssorted l -> (forall kv, In kv l -> bytes_ltb k (fst kv) = true) -> ssorted ((k, v) :: l).

Lemma insert_member_in : forall k v l x, In x (insert_member k v l) <-> x = (k, v) \/ In x l.
Proof.
  intros k v l x. split; intro H.
  - apply (Permutation_in _ (insert_member_perm k v l)) in H. destruct H as [H|H]; [left; symmetry; exact H|right; exact H].
  - apply (Permutation_in _ (Permutation_sym (insert_member_perm k v l))). destruct H as [H|H]; [left; symmetry; exact H|right; exact H].
Qed.

Lemma insert_member_sorted : forall k v l,
  ssorted l -> ~ In k (map fst l) -> ssorted (insert_member k v l).
Proof.
  intros k v l Hs. induction Hs as [|k' v' l Hl IH Hk']; intro Hnin; cbn [insert_member].
  - constructor; [constructor|intros kv []].
  - cbn [map fst In] in Hnin.
    destruct (bytes_ltb k' k) eqn:E.
    + constructor.
      * apply IH. tauto.
      * intros kv Hkv. apply insert_member_in in Hkv. destruct Hkv as [Hkv|Hkv]; [subst kv; exact E|apply Hk'; exact Hkv].
    + assert (Hlt : bytes_ltb k k' = true).
      { destruct (bytes_ltb k k') eqn:E2; [reflexivity|]. exfalso. apply Hnin. left.
        symmetry. apply bytes_ltb_total; assumption. }
      constructor; [constructor; assumption|].
      intros kv [Hkv|Hkv]; [subst kv; exact Hlt|]. apply (bytes_ltb_trans k k' (fst kv) Hlt). apply Hk'. exact Hkv.
Qed.

Lemma map_fst_nmember : forall m, map fst (map nmember m) = map fst m.
Proof. intro m. rewrite map_map. reflexivity. Qed.

Lemma nsort_sorted : forall m, NoDup (map fst m) -> ssorted (nsort m).
Proof.
  induction m as [|[k v] r IH]; intro H; cbn [nsort]; [constructor|].
  cbn [map fst] in H. inversion H as [|? ? Hk Hr]; subst.
  apply insert_member_sorted; [apply IH; exact Hr|].
  intro Hin. apply Hk. rewrite <- (map_fst_nmember r).
  apply (Permutation_in _ (Permutation_map fst (nsort_perm r))). exact Hin.
Qed.

Lemma ssorted_perm_eq : forall l1, ssorted l1 -> forall l2, ssorted l2 -> Permutation l1 l2 -> l1 = l2.
Proof.
  intros l1 H1. induction H1 as [|k1 v1 r1 Hr1 IH Hk1]; intros l2 H2 Hp.
  - apply Permutation_nil in Hp. symmetry. exact Hp.
  - destruct H2 as [|k2 v2 r2 Hr2 Hk2].
    + apply Permutation_sym in Hp. apply Permutation_nil in Hp. discriminate Hp.
    + assert (Hhead : (k1, v1) = (k2, v2)).
      { assert (Hin1 : In (k1, v1) ((k2, v2) :: r2)) by (apply (Permutation_in _ Hp); left; reflexivity).
        assert (Hin2 : In (k2, v2) ((k1, v1) :: r1))
          by (apply (Permutation_in _ (Permutation_sym Hp)); left; reflexivity).
        destruct Hin1 as [E|Hin1]; [symmetry; exact E|]. destruct Hin2 as [E|Hin2]; [exact E|].
        exfalso. pose proof (Hk2 _ Hin1) as A. pose proof (Hk1 _ Hin2) as B. cbn [fst] in A, B.
        pose proof (bytes_ltb_trans _ _ _ A B) as C. rewrite bytes_ltb_irrefl in C. discriminate C. }
      inversion Hhead; subst k2 v2. f_equal. apply IH; [exact Hr2|].
      apply (Permutation_cons_inv Hp).
Qed.

Fixpoint json_eqb_refl (j : json) : json_eqb j j = true.
Proof.
  destruct j as [|b|n|s|l|m]; cbn [json_eqb].
  - reflexivity.
  - destruct b; reflexivity.
  - apply N.eqb_refl.
  - apply bytes_eqb_refl.
  - induction l as [|x r IH]; [reflexivity|]. rewrite (json_eqb_refl x). exact IH.
  - induction m as [|[k v] r IH]; [reflexivity|]. rewrite bytes_eqb_refl, (json_eqb_refl v). exact IH.
Qed.

(* member order is irrelevant for [json_equiv] when names are pairwise distinct *)
Theorem perm_members_equiv : forall m m',
  NoDup (map fst m) -> Permutation m' m -> json_equiv (JObj m') (JObj m) = true.
Proof.
  intros m m' Hnd Hp. unfold json_equiv. rewrite !norm_obj.
  assert (Hnd' : NoDup (map fst m')).
  { apply (Permutation_NoDup (l := map fst m)); [|exact Hnd]. apply Permutation_map. apply Permutation_sym. exact Hp. }
  assert (E : nsort m' = nsort m).
  { apply ssorted_perm_eq; [apply nsort_sorted; exact Hnd'|apply nsort_sorted; exact Hnd|].
    eapply perm_trans; [apply nsort_perm|]. eapply perm_trans; [|apply Permutation_sym; apply nsort_perm].
    apply Permutation_map. exact Hp. }
  rewrite E. apply json_eqb_refl.
Qed.

(* 5, full statement: the patches of a well-formed document, applied to the empty document, give a document that is
   [json_equiv] to it (under the same assumption on the JSON-patch engine) *)
Theorem from_document_roundtrip_equiv : forall jp,
  (forall kvs m,
      Forall (fun kv => name_plain (fst kv) = true) kvs -> NoDup (map fst kvs) ->
      (forall k, In k (map fst kvs) -> jget k m = None) ->
      exists m', jp (JArr (map jp_op kvs)) (JObj m) = Some (JObj m') /\ Permutation m' (m ++ kvs)) ->
  forall m, wf_document m ->
  exists ps d', patches_from_document (JObj m) = Some ps
                /\ apply_patches jp (JObj []) ps = Some d' /\ json_equiv d' (JObj m) = true.
Proof.
  intros jp Hjp m Hwf. destruct (from_document_roundtrip jp Hjp m Hwf) as [ps [m' [H1 [H2 H3]]]].
  exists ps, (JObj m'). split; [exact H1|]. split; [exact H2|].
  apply perm_members_equiv; [exact (proj1 Hwf)|exact H3].
Qed.
