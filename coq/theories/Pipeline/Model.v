(* C20 - the pipeline end to end, at the abstraction of [aop] facts.  Definitions only.

   Composition of: dochandler.DocumentHandler.ProcessOperation (intake), batch.Writer.processAvailable
   + cutter.BatchCutter.Cut + opqueue.MemQueue (one VerifStep = one [EFlush]),
   txnprovider.OperationHandler.parseOperations (first operation per suffix is included, the others are
   handed back and re-queued at the TAIL), a ledger that assigns coordinates, observer.Observer.process
   + txnprocessor.TxnProcessor.Process (one [EObserve] = all pending transactions, in order), the
   operation store and the unpublished-operation store, processor.OperationProcessor.Resolve (the
   model of C03: Resolve/Process.v) and dochandler.ResolveDocument (short form, long form).

   Not re-modelled here (their own properties): request syntax (C10), batch files and CAS (C13, C14),
   store/CAS/ledger faults (C15, C16).  Facts of those layers enter as fields of the request.

   Time.  [now] is the ledger clock (what the protocol client's Current() and the ledger use).  The
   unpublished copy of an operation and the immediate create response are stamped by the code with
   time.Now().Unix(): that value is an input of the [ESubmit] event ([wall]).  *)
From Coq Require Import List ZArith Bool Arith.
From SV Require Import Resolve.Op Resolve.Apply Resolve.Process Resolve.Intake.
Import ListNotations.
Local Open Scope Z_scope.

(* ---------------------------------------------------------------------------------------------- *)
(* protocol versions                                                                              *)
(* ---------------------------------------------------------------------------------------------- *)

(* the parameters of a protocol version that the pipeline reads *)
Record pver := { pv_genesis : Z; pv_mdelta : Z (* MaxOperationTimeDelta *); pv_max : nat (* MaxOperationCount *) }.

(* protocol.Client.Get(t): the LAST version of the (ascending) list whose genesis time is <= t *)
Fixpoint version_at (vs : list pver) (t : Z) : option pver :=
  match vs with
  | [] => None
  | v :: r =>
    match version_at r t with
    | Some w => Some w
    | None => if pv_genesis v <=? t then Some v else None
    end
  end.

Record config := {
  c_versions : list pver;
  c_unpub : list optype;     (* operation types configured for the unpublished-operation store
                                (document handler and transaction processor); [] = no such store *)
  c_by_time : bool           (* ledger policy for SidetreeTxn.ProtocolVersion, which the library leaves to
                                the ledger: false = the value handed to WriteAnchor (genesis time of the
                                version the batch was accepted under); true = the transaction time *) }.

Definition unpub_type (cfg : config) (t : optype) : bool := existsb (optype_eqb t) (c_unpub cfg).

(* ---------------------------------------------------------------------------------------------- *)
(* requests, queue entries, transactions, stores                                                  *)
(* ---------------------------------------------------------------------------------------------- *)

(* A submitted request.  [rq_op] carries the request id ([oid]), the type and the fact vector of the
   lower layers; its coordinate fields (time, num, cref, mdelta) are ignored - they are stamped when
   the operation is stored.  [rq_key] identifies the request content (two submissions of the same
   bytes share it).  [rq_intake_ok]: protocol-independent verdict of everything ProcessOperation
   does before the decorator: Parse (intake mode, incl. the anchor-time validator at submission
   time) and validateOperation. *)
Record request := { rq_sfx : Z; rq_key : Z; rq_intake_ok : bool; rq_op : aop }.

Definition rq_id (r : request) : Z := oid (rq_op r).
Definition rq_ty (r : request) : optype := ty (rq_op r).

(* queue entry: operation.QueuedOperationAtTime - the request and the genesis time of the version
   it was accepted under *)
Record qent := { qe_req : request; qe_ver : Z }.
Definition qe_sfx (q : qent) : Z := rq_sfx (qe_req q).
Definition qe_id (q : qent) : Z := rq_id (qe_req q).

(* txn.SidetreeTxn as written by the ledger, with the operations the batch files hold *)
Record txn := { t_time : Z; t_num : Z; t_cref : Z; t_pver : Z; t_ops : list qent }.

(* operation.AnchoredOperation in the operation store *)
Record sop := { s_q : qent; s_time : Z; s_num : Z; s_cref : Z; s_pver : Z }.
Definition s_sfx (e : sop) : Z := qe_sfx (s_q e).

(* operation.AnchoredOperation in the unpublished-operation store: TransactionTime = wall clock,
   ProtocolVersion = genesis time of the accepting version, no canonical reference *)
Record uop := { u_q : qent; u_wall : Z }.
Definition u_sfx (u : uop) : Z := qe_sfx (u_q u).

Definition stamp (o : aop) (t n c : Z) (md : option Z) : aop :=
  {| oid := oid o; ty := ty o; time := t; num := n; cref := c; mdelta := md;
     parse_ok := parse_ok o; reveal_c := reveal_c o; sig_ok := sig_ok o; sfx_ok := sfx_ok o;
     dhash_ok := dhash_ok o; dvalid := dvalid o; patch_ok := patch_ok o;
     a_from := a_from o; a_until := a_until o; delta := delta o; upd_c := upd_c o; rec_c := rec_c o;
     origin := origin o |}.

(* processor.applyOperation looks the protocol up by the operation's ProtocolVersion *)
Definition mdelta_at (cfg : config) (pv : Z) : option Z := option_map pv_mdelta (version_at (c_versions cfg) pv).

Definition sop_aop (cfg : config) (e : sop) : aop :=
  stamp (rq_op (qe_req (s_q e))) (s_time e) (s_num e) (s_cref e) (mdelta_at cfg (s_pver e)).
Definition uop_aop (cfg : config) (u : uop) : aop :=
  stamp (rq_op (qe_req (u_q u))) (u_wall u) 0 0 (mdelta_at cfg (qe_ver (u_q u))).

Record pstate := {
  now : Z;                 (* ledger clock *)
  next_num : Z;            (* next transaction number *)
  queue : list qent;       (* opqueue.MemQueue, head first *)
  ledger : list txn;       (* anchored, not yet observed; oldest first *)
  store : list sop;        (* operation store, in Put order *)
  unpub : list uop;        (* unpublished-operation store, in Put order *)
  expired : list qent;     (* discarded by the operation handler (ErrOperationExpired) *)
  dropped : list qent;     (* lost by the observer (no protocol version for the transaction) or discarded
                              by the transaction processor (duplicate suffix in a transaction) *)
  accepted : list qent     (* ghost: every request ProcessOperation accepted, oldest first *) }.

Definition init (t0 : Z) : pstate :=
  {| now := t0; next_num := 0; queue := []; ledger := []; store := []; unpub := []; expired := [];
     dropped := []; accepted := [] |}.

(* ---------------------------------------------------------------------------------------------- *)
(* resolution of one suffix from the stores                                                       *)
(* ---------------------------------------------------------------------------------------------- *)

Definition pub_of (cfg : config) (st : pstate) (s : Z) : list aop :=
  map (sop_aop cfg) (filter (fun e => s_sfx e =? s) (store st)).
Definition unpub_of (cfg : config) (st : pstate) (s : Z) : list aop :=
  map (uop_aop cfg) (filter (fun u => u_sfx u =? s) (unpub st)).

Definition resolve_sfx (cfg : config) (st : pstate) (s : Z) : outcome :=
  resolve (pub_of cfg st s) (unpub_of cfg st s) no_opts.

(* ---------------------------------------------------------------------------------------------- *)
(* intake: DocumentHandler.ProcessOperation                                                       *)
(* ---------------------------------------------------------------------------------------------- *)

(* Some v = accepted under version v.  Source order: protocol.Get (the caller passes the genesis time of
   Current()), Parse + validateOperation (fact), decorator (non-create: the DID must resolve and
   must not be deactivated - computed from the CURRENT stores, unpublished ones included). *)
Definition intake (cfg : config) (st : pstate) (r : request) : option pver :=
  match version_at (c_versions cfg) (now st) with
  | None => None
  | Some v =>
    if negb (rq_intake_ok r) then None
    else match rq_ty r with
         | Create => Some v
         | _ => match decorate (pub_of cfg st (rq_sfx r)) (unpub_of cfg st (rq_sfx r)) with
                | Accepted => Some v
                | Refused => None
                end
         end
  end.

(* accepted: unpublished copy (if its type is configured), then the queue.  A refusal leaves the
   state untouched. *)
Definition submit (cfg : config) (st : pstate) (r : request) (wall : Z) : pstate :=
  match intake cfg st r with
  | None => st
  | Some v =>
    let q := {| qe_req := r; qe_ver := pv_genesis v |} in
    {| now := now st; next_num := next_num st;
       queue := queue st ++ [q];
       ledger := ledger st; store := store st;
       unpub := if unpub_type cfg (rq_ty r) then unpub st ++ [{| u_q := q; u_wall := wall |}] else unpub st;
       expired := expired st; dropped := dropped st;
       accepted := accepted st ++ [q] |}
  end.

(* ---------------------------------------------------------------------------------------------- *)
(* batch writer: one cutAndProcess                                                                *)
(* ---------------------------------------------------------------------------------------------- *)

(* cutter.getOperationsAtProtocolVersion: longest prefix queued under version v *)
Fixpoint same_version_prefix (v : Z) (l : list qent) : list qent :=
  match l with
  | [] => []
  | q :: r => if qe_ver q =? v then q :: same_version_prefix v r else []
  end.

(* OperationHandler.parseOperations: expired operations are discarded; the first remaining operation
   per suffix is included; further ones are returned as additional operations *)
Record split := { sp_in : list qent; sp_add : list qent; sp_exp : list qent }.

Fixpoint split_batch (is_exp : Z -> bool) (seen : list Z) (l : list qent) : split :=
  match l with
  | [] => {| sp_in := []; sp_add := []; sp_exp := [] |}
  | q :: r =>
    if is_exp (qe_id q) then
      let s := split_batch is_exp seen r in
      {| sp_in := sp_in s; sp_add := sp_add s; sp_exp := q :: sp_exp s |}
    else if memZ (qe_sfx q) seen then
      let s := split_batch is_exp seen r in
      {| sp_in := sp_in s; sp_add := q :: sp_add s; sp_exp := sp_exp s |}
    else
      let s := split_batch is_exp (qe_sfx q :: seen) r in
      {| sp_in := q :: sp_in s; sp_add := sp_add s; sp_exp := sp_exp s |}
  end.

(* Writer.cutAndProcess(f).  None = nothing was cut (or an error that leaves the queue as it was:
   Current()/Get() fail -> Nack).  In source order:
   - Cut: pending = Len(); max = Current().MaxOperationCount  (the CURRENT version's limit, whatever
     version the queued operations were accepted under); not forced and pending < max -> nothing;
     Peek(min pending max); same-version prefix of the first operation's version; Remove
   - process: protocol.Get(version of the batch); PrepareTxnFiles (split); if nothing is included (every operation
     of the batch expired) there is no anchor string: no WriteAnchor, Ack (F16); else WriteAnchor - the ledger
     assigns time = now, the next number, a canonical reference (number + 1, never 0) and the
     protocol version according to its policy; additional operations are re-added at the TAIL under
     the batch version (= their own); Ack
   [ex]: ids the operation handler finds expired during this VerifStep (anchor-time validator plug-in). *)
Definition cut (cfg : config) (ex : list Z) (f : bool) (st : pstate) : option pstate :=
  match version_at (c_versions cfg) (now st) with
  | None => None
  | Some cur =>
    let pending := length (queue st) in
    if negb f && (pending <? pv_max cur)%nat then None
    else
      match firstn (Nat.min pending (pv_max cur)) (queue st) with
      | [] => None
      | q0 :: w =>
        let ver := qe_ver q0 in
        let batch := same_version_prefix ver (q0 :: w) in
        match version_at (c_versions cfg) ver with
        | None => None
        | Some _ =>
          let sp := split_batch (fun i => memZ i ex) [] batch in
          match sp_in sp with
          | [] =>
            (* F16: every operation of the batch has expired.  PrepareTxnFiles writes no files and returns an empty
               anchor string; process returns before WriteAnchor (and before re-adding anything: nothing can be
               deferred behind no included operation); the batch is Ack'ed.  No transaction, no number consumed. *)
            Some {| now := now st; next_num := next_num st;
                    queue := skipn (length batch) (queue st);
                    ledger := ledger st; store := store st; unpub := unpub st;
                    expired := expired st ++ sp_exp sp; dropped := dropped st;
                    accepted := accepted st |}
          | _ :: _ =>
            let t := {| t_time := now st; t_num := next_num st; t_cref := next_num st + 1;
                        t_pver := if c_by_time cfg then now st else ver; t_ops := sp_in sp |} in
            Some {| now := now st; next_num := next_num st + 1;
                    queue := skipn (length batch) (queue st) ++ sp_add sp;
                    ledger := ledger st ++ [t]; store := store st; unpub := unpub st;
                    expired := expired st ++ sp_exp sp; dropped := dropped st;
                    accepted := accepted st |}
          end
        end
      end
  end.

(* Writer.drain: cutAndProcess(false) until nothing is cut.  Fuel: every successful cut shortens the
   queue (Proofs.drain_fuel_suffices), so [S (length queue)] rounds suffice. *)
Fixpoint drain (cfg : config) (ex : list Z) (fuel : nat) (st : pstate) : pstate :=
  match fuel with
  | O => st
  | S f => match cut cfg ex false st with
           | None => st
           | Some st' => drain cfg ex f st'
           end
  end.

(* Writer.processAvailable(force) = VerifStep(force) *)
Definition flush (cfg : config) (ex : list Z) (force : bool) (st : pstate) : pstate :=
  let st1 := drain cfg ex (S (length (queue st))) st in
  if (Nat.eqb (length (queue st1)) 0) || negb force then st1
  else match cut cfg ex true st1 with
       | Some st2 => st2
       | None => st1
       end.

(* ---------------------------------------------------------------------------------------------- *)
(* observer + transaction processor                                                               *)
(* ---------------------------------------------------------------------------------------------- *)

(* TxnProcessor.processTxnOperations: an operation whose suffix occurred earlier in the transaction
   is discarded.  (kept, discarded) *)
Fixpoint dedup_split (seen : list Z) (l : list qent) : list qent * list qent :=
  match l with
  | [] => ([], [])
  | q :: r =>
    if memZ (qe_sfx q) seen then let '(k, d) := dedup_split seen r in (k, q :: d)
    else let '(k, d) := dedup_split (qe_sfx q :: seen) r in (q :: k, d)
  end.

Definition stamp_sop (t : txn) (q : qent) : sop :=
  {| s_q := q; s_time := t_time t; s_num := t_num t; s_cref := t_cref t; s_pver := t_pver t |}.

(* unpublished store: Delete removes the first stored copy of that request (same suffix, same content) *)
Fixpoint remove_first (s k : Z) (l : list uop) : list uop :=
  match l with
  | [] => []
  | u :: r => if (u_sfx u =? s) && (rq_key (qe_req (u_q u)) =? k) then r else u :: remove_first s k r
  end.

Definition delete_all (cfg : config) (kept : list qent) (un : list uop) : list uop :=
  fold_left (fun un q => if unpub_type cfg (rq_ty (qe_req q)) then remove_first (qe_sfx q) (rq_key (qe_req q)) un else un)
            kept un.

(* Observer.process for one transaction: protocol client lookup by the transaction's protocol
   version (a transaction without version is skipped: its operations are lost), then
   TxnProcessor.Process: stamp, one Put, DeleteAll on the unpublished store.  The order of Put inside
   one transaction (by type in the code) is not observable through the store's Get(suffix) and is
   kept in batch order here. *)
Definition observe_txn (cfg : config) (st : pstate) (t : txn) : pstate :=
  match version_at (c_versions cfg) (t_pver t) with
  | None =>
    {| now := now st; next_num := next_num st; queue := queue st; ledger := ledger st; store := store st;
       unpub := unpub st; expired := expired st; dropped := dropped st ++ t_ops t; accepted := accepted st |}
  | Some _ =>
    let '(kept, dup) := dedup_split [] (t_ops t) in
    {| now := now st; next_num := next_num st; queue := queue st; ledger := ledger st;
       store := store st ++ map (stamp_sop t) kept;
       unpub := delete_all cfg kept (unpub st);
       expired := expired st; dropped := dropped st ++ dup; accepted := accepted st |}
  end.

Definition clear_ledger (st : pstate) : pstate :=
  {| now := now st; next_num := next_num st; queue := queue st; ledger := []; store := store st;
     unpub := unpub st; expired := expired st; dropped := dropped st; accepted := accepted st |}.

Definition observe (cfg : config) (st : pstate) : pstate :=
  clear_ledger (fold_left (observe_txn cfg) (ledger st) st).

(* ---------------------------------------------------------------------------------------------- *)
(* events                                                                                         *)
(* ---------------------------------------------------------------------------------------------- *)

Inductive event :=
| ESubmit (r : request) (wall : Z)        (* ProcessOperation(request, Current().GenesisTime) *)
| EFlush (force : bool) (ex : list Z)     (* Writer.VerifStep(force) *)
| EObserve                                (* the observer receives every pending transaction *)
| ETime (t : Z).                          (* the ledger clock advances to t (never backwards) *)

Definition set_now (st : pstate) (t : Z) : pstate :=
  {| now := t; next_num := next_num st; queue := queue st; ledger := ledger st; store := store st;
     unpub := unpub st; expired := expired st; dropped := dropped st; accepted := accepted st |}.

Definition step (cfg : config) (st : pstate) (e : event) : pstate :=
  match e with
  | ESubmit r w => submit cfg st r w
  | EFlush f ex => flush cfg ex f st
  | EObserve => observe cfg st
  | ETime t => if now st <=? t then set_now st t else st
  end.

Definition run (cfg : config) (st : pstate) (es : list event) : pstate := fold_left (step cfg) es st.

(* ---------------------------------------------------------------------------------------------- *)
(* observations                                                                                   *)
(* ---------------------------------------------------------------------------------------------- *)

(* what ResolveDocument shows of a DID: key/content ids, commitments (method metadata), deactivated,
   published *)
Inductive rview := RNotFound | RView (d : list Z) (u r : Z) (de pub : bool).

Definition state_view (s : state) (pub : bool) : rview :=
  RView (match doc s with Some d => d | None => [] end) (upd s) (rec s) (deact s) pub.

(* short form: "create operation not found" / "valid create operation not found" are both answered as
   not found; published = the processor returned at least one published operation *)
Definition short_view (cfg : config) (st : pstate) (s : Z) : rview :=
  match resolve_sfx cfg st s with
  | OOk r => state_view (r_state r) (match r_pub r with [] => false | _ => true end)
  | _ => RNotFound
  end.

(* dochandler.GetCreateResult: Apply of an unanchored copy (wall-clock time, no number, no canonical
   reference) under version v on the empty resolution model; an empty document is an error *)
Definition create_result (v : pver) (r : request) (wall : Z) : option state :=
  match apply (stamp (rq_op r) wall 0 0 (Some (pv_mdelta v))) init_state with
  | Some s => match doc s with Some (_ :: _) => Some s | _ => None end
  | None => None
  end.

(* the immediate response to an accepted create *)
Definition create_response (v : pver) (r : request) (wall : Z) : rview :=
  match create_result v r wall with Some s => state_view s false | None => RNotFound end.

(* ResolveDocument(long form): the stores first; if the DID is not found there, the initial state
   carried by the DID string under the CURRENT version *)
Definition long_view (cfg : config) (st : pstate) (r : request) (wall : Z) : rview :=
  match resolve_sfx cfg st (rq_sfx r) with
  | OOk res => state_view (r_state res) (match r_pub res with [] => false | _ => true end)
  | _ =>
    match version_at (c_versions cfg) (now st) with
    | Some cur => if rq_intake_ok r then create_response cur r wall else RNotFound
    | None => RNotFound
    end
  end.

(* content of a view: everything except the published flag *)
Definition view_content (v : rview) : option (list Z * Z * Z * bool) :=
  match v with RNotFound => None | RView d u r de _ => Some (d, u, r, de) end.

(* the places an accepted request can be in *)
Definition ledger_ops (st : pstate) : list qent := concat (map t_ops (ledger st)).
Definition places (st : pstate) : list qent :=
  queue st ++ ledger_ops st ++ map s_q (store st) ++ expired st ++ dropped st.

(* ---------------------------------------------------------------------------------------------- *)
(* examples (evaluation only)                                                                     *)
(* ---------------------------------------------------------------------------------------------- *)

Definition v1 : pver := {| pv_genesis := 0; pv_mdelta := 7200; pv_max := 2 |}.
Definition v2 : pver := {| pv_genesis := 100; pv_mdelta := 600; pv_max := 4 |}.
Definition cfg1 : config := {| c_versions := [v1]; c_unpub := []; c_by_time := false |}.
Definition cfg2 : config := {| c_versions := [v1; v2]; c_unpub := [Create; Update]; c_by_time := false |}.

(* id type ; revealed commitment ; delta content, update / recovery commitment (correctly signed, no window) *)
Definition xreq (sfx i : Z) (t : optype) (rv dl u r : Z) : request :=
  {| rq_sfx := sfx; rq_key := i; rq_intake_ok := true;
     rq_op := {| oid := i; ty := t; time := 0; num := 0; cref := 0; mdelta := None;
                 parse_ok := true; reveal_c := rv; sig_ok := true; sfx_ok := true; dhash_ok := true;
                 dvalid := true; patch_ok := true; a_from := 0; a_until := 0; delta := dl; upd_c := u;
                 rec_c := r; origin := 1 |} |}.

Definition ex_create := xreq 7 1 Create 0 101 20 30.
Definition ex_update := xreq 7 2 Update 20 102 21 0.
Definition ex_recover := xreq 7 3 Recover 30 103 22 31.
Definition ex_update2 := xreq 7 4 Update 22 104 23 0.       (* reveals the commitment the recover installs *)

Example version_lookup : map (fun t => option_map pv_genesis (version_at [v1; v2] t)) [(-1); 0; 99; 100; 5000]
                         = [None; Some 0; Some 0; Some 100; Some 100].
Proof. reflexivity. Qed.

(* create, flush, observe, update, flush, observe: the DID resolves to both deltas *)
Example simple_life :
  short_view cfg1 (run cfg1 (init 10) [ESubmit ex_create 5000; EFlush true []; EObserve;
                                       ESubmit ex_update 5001; ETime 11; EFlush true []; EObserve]) 7
  = RView [101; 102] 21 30 false true.
Proof. vm_compute. reflexivity. Qed.

(* an update for an unknown DID is refused and leaves no trace *)
Example unknown_did_refused : run cfg1 (init 10) [ESubmit ex_update 5000] = init 10.
Proof. vm_compute. reflexivity. Qed.

(* with an unpublished-operation store the create is resolvable (unpublished) before it is anchored,
   and the update is accepted at once *)
Example unpublished_resolution :
  let st := run cfg2 (init 10) [ESubmit ex_create 5000; ESubmit ex_update 5001] in
  short_view cfg2 st 7 = RView [101; 102] 21 30 false false /\ length (queue st) = 2%nat.
Proof. vm_compute. split; reflexivity. Qed.

(* the three views of a create *)
Example three_views :
  let st0 := run cfg1 (init 10) [ESubmit ex_create 5000] in
  let st1 := run cfg1 st0 [EFlush true []; EObserve] in
  create_response v1 ex_create 5000 = RView [101] 20 30 false false /\
  long_view cfg1 st0 ex_create 6000 = RView [101] 20 30 false false /\
  short_view cfg1 st1 7 = RView [101] 20 30 false true.
Proof. vm_compute. repeat split; reflexivity. Qed.

(* THE BATCH WRITER REORDERS THE OPERATIONS OF ONE DID.  MaxOperationCount = 2; the DID exists; the
   client submits update (id 2), recover (id 3), update (id 4, on top of the recover).  First cut:
   [2; 3] - 2 is included, 3 is re-queued BEHIND 4.  Second cut (same VerifStep, the drain loop): [4; 3] - 4 is included, 3 re-queued;
   the forced cut anchors 3.  Anchoring order 2, 4, 3: the update 4 is anchored before the recover it builds on and is lost. *)
Definition reorder_events : list event :=
  [ESubmit ex_create 5000; EFlush true []; EObserve; ETime 11;
   ESubmit ex_update 5001; ESubmit ex_recover 5002; ESubmit ex_update2 5003;
   EFlush true []; EObserve].

Example reorder_store_order :
  map (fun e => (qe_id (s_q e), s_time e, s_num e)) (store (run cfg1 (init 10) reorder_events))
  = [(1, 10, 0); (2, 11, 1); (4, 11, 2); (3, 11, 3)].
Proof. vm_compute. reflexivity. Qed.

Example reorder_loses_update :
  short_view cfg1 (run cfg1 (init 10) reorder_events) 7 = RView [103] 22 31 false true.
Proof. vm_compute. reflexivity. Qed.

(* the same submissions with a batch size that holds all three: anchoring order 2, 3, 4 and the
   state the client intended *)
Definition cfg1_wide : config :=
  {| c_versions := [{| pv_genesis := 0; pv_mdelta := 7200; pv_max := 3 |}]; c_unpub := []; c_by_time := false |}.
Example no_reorder_intended_state :
  let st := run cfg1_wide (init 10) (reorder_events ++ [ETime 12; EFlush true []; EObserve]) in
  map (fun e => (qe_id (s_q e), s_time e, s_num e)) (store st) = [(1, 10, 0); (2, 11, 1); (3, 11, 2); (4, 12, 3)] /\
  short_view cfg1_wide st 7 = RView [103; 104] 23 31 false true /\
  short_view cfg1 (run cfg1 (init 10) (reorder_events ++ [ETime 12; EFlush true []; EObserve])) 7 = RView [103] 22 31 false true.
Proof. vm_compute. repeat split; reflexivity. Qed.

(* THE BATCH LIMIT IS THE CURRENT VERSION'S.  Four creates accepted under v1 (limit 2); the clock
   passes v2's genesis (limit 4); one unforced step anchors all four in one v1 batch. *)
Definition big_batch_events : list event :=
  [ESubmit (xreq 1 1 Create 0 101 20 30) 5000; ESubmit (xreq 2 2 Create 0 102 21 31) 5000;
   ESubmit (xreq 3 3 Create 0 103 22 32) 5000; ETime 150; ESubmit (xreq 4 4 Create 0 104 23 33) 5000;
   EFlush false []].
Example batch_limit_of_current_version :
  map (fun t => (t_pver t, map qe_id (t_ops t), map qe_ver (t_ops t))) (ledger (run cfg2 (init 10) big_batch_events))
  = [(0, [1; 2; 3], [0; 0; 0])] /\
  map qe_id (queue (run cfg2 (init 10) big_batch_events)) = [4].
Proof. vm_compute. split; reflexivity. Qed.

(* AN OPERATION DISCARDED AS EXPIRED STAYS IN THE UNPUBLISHED STORE.  The update (id 2) is accepted and
   copied to the unpublished-operation store; when its batch is cut the operation handler discards it
   as expired; only anchored operations are ever deleted from the unpublished store, so the DID keeps
   resolving WITH the update that will never be anchored (first view); without such a store the DID
   resolves to the create alone (second view). *)
Definition cfg_all_unpub : config :=
  {| c_versions := [v1]; c_unpub := [Create; Update; Recover; Deactivate]; c_by_time := false |}.
Definition expiry_events : list event :=
  [ESubmit ex_create 5000; EFlush true []; EObserve; ESubmit ex_update 5001; ETime 200; EFlush true [2]; EObserve].
Example expired_stays_unpublished :
  let st := run cfg_all_unpub (init 10) expiry_events in
  (map qe_id (queue st), map qe_id (expired st), map (fun u => qe_id (u_q u)) (unpub st),
   short_view cfg_all_unpub st 7, short_view cfg1 (run cfg1 (init 10) expiry_events) 7)
  = ([], [2], [2], RView [101; 102] 21 30 false true, RView [101] 20 30 false true).
Proof. vm_compute. reflexivity. Qed.

(* F16: A BATCH WHOSE OPERATIONS HAVE ALL EXPIRED WRITES NO TRANSACTION.  In [expiry_events] the second flush cuts
   the batch [2], which the handler finds expired: the operation is discarded, the ledger receives nothing and no
   transaction number is consumed (before the repair the writer anchored "0.<uri>", which no observer can parse). *)
Example all_expired_batch_writes_no_transaction :
  let st := run cfg1 (init 10) [ESubmit ex_create 5000; EFlush true []; EObserve; ESubmit ex_update 5001; ETime 200;
                                EFlush true [2]] in
  (map qe_id (queue st), length (ledger st), next_num st, map qe_id (expired st)) = ([], 0%nat, 1, [2]).
Proof. vm_compute. reflexivity. Qed.

(* a partly expired batch: the expired operation is discarded, the other one anchored *)
Example partly_expired_batch :
  let st := run cfg1_wide (init 10) [ESubmit ex_create 5000; EFlush true []; EObserve; ESubmit ex_update 5001;
                                     ESubmit (xreq 8 9 Create 0 109 40 50) 5002; ETime 200; EFlush true [2]] in
  (map qe_id (queue st), map (fun t => (t_num t, map qe_id (t_ops t))) (ledger st), next_num st, map qe_id (expired st))
  = ([], [(1, [9])], 2, [2]).
Proof. vm_compute. reflexivity. Qed.
