(* C20 - theorems about the pipeline model, for ALL event sequences (induction over the event list).

   a. conservation            every accepted request is in exactly one place; nothing else is stored;
                              a refused request leaves no trace
   b. per_suffix_order        per DID, stored operations carry strictly increasing coordinates (one
                              operation per DID per transaction); the store order IS the anchoring order.
                              FIFO per DID (anchoring order = submission order) is REFUTED: fifo_refuted
   c. pipeline_resolves_to_spec / good_chain_resolves / pipeline_fold
                              resolution = reference machine on the stored operations in anchoring
                              order; for correct chains = left fold of apply
   d. create_views_agree      immediate response, long-form and short-form resolution of a create
   e. stored_version / batch_one_version / batch_size_current_version
                              which protocol version an operation is validated, batched, stamped and
                              applied under *)
From Coq Require Import List ZArith Bool Arith Lia Permutation Sorted.
From SV Require Import Resolve.Op Resolve.Apply Resolve.Process Resolve.Intake Resolve.Order Resolve.Prepare
  Resolve.Spec Resolve.Chain Resolve.Terminal Resolve.Refine Resolve.Extend Pipeline.Model.
Import ListNotations.
Local Open Scope Z_scope.

(* ---------------------------------------------------------------------------------------------- *)
(* 0. lists                                                                                       *)
(* ---------------------------------------------------------------------------------------------- *)

(* order-preserving sub-list *)
Inductive sub {A} : list A -> list A -> Prop :=
| sub_nil : sub [] []
| sub_skip x l l' : sub l l' -> sub l (x :: l')
| sub_keep x l l' : sub l l' -> sub (x :: l) (x :: l').

Lemma sub_refl {A} (l : list A) : sub l l.
Proof. induction l; constructor; assumption. Qed.

Lemma sub_nil_l {A} (l : list A) : sub [] l.
Proof. induction l; constructor; assumption. Qed.

Lemma sub_app {A} (a a' b b' : list A) : sub a a' -> sub b b' -> sub (a ++ b) (a' ++ b').
Proof. induction 1; intros Hb; cbn [app]; [assumption | apply sub_skip; auto | apply sub_keep; auto]. Qed.

Lemma sub_map {A B} (f : A -> B) l l' : sub l l' -> sub (map f l) (map f l').
Proof. induction 1; cbn [map]; [apply sub_nil | apply sub_skip; assumption | apply sub_keep; assumption]. Qed.

Lemma sub_in {A} (l l' : list A) x : sub l l' -> In x l -> In x l'.
Proof. induction 1; cbn [In]; intros Hx; [tauto | right; auto | destruct Hx; [left; assumption | right; auto]]. Qed.

Lemma sub_filter {A} (p : A -> bool) l : sub (filter p l) l.
Proof. induction l as [|x r IH]; cbn [filter]; [constructor|]. destruct (p x); [apply sub_keep | apply sub_skip]; assumption. Qed.

Lemma Forall_sub {A} (P : A -> Prop) l l' : sub l l' -> Forall P l' -> Forall P l.
Proof. intros Hs Hf. rewrite Forall_forall in *. intros x Hx. apply Hf. eapply sub_in; eassumption. Qed.

Lemma SS_sub {A} (R : A -> A -> Prop) l l' : sub l l' -> StronglySorted R l' -> StronglySorted R l.
Proof.
  induction 1; intros Hs; [constructor | |].
  - apply StronglySorted_inv in Hs. apply IHsub, Hs.
  - apply StronglySorted_inv in Hs. destruct Hs as [Hs Hf]. constructor; [apply IHsub, Hs|].
    eapply Forall_sub; eassumption.
Qed.

Lemma SS_app {A} (R : A -> A -> Prop) l1 l2 :
  StronglySorted R l1 -> StronglySorted R l2 -> (forall a b, In a l1 -> In b l2 -> R a b) ->
  StronglySorted R (l1 ++ l2).
Proof.
  induction l1 as [|x r IH]; intros H1 H2 H12; cbn [app]; [assumption|].
  apply StronglySorted_inv in H1. destruct H1 as [H1 Hf]. constructor.
  - apply IH; [assumption | assumption | intros a b Ha Hb; apply H12; [right; assumption | assumption]].
  - apply Forall_app. split; [assumption|]. rewrite Forall_forall. intros b Hb. apply H12; [left; reflexivity | assumption].
Qed.

Lemma SS_map {A B} (f : A -> B) (R : B -> B -> Prop) l :
  StronglySorted (fun a b => R (f a) (f b)) l -> StronglySorted R (map f l).
Proof.
  induction 1; cbn [map]; constructor; [assumption|]. rewrite Forall_forall in *. intros y Hy.
  apply in_map_iff in Hy. destruct Hy as (z & <- & Hz). auto.
Qed.

Lemma SS_weaken {A} (R R' : A -> A -> Prop) l :
  (forall a b, In a l -> In b l -> R a b -> R' a b) -> StronglySorted R l -> StronglySorted R' l.
Proof.
  intros Hw. induction 1; constructor.
  - apply IHStronglySorted. intros x y Hx Hy. apply Hw; right; assumption.
  - rewrite Forall_forall in *. intros y Hy. apply Hw; [left; reflexivity | right; assumption | auto].
Qed.

Lemma concat_map_sub {A B} (f g : A -> list B) l : (forall x, sub (f x) (g x)) -> sub (concat (map f l)) (concat (map g l)).
Proof. intros H. induction l; cbn [map concat]; [constructor | apply sub_app; auto]. Qed.

(* ---------------------------------------------------------------------------------------------- *)
(* 1. decidable equality of queue entries (for counting)                                           *)
(* ---------------------------------------------------------------------------------------------- *)

Lemma qent_eq_dec : forall a b : qent, {a = b} + {a <> b}.
Proof. repeat decide equality. Qed.

Ltac count_perm :=
  apply (Permutation_count_occ qent_eq_dec);
  let x := fresh "x" in
  intro x;
  repeat match goal with
         | H : Permutation _ _ |- _ =>
           let Hc := fresh "Hc" in
           pose proof (proj1 (Permutation_count_occ qent_eq_dec _ _) H x) as Hc; clear H
         end;
  repeat rewrite count_occ_app in *; cbn [count_occ] in *;
  repeat match goal with
         | |- context [qent_eq_dec ?a ?b] => destruct (qent_eq_dec a b)
         | H : context [qent_eq_dec ?a ?b] |- _ => destruct (qent_eq_dec a b)
         end; lia.

(* ---------------------------------------------------------------------------------------------- *)
(* 2. protocol versions                                                                           *)
(* ---------------------------------------------------------------------------------------------- *)

Lemma version_at_in vs t v : version_at vs t = Some v -> In v vs /\ pv_genesis v <= t.
Proof.
  induction vs as [|w r IH]; cbn [version_at]; [discriminate|].
  destruct (version_at r t) as [u|] eqn:E.
  - intros H; inversion H; subst. destruct (IH eq_refl) as [Hi Hg]. split; [right; assumption | assumption].
  - destruct (pv_genesis w <=? t) eqn:Eg; [|discriminate]. intros H; inversion H; subst.
    split; [left; reflexivity | apply Z.leb_le; assumption].
Qed.

Lemma version_at_some vs t v : In v vs -> pv_genesis v <= t -> version_at vs t <> None.
Proof.
  induction vs as [|w r IH]; cbn [In version_at]; [tauto|]. intros [->|Hi] Hg.
  - destruct (version_at r t); [discriminate|]. apply Z.leb_le in Hg. rewrite Hg. discriminate.
  - specialize (IH Hi Hg). destruct (version_at r t); [discriminate | congruence].
Qed.

(* the version an operation was accepted under is found again by its genesis time *)
Lemma version_at_genesis vs t v : version_at vs t = Some v -> version_at vs (pv_genesis v) <> None.
Proof. intros H. destruct (version_at_in _ _ _ H) as [Hi _]. apply (version_at_some vs _ v Hi). lia. Qed.

(* ---------------------------------------------------------------------------------------------- *)
(* 3. the batch: same-version prefix, split, de-duplication                                        *)
(* ---------------------------------------------------------------------------------------------- *)

Lemma svp_firstn v l : same_version_prefix v l = firstn (length (same_version_prefix v l)) l.
Proof.
  induction l as [|q r IH]; cbn [same_version_prefix]; [reflexivity|].
  destruct (qe_ver q =? v); cbn [length firstn]; [f_equal; exact IH | reflexivity].
Qed.

Lemma svp_ver v l : Forall (fun q => qe_ver q = v) (same_version_prefix v l).
Proof.
  induction l as [|q r IH]; cbn [same_version_prefix]; [constructor|].
  destruct (qe_ver q =? v) eqn:E; [|constructor]. constructor; [apply Z.eqb_eq; exact E | exact IH].
Qed.

Lemma svp_length v l : (length (same_version_prefix v l) <= length l)%nat.
Proof.
  induction l as [|q r IH]; cbn [same_version_prefix length]; [lia|].
  destruct (qe_ver q =? v); cbn [length]; lia.
Qed.

Lemma firstn_firstn_le {A} (l : list A) n m : (n <= m)%nat -> firstn n (firstn m l) = firstn n l.
Proof. intros H. rewrite firstn_firstn. f_equal. lia. Qed.

Lemma split_perm ex seen l :
  let s := split_batch ex seen l in Permutation l (sp_in s ++ sp_add s ++ sp_exp s).
Proof.
  revert seen. induction l as [|q r IH]; intros seen; cbn [split_batch]; [constructor|].
  destruct (ex (qe_id q)); [|destruct (memZ (qe_sfx q) seen)]; cbn [sp_in sp_add sp_exp].
  - specialize (IH seen). cbn zeta in IH. count_perm.
  - specialize (IH seen). cbn zeta in IH. count_perm.
  - specialize (IH (qe_sfx q :: seen)). cbn zeta in IH. count_perm.
Qed.

Lemma split_in_sfx ex seen l :
  NoDup (map qe_sfx (sp_in (split_batch ex seen l))) /\
  forall q, In q (sp_in (split_batch ex seen l)) -> ~ In (qe_sfx q) seen.
Proof.
  revert seen. induction l as [|q r IH]; intros seen; cbn [split_batch]; [split; [constructor | intros ? []]|].
  destruct (ex (qe_id q)); [exact (IH seen)|]. destruct (memZ (qe_sfx q) seen) eqn:Em; [exact (IH seen)|].
  cbn [sp_in map]. destruct (IH (qe_sfx q :: seen)) as [Hn Hs]. split.
  - constructor; [|assumption]. intros Hi. apply in_map_iff in Hi. destruct Hi as (z & Hz & Hzi).
    apply (Hs z Hzi). left. symmetry. exact Hz.
  - intros z [<-|Hz]; [apply memZ_false; exact Em|]. intros Hin. apply (Hs z Hz). right. exact Hin.
Qed.

Lemma split_sub_in ex seen l : sub (sp_in (split_batch ex seen l)) l.
Proof.
  revert seen. induction l as [|q r IH]; intros seen; cbn [split_batch]; [constructor|].
  destruct (ex (qe_id q)); [apply sub_skip; apply IH|]. destruct (memZ (qe_sfx q) seen); [apply sub_skip | apply sub_keep]; apply IH.
Qed.

(* a non-empty batch makes progress: not everything is handed back *)
Lemma split_progress ex l : l <> [] -> (length (sp_add (split_batch ex [] l)) < length l)%nat.
Proof.
  assert (Hle : forall seen r, (length (sp_add (split_batch ex seen r)) <= length r)%nat).
  { intros seen r. revert seen. induction r as [|q r IH]; intros seen; cbn [split_batch]; [cbn; lia|].
    destruct (ex (qe_id q)); [|destruct (memZ (qe_sfx q) seen)]; cbn [sp_add length]; [specialize (IH seen) | specialize (IH seen) | specialize (IH (qe_sfx q :: seen))]; lia. }
  destruct l as [|q r]; [congruence|]. intros _. cbn [split_batch memZ].
  destruct (ex (qe_id q)); cbn [sp_add length]; [specialize (Hle [] r) | specialize (Hle [qe_sfx q] r)]; lia.
Qed.

Lemma dedup_perm seen l : Permutation l (fst (dedup_split seen l) ++ snd (dedup_split seen l)).
Proof.
  revert seen. induction l as [|q r IH]; intros seen; cbn [dedup_split]; [constructor|].
  destruct (memZ (qe_sfx q) seen).
  - specialize (IH seen). destruct (dedup_split seen r) as [k d]. cbn [fst snd] in *. count_perm.
  - specialize (IH (qe_sfx q :: seen)). destruct (dedup_split (qe_sfx q :: seen) r) as [k d]. cbn [fst snd] in *. count_perm.
Qed.

Lemma dedup_sub seen l : sub (fst (dedup_split seen l)) l.
Proof.
  revert seen. induction l as [|q r IH]; intros seen; cbn [dedup_split]; [constructor|].
  destruct (memZ (qe_sfx q) seen).
  - specialize (IH seen). destruct (dedup_split seen r). cbn [fst] in *. apply sub_skip. exact IH.
  - specialize (IH (qe_sfx q :: seen)). destruct (dedup_split (qe_sfx q :: seen) r). cbn [fst] in *. apply sub_keep. exact IH.
Qed.

(* the operation handler never puts a suffix twice into a batch, so the transaction processor's
   duplicate check never fires *)
Lemma dedup_nodup seen l :
  NoDup (map qe_sfx l) -> (forall q, In q l -> ~ In (qe_sfx q) seen) -> dedup_split seen l = (l, []).
Proof.
  revert seen. induction l as [|q r IH]; intros seen Hn Hs; cbn [dedup_split]; [reflexivity|].
  cbn [map] in Hn. inversion Hn as [|? ? Hq Hr]; subst.
  assert (Em : memZ (qe_sfx q) seen = false) by (apply memZ_false, Hs; left; reflexivity). rewrite Em.
  rewrite IH; [reflexivity | assumption |].
  intros z Hz [Hin|Hin]; [|exact (Hs z (or_intror Hz) Hin)].
  apply Hq. rewrite Hin. apply in_map. exact Hz.
Qed.

Lemma version_at_none_mono vs t t' : version_at vs t = None -> t' <= t -> version_at vs t' = None.
Proof.
  induction vs as [|w r IH]; cbn [version_at]; [reflexivity|]. intros H Hle.
  destruct (version_at r t) eqn:E; [discriminate|]. rewrite (IH eq_refl Hle).
  destruct (pv_genesis w <=? t) eqn:Eg; [discriminate|]. apply Z.leb_gt in Eg.
  destruct (pv_genesis w <=? t') eqn:Eg'; [apply Z.leb_le in Eg'; lia | reflexivity].
Qed.

(* looking the accepting version up again by its genesis time finds the same version *)
Lemma version_at_idem vs t v : version_at vs t = Some v -> version_at vs (pv_genesis v) = Some v.
Proof.
  induction vs as [|w r IH]; cbn [version_at]; [discriminate|].
  destruct (version_at r t) as [u|] eqn:E.
  - intros H; inversion H; subst. rewrite (IH eq_refl). reflexivity.
  - destruct (pv_genesis w <=? t) eqn:Eg; [|discriminate]. intros H; inversion H; subst.
    apply Z.leb_le in Eg. rewrite (version_at_none_mono _ _ _ E Eg). rewrite Z.leb_refl. reflexivity.
Qed.

(* ---------------------------------------------------------------------------------------------- *)
(* 4. the invariant                                                                               *)
(* ---------------------------------------------------------------------------------------------- *)

Definition txn_sops (t : txn) : list sop := map (stamp_sop t) (t_ops t).

(* everything that has been anchored, in anchoring order: the store, then the unobserved transactions *)
Definition anch (st : pstate) : list sop := store st ++ concat (map txn_sops (ledger st)).

(* a is anchored before b (not after it), and strictly before it when they belong to the same DID *)
Definition before (a b : sop) : Prop :=
  s_time a <= s_time b /\ s_num a <= s_num b /\ (s_sfx a = s_sfx b -> s_num a < s_num b).

Definition bounded (st : pstate) (e : sop) : Prop :=
  s_time e <= now st /\ 0 <= s_num e < next_num st /\ s_cref e = s_num e + 1.

(* the protocol version on a stored operation, by ledger policy *)
Definition stamp_ok (cfg : config) (e : sop) : Prop :=
  s_pver e = if c_by_time cfg then s_time e else qe_ver (s_q e).

(* q was accepted under a version of the table, recorded by its genesis time *)
Definition accepted_under (cfg : config) (q : qent) : Prop :=
  exists v, version_at (c_versions cfg) (qe_ver q) = Some v /\ pv_genesis v = qe_ver q.

Record inv (cfg : config) (st : pstate) : Prop := {
  inv_cons : Permutation (accepted st) (places st);
  inv_sorted : StronglySorted before (anch st);
  inv_bound : Forall (bounded st) (anch st);
  inv_num : 0 <= next_num st;
  inv_unpub : incl (map u_q (unpub st)) (accepted st);
  inv_qver : Forall (accepted_under cfg) (accepted st);
  inv_ledger : Forall (fun t => version_at (c_versions cfg) (t_pver t) <> None /\ NoDup (map qe_sfx (t_ops t))) (ledger st);
  inv_dropped : dropped st = [];
  inv_stamp : Forall (stamp_ok cfg) (anch st) }.

Lemma inv_init cfg t0 : inv cfg (init t0).
Proof.
  constructor; cbn; try constructor; try lia. intros x [].
Qed.

(* -- submit -- *)
Lemma intake_version cfg st r v : intake cfg st r = Some v -> version_at (c_versions cfg) (now st) = Some v.
Proof.
  unfold intake. destruct (version_at (c_versions cfg) (now st)) as [w|]; [|discriminate].
  destruct (negb (rq_intake_ok r)); [discriminate|].
  destruct (rq_ty r); try (intros H; inversion H; reflexivity);
    destruct (decorate _ _); intros H; inversion H; reflexivity.
Qed.

Lemma submit_inv cfg st r w : inv cfg st -> inv cfg (submit cfg st r w).
Proof.
  intros I. unfold submit. destruct (intake cfg st r) as [v|] eqn:Ei; [|exact I].
  pose proof (intake_version _ _ _ _ Ei) as Hv.
  destruct I as [Ic Is Ib In Iu Iq Il Id Ist].
  constructor; unfold places, ledger_ops, anch in *; cbn [accepted queue ledger store expired dropped now next_num unpub]; try assumption.
  - count_perm.
  - destruct (unpub_type cfg (rq_ty r)).
    + rewrite map_app. cbn [map u_q]. intros x Hx. apply in_app_or in Hx. apply in_or_app.
      destruct Hx as [Hx|Hx]; [left; apply Iu; exact Hx | right; exact Hx].
    + intros x Hx. apply in_or_app. left. apply Iu. exact Hx.
  - apply Forall_app. split; [assumption|]. constructor; [|constructor].
    exists v. cbn [qe_ver]. split; [apply (version_at_idem _ _ _ Hv) | reflexivity].
Qed.

(* -- cut -- *)
Lemma cut_spec cfg ex f st st' :
  cut cfg ex f st = Some st' ->
  exists cur batch rest ver,
    version_at (c_versions cfg) (now st) = Some cur /\
    batch <> [] /\ queue st = batch ++ rest /\
    Forall (fun q => qe_ver q = ver) batch /\ (length batch <= pv_max cur)%nat /\
    (f = false -> (pv_max cur <= length (queue st))%nat) /\
    version_at (c_versions cfg) ver <> None /\
    let sp := split_batch (fun i => memZ i ex) [] batch in
    st' = {| now := now st; next_num := next_num st + 1;
             queue := rest ++ sp_add sp;
             ledger := ledger st ++ [{| t_time := now st; t_num := next_num st; t_cref := next_num st + 1;
                                        t_pver := if c_by_time cfg then now st else ver; t_ops := sp_in sp |}];
             store := store st; unpub := unpub st; expired := expired st ++ sp_exp sp; dropped := dropped st;
             accepted := accepted st |}.
Proof.
  unfold cut. destruct (version_at (c_versions cfg) (now st)) as [cur|] eqn:Ev; [|discriminate].
  destruct (negb f && (length (queue st) <? pv_max cur)%nat) eqn:Ec; [discriminate|].
  destruct (firstn (Nat.min (length (queue st)) (pv_max cur)) (queue st)) as [|q0 w] eqn:Ew; [discriminate|].
  destruct (version_at (c_versions cfg) (qe_ver q0)) as [vv|] eqn:Evv; [|discriminate].
  intros H. injection H as <-.
  set (batch := same_version_prefix (qe_ver q0) (q0 :: w)).
  exists cur, batch, (skipn (length batch) (queue st)), (qe_ver q0).
  assert (Hl : (length batch <= Nat.min (length (queue st)) (pv_max cur))%nat).
  { pose proof (svp_length (qe_ver q0) (q0 :: w)) as Hl. fold batch in Hl. rewrite <- Ew in Hl.
    rewrite firstn_length in Hl. lia. }
  assert (Hb : batch = firstn (length batch) (queue st)).
  { unfold batch at 1. rewrite svp_firstn. fold batch. rewrite <- Ew. apply firstn_firstn_le. lia. }
  split; [reflexivity|].
  split; [unfold batch; cbn [same_version_prefix]; rewrite Z.eqb_refl; discriminate|].
  split; [rewrite Hb at 1; symmetry; apply firstn_skipn|].
  split; [apply svp_ver|].
  split; [lia|].
  split; [intros ->; cbn [negb andb] in Ec; apply Nat.ltb_ge in Ec; exact Ec|].
  split; [rewrite Evv; discriminate|].
  reflexivity.
Qed.

Lemma stamp_same_txn_sorted t l : NoDup (map qe_sfx l) -> StronglySorted before (map (stamp_sop t) l).
Proof.
  induction l as [|q r IH]; cbn [map]; intros Hn; [constructor|]. inversion Hn as [|? ? Hq Hr]; subst.
  constructor; [apply IH; assumption|]. rewrite Forall_forall. intros e He. apply in_map_iff in He.
  destruct He as (z & <- & Hz). unfold before, stamp_sop, s_sfx. cbn [s_time s_num s_q].
  repeat split; try lia. intros Heq. exfalso. apply Hq. rewrite Heq. apply in_map. exact Hz.
Qed.

Lemma anch_snoc st t : store st ++ concat (map txn_sops (ledger st ++ [t])) = anch st ++ txn_sops t.
Proof. unfold anch. rewrite map_app, concat_app. cbn [map concat]. rewrite app_nil_r, app_assoc. reflexivity. Qed.

Lemma cut_inv cfg ex f st st' : cut cfg ex f st = Some st' -> inv cfg st -> inv cfg st'.
Proof.
  intros Hc I. destruct (cut_spec _ _ _ _ _ Hc) as (cur & batch & rest & ver & Hcur & Hne & Hq & Hver & Hlen & _ & Hvv & ->).
  destruct I as [Ic Is Ib In Iu Iq Il Id Ist].
  pose proof (split_perm (fun i => memZ i ex) [] batch) as Hsp. cbn zeta in Hsp.
  destruct (split_in_sfx (fun i => memZ i ex) [] batch) as [Hnd _].
  set (sp := split_batch (fun i => memZ i ex) [] batch) in *.
  set (t := {| t_time := now st; t_num := next_num st; t_cref := next_num st + 1;
               t_pver := if c_by_time cfg then now st else ver; t_ops := sp_in sp |}).
  constructor; unfold places, ledger_ops; cbn [accepted queue ledger store expired dropped now next_num unpub]; try assumption; try lia.
  - unfold places, ledger_ops in Ic. rewrite Hq in Ic. rewrite map_app, concat_app. cbn [map concat t_ops t]. rewrite app_nil_r.
    count_perm.
  - unfold anch at 1. cbn [store ledger]. rewrite anch_snoc. apply SS_app; [assumption | apply stamp_same_txn_sorted; exact Hnd |].
    intros a b Ha Hb. rewrite Forall_forall in Ib. destruct (Ib a Ha) as (Ht & Hn & _).
    unfold txn_sops in Hb. apply in_map_iff in Hb. destruct Hb as (z & <- & _).
    unfold before, stamp_sop. cbn [s_time s_num t_time t_num t]. repeat split; lia.
  - unfold anch at 1. cbn [store ledger]. rewrite anch_snoc. apply Forall_app. split.
    + rewrite Forall_forall in *. intros e He. destruct (Ib e He) as (Ht & Hn & Hcr). unfold bounded. cbn [now next_num]. repeat split; lia.
    + rewrite Forall_forall. intros e He. unfold txn_sops in He. apply in_map_iff in He. destruct He as (z & <- & _).
      unfold bounded, stamp_sop. cbn [now next_num s_time s_num s_cref t_time t_num t_cref t]. repeat split; lia.
  - apply Forall_app. split; [assumption|]. constructor; [|constructor]. cbn [t_pver t_ops t]. split; [|exact Hnd].
    destruct (c_by_time cfg); [congruence | exact Hvv].
  - unfold anch at 1. cbn [store ledger]. rewrite anch_snoc. apply Forall_app. split; [assumption|].
    rewrite Forall_forall. intros e He. unfold txn_sops in He. apply in_map_iff in He. destruct He as (z & <- & Hz).
    unfold stamp_ok, stamp_sop. cbn [s_pver s_time s_q t_pver t_time t t_ops] in *.
    destruct (c_by_time cfg); [reflexivity|]. rewrite Forall_forall in Hver. symmetry. apply Hver.
    eapply sub_in; [apply split_sub_in | exact Hz].
Qed.

Lemma drain_inv cfg ex fuel : forall st, inv cfg st -> inv cfg (drain cfg ex fuel st).
Proof.
  induction fuel as [|n IH]; intros st I; cbn [drain]; [exact I|].
  destruct (cut cfg ex false st) as [st'|] eqn:Ec; [|exact I]. apply IH. eapply cut_inv; eassumption.
Qed.

Lemma flush_inv cfg ex f st : inv cfg st -> inv cfg (flush cfg ex f st).
Proof.
  intros I. unfold flush. pose proof (drain_inv cfg ex (S (length (queue st))) st I) as I1.
  destruct (Nat.eqb _ 0 || negb f); [exact I1|].
  destruct (cut cfg ex true _) as [st2|] eqn:Ec; [eapply cut_inv; eassumption | exact I1].
Qed.

(* -- observe -- *)
Definition set_ledger (st : pstate) (l : list txn) : pstate :=
  {| now := now st; next_num := next_num st; queue := queue st; ledger := l; store := store st;
     unpub := unpub st; expired := expired st; dropped := dropped st; accepted := accepted st |}.

Lemma set_ledger_id st : set_ledger st (ledger st) = st.
Proof. destruct st; reflexivity. Qed.

Lemma observe_txn_set_ledger cfg st l t : observe_txn cfg (set_ledger st l) t = set_ledger (observe_txn cfg st t) l.
Proof.
  unfold observe_txn. destruct (version_at (c_versions cfg) (t_pver t)); [|reflexivity].
  destruct (dedup_split [] (t_ops t)). reflexivity.
Qed.

Lemma remove_first_sub s k l : sub (remove_first s k l) l.
Proof.
  induction l as [|u r IH]; cbn [remove_first]; [constructor|].
  destruct ((u_sfx u =? s) && (rq_key (qe_req (u_q u)) =? k)); [apply sub_skip, sub_refl | apply sub_keep, IH].
Qed.

Lemma sub_trans {A} (a b c : list A) : sub a b -> sub b c -> sub a c.
Proof.
  intros Hab Hbc. revert a Hab. induction Hbc; intros a Hab.
  - exact Hab.
  - apply sub_skip. apply IHHbc. exact Hab.
  - inversion Hab; subst; [apply sub_skip | apply sub_keep]; apply IHHbc; assumption.
Qed.

Lemma delete_all_sub cfg kept : forall un, sub (delete_all cfg kept un) un.
Proof.
  unfold delete_all. induction kept as [|q r IH]; intros un; cbn [fold_left]; [apply sub_refl|].
  eapply sub_trans; [apply IH|]. destruct (unpub_type cfg (rq_ty (qe_req q))); [apply remove_first_sub | apply sub_refl].
Qed.

Lemma map_stamp_s_q t l : map s_q (map (stamp_sop t) l) = l.
Proof. rewrite map_map. cbn [stamp_sop s_q]. apply map_id. Qed.

Lemma observe_txn_inv cfg st t r : inv cfg (set_ledger st (t :: r)) -> inv cfg (set_ledger (observe_txn cfg st t) r).
Proof.
  intros I. destruct I as [Ic Is Ib In Iu Iq Il Id Ist].
  unfold places, ledger_ops, anch in *.
  cbn [set_ledger accepted queue ledger store expired dropped now next_num unpub map concat] in *.
  inversion Il as [|? ? [Hv Hnd] Il']; subst.
  unfold observe_txn. destruct (version_at (c_versions cfg) (t_pver t)) as [vv|]; [|congruence].
  rewrite (dedup_nodup [] (t_ops t) Hnd) by (intros ? ? []).
  assert (Ha : (store st ++ map (stamp_sop t) (t_ops t)) ++ concat (map txn_sops r) = store st ++ txn_sops t ++ concat (map txn_sops r)).
  { rewrite <- app_assoc. reflexivity. }
  constructor; unfold places, ledger_ops, anch; cbn [set_ledger accepted queue ledger store expired dropped now next_num unpub]; try assumption.
  - rewrite map_app, map_stamp_s_q, app_nil_r. count_perm.
  - rewrite Ha. exact Is.
  - rewrite Ha. exact Ib.
  - intros x Hx. apply Iu. eapply sub_in; [apply sub_map, delete_all_sub | exact Hx].
  - rewrite app_nil_r. exact Id.
  - rewrite Ha. exact Ist.
Qed.

Lemma observe_fold_inv cfg : forall ts st, inv cfg (set_ledger st ts) -> inv cfg (set_ledger (fold_left (observe_txn cfg) ts st) []).
Proof.
  induction ts as [|t r IH]; intros st I; cbn [fold_left]; [exact I|].
  apply IH. apply observe_txn_inv. exact I.
Qed.

Lemma observe_inv cfg st : inv cfg st -> inv cfg (observe cfg st).
Proof.
  intros I. unfold observe. change (clear_ledger ?x) with (set_ledger x []).
  apply observe_fold_inv. rewrite set_ledger_id. exact I.
Qed.

Lemma set_now_inv cfg st t : now st <= t -> inv cfg st -> inv cfg (set_now st t).
Proof.
  intros Hle I. destruct I as [Ic Is Ib In Iu Iq Il Id Ist].
  constructor; unfold places, ledger_ops, anch in *; cbn [set_now accepted queue ledger store expired dropped now next_num unpub]; try assumption.
  rewrite Forall_forall in *. intros e He. destruct (Ib e He) as (Ht & Hn & Hc).
  unfold bounded. cbn [set_now now next_num]. repeat split; lia.
Qed.

Lemma step_inv cfg st e : inv cfg st -> inv cfg (step cfg st e).
Proof.
  intros I. destruct e as [r w|f ex| |t]; cbn [step].
  - apply submit_inv; exact I.
  - apply flush_inv; exact I.
  - apply observe_inv; exact I.
  - destruct (now st <=? t) eqn:E; [apply set_now_inv; [apply Z.leb_le; exact E | exact I] | exact I].
Qed.

Theorem run_inv cfg es : forall st, inv cfg st -> inv cfg (run cfg st es).
Proof. unfold run. induction es as [|e r IH]; intros st I; cbn [fold_left]; [exact I | apply IH, step_inv, I]. Qed.

Corollary reachable_inv cfg t0 es : inv cfg (run cfg (init t0) es).
Proof. apply run_inv, inv_init. Qed.
