(* C20 - theorems about the pipeline model, for ALL event sequences (induction over the event list).

   a. conservation            every accepted request is in exactly one place; nothing else is stored;
                              a refused request leaves no trace
   b. per_suffix_order        per DID, stored operations carry strictly increasing coordinates (one
                              operation per DID per transaction); the store order IS the anchoring order.
                              FIFO per DID (anchoring order = submission order) is REFUTED: fifo_refuted
   c. pipeline_resolves_to_spec / good_chain_resolves / pipeline_fold
                              resolution = reference machine on the stored operations in anchoring
                              order; for correct chains = left fold of apply
   d. create_views_agree      immediate response, long-form and short-form resolution of a create
   e. stored_version / batch_one_version / batch_size_current_version
                              which protocol version an operation is validated, batched, stamped and
                              applied under *)
From Coq Require Import List ZArith Bool Arith Lia Permutation Sorted.
From SV Require Import Resolve.Op Resolve.Apply Resolve.Process Resolve.Intake Resolve.Order Resolve.Prepare
  Resolve.Spec Resolve.Chain Resolve.Terminal Resolve.Refine Resolve.Extend Pipeline.Model.
Import ListNotations.
Local Open Scope Z_scope.

(* ---------------------------------------------------------------------------------------------- *)
(* 0. lists                                                                                       *)
(* ---------------------------------------------------------------------------------------------- *)

(* order-preserving sub-list *)
Inductive sub {A} : list A -> list A -> Prop :=
| sub_nil : sub [] []
| sub_skip x l l' : sub l l' -> sub l (x :: l')
| sub_keep x l l' : sub l l' -> sub (x :: l) (x :: l').

Lemma sub_refl {A} (l : list A) : sub l l.
Proof. induction l; constructor; assumption. Qed.

Lemma sub_nil_l {A} (l : list A) : sub [] l.
Proof. induction l; constructor; assumption. Qed.

Lemma sub_app {A} (a a' b b' : list A) : sub a a' -> sub b b' -> sub (a ++ b) (a' ++ b').
Proof. induction 1; intros Hb; cbn [app]; [assumption | apply sub_skip; auto | apply sub_keep; auto]. Qed.

Lemma sub_map {A B} (f : A -> B) l l' : sub l l' -> sub (map f l) (map f l').
Proof. induction 1; cbn [map]; [apply sub_nil | apply sub_skip; assumption | apply sub_keep; assumption]. Qed.

Lemma sub_in {A} (l l' : list A) x : sub l l' -> In x l -> In x l'.
Proof. induction 1; cbn [In]; intros Hx; [tauto | right; auto | destruct Hx; [left; assumption | right; auto]]. Qed.

Lemma sub_filter {A} (p : A -> bool) l : sub (filter p l) l.
Proof. induction l as [|x r IH]; cbn [filter]; [constructor|]. destruct (p x); [apply sub_keep | apply sub_skip]; assumption. Qed.

Lemma Forall_sub {A} (P : A -> Prop) l l' : sub l l' -> Forall P l' -> Forall P l.
Proof. intros Hs Hf. rewrite Forall_forall in *. intros x Hx. apply Hf. eapply sub_in; eassumption. Qed.

Lemma SS_sub {A} (R : A -> A -> Prop) l l' : sub l l' -> StronglySorted R l' -> StronglySorted R l.
Proof.
  induction 1; intros Hs; [constructor | |].
  - apply StronglySorted_inv in Hs. apply IHsub, Hs.
  - apply StronglySorted_inv in Hs. destruct Hs as [Hs Hf]. constructor; [apply IHsub, Hs|].
    eapply Forall_sub; eassumption.
Qed.

Lemma SS_app {A} (R : A -> A -> Prop) l1 l2 :
  StronglySorted R l1 -> StronglySorted R l2 -> (forall a b, In a l1 -> In b l2 -> R a b) ->
  StronglySorted R (l1 ++ l2).
Proof.
  induction l1 as [|x r IH]; intros H1 H2 H12; cbn [app]; [assumption|].
  apply StronglySorted_inv in H1. destruct H1 as [H1 Hf]. constructor.
  - apply IH; [assumption | assumption | intros a b Ha Hb; apply H12; [right; assumption | assumption]].
  - apply Forall_app. split; [assumption|]. rewrite Forall_forall. intros b Hb. apply H12; [left; reflexivity | assumption].
Qed.

Lemma SS_map {A B} (f : A -> B) (R : B -> B -> Prop) l :
  StronglySorted (fun a b => R (f a) (f b)) l -> StronglySorted R (map f l).
Proof.
  induction 1; cbn [map]; constructor; [assumption|]. rewrite Forall_forall in *. intros y Hy.
  apply in_map_iff in Hy. destruct Hy as (z & <- & Hz). auto.
Qed.

Lemma SS_weaken {A} (R R' : A -> A -> Prop) l :
  (forall a b, In a l -> In b l -> R a b -> R' a b) -> StronglySorted R l -> StronglySorted R' l.
Proof.
  intros Hw. induction 1; constructor.
  - apply IHStronglySorted. intros x y Hx Hy. apply Hw; right; assumption.
  - rewrite Forall_forall in *. intros y Hy. apply Hw; [left; reflexivity | right; assumption | auto].
Qed.

Lemma concat_map_sub {A B} (f g : A -> list B) l : (forall x, sub (f x) (g x)) -> sub (concat (map f l)) (concat (map g l)).
Proof. intros H. induction l; cbn [map concat]; [constructor | apply sub_app; auto]. Qed.

(* ---------------------------------------------------------------------------------------------- *)
(* 1. decidable equality of queue entries (for counting)                                           *)
(* ---------------------------------------------------------------------------------------------- *)

Lemma qent_eq_dec : forall a b : qent, {a = b} + {a <> b}.
Proof. repeat decide equality. Qed.

Ltac count_perm :=
  apply (Permutation_count_occ qent_eq_dec);
  let x := fresh "x" in
  intro x;
  repeat match goal with
         | H : Permutation _ _ |- _ =>
           let Hc := fresh "Hc" in
           pose proof (proj1 (Permutation_count_occ qent_eq_dec _ _) H x) as Hc; clear H
         end;
  repeat rewrite count_occ_app in *; cbn [count_occ] in *;
  repeat match goal with
         | |- context [qent_eq_dec ?a ?b] => destruct (qent_eq_dec a b)
         | H : context [qent_eq_dec ?a ?b] |- _ => destruct (qent_eq_dec a b)
         end; lia.

(* ---------------------------------------------------------------------------------------------- *)
(* 2. protocol versions                                                                           *)
(* ---------------------------------------------------------------------------------------------- *)

Lemma version_at_in vs t v : version_at vs t = Some v -> In v vs /\ pv_genesis v <= t.
Proof.
  induction vs as [|w r IH]; cbn [version_at]; [discriminate|].
  destruct (version_at r t) as [u|] eqn:E.
  - intros H; inversion H; subst. destruct (IH eq_refl) as [Hi Hg]. split; [right; assumption | assumption].
  - destruct (pv_genesis w <=? t) eqn:Eg; [|discriminate]. intros H; inversion H; subst.
    split; [left; reflexivity | apply Z.leb_le; assumption].
Qed.

Lemma version_at_some vs t v : In v vs -> pv_genesis v <= t -> version_at vs t <> None.
Proof.
  induction vs as [|w r IH]; cbn [In version_at]; [tauto|]. intros [->|Hi] Hg.
  - destruct (version_at r t); [discriminate|]. apply Z.leb_le in Hg. rewrite Hg. discriminate.
  - specialize (IH Hi Hg). destruct (version_at r t); [discriminate | congruence].
Qed.

(* the version an operation was accepted under is found again by its genesis time *)
Lemma version_at_genesis vs t v : version_at vs t = Some v -> version_at vs (pv_genesis v) <> None.
Proof. intros H. destruct (version_at_in _ _ _ H) as [Hi _]. apply (version_at_some vs _ v Hi). lia. Qed.

(* ---------------------------------------------------------------------------------------------- *)
(* 3. the batch: same-version prefix, split, de-duplication                                        *)
(* ---------------------------------------------------------------------------------------------- *)

Lemma svp_firstn v l : same_version_prefix v l = firstn (length (same_version_prefix v l)) l.
Proof.
  induction l as [|q r IH]; cbn [same_version_prefix]; [reflexivity|].
  destruct (qe_ver q =? v); cbn [length firstn]; [f_equal; exact IH | reflexivity].
Qed.

Lemma svp_ver v l : Forall (fun q => qe_ver q = v) (same_version_prefix v l).
Proof.
  induction l as [|q r IH]; cbn [same_version_prefix]; [constructor|].
  destruct (qe_ver q =? v) eqn:E; [|constructor]. constructor; [apply Z.eqb_eq; exact E | exact IH].
Qed.

Lemma svp_length v l : (length (same_version_prefix v l) <= length l)%nat.
Proof.
  induction l as [|q r IH]; cbn [same_version_prefix length]; [lia|].
  destruct (qe_ver q =? v); cbn [length]; lia.
Qed.

Lemma firstn_firstn_le {A} (l : list A) n m : (n <= m)%nat -> firstn n (firstn m l) = firstn n l.
Proof. intros H. rewrite firstn_firstn. f_equal. lia. Qed.

Lemma split_perm ex seen l :
  let s := split_batch ex seen l in Permutation l (sp_in s ++ sp_add s ++ sp_exp s).
Proof.
  revert seen. induction l as [|q r IH]; intros seen; cbn [split_batch]; [constructor|].
  destruct (ex (qe_id q)); [|destruct (memZ (qe_sfx q) seen)]; cbn [sp_in sp_add sp_exp].
  - specialize (IH seen). cbn zeta in IH. count_perm.
  - specialize (IH seen). cbn zeta in IH. count_perm.
  - specialize (IH (qe_sfx q :: seen)). cbn zeta in IH. count_perm.
Qed.

Lemma split_in_sfx ex seen l :
  NoDup (map qe_sfx (sp_in (split_batch ex seen l))) /\
  forall q, In q (sp_in (split_batch ex seen l)) -> ~ In (qe_sfx q) seen.
Proof.
  revert seen. induction l as [|q r IH]; intros seen; cbn [split_batch]; [split; [constructor | intros ? []]|].
  destruct (ex (qe_id q)); [exact (IH seen)|]. destruct (memZ (qe_sfx q) seen) eqn:Em; [exact (IH seen)|].
  cbn [sp_in map]. destruct (IH (qe_sfx q :: seen)) as [Hn Hs]. split.
  - constructor; [|assumption]. intros Hi. apply in_map_iff in Hi. destruct Hi as (z & Hz & Hzi).
    apply (Hs z Hzi). left. symmetry. exact Hz.
  - intros z [<-|Hz]; [apply memZ_false; exact Em|]. intros Hin. apply (Hs z Hz). right. exact Hin.
Qed.

Lemma split_sub_in ex seen l : sub (sp_in (split_batch ex seen l)) l.
Proof.
  revert seen. induction l as [|q r IH]; intros seen; cbn [split_batch]; [constructor|].
  destruct (ex (qe_id q)); [apply sub_skip; apply IH|]. destruct (memZ (qe_sfx q) seen); [apply sub_skip | apply sub_keep]; apply IH.
Qed.

Lemma memZ_true_in x l : memZ x l = true -> In x l.
Proof.
  induction l as [|y r IH]; cbn [memZ In]; [discriminate|]. intros H. apply orb_true_iff in H.
  destruct H as [H|H]; [left; symmetry; apply Z.eqb_eq; exact H | right; apply IH; exact H].
Qed.

(* an operation is handed back only behind an operation of the same suffix that is already seen or included *)
Lemma split_add_behind ex : forall l seen q,
  In q (sp_add (split_batch ex seen l)) ->
  In (qe_sfx q) seen \/ exists i, In i (sp_in (split_batch ex seen l)) /\ qe_sfx i = qe_sfx q.
Proof.
  induction l as [|h r IH]; intros seen q; cbn [split_batch]; [intros []|].
  destruct (ex (qe_id h)); cbn [sp_in sp_add]; [apply IH|].
  destruct (memZ (qe_sfx h) seen) eqn:Em; cbn [sp_in sp_add].
  - intros [<-|Hin]; [left; apply memZ_true_in; exact Em | apply IH; exact Hin].
  - intros Hin. destruct (IH _ _ Hin) as [[Hs|Hs]|(i & Hi & Hs)].
    + right. exists h. split; [left; reflexivity | exact Hs].
    + left. exact Hs.
    + right. exists i. split; [right; exact Hi | exact Hs].
Qed.

(* F16: a batch in which nothing is included (every operation expired) hands nothing back either *)
Lemma split_in_nil_add_nil ex l : sp_in (split_batch ex [] l) = [] -> sp_add (split_batch ex [] l) = [].
Proof.
  intros Hi. destruct (sp_add (split_batch ex [] l)) as [|q r] eqn:Ea; [reflexivity|].
  destruct (split_add_behind ex l [] q) as [[]|(i & Hin & _)]; [rewrite Ea; left; reflexivity|].
  rewrite Hi in Hin. destruct Hin.
Qed.

(* a non-empty batch makes progress: not everything is handed back *)
Lemma split_progress ex l : l <> [] -> (length (sp_add (split_batch ex [] l)) < length l)%nat.
Proof.
  assert (Hle : forall seen r, (length (sp_add (split_batch ex seen r)) <= length r)%nat).
  { intros seen r. revert seen. induction r as [|q r IH]; intros seen; cbn [split_batch]; [cbn; lia|].
    destruct (ex (qe_id q)); [|destruct (memZ (qe_sfx q) seen)]; cbn [sp_add length]; [specialize (IH seen) | specialize (IH seen) | specialize (IH (qe_sfx q :: seen))]; lia. }
  destruct l as [|q r]; [congruence|]. intros _. cbn [split_batch memZ].
  destruct (ex (qe_id q)); cbn [sp_add length]; [specialize (Hle [] r) | specialize (Hle [qe_sfx q] r)]; lia.
Qed.

Lemma dedup_perm seen l : Permutation l (fst (dedup_split seen l) ++ snd (dedup_split seen l)).
Proof.
  revert seen. induction l as [|q r IH]; intros seen; cbn [dedup_split]; [constructor|].
  destruct (memZ (qe_sfx q) seen).
  - specialize (IH seen). destruct (dedup_split seen r) as [k d]. cbn [fst snd] in *. count_perm.
  - specialize (IH (qe_sfx q :: seen)). destruct (dedup_split (qe_sfx q :: seen) r) as [k d]. cbn [fst snd] in *. count_perm.
Qed.

Lemma dedup_sub seen l : sub (fst (dedup_split seen l)) l.
Proof.
  revert seen. induction l as [|q r IH]; intros seen; cbn [dedup_split]; [constructor|].
  destruct (memZ (qe_sfx q) seen).
  - specialize (IH seen). destruct (dedup_split seen r). cbn [fst] in *. apply sub_skip. exact IH.
  - specialize (IH (qe_sfx q :: seen)). destruct (dedup_split (qe_sfx q :: seen) r). cbn [fst] in *. apply sub_keep. exact IH.
Qed.

(* the operation handler never puts a suffix twice into a batch, so the transaction processor's
   duplicate check never fires *)
Lemma dedup_nodup seen l :
  NoDup (map qe_sfx l) -> (forall q, In q l -> ~ In (qe_sfx q) seen) -> dedup_split seen l = (l, []).
Proof.
  revert seen. induction l as [|q r IH]; intros seen Hn Hs; cbn [dedup_split]; [reflexivity|].
  cbn [map] in Hn. inversion Hn as [|? ? Hq Hr]; subst.
  assert (Em : memZ (qe_sfx q) seen = false) by (apply memZ_false, Hs; left; reflexivity). rewrite Em.
  rewrite IH; [reflexivity | assumption |].
  intros z Hz [Hin|Hin]; [|exact (Hs z (or_intror Hz) Hin)].
  apply Hq. rewrite Hin. apply in_map. exact Hz.
Qed.

Lemma version_at_none_mono vs t t' : version_at vs t = None -> t' <= t -> version_at vs t' = None.
Proof.
  induction vs as [|w r IH]; cbn [version_at]; [reflexivity|]. intros H Hle.
  destruct (version_at r t) eqn:E; [discriminate|]. rewrite (IH eq_refl Hle).
  destruct (pv_genesis w <=? t) eqn:Eg; [discriminate|]. apply Z.leb_gt in Eg.
  destruct (pv_genesis w <=? t') eqn:Eg'; [apply Z.leb_le in Eg'; lia | reflexivity].
Qed.

(* looking the accepting version up again by its genesis time finds the same version *)
Lemma version_at_idem vs t v : version_at vs t = Some v -> version_at vs (pv_genesis v) = Some v.
Proof.
  induction vs as [|w r IH]; cbn [version_at]; [discriminate|].
  destruct (version_at r t) as [u|] eqn:E.
  - intros H; inversion H; subst. rewrite (IH eq_refl). reflexivity.
  - destruct (pv_genesis w <=? t) eqn:Eg; [|discriminate]. intros H; inversion H; subst.
    apply Z.leb_le in Eg. rewrite (version_at_none_mono _ _ _ E Eg). rewrite Z.leb_refl. reflexivity.
Qed.

(* ---------------------------------------------------------------------------------------------- *)
(* 4. the invariant                                                                               *)
(* ---------------------------------------------------------------------------------------------- *)

Definition txn_sops (t : txn) : list sop := map (stamp_sop t) (t_ops t).

(* everything that has been anchored, in anchoring order: the store, then the unobserved transactions *)
Definition anch (st : pstate) : list sop := store st ++ concat (map txn_sops (ledger st)).

(* a is anchored before b (not after it), and strictly before it when they belong to the same DID *)
Definition before (a b : sop) : Prop :=
  s_time a <= s_time b /\ s_num a <= s_num b /\ (s_sfx a = s_sfx b -> s_num a < s_num b).

Definition bounded (st : pstate) (e : sop) : Prop :=
  s_time e <= now st /\ 0 <= s_num e < next_num st /\ s_cref e = s_num e + 1.

(* the protocol version on a stored operation, by ledger policy *)
Definition stamp_ok (cfg : config) (e : sop) : Prop :=
  s_pver e = if c_by_time cfg then s_time e else qe_ver (s_q e).

(* q was accepted under a version of the table, recorded by its genesis time *)
Definition accepted_under (cfg : config) (q : qent) : Prop :=
  exists v, version_at (c_versions cfg) (qe_ver q) = Some v /\ pv_genesis v = qe_ver q.

Record inv (cfg : config) (st : pstate) : Prop := {
  inv_cons : Permutation (accepted st) (places st);
  inv_sorted : StronglySorted before (anch st);
  inv_bound : Forall (bounded st) (anch st);
  inv_num : 0 <= next_num st;
  inv_unpub : incl (map u_q (unpub st)) (accepted st);
  inv_qver : Forall (accepted_under cfg) (accepted st);
  inv_ledger : Forall (fun t => version_at (c_versions cfg) (t_pver t) <> None /\ NoDup (map qe_sfx (t_ops t)) /\ t_ops t <> [])
                      (ledger st);
  inv_dropped : dropped st = [];
  inv_stamp : Forall (stamp_ok cfg) (anch st);
  inv_pver : Forall (fun e => version_at (c_versions cfg) (s_pver e) <> None) (anch st) }.

Lemma inv_init cfg t0 : inv cfg (init t0).
Proof.
  constructor; cbn; try constructor; try lia. intros x [].
Qed.

(* -- submit -- *)
Lemma intake_version cfg st r v : intake cfg st r = Some v -> version_at (c_versions cfg) (now st) = Some v.
Proof.
  unfold intake. destruct (version_at (c_versions cfg) (now st)) as [w|]; [|discriminate].
  destruct (negb (rq_intake_ok r)); [discriminate|].
  destruct (rq_ty r); try (intros H; inversion H; reflexivity);
    destruct (decorate _ _); intros H; inversion H; reflexivity.
Qed.

Lemma submit_inv cfg st r w : inv cfg st -> inv cfg (submit cfg st r w).
Proof.
  intros I. unfold submit. destruct (intake cfg st r) as [v|] eqn:Ei; [|exact I].
  pose proof (intake_version _ _ _ _ Ei) as Hv.
  destruct I as [Ic Is Ib In Iu Iq Il Id Ist Ipv].
  constructor; unfold places, ledger_ops, anch in *; cbn [accepted queue ledger store expired dropped now next_num unpub]; try assumption.
  - count_perm.
  - destruct (unpub_type cfg (rq_ty r)).
    + rewrite map_app. cbn [map u_q]. intros x Hx. apply in_app_or in Hx. apply in_or_app.
      destruct Hx as [Hx|Hx]; [left; apply Iu; exact Hx | right; exact Hx].
    + intros x Hx. apply in_or_app. left. apply Iu. exact Hx.
  - apply Forall_app. split; [assumption|]. constructor; [|constructor].
    exists v. cbn [qe_ver]. split; [apply (version_at_idem _ _ _ Hv) | reflexivity].
Qed.

(* -- cut -- *)
(* the transaction a cut writes: none when every operation of the batch has expired (F16) *)
Definition mk_txn (cfg : config) (st : pstate) (ver : Z) (sp : split) : txn :=
  {| t_time := now st; t_num := next_num st; t_cref := next_num st + 1;
     t_pver := if c_by_time cfg then now st else ver; t_ops := sp_in sp |}.
Definition cut_txns (cfg : config) (st : pstate) (ver : Z) (sp : split) : list txn :=
  match sp_in sp with [] => [] | _ :: _ => [mk_txn cfg st ver sp] end.
Definition cut_num (st : pstate) (sp : split) : Z :=
  match sp_in sp with [] => next_num st | _ :: _ => next_num st + 1 end.

Lemma cut_txns_cases cfg st ver sp :
  (sp_in sp = [] /\ cut_txns cfg st ver sp = [] /\ cut_num st sp = next_num st) \/
  (sp_in sp <> [] /\ cut_txns cfg st ver sp = [mk_txn cfg st ver sp] /\ cut_num st sp = next_num st + 1).
Proof.
  unfold cut_txns, cut_num. destruct (sp_in sp) as [|i0 ir]; [left | right]; repeat split; discriminate.
Qed.

Lemma cut_spec cfg ex f st st' :
  cut cfg ex f st = Some st' ->
  exists cur batch rest ver,
    version_at (c_versions cfg) (now st) = Some cur /\
    batch <> [] /\ queue st = batch ++ rest /\
    Forall (fun q => qe_ver q = ver) batch /\ (length batch <= pv_max cur)%nat /\
    (f = false -> (pv_max cur <= length (queue st))%nat) /\
    version_at (c_versions cfg) ver <> None /\
    let sp := split_batch (fun i => memZ i ex) [] batch in
    st' = {| now := now st; next_num := cut_num st sp;
             queue := rest ++ sp_add sp;
             ledger := ledger st ++ cut_txns cfg st ver sp;
             store := store st; unpub := unpub st; expired := expired st ++ sp_exp sp; dropped := dropped st;
             accepted := accepted st |}.
Proof.
  unfold cut. destruct (version_at (c_versions cfg) (now st)) as [cur|] eqn:Ev; [|discriminate].
  destruct (negb f && (length (queue st) <? pv_max cur)%nat) eqn:Ec; [discriminate|].
  destruct (firstn (Nat.min (length (queue st)) (pv_max cur)) (queue st)) as [|q0 w] eqn:Ew; [discriminate|].
  destruct (version_at (c_versions cfg) (qe_ver q0)) as [vv|] eqn:Evv; [|discriminate].
  set (batch := same_version_prefix (qe_ver q0) (q0 :: w)).
  intros H.
  assert (Hst : st' = {| now := now st; next_num := cut_num st (split_batch (fun i => memZ i ex) [] batch);
             queue := skipn (length batch) (queue st) ++ sp_add (split_batch (fun i => memZ i ex) [] batch);
             ledger := ledger st ++ cut_txns cfg st (qe_ver q0) (split_batch (fun i => memZ i ex) [] batch);
             store := store st; unpub := unpub st;
             expired := expired st ++ sp_exp (split_batch (fun i => memZ i ex) [] batch); dropped := dropped st;
             accepted := accepted st |}).
  { unfold cut_num, cut_txns, mk_txn.
    pose proof (split_in_nil_add_nil (fun i => memZ i ex) batch) as Hadd.
    destruct (sp_in (split_batch (fun i => memZ i ex) [] batch)) as [|i0 ir] eqn:Ein; injection H as <-.
    - rewrite (Hadd eq_refl), !app_nil_r. reflexivity.
    - reflexivity. }
  clear H. subst st'.
  exists cur, batch, (skipn (length batch) (queue st)), (qe_ver q0).
  assert (Hl : (length batch <= Nat.min (length (queue st)) (pv_max cur))%nat).
  { pose proof (svp_length (qe_ver q0) (q0 :: w)) as Hl. fold batch in Hl. rewrite <- Ew in Hl.
    rewrite firstn_length in Hl. lia. }
  assert (Hb : batch = firstn (length batch) (queue st)).
  { unfold batch at 1. rewrite svp_firstn. fold batch. rewrite <- Ew. apply firstn_firstn_le. lia. }
  split; [reflexivity|].
  split; [unfold batch; cbn [same_version_prefix]; rewrite Z.eqb_refl; discriminate|].
  split; [rewrite Hb at 1; symmetry; apply firstn_skipn|].
  split; [apply svp_ver|].
  split; [lia|].
  split; [intros ->; cbn [negb andb] in Ec; apply Nat.ltb_ge in Ec; exact Ec|].
  split; [rewrite Evv; discriminate|].
  reflexivity.
Qed.

Lemma stamp_same_txn_sorted t l : NoDup (map qe_sfx l) -> StronglySorted before (map (stamp_sop t) l).
Proof.
  induction l as [|q r IH]; cbn [map]; intros Hn; [constructor|]. inversion Hn as [|? ? Hq Hr]; subst.
  constructor; [apply IH; assumption|]. rewrite Forall_forall. intros e He. apply in_map_iff in He.
  destruct He as (z & <- & Hz). unfold before, stamp_sop, s_sfx. cbn [s_time s_num s_q].
  repeat split; try lia. intros Heq. exfalso. apply Hq. rewrite Heq. apply in_map. exact Hz.
Qed.

Lemma anch_snoc st t : store st ++ concat (map txn_sops (ledger st ++ [t])) = anch st ++ txn_sops t.
Proof. unfold anch. rewrite map_app, concat_app. cbn [map concat]. rewrite app_nil_r, app_assoc. reflexivity. Qed.

Lemma cut_inv cfg ex f st st' : cut cfg ex f st = Some st' -> inv cfg st -> inv cfg st'.
Proof.
  intros Hc I. destruct (cut_spec _ _ _ _ _ Hc) as (cur & batch & rest & ver & Hcur & Hne & Hq & Hver & Hlen & _ & Hvv & ->).
  destruct I as [Ic Is Ib In Iu Iq Il Id Ist Ipv].
  pose proof (split_perm (fun i => memZ i ex) [] batch) as Hsp. cbn zeta in Hsp.
  destruct (split_in_sfx (fun i => memZ i ex) [] batch) as [Hnd _].
  set (sp := split_batch (fun i => memZ i ex) [] batch) in *.
  destruct (cut_txns_cases cfg st ver sp) as [(Hin & -> & ->) | (Hin & -> & ->)].
  { (* F16: every operation of the batch expired: no transaction, the batch goes to [expired] *)
    rewrite Hin in Hsp. cbn [app] in Hsp.
    constructor; unfold places, ledger_ops, anch in *;
      cbn [accepted queue ledger store expired dropped now next_num unpub]; rewrite ?app_nil_r; try assumption.
    rewrite Hq in Ic. count_perm. }
  set (t := mk_txn cfg st ver sp).
  constructor; unfold places, ledger_ops; cbn [accepted queue ledger store expired dropped now next_num unpub]; try assumption; try lia.
  - unfold places, ledger_ops in Ic. rewrite Hq in Ic. rewrite map_app, concat_app. cbn [map concat t_ops t mk_txn]. rewrite app_nil_r.
    count_perm.
  - unfold anch at 1. cbn [store ledger]. rewrite anch_snoc. apply SS_app; [assumption | apply stamp_same_txn_sorted; exact Hnd |].
    intros a b Ha Hb. rewrite Forall_forall in Ib. destruct (Ib a Ha) as (Ht & Hn & _).
    unfold txn_sops in Hb. apply in_map_iff in Hb. destruct Hb as (z & <- & _).
    unfold before, stamp_sop. cbn [s_time s_num t_time t_num t mk_txn]. repeat split; lia.
  - unfold anch at 1. cbn [store ledger]. rewrite anch_snoc. apply Forall_app. split.
    + rewrite Forall_forall in *. intros e He. destruct (Ib e He) as (Ht & Hn & Hcr). unfold bounded. cbn [now next_num]. repeat split; lia.
    + rewrite Forall_forall. intros e He. unfold txn_sops in He. apply in_map_iff in He. destruct He as (z & <- & _).
      unfold bounded, stamp_sop. cbn [now next_num s_time s_num s_cref t_time t_num t_cref t mk_txn]. repeat split; lia.
  - apply Forall_app. split; [assumption|]. constructor; [|constructor]. cbn [t_pver t_ops t mk_txn]. split; [|split; [exact Hnd | exact Hin]].
    destruct (c_by_time cfg); [congruence | exact Hvv].
  - unfold anch at 1. cbn [store ledger]. rewrite anch_snoc. apply Forall_app. split; [assumption|].
    rewrite Forall_forall. intros e He. unfold txn_sops in He. apply in_map_iff in He. destruct He as (z & <- & Hz).
    unfold stamp_ok, stamp_sop. cbn [s_pver s_time s_q t_pver t_time t t_ops mk_txn] in *.
    destruct (c_by_time cfg); [reflexivity|]. rewrite Forall_forall in Hver. symmetry. apply Hver.
    eapply sub_in; [apply split_sub_in | exact Hz].
  - unfold anch at 1. cbn [store ledger]. rewrite anch_snoc. apply Forall_app. split; [assumption|].
    rewrite Forall_forall. intros e He. unfold txn_sops in He. apply in_map_iff in He. destruct He as (z & <- & Hz).
    unfold stamp_sop. cbn [s_pver t_pver t mk_txn]. destruct (c_by_time cfg); [congruence | exact Hvv].
Qed.

Lemma drain_inv cfg ex fuel : forall st, inv cfg st -> inv cfg (drain cfg ex fuel st).
Proof.
  induction fuel as [|n IH]; intros st I; cbn [drain]; [exact I|].
  destruct (cut cfg ex false st) as [st'|] eqn:Ec; [|exact I]. apply IH. eapply cut_inv; eassumption.
Qed.

Lemma flush_inv cfg ex f st : inv cfg st -> inv cfg (flush cfg ex f st).
Proof.
  intros I. unfold flush. pose proof (drain_inv cfg ex (S (length (queue st))) st I) as I1.
  destruct (Nat.eqb _ 0 || negb f); [exact I1|].
  destruct (cut cfg ex true _) as [st2|] eqn:Ec; [eapply cut_inv; eassumption | exact I1].
Qed.

(* -- observe -- *)
Definition set_ledger (st : pstate) (l : list txn) : pstate :=
  {| now := now st; next_num := next_num st; queue := queue st; ledger := l; store := store st;
     unpub := unpub st; expired := expired st; dropped := dropped st; accepted := accepted st |}.

Lemma set_ledger_id st : set_ledger st (ledger st) = st.
Proof. destruct st; reflexivity. Qed.

Lemma observe_txn_set_ledger cfg st l t : observe_txn cfg (set_ledger st l) t = set_ledger (observe_txn cfg st t) l.
Proof.
  unfold observe_txn. destruct (version_at (c_versions cfg) (t_pver t)); [|reflexivity].
  destruct (dedup_split [] (t_ops t)). reflexivity.
Qed.

Lemma remove_first_sub s k l : sub (remove_first s k l) l.
Proof.
  induction l as [|u r IH]; cbn [remove_first]; [constructor|].
  destruct ((u_sfx u =? s) && (rq_key (qe_req (u_q u)) =? k)); [apply sub_skip, sub_refl | apply sub_keep, IH].
Qed.

Lemma sub_trans {A} (a b c : list A) : sub a b -> sub b c -> sub a c.
Proof.
  intros Hab Hbc. revert a Hab. induction Hbc; intros a Hab.
  - exact Hab.
  - apply sub_skip. apply IHHbc. exact Hab.
  - inversion Hab; subst; [apply sub_skip | apply sub_keep]; apply IHHbc; assumption.
Qed.

Lemma delete_all_sub cfg kept : forall un, sub (delete_all cfg kept un) un.
Proof.
  unfold delete_all. induction kept as [|q r IH]; intros un; cbn [fold_left]; [apply sub_refl|].
  eapply sub_trans; [apply IH|]. destruct (unpub_type cfg (rq_ty (qe_req q))); [apply remove_first_sub | apply sub_refl].
Qed.

Lemma map_stamp_s_q t l : map s_q (map (stamp_sop t) l) = l.
Proof. rewrite map_map. cbn [stamp_sop s_q]. apply map_id. Qed.

Lemma observe_txn_inv cfg st t r : inv cfg (set_ledger st (t :: r)) -> inv cfg (set_ledger (observe_txn cfg st t) r).
Proof.
  intros I. destruct I as [Ic Is Ib In Iu Iq Il Id Ist Ipv].
  unfold places, ledger_ops, anch in *.
  cbn [set_ledger accepted queue ledger store expired dropped now next_num unpub map concat] in *.
  inversion Il as [|? ? (Hv & Hnd & Hne0) Il']; subst.
  unfold observe_txn. destruct (version_at (c_versions cfg) (t_pver t)) as [vv|]; [|congruence].
  rewrite (dedup_nodup [] (t_ops t) Hnd) by (intros ? ? []).
  assert (Ha : (store st ++ map (stamp_sop t) (t_ops t)) ++ concat (map txn_sops r) = store st ++ txn_sops t ++ concat (map txn_sops r)).
  { rewrite <- app_assoc. reflexivity. }
  constructor; unfold places, ledger_ops, anch; cbn [set_ledger accepted queue ledger store expired dropped now next_num unpub]; try assumption.
  - rewrite map_app, map_stamp_s_q, app_nil_r. count_perm.
  - rewrite Ha. exact Is.
  - rewrite Ha. exact Ib.
  - intros x Hx. apply Iu. eapply sub_in; [apply sub_map, delete_all_sub | exact Hx].
  - rewrite app_nil_r. exact Id.
  - rewrite Ha. exact Ist.
  - rewrite Ha. exact Ipv.
Qed.

Lemma observe_fold_inv cfg : forall ts st, inv cfg (set_ledger st ts) -> inv cfg (set_ledger (fold_left (observe_txn cfg) ts st) []).
Proof.
  induction ts as [|t r IH]; intros st I; cbn [fold_left]; [exact I|].
  apply IH. apply observe_txn_inv. exact I.
Qed.

Lemma observe_inv cfg st : inv cfg st -> inv cfg (observe cfg st).
Proof.
  intros I. unfold observe. change (clear_ledger ?x) with (set_ledger x []).
  apply observe_fold_inv. rewrite set_ledger_id. exact I.
Qed.

Lemma set_now_inv cfg st t : now st <= t -> inv cfg st -> inv cfg (set_now st t).
Proof.
  intros Hle I. destruct I as [Ic Is Ib In Iu Iq Il Id Ist Ipv].
  constructor; unfold places, ledger_ops, anch in *; cbn [set_now accepted queue ledger store expired dropped now next_num unpub]; try assumption.
  rewrite Forall_forall in *. intros e He. destruct (Ib e He) as (Ht & Hn & Hc).
  unfold bounded. cbn [set_now now next_num]. repeat split; lia.
Qed.

Lemma step_inv cfg st e : inv cfg st -> inv cfg (step cfg st e).
Proof.
  intros I. destruct e as [r w|f ex| |t]; cbn [step].
  - apply submit_inv; exact I.
  - apply flush_inv; exact I.
  - apply observe_inv; exact I.
  - destruct (now st <=? t) eqn:E; [apply set_now_inv; [apply Z.leb_le; exact E | exact I] | exact I].
Qed.

Theorem run_inv cfg es : forall st, inv cfg st -> inv cfg (run cfg st es).
Proof. unfold run. induction es as [|e r IH]; intros st I; cbn [fold_left]; [exact I | apply IH, step_inv, I]. Qed.

Corollary reachable_inv cfg t0 es : inv cfg (run cfg (init t0) es).
Proof. apply run_inv, inv_init. Qed.

(* ---------------------------------------------------------------------------------------------- *)
(* 5. the drain loop terminates within its fuel                                                   *)
(* ---------------------------------------------------------------------------------------------- *)

Lemma cut_shrinks cfg ex f st st' : cut cfg ex f st = Some st' -> (length (queue st') < length (queue st))%nat.
Proof.
  intros Hc. destruct (cut_spec _ _ _ _ _ Hc) as (cur & batch & rest & ver & _ & Hne & Hq & _ & _ & _ & _ & ->).
  cbn [queue]. rewrite Hq, !app_length. pose proof (split_progress (fun i => memZ i ex) batch Hne). lia.
Qed.

Lemma drain_done cfg ex : forall fuel st, (length (queue st) < fuel)%nat -> cut cfg ex false (drain cfg ex fuel st) = None.
Proof.
  induction fuel as [|n IH]; intros st Hlt; [lia|]. cbn [drain].
  destruct (cut cfg ex false st) as [st'|] eqn:Ec; [|exact Ec].
  apply IH. pose proof (cut_shrinks _ _ _ _ _ Ec). lia.
Qed.

(* the fuel [flush] supplies is enough: when the drain loop of the model stops, the real loop has
   stopped too (an unforced cut returns nothing) *)
Theorem drain_fuel_suffices cfg ex st : cut cfg ex false (drain cfg ex (S (length (queue st))) st) = None.
Proof. apply drain_done. lia. Qed.

(* ---------------------------------------------------------------------------------------------- *)
(* 6. (a) conservation                                                                            *)
(* ---------------------------------------------------------------------------------------------- *)

(* Every accepted request is in exactly one of: the queue, an anchored but unobserved transaction,
   the operation store, the handler's discard pile (expired).  Nothing is lost by the observer or
   discarded by the transaction processor. *)
Theorem conservation cfg t0 es :
  let st := run cfg (init t0) es in
  Permutation (accepted st) (queue st ++ ledger_ops st ++ map s_q (store st) ++ expired st) /\ dropped st = [].
Proof.
  cbn zeta. destruct (reachable_inv cfg t0 es) as [Ic _ _ _ _ _ _ Id _ _]. split; [|exact Id].
  unfold places in Ic. rewrite Id, app_nil_r in Ic. exact Ic.
Qed.

(* ... exactly once, when request ids are distinct *)
Corollary exactly_one_place cfg t0 es :
  let st := run cfg (init t0) es in
  NoDup (map qe_id (accepted st)) ->
  NoDup (map qe_id (queue st ++ ledger_ops st ++ map s_q (store st) ++ expired st)).
Proof.
  cbn zeta. intros Hn. destruct (conservation cfg t0 es) as [Hp _].
  eapply Permutation_NoDup; [apply Permutation_map; exact Hp | exact Hn].
Qed.

(* nothing else is stored *)
Corollary stored_were_accepted cfg t0 es :
  let st := run cfg (init t0) es in
  incl (map s_q (store st)) (accepted st) /\ incl (map u_q (unpub st)) (accepted st).
Proof.
  cbn zeta. destruct (reachable_inv cfg t0 es) as [Ic _ _ _ Iu _ _ _ _ _]. split; [|exact Iu].
  intros q Hq. eapply Permutation_in; [apply Permutation_sym; exact Ic|].
  unfold places. apply in_or_app. right. apply in_or_app. right. apply in_or_app. left. exact Hq.
Qed.

(* a refused request leaves no trace - not in the queue, not in the unpublished store, nowhere *)
Theorem refused_no_trace cfg st r w : intake cfg st r = None -> step cfg st (ESubmit r w) = st.
Proof. intros H. cbn [step]. unfold submit. rewrite H. reflexivity. Qed.

(* what a refusal is: no version in force, a request the parser / validator rejects, or a non-create
   operation for a DID that does not resolve or resolves as deactivated *)
Theorem refusal_reasons cfg st r :
  intake cfg st r = None <->
  version_at (c_versions cfg) (now st) = None \/ rq_intake_ok r = false \/
  (rq_ty r <> Create /\ decorate (pub_of cfg st (rq_sfx r)) (unpub_of cfg st (rq_sfx r)) = Refused).
Proof.
  unfold intake. destruct (version_at (c_versions cfg) (now st)) as [v|]; [|split; auto].
  destruct (rq_intake_ok r); cbn [negb]; [|split; auto].
  destruct (rq_ty r) eqn:Et.
  - split; [discriminate|]. intros [H|[H|[H _]]]; congruence.
  - destruct (decorate _ _); split; try discriminate; auto.
    + intros [H|[H|[_ H]]]; congruence.
    + intros _. right. right. split; [discriminate | reflexivity].
  - destruct (decorate _ _); split; try discriminate; auto.
    + intros [H|[H|[_ H]]]; congruence.
    + intros _. right. right. split; [discriminate | reflexivity].
  - destruct (decorate _ _); split; try discriminate; auto.
    + intros [H|[H|[_ H]]]; congruence.
    + intros _. right. right. split; [discriminate | reflexivity].
Qed.

(* an accepted request: queued at the tail under the genesis time of the version in force, copied
   to the unpublished store iff its type is configured *)
Theorem accepted_effect cfg st r w v :
  intake cfg st r = Some v ->
  let q := {| qe_req := r; qe_ver := pv_genesis v |} in
  let st' := step cfg st (ESubmit r w) in
  version_at (c_versions cfg) (now st) = Some v /\
  queue st' = queue st ++ [q] /\ accepted st' = accepted st ++ [q] /\
  unpub st' = (if unpub_type cfg (rq_ty r) then unpub st ++ [{| u_q := q; u_wall := w |}] else unpub st) /\
  store st' = store st /\ ledger st' = ledger st.
Proof.
  intros H. cbn zeta. cbn [step]. unfold submit. rewrite H. cbn [queue accepted unpub store ledger].
  split; [eapply intake_version; exact H | repeat split].
Qed.

(* only [ESubmit] extends the accepted list *)
Lemma cut_accepted cfg ex f st st' : cut cfg ex f st = Some st' -> accepted st' = accepted st.
Proof. intros Hc. destruct (cut_spec _ _ _ _ _ Hc) as (? & ? & ? & ? & _ & _ & _ & _ & _ & _ & _ & ->). reflexivity. Qed.

Lemma drain_accepted cfg ex fuel : forall st, accepted (drain cfg ex fuel st) = accepted st.
Proof.
  induction fuel as [|n IH]; intros st; cbn [drain]; [reflexivity|].
  destruct (cut cfg ex false st) as [st'|] eqn:Ec; [|reflexivity]. rewrite IH. eapply cut_accepted; exact Ec.
Qed.

Lemma flush_accepted cfg ex f st : accepted (flush cfg ex f st) = accepted st.
Proof.
  unfold flush. destruct (_ || _); [apply drain_accepted|].
  destruct (cut cfg ex true _) as [st2|] eqn:Ec; [|apply drain_accepted].
  rewrite (cut_accepted _ _ _ _ _ Ec). apply drain_accepted.
Qed.

Lemma observe_txn_accepted cfg st t : accepted (observe_txn cfg st t) = accepted st.
Proof.
  unfold observe_txn. destruct (version_at _ _); [|reflexivity]. destruct (dedup_split [] (t_ops t)). reflexivity.
Qed.

Lemma observe_accepted cfg st : accepted (observe cfg st) = accepted st.
Proof.
  unfold observe. cbn [clear_ledger accepted]. generalize (ledger st). intros ts. revert st.
  induction ts as [|t r IH]; intros st; cbn [fold_left]; [reflexivity|]. rewrite IH. apply observe_txn_accepted.
Qed.

Fixpoint submitted (es : list event) : list request :=
  match es with
  | [] => []
  | ESubmit r _ :: rest => r :: submitted rest
  | _ :: rest => submitted rest
  end.

Lemma step_accepted cfg st e :
  accepted (step cfg st e) = accepted st \/
  exists r w v, e = ESubmit r w /\ intake cfg st r = Some v /\ accepted (step cfg st e) = accepted st ++ [{| qe_req := r; qe_ver := pv_genesis v |}].
Proof.
  destruct e as [r w|f ex| |t]; cbn [step].
  - unfold submit. destruct (intake cfg st r) as [v|] eqn:Ei; [|left; reflexivity].
    right. exists r, w, v. repeat split. exact Ei.
  - left. apply flush_accepted.
  - left. apply observe_accepted.
  - left. destruct (now st <=? t); reflexivity.
Qed.

(* the accepted requests are, in order, a sub-sequence of the submitted ones *)
Theorem accepted_are_submitted cfg es : forall st,
  sub (map qe_req (accepted (run cfg st es))) (map qe_req (accepted st) ++ submitted es).
Proof.
  unfold run. induction es as [|e r IH]; intros st; cbn [fold_left].
  - cbn [submitted]. rewrite app_nil_r. apply sub_refl.
  - eapply sub_trans; [apply IH|]. destruct (step_accepted cfg st e) as [->|(rq & w & v & -> & _ & ->)].
    + apply sub_app; [apply sub_refl|]. destruct e; cbn [submitted]; try apply sub_refl. apply sub_skip, sub_refl.
    + cbn [submitted]. rewrite map_app, <- app_assoc. cbn [map qe_req app]. apply sub_refl.
Qed.

Lemma NoDup_sub {A} (l l' : list A) : sub l l' -> NoDup l' -> NoDup l.
Proof.
  induction 1; intros Hn; [constructor | |].
  - inversion Hn; subst. auto.
  - inversion Hn as [|? ? Hx Hr]; subst. constructor; [|auto]. intros Hi. apply Hx. eapply sub_in; eassumption.
Qed.

Corollary accepted_ids_distinct cfg t0 es :
  NoDup (map rq_id (submitted es)) -> NoDup (map qe_id (accepted (run cfg (init t0) es))).
Proof.
  intros Hn. pose proof (accepted_are_submitted cfg es (init t0)) as Hs. cbn [init accepted map app] in Hs.
  unfold qe_id. rewrite <- map_map. eapply NoDup_sub; [apply sub_map; exact Hs | exact Hn].
Qed.

(* ---------------------------------------------------------------------------------------------- *)
(* 7. (b) per-DID order                                                                           *)
(* ---------------------------------------------------------------------------------------------- *)

Lemma sub_app_l {A} (a b : list A) : sub a (a ++ b).
Proof. rewrite <- (app_nil_r a) at 1. apply sub_app; [apply sub_refl | apply sub_nil_l]. Qed.

Lemma stamp_time o t n c md : time (stamp o t n c md) = t. Proof. reflexivity. Qed.
Lemma stamp_num o t n c md : num (stamp o t n c md) = n. Proof. reflexivity. Qed.

(* Per DID, the stored operations carry STRICTLY increasing coordinates in store order: the store
   order is the anchoring order and no transaction holds two operations of one DID. *)
Theorem per_suffix_order cfg t0 es s :
  StronglySorted (fun a b => op_lt a b = true) (pub_of cfg (run cfg (init t0) es) s).
Proof.
  destruct (reachable_inv cfg t0 es) as [_ Is _ _ _ _ _ _ _ _]. set (st := run cfg (init t0) es) in *.
  unfold pub_of. apply SS_map.
  assert (Hs : StronglySorted before (filter (fun e => s_sfx e =? s) (store st))).
  { eapply SS_sub; [|exact Is]. eapply sub_trans; [apply sub_filter | apply sub_app_l]. }
  eapply SS_weaken; [|exact Hs]. intros a b Ha Hb (Ht & Hn & Hsn).
  apply filter_In in Ha. apply filter_In in Hb. destruct Ha as [_ Ha], Hb as [_ Hb].
  apply Z.eqb_eq in Ha. apply Z.eqb_eq in Hb.
  apply op_lt_spec. unfold sop_aop. rewrite !stamp_time, !stamp_num.
  assert (s_num a < s_num b) by (apply Hsn; congruence). lia.
Qed.

Lemma strictly_sorted_key_inj l : StronglySorted (fun a b => op_lt a b = true) l -> key_inj l.
Proof.
  induction 1 as [|x r Hs IH Hf]; intros a b Ha Hb Hk; [destruct Ha|].
  rewrite Forall_forall in Hf.
  assert (Hne : forall y, In y r -> key x <> key y).
  { intros y Hy Heq. specialize (Hf y Hy). apply op_lt_spec in Hf. unfold key in Heq. injection Heq as H1 H2. lia. }
  destruct Ha as [<-|Ha], Hb as [<-|Hb].
  - reflexivity.
  - exfalso. exact (Hne b Hb Hk).
  - exfalso. apply (Hne a Ha). symmetry. exact Hk.
  - apply IH; assumption.
Qed.

Lemma strictly_sorted_le l : StronglySorted (fun a b => op_lt a b = true) l -> StronglySorted op_le l.
Proof. apply SS_weaken. intros a b _ _ H. apply op_lt_le. exact H. Qed.

(* so sorting the published operations of a DID (what Resolve does first) changes nothing: the
   store order is the anchoring order *)
Corollary stored_in_anchoring_order cfg t0 es s :
  let pub := pub_of cfg (run cfg (init t0) es) s in sort_ops pub = pub /\ key_inj pub.
Proof.
  cbn zeta. pose proof (per_suffix_order cfg t0 es s) as H. split.
  - apply sort_ops_sorted_id; [apply strictly_sorted_key_inj | apply strictly_sorted_le]; exact H.
  - apply strictly_sorted_key_inj. exact H.
Qed.

(* at most one operation per DID per transaction *)
Corollary one_per_suffix_per_txn cfg t0 es a b :
  let st := run cfg (init t0) es in
  In a (store st) -> In b (store st) -> s_sfx a = s_sfx b -> s_num a = s_num b -> a = b.
Proof.
  cbn zeta. intros Ha Hb Hs Hn. destruct (reachable_inv cfg t0 es) as [_ Is _ _ _ _ _ _ _ _].
  assert (Hst : StronglySorted before (store (run cfg (init t0) es))) by (eapply SS_sub; [apply sub_app_l | exact Is]).
  clear Is. induction Hst as [|x r Hr IH Hf]; [destruct Ha|]. rewrite Forall_forall in Hf.
  destruct Ha as [<-|Ha], Hb as [<-|Hb].
  - reflexivity.
  - destruct (Hf b Hb) as (_ & _ & H). specialize (H Hs). lia.
  - destruct (Hf a Ha) as (_ & _ & H). specialize (H (eq_sym Hs)). lia.
  - apply IH; assumption.
Qed.

(* every stored operation is published: its canonical reference is its transaction number + 1 *)
Lemma stored_published cfg t0 es s :
  Forall (fun o => published o = true) (pub_of cfg (run cfg (init t0) es) s).
Proof.
  destruct (reachable_inv cfg t0 es) as [_ _ Ib _ _ _ _ _ _ _]. rewrite Forall_forall in *. intros o Ho.
  unfold pub_of in Ho. apply in_map_iff in Ho. destruct Ho as (e & <- & He). apply filter_In in He. destruct He as [He _].
  assert (Hin : In e (anch (run cfg (init t0) es))) by (apply in_or_app; left; exact He).
  destruct (Ib e Hin) as (_ & Hn & Hc). unfold published, sop_aop, stamp. cbn [cref].
  apply negb_true_iff, Z.eqb_neq. lia.
Qed.

(* FIFO PER DID DOES NOT HOLD.  The operation handler hands the second and further operations of a
   DID back and the writer re-queues them at the TAIL, behind later submissions of the same DID:
   accepted in the order 2, 3, 4 - anchored in the order 2, 4, 3 (Model.reorder_events). *)
Theorem fifo_refuted :
  exists cfg t0 es a b,
    let st := run cfg (init t0) es in
    In a (store st) /\ In b (store st) /\ s_sfx a = s_sfx b /\
    (exists l1 l2 l3, accepted st = l1 ++ s_q a :: l2 ++ s_q b :: l3) /\   (* a accepted before b *)
    s_num b < s_num a.                                                       (* b anchored before a *)
Proof.
  pose (qa := {| qe_req := ex_recover; qe_ver := 0 |}). pose (qb := {| qe_req := ex_update2; qe_ver := 0 |}).
  pose (a := {| s_q := qa; s_time := 11; s_num := 3; s_cref := 4; s_pver := 0 |}).
  pose (b := {| s_q := qb; s_time := 11; s_num := 2; s_cref := 3; s_pver := 0 |}).
  assert (Hs : exists x y, store (run cfg1 (init 10) reorder_events) = [x; y; b; a]).
  { eexists. eexists. vm_compute. reflexivity. }
  assert (Ha : accepted (run cfg1 (init 10) reorder_events)
               = [{| qe_req := ex_create; qe_ver := 0 |}; {| qe_req := ex_update; qe_ver := 0 |}] ++ qa :: [] ++ qb :: []).
  { vm_compute. reflexivity. }
  destruct Hs as (x & y & Hs).
  exists cfg1, 10, reorder_events, a, b. cbv zeta. rewrite Hs.
  split; [right; right; right; left; reflexivity|].
  split; [right; right; left; reflexivity|].
  split; [reflexivity|].
  split; [|reflexivity].
  eexists. eexists. eexists. exact Ha.
Qed.

(* ---------------------------------------------------------------------------------------------- *)
(* 8. (c) end to end: resolution = the reference machine on the stored operations                 *)
(* ---------------------------------------------------------------------------------------------- *)

(* the only assumption on the requests: a non-create request reveals a non-empty commitment (the
   parser refuses an empty reveal value, C10) *)
Definition req_ok (r : request) : Prop := rq_ty r <> Create -> reveal_c (rq_op r) <> 0.

Lemma accepted_req_ok cfg t0 es :
  (forall r, In r (submitted es) -> req_ok r) ->
  forall q, In q (accepted (run cfg (init t0) es)) -> req_ok (qe_req q).
Proof.
  intros H q Hq. apply H. pose proof (accepted_are_submitted cfg es (init t0)) as Hs. cbn [init accepted map app] in Hs.
  eapply sub_in; [exact Hs | apply in_map; exact Hq].
Qed.

Lemma nzr_pub cfg t0 es s :
  (forall r, In r (submitted es) -> req_ok r) -> no_zero_reveal (pub_of cfg (run cfg (init t0) es) s).
Proof.
  intros H. unfold no_zero_reveal. rewrite Forall_forall. intros o Ho. unfold pub_of in Ho. apply in_map_iff in Ho.
  destruct Ho as (e & <- & He). apply filter_In in He. destruct He as [He _].
  destruct (stored_were_accepted cfg t0 es) as [Hst _]. cbn zeta in Hst.
  exact (accepted_req_ok cfg t0 es H (s_q e) (Hst _ (in_map s_q _ _ He))).
Qed.

Lemma nzr_unpub cfg t0 es s :
  (forall r, In r (submitted es) -> req_ok r) -> no_zero_reveal (unpub_of cfg (run cfg (init t0) es) s).
Proof.
  intros H. unfold no_zero_reveal. rewrite Forall_forall. intros o Ho. unfold unpub_of in Ho. apply in_map_iff in Ho.
  destruct Ho as (u & <- & Hu). apply filter_In in Hu. destruct Hu as [Hu _].
  destruct (stored_were_accepted cfg t0 es) as [_ Hun]. cbn zeta in Hun.
  exact (accepted_req_ok cfg t0 es H (u_q u) (Hun _ (in_map u_q _ _ Hu))).
Qed.

(* END TO END.  Whatever was submitted, flushed, anchored and observed, in whatever order: if the DID
   [s] resolves (state [stt]), then [stt] is the state the reference machine (Spec/Refine: earliest
   valid create, recovery lineage, update lineage after the last recovery) reaches on the stored
   operations of [s] IN ANCHORING ORDER (= store order, no sorting needed), followed by the
   unpublished ones. *)
Theorem pipeline_resolves_to_spec cfg t0 es s c0 stt ap :
  (forall r, In r (submitted es) -> req_ok r) ->
  let st := run cfg (init t0) es in
  resolve_full (pub_of cfg st s) (unpub_of cfg st s) no_opts = inr (Some (c0, stt, ap)) ->
  Reach (pub_of cfg st s ++ sort_ops (unpub_of cfg st s)) stt.
Proof.
  intros Hok st Hr. rewrite resolve_full_no_opts in Hr.
  destruct (stored_in_anchoring_order cfg t0 es s) as [Hsort _]. cbn zeta in Hsort. fold st in Hsort. rewrite Hsort in Hr.
  eapply resolve_refines_spec; [|exact Hr].
  unfold no_zero_reveal. apply Forall_app. split; [apply nzr_pub; exact Hok|].
  pose proof (nzr_unpub cfg t0 es s Hok) as Hu. fold st in Hu. unfold no_zero_reveal in Hu. rewrite Forall_forall in *.
  intros o Ho. apply Hu. apply in_sort_ops. exact Ho.
Qed.

(* and conversely the reference machine's state is what resolution returns (completeness) *)
Theorem spec_is_what_resolves cfg t0 es s stt :
  (forall r, In r (submitted es) -> req_ok r) ->
  let st := run cfg (init t0) es in
  Reach (pub_of cfg st s ++ sort_ops (unpub_of cfg st s)) stt ->
  exists c0 ap, resolve_full (pub_of cfg st s) (unpub_of cfg st s) no_opts = inr (Some (c0, stt, ap)).
Proof.
  intros Hok st HR. rewrite resolve_full_no_opts.
  destruct (stored_in_anchoring_order cfg t0 es s) as [Hsort _]. cbn zeta in Hsort. fold st in Hsort. rewrite Hsort.
  apply spec_refines_resolve; [|exact HR].
  unfold no_zero_reveal. apply Forall_app. split; [apply nzr_pub; exact Hok|].
  pose proof (nzr_unpub cfg t0 es s Hok) as Hu. fold st in Hu. unfold no_zero_reveal in Hu. rewrite Forall_forall in *.
  intros o Ho. apply Hu. apply in_sort_ops. exact Ho.
Qed.

Lemma resolve_ok_full pub unpub res :
  resolve pub unpub no_opts = OOk res ->
  exists c0 ap, resolve_full pub unpub no_opts = inr (Some (c0, r_state res, ap)) /\ r_pub res = map oid (sort_ops pub).
Proof.
  unfold resolve, resolve_full. rewrite prepare_no_opts.
  destruct (resolve_core _) as [e|[[[c0 s] ap]|]]; try discriminate.
  intros H. inversion H; subst. exists c0, ap. split; reflexivity.
Qed.

(* the same for what ResolveDocument shows *)
Corollary short_view_is_reference cfg t0 es s d u r de p :
  (forall r, In r (submitted es) -> req_ok r) ->
  let st := run cfg (init t0) es in
  short_view cfg st s = RView d u r de p ->
  exists stt, Reach (pub_of cfg st s ++ sort_ops (unpub_of cfg st s)) stt /\ state_view stt p = RView d u r de p /\
              (p = true <-> pub_of cfg st s <> []).
Proof.
  intros Hok st Hv. unfold short_view, resolve_sfx in Hv.
  destruct (resolve (pub_of cfg st s) (unpub_of cfg st s) no_opts) as [e|res|] eqn:Er; try discriminate.
  destruct (resolve_ok_full _ _ _ Er) as (c0 & ap & Hf & Hp).
  exists (r_state res). split; [eapply pipeline_resolves_to_spec; eassumption|].
  destruct (stored_in_anchoring_order cfg t0 es s) as [Hsort _]. cbn zeta in Hsort. fold st in Hsort. rewrite Hsort in Hp.
  rewrite Hp in Hv. destruct (pub_of cfg st s) as [|x l]; cbn [map] in Hv; inversion Hv; subst.
  - split; [reflexivity|]. split; [discriminate | congruence].
  - split; [reflexivity|]. split; [discriminate | reflexivity].
Qed.

(* -- correct chains: resolution is the left fold of apply -- *)

Lemma resolve_single_create c s :
  ty c = Create -> apply c init_state = Some s -> resolve_core [c] = inr (Some (c, s, [])).
Proof.
  intros Hty Ha. pose proof (create_not_deact _ _ Ha) as Hd.
  unfold resolve_core, is_full, is_ty. cbn [filter]. rewrite Hty. cbn [optype_eqb orb filter].
  unfold creates_published_first. cbn [filter].
  destruct (published c); cbn [negb app first_valid_create]; rewrite Ha;
    unfold run_chain; cbn [length chain candidates filter]; rewrite Hd; reflexivity.
Qed.

(* [good_chain l s]: l = a create followed by operations each of which is well formed (built by a
   correct client: C11), reveals the commitment in force in the state reached so far, commits to a
   fresh key, and is anchored after everything before it.  [s] is the left fold of apply. *)
Inductive good_chain : list aop -> state -> Prop :=
| gc_create c s : ty c = Create -> apply c init_state = Some s -> good_chain [c] s
| gc_update l s o :
    good_chain l s -> good_update o -> reveal_c o = upd s -> upd s <> 0 -> upd_c o <> upd s ->
    fresh_commitment (upd_c o) (is_ty Update) l -> (forall q, In q l -> op_lt q o = true) ->
    good_chain (l ++ [o]) (update_result o s)
| gc_recover l s o :
    good_chain l s -> good_recover o -> reveal_c o = rec s -> rec s <> 0 -> rec_c o <> rec s ->
    fresh_commitment (rec_c o) is_full l -> (forall q, In q l -> op_lt q o = true) ->
    good_chain (l ++ [o]) (recover_result o s)
| gc_deactivate l s o :
    good_chain l s -> good_deactivate o -> reveal_c o = rec s -> rec s <> 0 ->
    good_chain (l ++ [o]) (deactivate_result o s)
| gc_after_deactivate l s o :          (* anything anchored after a deactivation is inert *)
    good_chain l s -> deact s = true -> good_chain (l ++ [o]) s.

Lemma good_chain_fold l s : good_chain l s ->
  exists c rest, l = c :: rest /\ ty c = Create.
Proof.
  induction 1 as [c s Hty _| l s o _ (c & r & -> & Hc) | l s o _ (c & r & -> & Hc) | l s o _ (c & r & -> & Hc) | l s o _ (c & r & -> & Hc)];
    try (exists c, (r ++ [o]); split; [reflexivity | exact Hc]). exists c, []. split; [reflexivity | exact Hty].
Qed.

Theorem good_chain_resolves l s :
  good_chain l s -> Forall (fun o => published o = true) l -> no_zero_reveal l ->
  exists c0 ap, resolve_core l = inr (Some (c0, s, ap)).
Proof.
  induction 1 as [c s Hty Ha | l s o Hg IH Hgood Hrev Hnz Hreuse Hfresh Hlt | l s o Hg IH Hgood Hrev Hnz Hreuse Hfresh Hlt
                  | l s o Hg IH Hgood Hrev Hnz | l s o Hg IH Hd]; intros Hpub Hnzr.
  - exists c, []. apply resolve_single_create; assumption.
  - apply Forall_app in Hpub. destruct Hpub as [Hpub _]. apply Forall_app in Hnzr. destruct Hnzr as [Hnzr _].
    destruct (IH Hpub Hnzr) as (c0 & ap & Hr). exists c0, (ap ++ [o]).
    apply update_takes_effect_later; assumption.
  - apply Forall_app in Hpub. destruct Hpub as [Hpub _]. apply Forall_app in Hnzr. destruct Hnzr as [Hnzr _].
    destruct (IH Hpub Hnzr) as (c0 & ap & Hr). exists c0, (filter is_full ap ++ [o]).
    apply recover_takes_effect_last; try assumption.
    intros q Hq Hqu. destruct (op_after (time o) (num o) q) eqn:E; [|reflexivity]. exfalso.
    apply op_after_spec in E. pose proof (Hlt q Hq) as Hl. apply op_lt_spec in Hl.
    rewrite Forall_forall in Hpub. pose proof (Hpub q Hq) as Hp. destruct E as [E|E]; [congruence | lia].
  - apply Forall_app in Hpub. destruct Hpub as [Hpub _]. apply Forall_app in Hnzr. destruct Hnzr as [Hnzr _].
    destruct (IH Hpub Hnzr) as (c0 & ap & Hr). exists c0, (filter is_full ap ++ [o]).
    apply (deactivate_takes_effect l c0 s ap o); assumption.
  - pose proof Hpub as Hpub'. apply Forall_app in Hpub'. destruct Hpub' as [Hpub' _].
    pose proof Hnzr as Hnzr'. apply Forall_app in Hnzr'. destruct Hnzr' as [Hnzr' _].
    destruct (IH Hpub' Hnzr') as (c0 & ap & Hr). exists c0, ap.
    apply deactivate_terminal_core; assumption.
Qed.

(* END TO END, correct clients.  If the stored operations of a DID, in anchoring order, form a good
   chain and nothing of that DID is pending in the unpublished store, ResolveDocument shows exactly the
   fold of apply, published.  The hypothesis is about the ANCHORING order: the writer may have
   reordered what the client submitted (fifo_refuted), in which case it can fail although the client
   was correct (Model.reorder_loses_update). *)
Theorem pipeline_fold cfg t0 es s stt :
  (forall r, In r (submitted es) -> req_ok r) ->
  let st := run cfg (init t0) es in
  unpub_of cfg st s = [] ->
  good_chain (pub_of cfg st s) stt ->
  short_view cfg st s = state_view stt true.
Proof.
  intros Hok st Hun Hg.
  destruct (good_chain_resolves _ _ Hg (stored_published cfg t0 es s) (nzr_pub cfg t0 es s Hok)) as (c0 & ap & Hr).
  destruct (stored_in_anchoring_order cfg t0 es s) as [Hsort _]. cbn zeta in Hsort. fold st in Hsort.
  assert (Hf : resolve_full (pub_of cfg st s) [] no_opts = inr (Some (c0, stt, ap))).
  { rewrite resolve_full_no_opts, Hsort. cbn [sort_ops isort]. rewrite app_nil_r. exact Hr. }
  unfold short_view, resolve_sfx. rewrite Hun, (resolve_of_full _ _ _ _ _ Hf). cbn [r_state r_pub]. rewrite Hsort.
  destruct (good_chain_fold _ _ Hg) as (c & rest & -> & _). reflexivity.
Qed.

(* ---------------------------------------------------------------------------------------------- *)
(* 9. (d) the three views of a create                                                             *)
(* ---------------------------------------------------------------------------------------------- *)

(* what a create determines: everything except coordinates, canonical reference, times *)
Definition core (s : state) := (doc s, upd s, rec s, deact s, aorigin s).

Lemma view_content_core s s' p p' : core s = core s' -> view_content (state_view s p) = view_content (state_view s' p').
Proof. unfold core, state_view, view_content. intros H. inversion H. reflexivity. Qed.

(* Apply of a create on the empty model does not depend on where / whether it is anchored *)
Lemma apply_create_core o t n c md t' n' c' md' :
  ty o = Create ->
  option_map core (apply (stamp o t n c (Some md)) init_state) = option_map core (apply (stamp o t' n' c' (Some md')) init_state).
Proof.
  intros Hty. unfold apply, stamp. cbn [mdelta ty]. rewrite Hty. unfold apply_create.
  cbn [doc init_state parse_ok dhash_ok dvalid patch_ok rec_c upd_c delta origin time num cref].
  destruct (parse_ok o); cbn [negb]; [|reflexivity].
  destruct (dhash_ok o); cbn [negb]; [|reflexivity].
  destruct (dvalid o); cbn [negb]; [|reflexivity].
  destruct (patch_ok o); reflexivity.
Qed.

Lemma create_result_apply v r w s :
  create_result v r w = Some s -> apply (stamp (rq_op r) w 0 0 (Some (pv_mdelta v))) init_state = Some s.
Proof.
  unfold create_result. destruct (apply _ init_state) as [s'|]; [|discriminate].
  destruct (doc s') as [[|x d]|]; try discriminate. intros H; inversion H; reflexivity.
Qed.

(* (1) = (2): the immediate response and a long-form resolution while nothing of the DID is in the
   stores (both are GetCreateResult on an unanchored copy; accepting version / current version and the
   wall-clock stamps do not matter) *)
Theorem create_response_indep v v' r w w' : rq_ty r = Create -> create_response v r w = create_response v' r w'.
Proof.
  intros Hty. unfold create_response, create_result.
  pose proof (apply_create_core (rq_op r) w 0 0 (pv_mdelta v) w' 0 0 (pv_mdelta v') Hty) as H.
  destruct (apply (stamp (rq_op r) w 0 0 (Some (pv_mdelta v))) init_state) as [s|],
           (apply (stamp (rq_op r) w' 0 0 (Some (pv_mdelta v'))) init_state) as [s'|]; cbn [option_map] in H; try discriminate; [|reflexivity].
  unfold core in H. inversion H as [[Hd Hu Hr Hde Ho]]. rewrite Hd.
  destruct (doc s') as [[|x d]|] eqn:Ed'; try reflexivity.
  unfold state_view. rewrite Hd, Ed', Hu, Hr, Hde. reflexivity.
Qed.

Theorem long_form_before_anchoring cfg st r w cur :
  pub_of cfg st (rq_sfx r) = [] -> unpub_of cfg st (rq_sfx r) = [] ->
  version_at (c_versions cfg) (now st) = Some cur -> rq_intake_ok r = true ->
  long_view cfg st r w = create_response cur r w.
Proof.
  intros Hp Hu Hv Hi. unfold long_view, resolve_sfx. rewrite Hp, Hu, Hv, Hi. reflexivity.
Qed.

Lemma resolve_one_create c s :
  ty c = Create -> apply c init_state = Some s ->
  resolve [c] [] no_opts = OOk {| r_state := s; r_pub := [oid c]; r_unpub := []; r_applied := [] |} /\
  resolve [] [c] no_opts = OOk {| r_state := s; r_pub := []; r_unpub := [oid c]; r_applied := [] |}.
Proof.
  intros Hty Ha. pose proof (resolve_single_create c s Hty Ha) as Hr. split.
  - assert (Hf : resolve_full [c] [] no_opts = inr (Some (c, s, []))) by (rewrite resolve_full_no_opts; exact Hr).
    rewrite (resolve_of_full _ _ _ _ _ Hf). reflexivity.
  - assert (Hf : resolve_full [] [c] no_opts = inr (Some (c, s, []))) by (rewrite resolve_full_no_opts; exact Hr).
    rewrite (resolve_of_full _ _ _ _ _ Hf). reflexivity.
Qed.

(* (3): the create is anchored, observed, and the only operation of its DID *)
Theorem create_views_agree cfg t0 es r w v e :
  let st := run cfg (init t0) es in
  rq_ty r = Create ->
  create_response v r w <> RNotFound ->                                   (* the create was answered *)
  filter (fun x => s_sfx x =? rq_sfx r) (store st) = [e] -> qe_req (s_q e) = r ->
  unpub_of cfg st (rq_sfx r) = [] ->
  exists d u rc,
    create_response v r w = RView d u rc false false /\                    (* immediate response *)
    (forall v' w', create_response v' r w' = RView d u rc false false) /\  (* long form before anchoring *)
    short_view cfg st (rq_sfx r) = RView d u rc false true /\             (* short form after anchoring *)
    long_view cfg st r w = RView d u rc false true.                        (* long form after anchoring *)
Proof.
  intros st Hty Hresp Hst He Hun.
  unfold create_response in Hresp. destruct (create_result v r w) as [s|] eqn:Ecr; [|congruence].
  pose proof (create_result_apply _ _ _ _ Ecr) as Ha.
  (* the stored copy *)
  destruct (reachable_inv cfg t0 es) as [_ _ _ _ _ _ _ _ _ Ipv].
  assert (Hin : In e (store st)).
  { assert (H : In e (filter (fun x => s_sfx x =? rq_sfx r) (store st))) by (rewrite Hst; left; reflexivity).
    apply filter_In in H. exact (proj1 H). }
  rewrite Forall_forall in Ipv. assert (Hpv : version_at (c_versions cfg) (s_pver e) <> None) by (apply Ipv, in_or_app; left; exact Hin).
  destruct (version_at (c_versions cfg) (s_pver e)) as [ve|] eqn:Eve; [|congruence].
  assert (Hpub : pub_of cfg st (rq_sfx r) = [stamp (rq_op r) (s_time e) (s_num e) (s_cref e) (Some (pv_mdelta ve))]).
  { unfold pub_of. rewrite Hst. cbn [map]. unfold sop_aop, mdelta_at. rewrite He, Eve. reflexivity. }
  pose proof (apply_create_core (rq_op r) w 0 0 (pv_mdelta v) (s_time e) (s_num e) (s_cref e) (pv_mdelta ve) Hty) as Hc.
  rewrite Ha in Hc. cbn [option_map] in Hc.
  destruct (apply (stamp (rq_op r) (s_time e) (s_num e) (s_cref e) (Some (pv_mdelta ve))) init_state) as [s'|] eqn:Ea'; [|discriminate].
  cbn [option_map] in Hc. inversion Hc as [[Hd Hu Hr Hde Ho]].
  pose proof (create_not_deact _ _ Ha) as Hdeact.
  assert (Hty' : ty (stamp (rq_op r) (s_time e) (s_num e) (s_cref e) (Some (pv_mdelta ve))) = Create) by exact Hty.
  destruct (resolve_one_create _ _ Hty' Ea') as [Hres _].
  exists (match doc s with Some d => d | None => [] end), (upd s), (rec s).
  assert (Hshort : short_view cfg st (rq_sfx r) = RView (match doc s with Some d => d | None => [] end) (upd s) (rec s) false true).
  { unfold short_view, resolve_sfx. rewrite Hpub, Hun, Hres. cbn [r_state r_pub]. unfold state_view.
    rewrite <- Hd, <- Hu, <- Hr, <- Hde, Hdeact. reflexivity. }
  split; [unfold create_response; rewrite Ecr; unfold state_view; rewrite Hdeact; reflexivity|].
  split.
  { intros v' w'. rewrite (create_response_indep v' v r w' w Hty). unfold create_response. rewrite Ecr.
    unfold state_view. rewrite Hdeact. reflexivity. }
  split; [exact Hshort|].
  unfold long_view. unfold short_view in Hshort. destruct (resolve_sfx cfg st (rq_sfx r)) as [x|res|]; try discriminate. exact Hshort.
Qed.

(* ---------------------------------------------------------------------------------------------- *)
(* 10. (e) protocol versions                                                                      *)
(* ---------------------------------------------------------------------------------------------- *)

(* VALIDATED under the version in force (ledger clock) at submission: accepted_effect.
   BATCHED with operations accepted under the same version only, but the SIZE limit is the one of the
   version in force when the batch is cut: *)
Theorem batch_shape cfg ex f st st' :
  cut cfg ex f st = Some st' ->
  exists cur, version_at (c_versions cfg) (now st) = Some cur /\
    (f = false -> (pv_max cur <= length (queue st))%nat) /\
    ((* F16: every operation of the batch expired - no transaction is written, no number is consumed; the batch
        (a non-empty prefix of the queue within the size limit, one version) is discarded as expired *)
     (exists batch, batch <> [] /\ queue st = batch ++ queue st' /\ (length batch <= pv_max cur)%nat /\
        (exists ver, Forall (fun q => qe_ver q = ver) batch) /\
        ledger st' = ledger st /\ next_num st' = next_num st /\ Permutation (expired st') (expired st ++ batch)) \/
     (* a transaction with at least one operation *)
     (exists t, ledger st' = ledger st ++ [t] /\ next_num st' = next_num st + 1 /\ t_ops t <> [] /\
        (exists ver, Forall (fun q => qe_ver q = ver) (t_ops t) /\ t_pver t = if c_by_time cfg then now st else ver) /\
        (length (t_ops t) <= pv_max cur)%nat /\ NoDup (map qe_sfx (t_ops t)) /\
        t_time t = now st /\ t_num t = next_num st)).
Proof.
  intros Hc. destruct (cut_spec _ _ _ _ _ Hc) as (cur & batch & rest & ver & Hcur & Hne & Hq & Hver & Hlen & Hf & Hvv & ->).
  exists cur. split; [exact Hcur|]. split; [exact Hf|].
  pose proof (split_perm (fun i => memZ i ex) [] batch) as Hsp. cbn zeta in Hsp.
  pose proof (split_in_nil_add_nil (fun i => memZ i ex) batch) as Hadd.
  set (sp := split_batch (fun i => memZ i ex) [] batch) in *.
  destruct (cut_txns_cases cfg st ver sp) as [(Hin & -> & ->) | (Hin & -> & ->)]; cbn [ledger next_num queue expired].
  - left. exists batch. rewrite (Hadd Hin), !app_nil_r in *. rewrite Hin in Hsp. cbn [app] in Hsp.
    repeat split; try assumption.
    + exists ver. exact Hver.
    + apply Permutation_app_head. apply Permutation_sym. exact Hsp.
  - right. eexists. split; [reflexivity|]. split; [reflexivity|]. cbn [t_ops t_pver t_time t_num mk_txn].
    split; [exact Hin|].
    pose proof (split_sub_in (fun i => memZ i ex) [] batch) as Hsub. fold sp in Hsub.
    split; [exists ver; split; [eapply Forall_sub; eassumption | reflexivity]|].
    split.
    { assert (Hl : forall A (a b : list A), sub a b -> (length a <= length b)%nat).
      { intros A a b Hs. induction Hs; cbn [length]; lia. }
      specialize (Hl _ _ _ Hsub). lia. }
    split; [apply split_in_sfx|]. repeat split.
Qed.

(* F16: no transaction without operations is ever on the ledger (such a transaction - anchor string "0.<uri>" - is
   refused by every observer: ParseAnchorData "number of operations must be positive") *)
Theorem no_empty_transaction cfg t0 es :
  Forall (fun t => t_ops t <> []) (ledger (run cfg (init t0) es)).
Proof.
  destruct (reachable_inv cfg t0 es) as [_ _ _ _ _ _ Il _ _ _].
  eapply Forall_impl; [|exact Il]. intros t (_ & _ & H). exact H.
Qed.

(* STAMPED AND APPLIED: every stored operation was accepted under a version of the table; it carries
   the protocol version the ledger put on its transaction (policy), and resolution applies it under
   the parameters of THAT version. *)
Theorem stored_version cfg t0 es e :
  In e (store (run cfg (init t0) es)) ->
  accepted_under cfg (s_q e) /\
  s_pver e = (if c_by_time cfg then s_time e else qe_ver (s_q e)) /\
  exists v, version_at (c_versions cfg) (s_pver e) = Some v /\ mdelta (sop_aop cfg e) = Some (pv_mdelta v).
Proof.
  intros He. destruct (reachable_inv cfg t0 es) as [Ic _ _ _ _ Iq _ _ Ist Ipv].
  assert (Hin : In e (anch (run cfg (init t0) es))) by (apply in_or_app; left; exact He).
  rewrite Forall_forall in *. split.
  - apply Iq. eapply Permutation_in; [apply Permutation_sym; exact Ic|]. unfold places.
    apply in_or_app. right. apply in_or_app. right. apply in_or_app. left. apply in_map. exact He.
  - split; [exact (Ist e Hin)|]. specialize (Ipv e Hin).
    destruct (version_at (c_versions cfg) (s_pver e)) as [v|] eqn:Ev; [|congruence].
    exists v. split; [reflexivity|]. unfold sop_aop, stamp, mdelta_at. cbn [mdelta]. rewrite Ev. reflexivity.
Qed.

(* ledger policy "the version handed to WriteAnchor": applied under the very version that validated it *)
Corollary applied_under_accepting_version cfg t0 es e :
  c_by_time cfg = false -> In e (store (run cfg (init t0) es)) ->
  exists v, version_at (c_versions cfg) (qe_ver (s_q e)) = Some v /\ pv_genesis v = qe_ver (s_q e) /\
            mdelta (sop_aop cfg e) = Some (pv_mdelta v).
Proof.
  intros Hp He. destruct (stored_version cfg t0 es e He) as ((v & Hv & Hg) & Hs & (v' & Hv' & Hm)).
  rewrite Hp in Hs. rewrite Hs, Hv in Hv'. inversion Hv'; subst. exists v'. auto.
Qed.

(* ledger policy "transaction time": applied under the version in force when it was ANCHORED, which
   need not be the one that validated it *)
Example applied_under_anchoring_version :
  let cfg := {| c_versions := [v1; v2]; c_unpub := []; c_by_time := true |} in
  let st := run cfg (init 10) [ESubmit ex_create 5000; ETime 150; EFlush true []; EObserve] in
  map (fun e => (qe_ver (s_q e), s_pver e, mdelta (sop_aop cfg e))) (store st) = [(0, 150, Some 600)].
Proof. vm_compute. reflexivity. Qed.

(* ---------------------------------------------------------------------------------------------- *)
(* 11. the hypotheses are satisfiable                                                             *)
(* ---------------------------------------------------------------------------------------------- *)

Definition life : list event :=
  [ESubmit ex_create 5000; EFlush true []; EObserve; ETime 11; ESubmit ex_update 5001; EFlush true []; EObserve;
   ETime 12; ESubmit ex_recover 5002; EFlush true []; EObserve; ETime 13; ESubmit ex_update2 5003; EFlush true []; EObserve].

Example life_reqs_ok : forall r, In r (submitted life) -> req_ok r.
Proof. intros r Hr. cbn in Hr. unfold req_ok. intuition (subst; cbn in *; congruence). Qed.

Definition life_pub : list aop := pub_of cfg1 (run cfg1 (init 10) life) 7.

Example life_good_chain :
  exists c u r u2 s0, life_pub = [c; u; r; u2] /\ apply c init_state = Some s0 /\
    good_chain life_pub (update_result u2 (recover_result r (update_result u s0))).
Proof.
  assert (H : exists c u r u2, life_pub = [c; u; r; u2]) by (do 4 eexists; vm_compute; reflexivity).
  destruct H as (c & u & r & u2 & H). exists c, u, r, u2.
  assert (Hl : life_pub = [c; u; r; u2]) by exact H.
  vm_compute in H. inversion H; subst c u r u2. clear H.
  eexists. split; [exact Hl|]. split; [vm_compute; reflexivity|]. rewrite Hl.
  change [?c; ?u; ?r; ?u2] with ((([c] ++ [u]) ++ [r]) ++ [u2]).
  apply gc_update.
  - apply gc_recover.
    + apply gc_update.
      * apply gc_create; vm_compute; reflexivity.
      * unfold good_update. vm_compute. repeat split.
      * reflexivity.
      * vm_compute. discriminate.
      * vm_compute. discriminate.
      * intros _ q [<-|[]] _. vm_compute. discriminate.
      * intros q [<-|[]]. vm_compute. reflexivity.
    + unfold good_recover. vm_compute. repeat split.
    + reflexivity.
    + vm_compute. discriminate.
    + vm_compute. discriminate.
    + intros _ q [<-|[<-|[]]] Hf; vm_compute in Hf; try discriminate.
    + intros q [<-|[<-|[]]]; vm_compute; reflexivity.
  - unfold good_update. vm_compute. repeat split.
  - reflexivity.
  - vm_compute. discriminate.
  - vm_compute. discriminate.
  - intros _ q [<-|[<-|[<-|[]]]] Hf; vm_compute in Hf; try discriminate; vm_compute; discriminate.
  - intros q [<-|[<-|[<-|[]]]]; vm_compute; reflexivity.
Qed.

(* pipeline_fold on this run: the DID shows the recover's and the last update's content *)
Example life_view : short_view cfg1 (run cfg1 (init 10) life) 7 = RView [103; 104] 23 31 false true.
Proof. vm_compute. reflexivity. Qed.

(* create_views_agree on a run *)
Example create_views_nonvacuous :
  let st := run cfg1 (init 10) [ESubmit ex_create 5000; EFlush true []; EObserve] in
  create_response v1 ex_create 5000 <> RNotFound /\
  (exists e, filter (fun x => s_sfx x =? 7) (store st) = [e] /\ qe_req (s_q e) = ex_create) /\
  unpub_of cfg1 st 7 = [].
Proof.
  cbn zeta. split; [vm_compute; discriminate|]. split; [|vm_compute; reflexivity].
  eexists. split; vm_compute; reflexivity.
Qed.
