(* C20 - eventual storage: "submitted operations are ... anchored, observed and stored".

   Pipeline/Proofs.v proves conservation for ALL event sequences: an accepted request is in exactly one
   of queue / anchored-but-unobserved transaction / operation store / expired.  That is a safety
   property; it does not say that anything ever leaves the queue.  Here the progress half:

     from every reachable state, [max 1 (length queue)] rounds of
          EFlush true ex ; EObserve            (a forced VerifStep of the batch writer, then the observer)
     with ARBITRARY expiry verdicts [ex] per round, lead to a state with an empty queue and an empty
     ledger; together with conservation: every accepted request is stored (once) or was discarded by the
     operation handler as expired (eventual_storage); when nothing expires every accepted request is
     stored (eventual_storage_nothing_expires).

   Hypothesis needed (the only one): MaxOperationCount of the protocol version in force at the ledger
   clock is > 0.  With 0 the cutter peeks 0 operations and nothing is ever cut: zero_max_cut_none,
   zero_max_refuted.

   NOT needed as hypotheses, because they hold in every reachable state:
   - a protocol version is in force at the ledger clock whenever something was accepted
     (reachable_version_in_force: the clock never goes back and version_at is monotone);
   - the version a queued operation was accepted under is in the table (inv_qver of Proofs.v);
   - the observer finds a protocol version for every anchored transaction (inv_ledger), so nothing is
     dropped.
   F16: a forced cut whose operations have all expired writes no transaction but still removes the batch from
   the queue (the operations go to the expired pile), so the progress argument (cut_shrinks) is unchanged:
   all_expired_round below shows such a round.
   no_version_refuted shows an (unreachable) state violating the first one: the rounds do nothing.

   The number of rounds is tight: bound_is_tight (k queued operations of ONE suffix need k rounds, since
   each batch takes one operation per suffix and re-queues the others). *)
From Coq Require Import List ZArith Bool Arith Lia Permutation Sorted.
From SV Require Import Resolve.Op Resolve.Apply Resolve.Process Resolve.Intake Resolve.Chain Pipeline.Model Pipeline.Proofs.
Import ListNotations.
Local Open Scope Z_scope.

(* one round per element: forced flush with that round's expiry verdicts, then the observer *)
Definition rounds (exs : list (list Z)) : list event := flat_map (fun ex => [EFlush true ex; EObserve]) exs.

(* ---------------------------------------------------------------------------------------------- *)
(* 1. the ledger clock: a version stays in force                                                  *)
(* ---------------------------------------------------------------------------------------------- *)

Lemma version_at_mono vs t t' : version_at vs t <> None -> t <= t' -> version_at vs t' <> None.
Proof. intros H Hle Hn. apply H. eapply version_at_none_mono; eassumption. Qed.

Lemma cut_now cfg ex f st st' : cut cfg ex f st = Some st' -> now st' = now st.
Proof. intros Hc. destruct (cut_spec _ _ _ _ _ Hc) as (? & ? & ? & ? & _ & _ & _ & _ & _ & _ & _ & ->). reflexivity. Qed.

Lemma drain_now cfg ex fuel : forall st, now (drain cfg ex fuel st) = now st.
Proof.
  induction fuel as [|n IH]; intros st; cbn [drain]; [reflexivity|].
  destruct (cut cfg ex false st) as [st'|] eqn:Ec; [|reflexivity]. rewrite IH. eapply cut_now; exact Ec.
Qed.

Lemma flush_now cfg ex f st : now (flush cfg ex f st) = now st.
Proof.
  unfold flush. destruct (_ || _); [apply drain_now|].
  destruct (cut cfg ex true _) as [st2|] eqn:Ec; [|apply drain_now].
  rewrite (cut_now _ _ _ _ _ Ec). apply drain_now.
Qed.

(* the observer touches neither the clock, the queue nor the expired pile *)
Lemma observe_txn_frame cfg st t :
  now (observe_txn cfg st t) = now st /\ queue (observe_txn cfg st t) = queue st /\
  expired (observe_txn cfg st t) = expired st.
Proof.
  unfold observe_txn. destruct (version_at _ _); [|auto]. destruct (dedup_split [] (t_ops t)). auto.
Qed.

Lemma observe_frame cfg st :
  now (observe cfg st) = now st /\ queue (observe cfg st) = queue st /\ expired (observe cfg st) = expired st /\
  ledger (observe cfg st) = [].
Proof.
  unfold observe. cbn [clear_ledger now queue expired ledger]. generalize (ledger st). intros ts. revert st.
  induction ts as [|t r IH]; intros st; cbn [fold_left]; [auto|].
  destruct (IH (observe_txn cfg st t)) as (H1 & H2 & H3 & H4). destruct (observe_txn_frame cfg st t) as (F1 & F2 & F3).
  rewrite H1, H2, H3, F1, F2, F3. auto.
Qed.

(* something was accepted -> a protocol version is in force at the ledger clock *)
Definition live (cfg : config) (st : pstate) : Prop :=
  accepted st <> [] -> version_at (c_versions cfg) (now st) <> None.

Lemma step_live cfg st e : live cfg st -> live cfg (step cfg st e).
Proof.
  intros L. destruct e as [r w|f ex| |t]; cbn [step].
  - unfold submit. destruct (intake cfg st r) as [v|] eqn:Ei; [|exact L].
    intros _. cbn [now]. rewrite (intake_version _ _ _ _ Ei). discriminate.
  - unfold live. rewrite flush_accepted, flush_now. exact L.
  - unfold live. rewrite observe_accepted. destruct (observe_frame cfg st) as (-> & _). exact L.
  - destruct (now st <=? t) eqn:E; [|exact L]. apply Z.leb_le in E. unfold live. cbn [set_now accepted now].
    intros Ha. eapply version_at_mono; [apply L; exact Ha | exact E].
Qed.

Lemma run_live cfg es : forall st, live cfg st -> live cfg (run cfg st es).
Proof. unfold run. induction es as [|e r IH]; intros st L; cbn [fold_left]; [exact L | apply IH, step_live, L]. Qed.

Theorem reachable_version_in_force cfg t0 es :
  let st := run cfg (init t0) es in
  accepted st <> [] -> version_at (c_versions cfg) (now st) <> None.
Proof. cbn zeta. apply run_live. intros H. elim H. reflexivity. Qed.

(* ---------------------------------------------------------------------------------------------- *)
(* 2. a forced flush shortens a non-empty queue                                                   *)
(* ---------------------------------------------------------------------------------------------- *)

Lemma queue_incl_accepted cfg st : inv cfg st -> incl (queue st) (accepted st).
Proof.
  intros I q Hq. eapply Permutation_in; [apply Permutation_sym, (inv_cons _ _ I)|].
  unfold places. apply in_or_app. left. exact Hq.
Qed.

(* the forced cut cannot fail: a current version exists, it allows at least one operation, and the
   version of the first queued operation is known (it was accepted under it) *)
Lemma forced_cut_succeeds cfg ex st cur :
  inv cfg st -> queue st <> [] -> version_at (c_versions cfg) (now st) = Some cur -> (0 < pv_max cur)%nat ->
  exists st', cut cfg ex true st = Some st'.
Proof.
  intros I Hq Hv Hm.
  assert (Hall : forall q, In q (queue st) -> accepted_under cfg q).
  { intros q Hi. apply (proj1 (Forall_forall _ _) (inv_qver _ _ I)). apply (queue_incl_accepted _ _ I). exact Hi. }
  unfold cut. rewrite Hv. cbn [negb andb].
  destruct (queue st) as [|q0 r] eqn:Eq; [congruence|].
  destruct (pv_max cur) as [|m] eqn:Em; [lia|].
  cbn [length Nat.min firstn].
  destruct (Hall q0 (or_introl eq_refl)) as (v & Hvq & _). rewrite Hvq. cbv zeta.
  destruct (sp_in _); eexists; reflexivity.
Qed.

Lemma drain_queue_le cfg ex fuel : forall st, (length (queue (drain cfg ex fuel st)) <= length (queue st))%nat.
Proof.
  induction fuel as [|n IH]; intros st; cbn [drain]; [lia|].
  destruct (cut cfg ex false st) as [st'|] eqn:Ec; [|lia].
  pose proof (IH st'). pose proof (cut_shrinks _ _ _ _ _ Ec). lia.
Qed.

Lemma flush_queue_le cfg ex f st : (length (queue (flush cfg ex f st)) <= length (queue st))%nat.
Proof.
  unfold flush. pose proof (drain_queue_le cfg ex (S (length (queue st))) st) as Hd.
  destruct (_ || _); [exact Hd|].
  destruct (cut cfg ex true _) as [st2|] eqn:Ec; [|exact Hd]. pose proof (cut_shrinks _ _ _ _ _ Ec). lia.
Qed.

Lemma flush_forced_shrinks cfg ex st cur :
  inv cfg st -> queue st <> [] -> version_at (c_versions cfg) (now st) = Some cur -> (0 < pv_max cur)%nat ->
  (length (queue (flush cfg ex true st)) < length (queue st))%nat.
Proof.
  intros I Hq Hv Hm. unfold flush. cbn [drain].
  destruct (cut cfg ex false st) as [st'|] eqn:Ec.
  - pose proof (cut_shrinks _ _ _ _ _ Ec) as Hs. pose proof (drain_queue_le cfg ex (length (queue st)) st') as Hd.
    destruct (_ || _); [lia|].
    destruct (cut cfg ex true _) as [st2|] eqn:Ec2; [pose proof (cut_shrinks _ _ _ _ _ Ec2); lia | lia].
  - destruct (Nat.eqb (length (queue st)) 0) eqn:E0.
    + apply Nat.eqb_eq in E0. destruct (queue st); [congruence | discriminate].
    + cbn [orb negb]. destruct (forced_cut_succeeds cfg ex st cur I Hq Hv Hm) as (st2 & Ec2). rewrite Ec2.
      eapply cut_shrinks; exact Ec2.
Qed.

(* ---------------------------------------------------------------------------------------------- *)
(* 3. rounds                                                                                      *)
(* ---------------------------------------------------------------------------------------------- *)

(* what the progress argument needs of a state *)
Definition can_cut (cfg : config) (st : pstate) : Prop :=
  queue st <> [] -> exists cur, version_at (c_versions cfg) (now st) = Some cur /\ (0 < pv_max cur)%nat.

Lemma round_spec cfg ex st :
  inv cfg st -> can_cut cfg st ->
  let st' := observe cfg (flush cfg ex true st) in
  inv cfg st' /\ now st' = now st /\ accepted st' = accepted st /\ ledger st' = [] /\
  (length (queue st') <= pred (length (queue st)))%nat.
Proof.
  intros I Hc. cbn zeta. destruct (observe_frame cfg (flush cfg ex true st)) as (Hn & Hq & _ & Hl).
  split; [apply observe_inv, flush_inv, I|]. split; [rewrite Hn; apply flush_now|].
  split; [rewrite observe_accepted; apply flush_accepted|]. split; [exact Hl|]. rewrite Hq.
  destruct (queue st) as [|q0 r] eqn:Eq.
  - pose proof (flush_queue_le cfg ex true st) as H. rewrite Eq in H. exact H.
  - assert (Hne : queue st <> []) by (rewrite Eq; discriminate).
    destruct (Hc Hne) as (cur & Hv & Hm). pose proof (flush_forced_shrinks cfg ex st cur I Hne Hv Hm) as H.
    rewrite Eq in H. cbn [length pred] in *. lia.
Qed.

Lemma run_rounds_cons cfg st ex r :
  run cfg st (rounds (ex :: r)) = run cfg (observe cfg (flush cfg ex true st)) (rounds r).
Proof. reflexivity. Qed.

Lemma rounds_spec cfg : forall exs st,
  inv cfg st -> can_cut cfg st ->
  inv cfg (run cfg st (rounds exs)) /\ now (run cfg st (rounds exs)) = now st /\
  accepted (run cfg st (rounds exs)) = accepted st /\
  (length (queue (run cfg st (rounds exs))) <= length (queue st) - length exs)%nat /\
  (exs <> [] -> ledger (run cfg st (rounds exs)) = []).
Proof.
  induction exs as [|ex r IH]; intros st I Hc.
  - cbn [rounds flat_map run fold_left length]. split; [exact I|]. split; [reflexivity|]. split; [reflexivity|].
    split; [lia | congruence].
  - rewrite run_rounds_cons. destruct (round_spec cfg ex st I Hc) as (I1 & N1 & A1 & L1 & Q1).
    set (s1 := observe cfg (flush cfg ex true st)) in *.
    assert (Hc1 : can_cut cfg s1).
    { intros Hne. rewrite N1. apply Hc. intros E. rewrite E in Q1. cbn [length pred] in Q1.
      destruct (queue s1); [congruence | cbn [length] in Q1; lia]. }
    destruct (IH s1 I1 Hc1) as (I2 & N2 & A2 & Q2 & L2).
    split; [exact I2|]. split; [congruence|]. split; [congruence|]. split; [cbn [length]; lia|].
    intros _. destruct r as [|ex' r']; [exact L1 | apply L2; discriminate].
Qed.

(* ---------------------------------------------------------------------------------------------- *)
(* 4. eventual storage                                                                            *)
(* ---------------------------------------------------------------------------------------------- *)

Lemma run_app cfg st a b : run cfg st (a ++ b) = run cfg (run cfg st a) b.
Proof. unfold run. apply fold_left_app. Qed.

(* From any reachable state: at least one and at least [length queue] rounds (forced flush with arbitrary
   expiry verdicts, then the observer) empty queue and ledger; every accepted request is then in the
   operation store or in the expired pile - exactly once when request ids are distinct; nothing is
   dropped; no request is accepted or forgotten on the way. *)
Theorem eventual_storage cfg t0 es exs :
  let st := run cfg (init t0) es in
  (forall cur, version_at (c_versions cfg) (now st) = Some cur -> (0 < pv_max cur)%nat) ->
  (length (queue st) <= length exs)%nat -> exs <> [] ->
  let st' := run cfg st (rounds exs) in
  queue st' = [] /\ ledger st' = [] /\ dropped st' = [] /\ accepted st' = accepted st /\
  Permutation (accepted st) (map s_q (store st') ++ expired st') /\
  (NoDup (map qe_id (accepted st)) -> NoDup (map qe_id (map s_q (store st') ++ expired st'))).
Proof.
  cbn zeta. intros Hmax Hlen Hne.
  set (st := run cfg (init t0) es) in *.
  assert (I : inv cfg st) by apply reachable_inv.
  assert (Hc : can_cut cfg st).
  { intros Hq. destruct (version_at (c_versions cfg) (now st)) as [cur|] eqn:Ev.
    - exists cur. split; [reflexivity | apply Hmax; reflexivity].
    - exfalso. apply (reachable_version_in_force cfg t0 es); [|exact Ev]. fold st.
      destruct (queue st) as [|q0 r] eqn:Eq; [congruence|]. intros Ea.
      pose proof (queue_incl_accepted _ _ I q0) as Hi. rewrite Eq, Ea in Hi. apply Hi. left. reflexivity. }
  destruct (rounds_spec cfg exs st I Hc) as (I' & _ & A' & Q' & L').
  assert (Hq : queue (run cfg st (rounds exs)) = []).
  { destruct (queue (run cfg st (rounds exs))); [reflexivity | cbn [length] in Q'; lia]. }
  pose proof (L' Hne) as Hl.
  pose proof (conservation cfg t0 (es ++ rounds exs)) as Hcons. cbn zeta in Hcons. rewrite run_app in Hcons. fold st in Hcons.
  destruct Hcons as [Hp Hd]. unfold ledger_ops in Hp. rewrite Hq, Hl in Hp. cbn [map concat app] in Hp.
  split; [exact Hq|]. split; [exact Hl|]. split; [exact Hd|]. split; [exact A'|].
  rewrite A' in Hp. split; [exact Hp|].
  intros Hn. eapply Permutation_NoDup; [apply Permutation_map; exact Hp | exact Hn].
Qed.

(* the explicit number: max 1 (length of the queue) rounds, here with the same verdicts each round *)
Corollary eventual_storage_count cfg t0 es ex :
  let st := run cfg (init t0) es in
  (forall cur, version_at (c_versions cfg) (now st) = Some cur -> (0 < pv_max cur)%nat) ->
  let st' := run cfg st (rounds (repeat ex (Nat.max 1 (length (queue st))))) in
  queue st' = [] /\ ledger st' = [] /\ Permutation (accepted st) (map s_q (store st') ++ expired st').
Proof.
  cbn zeta. intros Hmax.
  destruct (eventual_storage cfg t0 es (repeat ex (Nat.max 1 (length (queue (run cfg (init t0) es))))) Hmax)
    as (Hq & Hl & _ & _ & Hp & _).
  - rewrite repeat_length. lia.
  - destruct (Nat.max 1 (length (queue (run cfg (init t0) es)))) eqn:E; [lia | discriminate].
  - auto.
Qed.

(* ---------------------------------------------------------------------------------------------- *)
(* 5. nothing expires -> everything accepted is stored                                            *)
(* ---------------------------------------------------------------------------------------------- *)

Lemma split_no_expiry : forall l seen, sp_exp (split_batch (fun i => memZ i []) seen l) = [].
Proof.
  induction l as [|q r IH]; intros seen; cbn [split_batch memZ sp_exp]; [reflexivity|].
  destruct (memZ (qe_sfx q) seen); cbn [sp_exp]; apply IH.
Qed.

Lemma cut_no_expiry cfg f st st' : cut cfg [] f st = Some st' -> expired st' = expired st.
Proof.
  intros Hc. destruct (cut_spec _ _ _ _ _ Hc) as (? & batch & ? & ? & _ & _ & _ & _ & _ & _ & _ & ->).
  cbn [expired]. rewrite split_no_expiry, app_nil_r. reflexivity.
Qed.

Lemma drain_no_expiry cfg fuel : forall st, expired (drain cfg [] fuel st) = expired st.
Proof.
  induction fuel as [|n IH]; intros st; cbn [drain]; [reflexivity|].
  destruct (cut cfg [] false st) as [st'|] eqn:Ec; [|reflexivity]. rewrite IH. eapply cut_no_expiry; exact Ec.
Qed.

Lemma flush_no_expiry cfg f st : expired (flush cfg [] f st) = expired st.
Proof.
  unfold flush. destruct (_ || _); [apply drain_no_expiry|].
  destruct (cut cfg [] true _) as [st2|] eqn:Ec; [|apply drain_no_expiry].
  rewrite (cut_no_expiry _ _ _ _ Ec). apply drain_no_expiry.
Qed.

Lemma rounds_no_expiry cfg n : forall st, expired (run cfg st (rounds (repeat [] n))) = expired st.
Proof.
  induction n as [|n IH]; intros st; [reflexivity|]. cbn [repeat]. rewrite run_rounds_cons, IH.
  destruct (observe_frame cfg (flush cfg [] true st)) as (_ & _ & -> & _). apply flush_no_expiry.
Qed.

(* when the operation handler finds nothing expired during the rounds, the expired pile is what it was;
   if nothing had expired before either, EVERY accepted request is in the operation store, once *)
Theorem eventual_storage_nothing_expires cfg t0 es n :
  let st := run cfg (init t0) es in
  (forall cur, version_at (c_versions cfg) (now st) = Some cur -> (0 < pv_max cur)%nat) ->
  (length (queue st) <= n)%nat -> (1 <= n)%nat ->
  let st' := run cfg st (rounds (repeat [] n)) in
  queue st' = [] /\ ledger st' = [] /\ expired st' = expired st /\
  Permutation (accepted st) (map s_q (store st') ++ expired st) /\
  (expired st = [] -> Permutation (accepted st) (map s_q (store st')) /\
                      (NoDup (map qe_id (accepted st)) -> NoDup (map qe_id (map s_q (store st'))))).
Proof.
  cbn zeta. intros Hmax Hlen Hn.
  destruct (eventual_storage cfg t0 es (repeat [] n) Hmax) as (Hq & Hl & _ & _ & Hp & Hnd).
  - rewrite repeat_length. exact Hlen.
  - destruct n; [lia | discriminate].
  - rewrite rounds_no_expiry in Hp, Hnd. split; [exact Hq|]. split; [exact Hl|]. split; [apply rounds_no_expiry|].
    split; [exact Hp|]. intros He. rewrite He, app_nil_r in Hp, Hnd. auto.
Qed.

(* ---------------------------------------------------------------------------------------------- *)
(* 6. the hypotheses are needed; the bound is tight; non-vacuity                                  *)
(* ---------------------------------------------------------------------------------------------- *)

(* MaxOperationCount = 0 in the current version: nothing is ever cut, forced or not *)
Lemma zero_max_cut_none cfg ex f st cur :
  version_at (c_versions cfg) (now st) = Some cur -> pv_max cur = 0%nat -> cut cfg ex f st = None.
Proof.
  intros Hv Hm. unfold cut. rewrite Hv, Hm. rewrite Nat.min_0_r. cbn [firstn].
  destruct (negb f && _); reflexivity.
Qed.

Definition cfg_zero : config :=
  {| c_versions := [{| pv_genesis := 0; pv_mdelta := 7200; pv_max := 0 |}]; c_unpub := []; c_by_time := false |}.

(* accepted, but never anchored, whatever the number of rounds (here 3; by zero_max_cut_none: any number) *)
Example zero_max_refuted :
  let st := run cfg_zero (init 10) [ESubmit ex_create 5000] in
  let st' := run cfg_zero st (rounds [[]; []; []]) in
  map qe_id (accepted st) = [1] /\ st' = st /\ map qe_id (queue st') = [1] /\ store st' = [].
Proof. vm_compute. repeat split; reflexivity. Qed.

(* a state in which no protocol version is in force at the ledger clock (not reachable with a non-empty
   queue: reachable_version_in_force): the writer cannot cut, the rounds change nothing *)
Definition stuck_state : pstate :=
  let q := {| qe_req := ex_create; qe_ver := 0 |} in
  {| now := -5; next_num := 0; queue := [q]; ledger := []; store := []; unpub := []; expired := [];
     dropped := []; accepted := [q] |}.

Example no_version_refuted :
  version_at (c_versions cfg1) (now stuck_state) = None /\
  run cfg1 stuck_state (rounds [[]; []; []]) = stuck_state.
Proof. vm_compute. split; reflexivity. Qed.

(* the bound: three queued operations of one suffix, batch size 10 - each round anchors one of them *)
Definition cfg_ten : config :=
  {| c_versions := [{| pv_genesis := 0; pv_mdelta := 7200; pv_max := 10 |}]; c_unpub := []; c_by_time := false |}.
Definition three_for_one_suffix : list event :=
  [ESubmit (xreq 7 1 Create 0 101 20 30) 5000; ESubmit (xreq 7 2 Create 0 102 21 31) 5000;
   ESubmit (xreq 7 3 Create 0 103 22 32) 5000].

Example bound_is_tight :
  let st := run cfg_ten (init 10) three_for_one_suffix in
  length (queue st) = 3%nat /\
  map qe_id (queue (run cfg_ten st (rounds [[]; []]))) = [3] /\
  queue (run cfg_ten st (rounds [[]; []; []])) = [] /\
  map (fun e => (qe_id (s_q e), s_num e)) (store (run cfg_ten st (rounds [[]; []; []]))) = [(1, 0); (2, 1); (3, 2)].
Proof. vm_compute. repeat split; reflexivity. Qed.

(* non-vacuity of eventual_storage: hypotheses and conclusion on the reorder scenario of Model.v with two
   more submissions left in the queue, one of which expires in the first round *)
Definition pending_events : list event :=
  reorder_events ++ [ETime 12; ESubmit (xreq 8 5 Create 0 105 24 34) 5004; ESubmit (xreq 9 6 Create 0 106 25 35) 5005].

Example eventual_storage_nonvacuous :
  let st := run cfg1 (init 10) pending_events in
  let st' := run cfg1 st (rounds [[6]; []]) in
  option_map pv_max (version_at (c_versions cfg1) (now st)) = Some 2%nat /\
  map qe_id (queue st) = [5; 6] /\
  queue st' = [] /\ ledger st' = [] /\
  map qe_id (accepted st') = [1; 2; 3; 4; 5; 6] /\
  map (fun e => qe_id (s_q e)) (store st') = [1; 2; 4; 3; 5] /\ map qe_id (expired st') = [6].
Proof. vm_compute. repeat split; reflexivity. Qed.

(* F16: a round whose batch is entirely expired: queue emptied, nothing anchored or stored, no number consumed *)
Example all_expired_round :
  let st := run cfg1 (init 10) pending_events in
  let st' := run cfg1 st (rounds [[5; 6]]) in
  map qe_id (queue st) = [5; 6] /\ queue st' = [] /\ ledger st' = [] /\ next_num st' = next_num st /\
  store st' = store st /\ map qe_id (expired st') = [5; 6].
Proof. vm_compute. repeat split; reflexivity. Qed.

Print Assumptions reachable_version_in_force.
Print Assumptions forced_cut_succeeds.
Print Assumptions flush_forced_shrinks.
Print Assumptions rounds_spec.
Print Assumptions eventual_storage.
Print Assumptions eventual_storage_count.
Print Assumptions eventual_storage_nothing_expires.
Print Assumptions zero_max_cut_none.
