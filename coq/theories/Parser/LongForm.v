(* Long-form DIDs: operationparser.ParseDID / parseInitialState and the self-certification checks of
   dochandler.resolveRequestWithInitialState (C08).  Definitions only. *)
From Coq Require Import String List ZArith NArith Bool.
From Coq.Strings Require Import Byte.
From SV Require Import Base.Bytes Hash.B64 Hash.Multihash Jws.Compact Resolve.Op Parser.Accept.
Import ListNotations.
Local Open Scope string_scope.
Local Open Scope list_scope.

Definition colon : byte := x3a.

(* split at the last ':' *)
Fixpoint split_last_colon_go (l : bytes) : option (bytes * bytes) :=
  match l with
  | [] => None
  | c :: r =>
    match split_last_colon_go r with
    | Some (a, b) => Some (c :: a, b)
    | None => if Byte.eqb c colon then Some ([], r) else None
    end
  end.

Record longform_view := {
  lf_did : bytes;                 (* the DID as given *)
  lf_has_state : bool;            (* a ':' remains after removing the namespace prefix *)
  lf_json_ok : bool;              (* the decoded segment decodes into a CreateRequest *)
  lf_reencoded : bytes;           (* JCS form of that decoded CreateRequest (without type) *)
  lf_request : req_view;          (* view of the canonical create request handed to Parse (type = create) *)
  lf_create_applies : bool }.     (* GetCreateResult yields a non-empty, valid document *)

(* parseInitialState: the segment must be the base64url of the canonical form of what it decodes to *)
Definition initial_state_ok (seg : bytes) (v : longform_view) : bool :=
  match b64_decode seg with
  | None => false
  | Some _ => lf_json_ok v && bytes_eqb (b64_encode (lf_reencoded v)) seg
  end.

(* dochandler.getSuffix on the short-form DID: the part after its last ':' (empty = error) *)
Definition short_suffix (did : bytes) : bytes :=
  match split_last_colon_go did with Some (_, s) => s | None => did end.

Inductive lf_outcome := LShort | LReject | LAccept (suffix : bytes).

(* ParseDID followed by resolveRequestWithInitialState (the DID is not anchored yet) *)
Definition resolve_long_form (p : pproto) (v : longform_view) : lf_outcome :=
  if negb (lf_has_state v) then LShort
  else match split_last_colon_go (lf_did v) with
       | None => LShort
       | Some (did, seg) =>
         if negb (initial_state_ok seg v) then LReject
         else if bytes_eqb (short_suffix did) [] then LReject
         else match parse_operation p false true (lf_request v) with
              | None => LReject
              | Some o =>
                if negb (bytes_eqb (short_suffix did) (po_suffix o)) then LReject
                else if negb (lf_create_applies v) then LReject
                else LAccept (po_suffix o)
              end
       end.
