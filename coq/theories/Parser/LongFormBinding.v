(* C08 - "any alteration of a long-form DID is rejected", at the level of the whole DID string.

   LongFormProofs.v shows what acceptance of ONE long-form DID means and that two accepted deltas under
   one delta hash collide.  Here:

   - longform_suffix_collision      the suffix-data analogue: two resolving long-form DIDs with the same
                                    suffix carry suffix data with the same SHA-2 digest
   - longform_same_suffix_cases     (no hypothesis on the views) case analysis for one suffix
   - longform_initial_state_unique  for one DID suffix at most ONE initial-state segment resolves - or a
                                    SHA-2 collision is exhibited, on the suffix data or on the delta
   - longform_did_unique            ... hence at most one long-form DID string per short-form DID

   The views of Parser/LongForm.v carry [lf_reencoded] (JCS form of the decoded create request),
   [sf_canonical] (JCS form of its suffix data), [dv_canonical] (JCS form of its delta) and
   [sf_delta_hash] (the deltaHash member of the suffix data) as SEPARATE facts.  The last theorems need
   what connects them; this is stated as two explicit, named hypotheses about the canonicalizer
   ([reencoded_assembled], [delta_hash_in_suffix_data]) and NOT assumed silently.  Both are discharged
   for concrete views in the examples at the end of the file. *)
From Coq Require Import String List ZArith NArith Bool.
From Coq.Strings Require Import Byte.
From SV Require Import Base.Bytes Hash.B64 Hash.Sha2 Hash.Multihash Hash.MultihashProofs Jws.Compact Resolve.Op
  Parser.Accept Parser.AcceptProofs Parser.LongForm Parser.LongFormProofs.
Import ListNotations.
Local Open Scope string_scope.
Local Open Scope list_scope.

(* abbreviations for the facts of the create request embedded in a long-form DID *)
Definition lf_sfc (v : longform_view) : bytes := sf_canonical (rv_suffix (lf_request v)).   (* canonical suffix data *)
Definition lf_dvc (v : longform_view) : bytes := dv_canonical (rv_delta (lf_request v)).    (* canonical delta *)
Definition lf_dhash (v : longform_view) : bytes := sf_delta_hash (rv_suffix (lf_request v)). (* suffixData.deltaHash *)
Definition lf_is_create (v : longform_view) : Prop := eqs (rv_type (lf_request v)) "create" = true.

(* two DIFFERENT byte strings with the same SHA-256 or the same SHA-512 digest *)
Definition sha2_collision (a b : bytes) : Prop :=
  a <> b /\ exists h : bytes -> bytes, (h = sha256 \/ h = sha512) /\ h a = h b.

(* the string is what stands left and right of its last colon *)
Lemma split_last_colon_app l a b : split_last_colon_go l = Some (a, b) -> l = a ++ colon :: b.
Proof.
  revert a b. induction l as [|c r IH]; intros a b; cbn [split_last_colon_go]; [discriminate|].
  destruct (split_last_colon_go r) as [[a0 b0]|] eqn:Er.
  - intros H; inversion H; subst. cbn [app]. f_equal. apply IH. reflexivity.
  - destruct (Byte.eqb c colon) eqn:Ec; [|discriminate]. intros H; inversion H; subst.
    apply Byte.byte_dec_bl in Ec. subst c. reflexivity.
Qed.

Lemma unique_suffix_valid c algs sfx : unique_suffix c algs = Some sfx -> is_valid_model_multihash c sfx = true.
Proof.
  unfold unique_suffix. destruct algs as [|a r]; [discriminate|]. apply calculated_multihash_is_valid.
Qed.

(* ---------------------------------------------------------------------------------------------- *)
(* the suffix binds the suffix data                                                               *)
(* ---------------------------------------------------------------------------------------------- *)

(* suffix-data analogue of longform_delta_collision.  The two DIDs may even be resolved under different
   protocol parameters (e.g. different hash algorithm lists): the multihash names its algorithm. *)
Theorem longform_suffix_collision p p' v v' sfx :
  resolve_long_form p v = LAccept sfx -> resolve_long_form p' v' = LAccept sfx ->
  lf_is_create v -> lf_is_create v' ->
  exists h : bytes -> bytes, (h = sha256 \/ h = sha512) /\ h (lf_sfc v) = h (lf_sfc v').
Proof.
  intros H1 H2 T1 T2.
  destruct (longform_binds_content _ _ _ H1 T1) as [U1 _]. destruct (longform_binds_content _ _ _ H2 T2) as [U2 _].
  eapply valid_binds_content; eapply unique_suffix_valid; eassumption.
Qed.

(* the same, read off the DID strings: same suffix part (text after the last ':' of the short form) *)
Theorem longform_same_did_suffix_collision p p' v v' sfx sfx' did seg did' seg' :
  resolve_long_form p v = LAccept sfx -> resolve_long_form p' v' = LAccept sfx' ->
  split_last_colon_go (lf_did v) = Some (did, seg) -> split_last_colon_go (lf_did v') = Some (did', seg') ->
  short_suffix did = short_suffix did' ->
  lf_is_create v -> lf_is_create v' ->
  sfx = sfx' /\ exists h : bytes -> bytes, (h = sha256 \/ h = sha512) /\ h (lf_sfc v) = h (lf_sfc v').
Proof.
  intros H1 H2 S1 S2 Hs T1 T2.
  destruct (longform_accept_characterised _ _ _ H1) as (d1 & g1 & o1 & E1 & _ & _ & _ & K1).
  destruct (longform_accept_characterised _ _ _ H2) as (d2 & g2 & o2 & E2 & _ & _ & _ & K2).
  rewrite S1 in E1. injection E1 as Ed1 _. rewrite S2 in E2. injection E2 as Ed2 _.
  assert (E : sfx = sfx') by (rewrite <- K1, <- K2, <- Ed1, <- Ed2; exact Hs).
  split; [exact E|]. rewrite <- E in H2.
  eapply longform_suffix_collision; eassumption.
Qed.

(* One suffix, two resolving long-form DIDs: what can differ.  No hypothesis connecting the facts of a
   view is used; the second case is the one such a hypothesis has to exclude. *)
Theorem longform_same_suffix_cases p p' v v' sfx :
  resolve_long_form p v = LAccept sfx -> resolve_long_form p' v' = LAccept sfx ->
  lf_is_create v -> lf_is_create v' ->
  sha2_collision (lf_sfc v) (lf_sfc v')
  \/ (lf_sfc v = lf_sfc v' /\ lf_dhash v <> lf_dhash v')          (* inconsistent views only *)
  \/ (lf_sfc v = lf_sfc v' /\ lf_dhash v = lf_dhash v' /\ sha2_collision (lf_dvc v) (lf_dvc v'))
  \/ (lf_sfc v = lf_sfc v' /\ lf_dhash v = lf_dhash v' /\ lf_dvc v = lf_dvc v').
Proof.
  intros H1 H2 T1 T2.
  destruct (list_eq_dec Byte.byte_eq_dec (lf_sfc v) (lf_sfc v')) as [Es|Ns].
  - right. destruct (list_eq_dec Byte.byte_eq_dec (lf_dhash v) (lf_dhash v')) as [Eh|Nh]; [|left; auto].
    right. destruct (list_eq_dec Byte.byte_eq_dec (lf_dvc v) (lf_dvc v')) as [Ed|Nd]; [right; auto|].
    left. split; [exact Es|]. split; [exact Eh|]. split; [exact Nd|].
    destruct (longform_binds_content _ _ _ H1 T1) as [_ V1]. destruct (longform_binds_content _ _ _ H2 T2) as [_ V2].
    fold (lf_dvc v) (lf_dhash v) in V1. fold (lf_dvc v') (lf_dhash v') in V2. rewrite <- Eh in V2.
    eapply valid_binds_content; eassumption.
  - left. split; [exact Ns|]. eapply longform_suffix_collision; eassumption.
Qed.

(* ---------------------------------------------------------------------------------------------- *)
(* at most one initial state per suffix                                                           *)
(* ---------------------------------------------------------------------------------------------- *)

Section Canonicalizer.
  (* ORACLE (behaviour of pkg/canonicalizer on the CreateRequest struct, not part of the view model):
     the JCS form of a create request {"delta": D, "suffixData": S} is a function of the JCS forms of
     its two members.  JCS is compositional (an object is printed as its sorted members, each printed
     canonically), so the intended instance is [jcs_create_request] below; the theorems hold for ANY
     function, nothing is assumed about it. *)
  Variable assemble : bytes (* canonical suffix data *) -> bytes (* canonical delta *) -> bytes.

  (* HYPOTHESIS 1 about the canonicalizer, per view: the re-encoded request is assembled from the
     canonical suffix data and the canonical delta the view carries.  Json/GoJson.v's [canonical_of]
     (= print_canonical, used by Parser/ViewOfBytes.v for sf_canonical and dv_canonical) can discharge
     it: print_canonical of the object with members "delta" and "suffixData" unfolds to exactly
     [jcs_create_request (canonical_of suffix) (canonical_of delta)]. *)
  Definition reencoded_assembled (v : longform_view) : Prop :=
    lf_reencoded v = assemble (lf_sfc v) (lf_dvc v).

  (* HYPOTHESIS 2, per pair of views: deltaHash is a member of the suffix data, so equal canonical
     suffix data carry equal delta hashes.  Dischargeable from GoJson.v as well: sf_canonical is
     [canonical_of (suffix_json x)] with [sm_delta_hash x] a member of [suffix_json x], and
     GoJsonProofs.decode_canonical_text recovers the (normalised) value from its canonical text. *)
  Definition delta_hash_in_suffix_data (v v' : longform_view) : Prop :=
    lf_sfc v = lf_sfc v' -> lf_dhash v = lf_dhash v'.

  (* If two long-form DIDs with the same suffix part both resolve, their initial-state segments are
     EQUAL, or a SHA-2 collision is exhibited (on the canonical suffix data or on the canonical delta). *)
  Theorem longform_initial_state_unique p p' v v' sfx sfx' did seg did' seg' :
    resolve_long_form p v = LAccept sfx -> resolve_long_form p' v' = LAccept sfx' ->
    split_last_colon_go (lf_did v) = Some (did, seg) -> split_last_colon_go (lf_did v') = Some (did', seg') ->
    short_suffix did = short_suffix did' ->
    lf_is_create v -> lf_is_create v' ->
    reencoded_assembled v -> reencoded_assembled v' -> delta_hash_in_suffix_data v v' ->
    seg = seg' \/ sha2_collision (lf_sfc v) (lf_sfc v') \/ sha2_collision (lf_dvc v) (lf_dvc v').
  Proof.
    intros H1 H2 S1 S2 Hs T1 T2 A1 A2 Hdh.
    destruct (longform_same_did_suffix_collision _ _ _ _ _ _ _ _ _ _ H1 H2 S1 S2 Hs T1 T2) as [<- _].
    destruct (longform_accept_characterised _ _ _ H1) as (d1 & g1 & o1 & E1 & G1 & _).
    destruct (longform_accept_characterised _ _ _ H2) as (d2 & g2 & o2 & E2 & G2 & _).
    rewrite S1 in E1. injection E1 as _ Eg1. rewrite S2 in E2. injection E2 as _ Eg2.
    rewrite <- Eg1 in G1. rewrite <- Eg2 in G2.
    destruct (longform_same_suffix_cases _ _ _ _ _ H1 H2 T1 T2) as [C|[[Es Nh]|[(Es & Eh & C)|(Es & Eh & Ed)]]].
    - right. left. exact C.
    - exfalso. apply Nh. apply Hdh. exact Es.
    - right. right. exact C.
    - left. rewrite G1, G2. unfold reencoded_assembled in A1, A2. rewrite A1, A2, Es, Ed. reflexivity.
  Qed.

  (* same short-form DID: the whole long-form DID strings are equal, up to collisions *)
  Corollary longform_did_unique p p' v v' sfx sfx' did seg seg' :
    resolve_long_form p v = LAccept sfx -> resolve_long_form p' v' = LAccept sfx' ->
    split_last_colon_go (lf_did v) = Some (did, seg) -> split_last_colon_go (lf_did v') = Some (did, seg') ->
    lf_is_create v -> lf_is_create v' ->
    reencoded_assembled v -> reencoded_assembled v' -> delta_hash_in_suffix_data v v' ->
    lf_did v = lf_did v' \/ sha2_collision (lf_sfc v) (lf_sfc v') \/ sha2_collision (lf_dvc v) (lf_dvc v').
  Proof.
    intros H1 H2 S1 S2 T1 T2 A1 A2 Hdh.
    destruct (longform_initial_state_unique _ _ _ _ _ _ _ _ _ _ H1 H2 S1 S2 eq_refl T1 T2 A1 A2 Hdh) as [E|C]; [|right; exact C].
    left. rewrite (split_last_colon_app _ _ _ S1), (split_last_colon_app _ _ _ S2), E. reflexivity.
  Qed.

  (* contrapositive reading ("any alteration is rejected"): given one resolving long-form DID, a DID
     with the same short form and ANOTHER initial-state segment does not resolve - unless it exhibits a
     collision with the first one *)
  Corollary altered_initial_state_rejected p p' v v' sfx did seg seg' :
    resolve_long_form p v = LAccept sfx ->
    split_last_colon_go (lf_did v) = Some (did, seg) -> split_last_colon_go (lf_did v') = Some (did, seg') ->
    seg <> seg' ->
    lf_is_create v -> lf_is_create v' ->
    reencoded_assembled v -> reencoded_assembled v' -> delta_hash_in_suffix_data v v' ->
    ~ sha2_collision (lf_sfc v) (lf_sfc v') -> ~ sha2_collision (lf_dvc v) (lf_dvc v') ->
    forall sfx', resolve_long_form p' v' <> LAccept sfx'.
  Proof.
    intros H1 S1 S2 Hne T1 T2 A1 A2 Hdh NC1 NC2 sfx' H2.
    destruct (longform_initial_state_unique _ _ _ _ _ _ _ _ _ _ H1 H2 S1 S2 eq_refl T1 T2 A1 A2 Hdh) as [E|[C|C]]; auto.
  Qed.
End Canonicalizer.

(* ---------------------------------------------------------------------------------------------- *)
(* non-vacuity: concrete long-form DIDs, hashes computed inside Coq                               *)
(* ---------------------------------------------------------------------------------------------- *)

(* JCS form of {"delta": D, "suffixData": S} from the JCS forms of D and S *)
Definition jcs_create_request (sd dl : bytes) : bytes :=
  bytes_of_string "{""delta"":" ++ dl ++ bytes_of_string ",""suffixData"":" ++ sd ++ bytes_of_string "}".

Definition ex_proto : pproto :=
  {| pp_max_op_size := 2000; pp_max_hash_len := 100; pp_max_delta_size := 1000; pp_nonce_size := 16; pp_time_delta := 7200;
     pp_hash_algs := [SHA2_256]; pp_sig_algs := [bytes_of_string "EdDSA"]; pp_key_algs := [bytes_of_string "Ed25519"];
     pp_patches := [bytes_of_string "replace"] |}.

Definition mh_of (s : String.string) : bytes :=
  match calculate_model_multihash (bytes_of_string s) SHA2_256 with Some m => m | None => [] end.

(* canonical delta with the given content marker *)
Definition ex_delta (marker : String.string) : bytes :=
  bytes_of_string "{""patches"":[{""action"":""replace"",""document"":{""x"":""" ++ bytes_of_string marker
  ++ bytes_of_string """}}],""updateCommitment"":""" ++ mh_of "update-key" ++ bytes_of_string """}".

Definition ex_dhash (dl : bytes) : bytes :=
  match calculate_model_multihash dl SHA2_256 with Some m => m | None => [] end.

Definition ex_suffix_data (dl : bytes) : bytes :=
  bytes_of_string "{""deltaHash"":""" ++ ex_dhash dl ++ bytes_of_string """,""recoveryCommitment"":""" ++ mh_of "recovery-key"
  ++ bytes_of_string """}".

Definition ex_suffix (dl : bytes) : bytes :=
  match unique_suffix (ex_suffix_data dl) [SHA2_256] with Some s => s | None => [] end.

Definition no_jwk : jwk_view := Build_jwk_view false [] [] [] [] [] [].
Definition no_signed : signed_view :=
  {| sv_compact := []; sv_hdr := {| h_json_ok := false; h_has_alg := false; h_b64 := B64Absent; h_marshal := [] |};
     sv_hdr_names := []; sv_alg := None; sv_model_ok := false; sv_key := no_jwk; sv_delta_hash := [];
     sv_recovery_commitment := []; sv_did_suffix := []; sv_from := 0; sv_until := 0; sv_origin_ok := false |}.

(* the view of the create request with delta [dl] *)
Definition ex_request (dl : bytes) : req_view :=
  {| rv_len := Z.of_nat (length (jcs_create_request (ex_suffix_data dl) dl)) + 16; rv_schema_ok := true;
     rv_type := bytes_of_string "create"; rv_struct_ok := true; rv_did_suffix := []; rv_reveal := []; rv_signed_data := [];
     rv_signed := no_signed;
     rv_delta := {| dv_present := true; dv_actions := [Some (bytes_of_string "replace")]; dv_patch_valid := [true];
                    dv_update_commitment := mh_of "update-key"; dv_canonical := dl |};
     rv_suffix := {| sf_present := true; sf_delta_hash := ex_dhash dl; sf_recovery_commitment := mh_of "recovery-key";
                     sf_canonical := ex_suffix_data dl; sf_origin_ok := true |} |}.

(* long-form DID  did:sidetree:<suffix of sfx_of>:<initial state with delta dl>  and the view of it *)
Definition ex_longform (sfx_of dl : bytes) : longform_view :=
  {| lf_did := bytes_of_string "did:sidetree:" ++ ex_suffix sfx_of ++ [colon]
               ++ b64_encode (jcs_create_request (ex_suffix_data dl) dl);
     lf_has_state := true; lf_json_ok := true;
     lf_reencoded := jcs_create_request (ex_suffix_data dl) dl;
     lf_request := ex_request dl; lf_create_applies := true |}.

Definition d1 : bytes := ex_delta "one".
Definition d2 : bytes := ex_delta "two".

(* a genuine long-form DID resolves, to the suffix computed from its suffix data *)
Example genuine_resolves : resolve_long_form ex_proto (ex_longform d1 d1) = LAccept (ex_suffix d1).
Proof. vm_compute. reflexivity. Qed.

Example genuine_resolves_2 :
  resolve_long_form ex_proto (ex_longform d2 d2) = LAccept (ex_suffix d2) /\ ex_suffix d1 <> ex_suffix d2.
Proof. vm_compute. split; [reflexivity | discriminate]. Qed.

(* the altered DID: suffix of the first, initial state of the second (canonically encoded, self-consistent) *)
Example altered_rejected : resolve_long_form ex_proto (ex_longform d1 d2) = LReject.
Proof. vm_compute. reflexivity. Qed.

(* all hypotheses of longform_initial_state_unique hold for the genuine DID (taken twice, and against the
   second genuine one as far as the per-view / per-pair hypotheses are concerned) *)
Example hypotheses_hold :
  let v := ex_longform d1 d1 in let v' := ex_longform d2 d2 in
  lf_is_create v /\ lf_is_create v' /\
  reencoded_assembled jcs_create_request v /\ reencoded_assembled jcs_create_request v' /\
  delta_hash_in_suffix_data v v /\ delta_hash_in_suffix_data v v' /\
  exists did seg, split_last_colon_go (lf_did v) = Some (did, seg) /\ short_suffix did = ex_suffix d1.
Proof.
  cbn zeta. split; [vm_compute; reflexivity|]. split; [vm_compute; reflexivity|].
  split; [reflexivity|]. split; [reflexivity|]. split; [intros _; reflexivity|].
  split; [intros H; exfalso; revert H; vm_compute; discriminate|].
  eexists. eexists. split; vm_compute; reflexivity.
Qed.

Print Assumptions split_last_colon_app.
Print Assumptions longform_suffix_collision.
Print Assumptions longform_same_did_suffix_collision.
Print Assumptions longform_same_suffix_cases.
Print Assumptions longform_initial_state_unique.
Print Assumptions longform_did_unique.
Print Assumptions altered_initial_state_rejected.
