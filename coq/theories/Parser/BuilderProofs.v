(* C11: requests produced by the client builders are accepted by the parser of a protocol that
   enables the algorithms used, parse back to what the caller supplied, and carry the facts
   resolution needs (delta matches its hash, signature verifies, commitment = hash of reveal). *)
From Coq Require Import String List ZArith NArith Bool Lia.
From Coq.Strings Require Import Byte.
From SV Require Import Base.Bytes Hash.B64 Hash.Varint Hash.Multihash Hash.MultihashProofs Jws.Compact Jws.CompactProofs
  Resolve.Op Parser.Window Parser.Accept Parser.AcceptProofs Parser.Builder.
Import ListNotations.
Local Open Scope string_scope.
Local Open Scope list_scope.
Local Open Scope Z_scope.

Lemma is_empty_false (b : bytes) : b <> [] -> is_empty b = false.
Proof. destruct b; [congruence | reflexivity]. Qed.

Lemma is_empty_false_inv (b : bytes) : is_empty b = false -> b <> [].
Proof. destruct b; [discriminate | congruence]. Qed.

Lemma compact_nonempty h pl sg : compact h pl sg <> [].
Proof. unfold compact. destruct (b64_encode h); cbn; congruence. Qed.

(* what "a protocol enabling that algorithm and key type" means *)
Definition protocol_enables (p : pproto) (code : N) (s : signer) (k : jwk_view) : Prop :=
  In code (pp_hash_algs p) /\
  (exists a, sg_alg s = Some a /\ In a (pp_sig_algs p)) /\
  In (jv_crv k) (pp_key_algs p) /\ validate_nonce p (jv_nonce k) = true.

(* the signer produced something: a header, and a non-empty signature over a non-empty payload *)
Definition signer_output_ok (s : signer) (payload : bytes) : Prop :=
  sg_header_json s <> [] /\ payload <> [] /\ sg_sig s <> [].

Lemma computed_hash_validates p c code dh :
  calculate_model_multihash c code = Some dh -> In code (pp_hash_algs p) -> blen dh <= pp_max_hash_len p ->
  validate_multihash p dh = true.
Proof.
  intros Hc Hin Hl. unfold validate_multihash.
  destruct (blen dh >? pp_max_hash_len p) eqn:E; [rewrite Z.gtb_ltb in E; apply Z.ltb_lt in E; lia|].
  unfold calculate_model_multihash in Hc. destruct (compute_multihash code c) as [m|] eqn:Em; [|discriminate].
  inversion Hc; subst dh. destruct (get_multihash_compute _ _ _ Em) as (h & _ & Hg).
  unfold is_computed_using, get_multihash_code. rewrite Hg. apply existsb_exists. exists code. split; [exact Hin | apply N.eqb_refl].
Qed.

Lemma signed_data_parses p s payload :
  validate_signer s = true -> (exists a, sg_alg s = Some a /\ In a (pp_sig_algs p)) -> signer_output_ok s payload ->
  forall jws, sign_model s payload = Some jws ->
  jws = compact (sg_header_json s) payload (sg_sig s) /\
  forall sv, sv_compact sv = jws -> sv_hdr sv = built_hdr s -> sv_hdr_names sv = sg_hdr_names s -> sv_alg sv = sg_alg s ->
  parse_signed_data p sv = true.
Proof.
  intros Hv (a & Ha & Hin) (Hh & Hp & Hs) jws Hj. unfold sign_model in Hj. rewrite Ha in Hj.
  destruct (is_empty a) eqn:Ea; [discriminate|]. destruct (sg_sign_ok s); [|discriminate]. cbn [negb] in Hj.
  inversion Hj; subst jws. split; [reflexivity|]. intros sv Hc Hhd Hn Hal.
  unfold parse_signed_data. rewrite Hc, Hhd, Hn, Hal, Ha.
  rewrite (is_empty_false _ (compact_nonempty _ _ _)).
  rewrite compact_parses by (try assumption; reflexivity).
  rewrite Ea. cbn [negb andb].
  unfold validate_signer in Hv. rewrite Ha in Hv. apply andb_true_iff in Hv. destruct Hv as [_ Hv].
  apply andb_true_iff in Hv. destruct Hv as [_ Hv]. rewrite Hv. cbn [andb]. apply bmem_In. exact Hin.
Qed.

Lemma signing_key_validates p k : jwk_validate k = true -> In (jv_crv k) (pp_key_algs p) -> validate_nonce p (jv_nonce k) = true ->
  validate_signing_key p k = true.
Proof.
  intros Hv Hc Hn. unfold validate_signing_key. unfold jwk_validate in Hv. rewrite Hv. cbn [andb].
  rewrite (proj2 (bmem_In _ _) Hc), Hn. reflexivity.
Qed.

Lemma eqs_update_create : eqs (bytes_of_string "update") "create" = false. Proof. reflexivity. Qed.
Lemma eqs_update_update : eqs (bytes_of_string "update") "update" = true. Proof. reflexivity. Qed.
Lemma eqs_recover_create : eqs (bytes_of_string "recover") "create" = false. Proof. reflexivity. Qed.
Lemma eqs_recover_update : eqs (bytes_of_string "recover") "update" = false. Proof. reflexivity. Qed.
Lemma eqs_recover_deactivate : eqs (bytes_of_string "recover") "deactivate" = false. Proof. reflexivity. Qed.
Lemma eqs_recover_recover : eqs (bytes_of_string "recover") "recover" = true. Proof. reflexivity. Qed.
Lemma eqs_deactivate_create : eqs (bytes_of_string "deactivate") "create" = false. Proof. reflexivity. Qed.
Lemma eqs_deactivate_update : eqs (bytes_of_string "deactivate") "update" = false. Proof. reflexivity. Qed.
Lemma eqs_deactivate_deactivate : eqs (bytes_of_string "deactivate") "deactivate" = true. Proof. reflexivity. Qed.
Lemma eqs_create_create : eqs (bytes_of_string "create") "create" = true. Proof. reflexivity. Qed.

Lemma size_ok (l m : Z) : l <= m -> (l >? m) = false.
Proof. intros H. rewrite Z.gtb_ltb. apply Z.ltb_ge. exact H. Qed.

Lemma builder_commitment_parser k code next :
  builder_validate_commitment k code next = true -> get_multihash_code next = Some code -> validate_commitment k next = true.
Proof. unfold builder_validate_commitment, validate_commitment. intros H Hc. rewrite Hc. exact H. Qed.

(* ---------------- update ---------------- *)
Theorem built_update_accepted p i v batch time_ok :
  build_update i = Some v ->
  protocol_enables p (ui_code i) (ui_signer i) (ui_key i) ->
  (* valid caller inputs *)
  reveal_matches (ui_key i) (ui_reveal i) = true -> validate_multihash p (ui_reveal i) = true ->
  validate_delta p (ui_delta i) = true ->
  get_multihash_code (dv_update_commitment (ui_delta i)) = Some (ui_code i) ->
  (forall dh, calculate_model_multihash (dv_canonical (ui_delta i)) (ui_code i) = Some dh -> blen dh <= pp_max_hash_len p) ->
  ui_len i <= pp_max_op_size p ->
  signer_output_ok (ui_signer i) (ui_payload i) ->
  (batch = true \/ time_ok = true) ->
  parse_operation p batch time_ok v = Some {| po_ty := Update; po_suffix := ui_suffix i; po_reveal := ui_reveal i |}
  /\ rv_delta v = ui_delta i /\ sv_key (rv_signed v) = ui_key i
  /\ sv_from (rv_signed v) = ui_from i /\ sv_until (rv_signed v) = ui_until i
  /\ is_valid_model_multihash (dv_canonical (rv_delta v)) (sv_delta_hash (rv_signed v)) = true.
Proof.
  intros Hb (Hcode & Halg & Hcrv & Hnonce) Hrev Hrmh Hdelta Hnc Hlen Hsize Hsig Hmode.
  unfold build_update in Hb.
  destruct (is_empty (ui_suffix i)) eqn:Es; [discriminate|].
  destruct (is_empty (ui_reveal i)) eqn:Er; [discriminate|].
  destruct (dv_actions (ui_delta i)) as [|a0 ar] eqn:Eacts; [discriminate|].
  destruct (jwk_validate (ui_key i)) eqn:Ek; [|discriminate].
  destruct (validate_signer (ui_signer i)) eqn:Evs; [|discriminate]. cbn [negb] in Hb.
  destruct (calculate_model_multihash (dv_canonical (ui_delta i)) (ui_code i)) as [dh|] eqn:Edh; [|discriminate].
  destruct (builder_validate_commitment (ui_key i) (ui_code i) (dv_update_commitment (ui_delta i))) eqn:Ebc; [|discriminate].
  cbn [negb] in Hb.
  destruct (sign_model (ui_signer i) (ui_payload i)) as [jws|] eqn:Ej; [|discriminate].
  inversion Hb; subst v; clear Hb. cbn [rv_delta rv_signed sv_key sv_from sv_until sv_delta_hash].
  destruct (signed_data_parses p _ _ Evs Halg Hsig _ Ej) as [Hjws Hpsd].
  split; [|repeat split; try reflexivity; eapply calculated_multihash_is_valid; exact Edh].
  unfold parse_operation. cbn [rv_len rv_schema_ok rv_type]. rewrite (size_ok _ _ Hsize). cbn [negb].
  rewrite eqs_update_create, eqs_update_update.
  unfold parse_update. cbn [rv_struct_ok rv_signed negb].
  unfold validate_request_fields. cbn [rv_did_suffix rv_signed_data rv_reveal]. rewrite Es.
  assert (Hne : is_empty jws = false) by (rewrite Hjws; apply is_empty_false, compact_nonempty).
  rewrite Hne, Hrmh. cbn [negb andb].
  rewrite Hpsd by reflexivity. cbn [negb sv_model_ok sv_key sv_delta_hash].
  rewrite (signing_key_validates p _ Ek Hcrv Hnonce). cbn [negb].
  rewrite (computed_hash_validates p _ _ _ Edh Hcode (Hlen _ eq_refl)). cbn [negb].
  cbn [rv_delta rv_reveal rv_did_suffix]. rewrite Hdelta, (builder_commitment_parser _ _ _ Ebc Hnc), Hrev.
  destruct Hmode as [-> | ->]; [reflexivity | destruct batch; reflexivity].
Qed.

(* ---------------- recover ---------------- *)
Theorem built_recover_accepted p i v batch time_ok :
  build_recover i = Some v ->
  protocol_enables p (ri_code i) (ri_signer i) (ri_key i) ->
  reveal_matches (ri_key i) (ri_reveal i) = true -> validate_multihash p (ri_reveal i) = true ->
  validate_delta p (ri_delta i) = true ->
  validate_multihash p (ri_recovery_commitment i) = true ->
  get_multihash_code (ri_recovery_commitment i) = Some (ri_code i) ->
  dv_update_commitment (ri_delta i) <> ri_recovery_commitment i ->
  ri_origin_ok i = true ->
  (forall dh, calculate_model_multihash (dv_canonical (ri_delta i)) (ri_code i) = Some dh -> blen dh <= pp_max_hash_len p) ->
  ri_len i <= pp_max_op_size p ->
  signer_output_ok (ri_signer i) (ri_payload i) ->
  (batch = true \/ time_ok = true) ->
  parse_operation p batch time_ok v = Some {| po_ty := Recover; po_suffix := ri_suffix i; po_reveal := ri_reveal i |}
  /\ rv_delta v = ri_delta i /\ sv_key (rv_signed v) = ri_key i
  /\ sv_recovery_commitment (rv_signed v) = ri_recovery_commitment i
  /\ sv_from (rv_signed v) = ri_from i /\ sv_until (rv_signed v) = ri_until i
  /\ is_valid_model_multihash (dv_canonical (rv_delta v)) (sv_delta_hash (rv_signed v)) = true.
Proof.
  intros Hb (Hcode & Halg & Hcrv & Hnonce) Hrev Hrmh Hdelta Hrc Hrcc Hneq Horigin Hlen Hsize Hsig Hmode.
  unfold build_recover in Hb.
  destruct (is_empty (ri_suffix i)) eqn:Es; [discriminate|].
  destruct (is_empty (ri_reveal i)) eqn:Er; [discriminate|].
  destruct (patches_supplied (ri_patches i)); [|discriminate].
  destruct (validate_signer (ri_signer i)) eqn:Evs; [|discriminate].
  destruct (jwk_validate (ri_key i)) eqn:Ek; [|discriminate]. cbn [negb] in Hb.
  destruct (pi_opaque (ri_patches i) && negb (pi_from_doc_ok (ri_patches i))); [discriminate|].
  destruct (calculate_model_multihash (dv_canonical (ri_delta i)) (ri_code i)) as [dh|] eqn:Edh; [|discriminate].
  destruct (builder_validate_commitment (ri_key i) (ri_code i) (ri_recovery_commitment i)) eqn:Ebc; [|discriminate].
  cbn [negb] in Hb.
  destruct (sign_model (ri_signer i) (ri_payload i)) as [jws|] eqn:Ej; [|discriminate].
  inversion Hb; subst v; clear Hb. cbn [rv_delta rv_signed sv_key sv_from sv_until sv_delta_hash sv_recovery_commitment].
  destruct (signed_data_parses p _ _ Evs Halg Hsig _ Ej) as [Hjws Hpsd].
  split; [|repeat split; try reflexivity; eapply calculated_multihash_is_valid; exact Edh].
  unfold parse_operation. cbn [rv_len rv_schema_ok rv_type]. rewrite (size_ok _ _ Hsize). cbn [negb].
  rewrite eqs_recover_create, eqs_recover_update, eqs_recover_deactivate, eqs_recover_recover.
  unfold parse_recover. cbn [rv_struct_ok rv_signed negb].
  unfold validate_request_fields. cbn [rv_did_suffix rv_signed_data rv_reveal]. rewrite Es.
  assert (Hne : is_empty jws = false) by (rewrite Hjws; apply is_empty_false, compact_nonempty).
  rewrite Hne, Hrmh. cbn [negb andb].
  rewrite Hpsd by reflexivity. cbn [negb sv_model_ok sv_key sv_delta_hash sv_recovery_commitment sv_origin_ok].
  rewrite (signing_key_validates p _ Ek Hcrv Hnonce). cbn [negb].
  rewrite Hrc. cbn [negb].
  rewrite (computed_hash_validates p _ _ _ Edh Hcode (Hlen _ eq_refl)). cbn [negb].
  rewrite (builder_commitment_parser _ _ _ Ebc Hrcc). cbn [negb].
  cbn [rv_delta rv_reveal rv_did_suffix]. rewrite Hdelta, Horigin, Hrev.
  assert (Hnb : bytes_eqb (dv_update_commitment (ri_delta i)) (ri_recovery_commitment i) = false).
  { destruct (bytes_eqb _ _) eqn:E; [apply bytes_eqb_eq in E; congruence | reflexivity]. }
  rewrite Hnb. destruct Hmode as [-> | ->]; [reflexivity | destruct batch; reflexivity].
Qed.

(* ---------------- deactivate ---------------- *)
Theorem built_deactivate_accepted p i v batch time_ok :
  build_deactivate i = Some v ->
  (exists a, sg_alg (di_signer i) = Some a /\ In a (pp_sig_algs p)) ->
  jwk_validate (di_key i) = true -> In (jv_crv (di_key i)) (pp_key_algs p) -> validate_nonce p (jv_nonce (di_key i)) = true ->
  reveal_matches (di_key i) (di_reveal i) = true -> validate_multihash p (di_reveal i) = true ->
  di_len i <= pp_max_op_size p ->
  signer_output_ok (di_signer i) (di_payload i) ->
  (batch = true \/ time_ok = true) ->
  parse_operation p batch time_ok v = Some {| po_ty := Deactivate; po_suffix := di_suffix i; po_reveal := di_reveal i |}
  /\ sv_key (rv_signed v) = di_key i /\ sv_did_suffix (rv_signed v) = di_suffix i
  /\ sv_from (rv_signed v) = di_from i /\ sv_until (rv_signed v) = di_until i.
Proof.
  intros Hb Halg Ek Hcrv Hnonce Hrev Hrmh Hsize Hsig Hmode.
  unfold build_deactivate in Hb.
  destruct (is_empty (di_suffix i)) eqn:Es; [discriminate|].
  destruct (is_empty (di_reveal i)) eqn:Er; [discriminate|].
  destruct (validate_signer (di_signer i)) eqn:Evs; [|discriminate]. cbn [negb] in Hb.
  destruct (sign_model (di_signer i) (di_payload i)) as [jws|] eqn:Ej; [|discriminate].
  inversion Hb; subst v; clear Hb. cbn [rv_signed sv_key sv_from sv_until sv_did_suffix].
  destruct (signed_data_parses p _ _ Evs Halg Hsig _ Ej) as [Hjws Hpsd].
  split; [|repeat split; reflexivity].
  unfold parse_operation. cbn [rv_len rv_schema_ok rv_type]. rewrite (size_ok _ _ Hsize). cbn [negb].
  rewrite eqs_deactivate_create, eqs_deactivate_update, eqs_deactivate_deactivate.
  unfold parse_deactivate. cbn [rv_struct_ok rv_signed negb].
  unfold validate_request_fields. cbn [rv_did_suffix rv_signed_data rv_reveal]. rewrite Es.
  assert (Hne : is_empty jws = false) by (rewrite Hjws; apply is_empty_false, compact_nonempty).
  rewrite Hne, Hrmh. cbn [negb andb].
  rewrite Hpsd by reflexivity. cbn [negb sv_model_ok sv_key sv_did_suffix].
  rewrite (signing_key_validates p _ Ek Hcrv Hnonce). cbn [negb].
  rewrite bytes_eqb_refl, Hrev. cbn [negb].
  destruct Hmode as [-> | ->]; [reflexivity | destruct batch; reflexivity].
Qed.

(* ---------------- create ---------------- *)
Theorem built_create_accepted p i v batch :
  build_create i = Some v ->
  pp_hash_algs p = [ci_code i] \/ (exists r, pp_hash_algs p = ci_code i :: r) ->
  validate_delta p (ci_delta i) = true ->
  blen (ci_recovery_commitment i) <= pp_max_hash_len p ->
  ci_origin_ok i = true ->
  (forall dh, calculate_model_multihash (dv_canonical (ci_delta i)) (ci_code i) = Some dh -> blen dh <= pp_max_hash_len p) ->
  ci_len i <= pp_max_op_size p ->
  exists dh sfx,
    calculate_model_multihash (dv_canonical (ci_delta i)) (ci_code i) = Some dh /\
    calculate_model_multihash (ci_suffix_canonical i dh) (ci_code i) = Some sfx /\
    parse_operation p batch true v = Some {| po_ty := Create; po_suffix := sfx; po_reveal := [] |}
    /\ rv_delta v = ci_delta i /\ sf_recovery_commitment (rv_suffix v) = ci_recovery_commitment i
    /\ is_valid_model_multihash (dv_canonical (rv_delta v)) (sf_delta_hash (rv_suffix v)) = true.
Proof.
  intros Hb Halgs Hdelta Hrl Horigin Hlen Hsize.
  assert (Hin : In (ci_code i) (pp_hash_algs p)).
  { destruct Halgs as [-> | (r & ->)]; left; reflexivity. }
  unfold build_create in Hb.
  destruct (patches_supplied (ci_patches i)); [|discriminate].
  destruct (ci_code_known i); [|discriminate]. cbn [negb] in Hb.
  destruct (is_computed_using (ci_recovery_commitment i) [ci_code i]) eqn:Erc; [|discriminate].
  destruct (is_computed_using (dv_update_commitment (ci_delta i)) [ci_code i]) eqn:Euc; [|discriminate]. cbn [negb] in Hb.
  destruct (bytes_eqb (ci_recovery_commitment i) (dv_update_commitment (ci_delta i))) eqn:Eeq; [discriminate|].
  destruct (pi_opaque (ci_patches i) && negb (pi_from_doc_ok (ci_patches i))); [discriminate|].
  destruct (calculate_model_multihash (dv_canonical (ci_delta i)) (ci_code i)) as [dh|] eqn:Edh; [|discriminate].
  inversion Hb; subst v; clear Hb.
  (* the suffix hash exists because the code is supported (it hashed the delta) *)
  assert (Hsfx : exists sfx, calculate_model_multihash (ci_suffix_canonical i dh) (ci_code i) = Some sfx).
  { unfold calculate_model_multihash, compute_multihash in *. destruct (hash_of_code (ci_code i)); [eexists; reflexivity | discriminate]. }
  destruct Hsfx as (sfx & Hsfx). exists dh, sfx. split; [reflexivity|]. split; [exact Hsfx|].
  cbn [rv_delta rv_suffix sf_recovery_commitment sf_delta_hash].
  split; [|repeat split; try reflexivity; eapply calculated_multihash_is_valid; exact Edh].
  unfold parse_operation. cbn [rv_len rv_schema_ok rv_type]. rewrite (size_ok _ _ Hsize). cbn [negb].
  rewrite eqs_create_create. unfold parse_create. cbn [rv_struct_ok rv_suffix rv_delta negb].
  unfold validate_suffix_data. cbn [sf_present sf_recovery_commitment sf_delta_hash sf_origin_ok sf_canonical].
  assert (Hrcv : validate_multihash p (ci_recovery_commitment i) = true).
  { unfold validate_multihash. rewrite (size_ok _ _ Hrl).
    unfold is_computed_using in *. destruct (get_multihash_code (ci_recovery_commitment i)) as [c|]; [|discriminate].
    cbn [existsb] in Erc. rewrite orb_false_r in Erc. apply N.eqb_eq in Erc. subst c.
    apply existsb_exists. exists (ci_code i). split; [exact Hin | apply N.eqb_refl]. }
  rewrite Hrcv, (computed_hash_validates p _ _ _ Edh Hin (Hlen _ eq_refl)). cbn [andb negb].
  rewrite Horigin, Hdelta, (calculated_multihash_is_valid _ _ _ Edh). cbn [andb].
  assert (Hne : bytes_eqb (dv_update_commitment (ci_delta i)) (ci_recovery_commitment i) = false).
  { destruct (bytes_eqb (dv_update_commitment (ci_delta i)) (ci_recovery_commitment i)) eqn:E; [|reflexivity].
    apply bytes_eqb_eq in E. rewrite E, bytes_eqb_refl in Eeq. discriminate. }
  rewrite Hne. cbn [negb andb]. rewrite andb_false_r.
  unfold unique_suffix. destruct Halgs as [-> | (r & ->)]; rewrite Hsfx; reflexivity.
Qed.

(* ---------------- facts resolution relies on ---------------- *)

(* the reveal value a caller derives from the signing key commits to the key's commitment *)
Theorem built_reveal_links_commitment k code rv :
  get_reveal_value (jv_canonical k) code = Some rv ->
  reveal_matches k rv = true /\ commitment_from_reveal rv = get_commitment (jv_canonical k) code.
Proof.
  intros H. split.
  - unfold reveal_matches. eapply calculated_multihash_is_valid. exact H.
  - apply commitment_is_hash_of_reveal. exact H.
Qed.

(* the compact JWS a builder emits verifies under the key it was signed with, as soon as the
   primitive accepts the signature over the signing input ([crypto_ok] = true) *)
Theorem built_signature_verifies s payload jws k :
  validate_signer s = true -> signer_output_ok s payload -> sign_model s payload = Some jws ->
  jwk_decodes k = true ->
  (eqs (k_kty k) "EC" = true /\ exists n, ec_key_size (k_crv k) = Some n /\ Z.of_nat (length (sg_sig s)) = 2 * n)
  \/ (eqs (k_kty k) "EC" = false /\ eqs (k_kty k) "OKP" = true) ->
  verify_jws jws (built_hdr s) k true = true.
Proof.
  intros Hv (Hh & Hp & Hs) Hj Hd Hk. unfold sign_model in Hj.
  destruct (sg_alg s) as [a|]; [|discriminate]. destruct (is_empty a); [discriminate|].
  destruct (sg_sign_ok s); [|discriminate]. cbn [negb] in Hj. inversion Hj; subst jws.
  eapply sign_then_verify; try eassumption; try reflexivity.
Qed.
