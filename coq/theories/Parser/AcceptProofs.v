(* C10 / C12: what acceptance by the operation parser implies. *)
From Coq Require Import String List ZArith NArith Bool Lia.
From Coq.Strings Require Import Byte.
From SV Require Import Base.Bytes Hash.B64 Hash.Varint Hash.Multihash Hash.MultihashProofs Jws.Compact Resolve.Op
  Parser.Window Parser.Accept.
Import ListNotations.
Local Open Scope string_scope.
Local Open Scope list_scope.
Local Open Scope Z_scope.

Lemma bmem_In x l : bmem x l = true <-> In x l.
Proof.
  unfold bmem. rewrite existsb_exists. split.
  - intros (y & Hy & He). apply bytes_eqb_eq in He. subst. exact Hy.
  - intros H. exists x. split; [exact H | apply bytes_eqb_refl].
Qed.

(* a hash field that passed validation: within the length limit, well-formed multihash of an
   allowed algorithm *)
Definition hash_field_ok (p : pproto) (mh : bytes) : Prop :=
  blen mh <= pp_max_hash_len p /\
  exists code digest, get_multihash mh = Some (code, digest) /\ In code (pp_hash_algs p).

Lemma validate_multihash_ok p mh : validate_multihash p mh = true -> hash_field_ok p mh.
Proof.
  unfold validate_multihash, hash_field_ok. destruct (blen mh >? pp_max_hash_len p) eqn:E; [discriminate|].
  rewrite Z.gtb_ltb in E. apply Z.ltb_ge in E. intros H. split; [exact E|].
  unfold is_computed_using, get_multihash_code in H. destruct (get_multihash mh) as [[code digest]|]; [|discriminate].
  apply existsb_exists in H. destruct H as (c & Hc & He). apply N.eqb_eq in He. subst. exists c, digest. auto.
Qed.

Lemma validate_multihash_limit_exact p mh :
  validate_multihash p mh = true -> blen mh <= pp_max_hash_len p.
Proof. intros H. apply validate_multihash_ok in H. apply H. Qed.

Lemma over_long_hash_rejected p mh : blen mh > pp_max_hash_len p -> validate_multihash p mh = false.
Proof. intros H. unfold validate_multihash. destruct (blen mh >? pp_max_hash_len p) eqn:E; [reflexivity|]. rewrite Z.gtb_ltb in E. apply Z.ltb_ge in E. lia. Qed.

(* a delta that passed validation *)
Definition delta_ok (p : pproto) (d : delta_view) : Prop :=
  dv_present d = true /\ dv_actions d <> [] /\
  blen (dv_canonical d) <= pp_max_delta_size p /\
  hash_field_ok p (dv_update_commitment d) /\
  Forall (fun a => exists x, a = Some x /\ In x (pp_patches p)) (dv_actions d) /\
  (length (dv_actions d) <= length (dv_patch_valid d))%nat /\
  Forall (fun b => b = true) (firstn (length (dv_actions d)) (dv_patch_valid d)).

Lemma patches_ok_spec p acts : forall valid,
  patches_ok p acts valid = true ->
  Forall (fun a => exists x, a = Some x /\ In x (pp_patches p)) acts /\
  (length acts <= length valid)%nat /\ Forall (fun b => b = true) (firstn (length acts) valid).
Proof.
  induction acts as [|a r IH]; intros valid H; cbn [patches_ok] in H.
  - repeat split; [constructor | cbn; lia | constructor].
  - destruct valid as [|v vr]; [discriminate|].
    apply andb_true_iff in H. destruct H as [H Hr]. apply andb_true_iff in H. destruct H as [Ha Hv].
    destruct (IH vr Hr) as (H1 & H2 & H3). repeat split.
    + constructor; [|exact H1]. unfold action_enabled in Ha. destruct a as [x|]; [|discriminate].
      exists x. split; [reflexivity | apply bmem_In; exact Ha].
    + cbn. lia.
    + cbn [length firstn]. constructor; assumption.
Qed.

Lemma validate_delta_ok p d : validate_delta p d = true -> delta_ok p d.
Proof.
  unfold validate_delta, delta_ok. destruct (dv_present d); cbn [negb]; [|discriminate].
  destruct (dv_actions d) as [|a r] eqn:Ea; [discriminate|]. intros H.
  apply andb_true_iff in H. destruct H as [H Hs]. apply andb_true_iff in H. destruct H as [Hp Hm].
  apply negb_true_iff in Hs. rewrite Z.gtb_ltb in Hs. apply Z.ltb_ge in Hs.
  destruct (patches_ok_spec _ _ _ Hp) as (H1 & H2 & H3).
  split; [reflexivity|]. split; [discriminate|]. split; [exact Hs|]. split; [apply validate_multihash_ok; exact Hm|]. auto.
Qed.

Lemma oversize_delta_rejected p d : blen (dv_canonical d) > pp_max_delta_size p -> validate_delta p d = false.
Proof.
  intros H. unfold validate_delta. destruct (dv_present d); cbn [negb]; [|reflexivity].
  destruct (dv_actions d); [reflexivity|].
  assert (E : blen (dv_canonical d) >? pp_max_delta_size p = true) by (rewrite Z.gtb_ltb; apply Z.ltb_lt; lia).
  rewrite E. cbn [negb]. apply andb_false_r.
Qed.

(* signing key and protected header rules *)
Definition nonce_ok (p : pproto) (nonce : bytes) : Prop :=
  nonce = [] \/ exists b, b64_decode nonce = Some b /\ blen b = pp_nonce_size p.

Definition key_ok (p : pproto) (k : jwk_view) : Prop :=
  jv_present k = true /\ jv_crv k <> [] /\ jv_kty k <> [] /\ jv_x k <> [] /\
  In (jv_crv k) (pp_key_algs p) /\ nonce_ok p (jv_nonce k).

Lemma validate_signing_key_ok p k : validate_signing_key p k = true -> key_ok p k.
Proof.
  unfold validate_signing_key, key_ok. intros H.
  repeat (apply andb_true_iff in H; destruct H as [H ?]).
  repeat split; try assumption.
  - destruct (jv_crv k); [discriminate | discriminate].
  - destruct (jv_kty k); [discriminate | discriminate].
  - destruct (jv_x k); [discriminate | discriminate].
  - apply bmem_In. assumption.
  - unfold validate_nonce in *. unfold nonce_ok. destruct (jv_nonce k) as [|n0 nr] eqn:En; [left; reflexivity|].
    right. cbn [is_empty] in *. destruct (b64_decode (n0 :: nr)) as [b|]; [|discriminate].
    exists b. split; [reflexivity | apply Z.eqb_eq; assumption].
Qed.

Definition signed_header_ok (p : pproto) (s : signed_view) : Prop :=
  sv_compact s <> [] /\ parse_compact (sv_compact s) (sv_hdr s) <> None /\
  exists a, sv_alg s = Some a /\ a <> [] /\ In a (pp_sig_algs p) /\
            Forall (fun n => allowed_header n = true) (sv_hdr_names s).

Lemma parse_signed_data_ok p s : parse_signed_data p s = true -> signed_header_ok p s.
Proof.
  unfold parse_signed_data, signed_header_ok. destruct (sv_compact s) as [|c0 cr] eqn:Ec; [discriminate|]. cbn [is_empty].
  destruct (parse_compact (c0 :: cr) (sv_hdr s)) as [x|]; [|discriminate].
  destruct (sv_alg s) as [a|]; [|discriminate]. intros H.
  apply andb_true_iff in H. destruct H as [H Hm]. apply andb_true_iff in H. destruct H as [He Hf].
  split; [discriminate|]. split; [discriminate|]. exists a. repeat split.
  - destruct a; [discriminate | discriminate].
  - apply bmem_In. exact Hm.
  - apply Forall_forall. apply forallb_forall. exact Hf.
Qed.

(* the reveal value is the hash of the signing key *)
Lemma reveal_matches_spec k reveal :
  reveal_matches k reveal = true ->
  exists code, get_multihash_code reveal = Some code /\ calculate_model_multihash (jv_canonical k) code = Some reveal.
Proof. unfold reveal_matches. apply valid_iff_is_hash. Qed.

(* no re-commit to the revealed key *)
Lemma validate_commitment_spec k next :
  validate_commitment k next = true ->
  exists code c, get_multihash_code next = Some code /\ get_commitment (jv_canonical k) code = Some c /\ c <> next.
Proof.
  unfold validate_commitment. destruct (get_multihash_code next) as [code|]; [|discriminate].
  destruct (get_commitment (jv_canonical k) code) as [c|] eqn:Ec; [|discriminate]. intros H.
  exists code, c. split; [reflexivity|]. split; [exact Ec|]. intros Heq. subst. rewrite bytes_eqb_refl in H. discriminate.
Qed.

(* -- MAIN: acceptance at intake implies every rule and limit -- *)
Definition signed_rules (p : pproto) (v : req_view) : Prop :=
  rv_did_suffix v <> [] /\ hash_field_ok p (rv_reveal v) /\
  signed_header_ok p (rv_signed v) /\ sv_model_ok (rv_signed v) = true /\
  key_ok p (sv_key (rv_signed v)) /\
  exists code, get_multihash_code (rv_reveal v) = Some code /\
               calculate_model_multihash (jv_canonical (sv_key (rv_signed v))) code = Some (rv_reveal v).

Lemma request_fields_ok p v : validate_request_fields p v = true -> rv_did_suffix v <> [] /\ hash_field_ok p (rv_reveal v).
Proof.
  unfold validate_request_fields. intros H. apply andb_true_iff in H. destruct H as [H Hm].
  apply andb_true_iff in H. destruct H as [Hd _]. split; [destruct (rv_did_suffix v); discriminate | apply validate_multihash_ok; exact Hm].
Qed.

Ltac peel H := match type of H with
  | (if negb ?b then None else _) = Some _ => destruct b eqn:?; cbn [negb] in H; [|discriminate]
  end.

Ltac solve_signed_rules :=
  match goal with
  | Hf : validate_request_fields ?p ?v = true |- signed_rules ?p ?v =>
    destruct (request_fields_ok _ _ Hf) as [Hsfx Hrev];
    unfold signed_rules; split; [exact Hsfx|]; split; [exact Hrev|];
    split; [apply parse_signed_data_ok; assumption|]; split; [assumption|];
    split; [apply validate_signing_key_ok; assumption|]; apply reveal_matches_spec; assumption
  end.

Theorem update_accept_implies_rules p t v o :
  parse_update p false t v = Some o ->
  signed_rules p v /\ t = true /\ delta_ok p (rv_delta v) /\ hash_field_ok p (sv_delta_hash (rv_signed v)) /\
  (exists code c, get_multihash_code (dv_update_commitment (rv_delta v)) = Some code /\
                  get_commitment (jv_canonical (sv_key (rv_signed v))) code = Some c /\
                  c <> dv_update_commitment (rv_delta v)) /\
  po_ty o = Update /\ po_suffix o = rv_did_suffix v.
Proof.
  unfold parse_update. intros H. repeat peel H.
  match type of H with (if ?c then None else _) = _ => destruct c eqn:Eb; [discriminate|] end.
  peel H. inversion H; subst. cbn [negb andb] in Eb. apply negb_false_iff in Eb.
  apply andb_true_iff in Eb. destruct Eb as [Eb Hc]. apply andb_true_iff in Eb. destruct Eb as [Ht Hd].
  split; [solve_signed_rules|]. split; [exact Ht|]. split; [apply validate_delta_ok; exact Hd|].
  split; [apply validate_multihash_ok; assumption|]. split; [apply validate_commitment_spec; exact Hc | auto].
Qed.

Theorem recover_accept_implies_rules p t v o :
  parse_recover p false t v = Some o ->
  signed_rules p v /\ t = true /\ sv_origin_ok (rv_signed v) = true /\ delta_ok p (rv_delta v) /\
  hash_field_ok p (sv_delta_hash (rv_signed v)) /\ hash_field_ok p (sv_recovery_commitment (rv_signed v)) /\
  (exists code c, get_multihash_code (sv_recovery_commitment (rv_signed v)) = Some code /\
                  get_commitment (jv_canonical (sv_key (rv_signed v))) code = Some c /\
                  c <> sv_recovery_commitment (rv_signed v)) /\
  dv_update_commitment (rv_delta v) <> sv_recovery_commitment (rv_signed v) /\
  po_ty o = Recover /\ po_suffix o = rv_did_suffix v.
Proof.
  unfold parse_recover. intros H. repeat peel H.
  match type of H with (if ?c then None else _) = _ => destruct c eqn:Eb; [discriminate|] end.
  peel H. inversion H; subst. cbn [negb andb] in Eb. apply negb_false_iff in Eb.
  apply andb_true_iff in Eb. destruct Eb as [Eb Hne]. apply andb_true_iff in Eb. destruct Eb as [Eb Hd].
  apply andb_true_iff in Eb. destruct Eb as [Ho Ht].
  split; [solve_signed_rules|].
  split; [exact Ht|]. split; [exact Ho|]. split; [apply validate_delta_ok; exact Hd|].
  split; [apply validate_multihash_ok; assumption|]. split; [apply validate_multihash_ok; assumption|].
  split; [apply validate_commitment_spec; assumption|].
  split; [|auto]. apply negb_true_iff in Hne. intros Heq. rewrite Heq, bytes_eqb_refl in Hne. discriminate.
Qed.

Theorem deactivate_accept_implies_rules p t v o :
  parse_deactivate p false t v = Some o ->
  signed_rules p v /\ t = true /\ sv_did_suffix (rv_signed v) = rv_did_suffix v /\
  po_ty o = Deactivate /\ po_suffix o = rv_did_suffix v.
Proof.
  unfold parse_deactivate. intros H. repeat peel H.
  match type of H with (if ?c then None else _) = _ => destruct c eqn:Eb; [discriminate|] end.
  inversion H; subst. cbn [negb andb] in Eb. apply negb_false_iff in Eb.
  split; [solve_signed_rules|].
  split; [exact Eb|]. split; [apply bytes_eqb_eq; assumption | auto].
Qed.

Theorem create_accept_implies_rules p v o :
  parse_create p false v = Some o ->
  sf_present (rv_suffix v) = true /\ hash_field_ok p (sf_recovery_commitment (rv_suffix v)) /\
  hash_field_ok p (sf_delta_hash (rv_suffix v)) /\ sf_origin_ok (rv_suffix v) = true /\
  delta_ok p (rv_delta v) /\
  is_valid_model_multihash (dv_canonical (rv_delta v)) (sf_delta_hash (rv_suffix v)) = true /\
  dv_update_commitment (rv_delta v) <> sf_recovery_commitment (rv_suffix v) /\
  po_ty o = Create /\ unique_suffix (sf_canonical (rv_suffix v)) (pp_hash_algs p) = Some (po_suffix o).
Proof.
  unfold parse_create. intros H. repeat peel H.
  match type of H with (if ?c then None else _) = _ => destruct c eqn:Eb; [discriminate|] end.
  destruct (unique_suffix (sf_canonical (rv_suffix v)) (pp_hash_algs p)) as [s|] eqn:Eu; [|discriminate].
  inversion H; subst. cbn [negb andb] in Eb. apply negb_false_iff in Eb.
  apply andb_true_iff in Eb. destruct Eb as [Eb Hne]. apply andb_true_iff in Eb. destruct Eb as [Eb Hh].
  apply andb_true_iff in Eb. destruct Eb as [Ho Hd].
  unfold validate_suffix_data in Heqb0. apply andb_true_iff in Heqb0. destruct Heqb0 as [Hx Hdh].
  apply andb_true_iff in Hx. destruct Hx as [Hp Hrc].
  split; [exact Hp|]. split; [apply validate_multihash_ok; exact Hrc|]. split; [apply validate_multihash_ok; exact Hdh|].
  split; [exact Ho|]. split; [apply validate_delta_ok; exact Hd|]. split; [exact Hh|].
  split; [apply negb_true_iff in Hne; intros Heq; rewrite Heq, bytes_eqb_refl in Hne; discriminate | auto].
Qed.

(* the size gate comes first, for every type and every mode *)
Theorem oversize_request_rejected p b t v : rv_len v > pp_max_op_size p -> parse_operation p b t v = None.
Proof.
  intros H. unfold parse_operation.
  assert (E : rv_len v >? pp_max_op_size p = true) by (rewrite Z.gtb_ltb; apply Z.ltb_lt; lia). rewrite E. reflexivity.
Qed.

Theorem accepted_request_within_size p b t v o : parse_operation p b t v = Some o -> rv_len v <= pp_max_op_size p.
Proof.
  unfold parse_operation. destruct (rv_len v >? pp_max_op_size p) eqn:E; [discriminate|].
  rewrite Z.gtb_ltb in E. apply Z.ltb_ge in E. intros _. exact E.
Qed.

Theorem parse_operation_dispatch p b t v o :
  parse_operation p b t v = Some o ->
  rv_schema_ok v = true /\
  ((eqs (rv_type v) "create" = true /\ parse_create p b v = Some o) \/
   (eqs (rv_type v) "update" = true /\ parse_update p b t v = Some o) \/
   (eqs (rv_type v) "deactivate" = true /\ parse_deactivate p b t v = Some o) \/
   (eqs (rv_type v) "recover" = true /\ parse_recover p b t v = Some o)).
Proof.
  unfold parse_operation. destruct (rv_len v >? pp_max_op_size p); [discriminate|].
  destruct (rv_schema_ok v); cbn [negb]; [|discriminate]. intros H. split; [reflexivity|].
  destruct (eqs (rv_type v) "create"); [left; auto|].
  destruct (eqs (rv_type v) "update"); [right; left; auto|].
  destruct (eqs (rv_type v) "deactivate"); [right; right; left; auto|].
  destruct (eqs (rv_type v) "recover"); [right; right; right; auto | discriminate].
Qed.
