(* C08: a long-form DID resolves only if its initial state is canonically encoded, its suffix is the
   hash of the embedded suffix data and the embedded delta matches the delta hash. *)
From Coq Require Import String List ZArith NArith Bool.
From Coq.Strings Require Import Byte.
From SV Require Import Base.Bytes Hash.B64 Hash.Multihash Hash.MultihashProofs Jws.Compact Resolve.Op
  Parser.Accept Parser.AcceptProofs Parser.LongForm.
Import ListNotations.
Local Open Scope string_scope.
Local Open Scope list_scope.

Theorem longform_accept_characterised p v sfx :
  resolve_long_form p v = LAccept sfx ->
  exists did seg o,
    split_last_colon_go (lf_did v) = Some (did, seg) /\
    (* canonically encoded *)
    seg = b64_encode (lf_reencoded v) /\
    parse_operation p false true (lf_request v) = Some o /\ po_suffix o = sfx /\
    (* suffix of the DID = suffix derived from the embedded suffix data *)
    short_suffix did = sfx.
Proof.
  unfold resolve_long_form. destruct (lf_has_state v); cbn [negb]; [|discriminate].
  destruct (split_last_colon_go (lf_did v)) as [[did seg]|] eqn:Es; [|discriminate].
  destruct (initial_state_ok seg v) eqn:Ei; cbn [negb]; [|discriminate].
  destruct (bytes_eqb (short_suffix did) []); [discriminate|].
  destruct (parse_operation p false true (lf_request v)) as [o|] eqn:Ep; [|discriminate].
  destruct (bytes_eqb (short_suffix did) (po_suffix o)) eqn:Eq; cbn [negb]; [|discriminate].
  destruct (lf_create_applies v); cbn [negb]; [|discriminate].
  intros H; inversion H; subst. exists did, seg, o. split; [reflexivity|].
  unfold initial_state_ok in Ei. destruct (b64_decode seg); [|discriminate].
  apply andb_true_iff in Ei. destruct Ei as [_ Ee]. apply bytes_eqb_eq in Ee. apply bytes_eqb_eq in Eq. auto.
Qed.

(* when the embedded request is a create: suffix and delta hash bind the content *)
Theorem longform_binds_content p v sfx :
  resolve_long_form p v = LAccept sfx -> eqs (rv_type (lf_request v)) "create" = true ->
  unique_suffix (sf_canonical (rv_suffix (lf_request v))) (pp_hash_algs p) = Some sfx /\
  is_valid_model_multihash (dv_canonical (rv_delta (lf_request v))) (sf_delta_hash (rv_suffix (lf_request v))) = true.
Proof.
  intros H Hty. destruct (longform_accept_characterised _ _ _ H) as (did & seg & o & _ & _ & Hp & Hs & _).
  destruct (parse_operation_dispatch _ _ _ _ _ Hp) as (_ & [[_ Hc]|[[Hu _]|[[Hd _]|[Hr _]]]]).
  - destruct (create_accept_implies_rules _ _ _ Hc) as (_ & _ & _ & _ & _ & Hh & _ & _ & Hu). subst. auto.
  - exfalso. unfold parse_operation in Hp. destruct (rv_len (lf_request v) >? pp_max_op_size p)%Z; [discriminate|].
    destruct (rv_schema_ok (lf_request v)); [|discriminate]. cbn [negb] in Hp. rewrite Hty in Hp.
    unfold eqs in *. apply bytes_eqb_eq in Hty, Hu. rewrite Hty in Hu. vm_compute in Hu. discriminate.
  - exfalso. unfold eqs in *. apply bytes_eqb_eq in Hty, Hd. rewrite Hty in Hd. vm_compute in Hd. discriminate.
  - exfalso. unfold eqs in *. apply bytes_eqb_eq in Hty, Hr. rewrite Hty in Hr. vm_compute in Hr. discriminate.
Qed.

(* a non-canonical encoding of the initial state is rejected *)
Theorem non_canonical_initial_state_rejected p v did seg :
  lf_has_state v = true -> split_last_colon_go (lf_did v) = Some (did, seg) ->
  seg <> b64_encode (lf_reencoded v) -> resolve_long_form p v = LReject.
Proof.
  intros Hs Hsp Hne. unfold resolve_long_form. rewrite Hs, Hsp. cbn [negb].
  unfold initial_state_ok. destruct (b64_decode seg); [|reflexivity].
  destruct (bytes_eqb (b64_encode (lf_reencoded v)) seg) eqn:E; [apply bytes_eqb_eq in E; congruence|].
  rewrite andb_false_r. reflexivity.
Qed.

(* two different delta contents accepted under the same suffix data give a hash collision *)
Theorem longform_delta_collision p v v' sfx sfx' :
  resolve_long_form p v = LAccept sfx -> resolve_long_form p v' = LAccept sfx' ->
  eqs (rv_type (lf_request v)) "create" = true -> eqs (rv_type (lf_request v')) "create" = true ->
  sf_delta_hash (rv_suffix (lf_request v)) = sf_delta_hash (rv_suffix (lf_request v')) ->
  exists h, (h = Sha2.sha256 \/ h = Sha2.sha512) /\
            h (dv_canonical (rv_delta (lf_request v))) = h (dv_canonical (rv_delta (lf_request v'))).
Proof.
  intros H1 H2 T1 T2 He.
  destruct (longform_binds_content _ _ _ H1 T1) as [_ V1]. destruct (longform_binds_content _ _ _ H2 T2) as [_ V2].
  rewrite <- He in V2. eapply valid_binds_content; eassumption.
Qed.
