(* Model of the client request builders (versions/1_0/client: NewCreateRequest, NewUpdateRequest,
   NewRecoverRequest, NewDeactivateRequest, with signutil.SignModel) - C11.  Definitions only.

   A builder is modelled as a function from the caller's inputs to the *view* (Parser/Accept.v) of
   the request it emits, or None when the builder returns an error.  What the model computes
   itself: every validation the builders perform, the delta hash, the key re-use check and the
   compact JWS framing.  Facts of lower layers, carried as inputs: canonical (JCS) forms of the
   structs involved (C07), the header JSON go-jose marshals, the signature bytes the caller's
   signer returns, the length of the emitted request, PatchesFromDocument's verdict (C17). *)
From Coq Require Import String List ZArith NArith Bool.
From Coq.Strings Require Import Byte.
From SV Require Import Base.Bytes Hash.B64 Hash.Varint Hash.Multihash Jws.Compact Resolve.Op Parser.Window Parser.Accept.
Import ListNotations.
Local Open Scope string_scope.
Local Open Scope list_scope.
Local Open Scope Z_scope.

(* client.Signer as the builders see it *)
Record signer := {
  sg_present : bool;               (* signer != nil *)
  sg_headers_present : bool;       (* Headers() != nil *)
  sg_alg : option bytes;           (* Headers().Algorithm(): Some when "alg" is a string *)
  sg_hdr_names : list bytes;       (* member names of Headers() *)
  sg_header_json : bytes;          (* the protected header as go-jose serialises it *)
  sg_sign_ok : bool;               (* Sign returned no error *)
  sg_sig : bytes }.                (* the signature it returned *)

(* validateSigner *)
Definition validate_signer (s : signer) : bool :=
  sg_present s && sg_headers_present s &&
  match sg_alg s with
  | None => false
  | Some a => negb (is_empty a) && forallb allowed_header (sg_hdr_names s)
  end.

(* jws.JWK.Validate on a non-nil key *)
Definition jwk_validate (k : jwk_view) : bool :=
  jv_present k && negb (is_empty (jv_crv k)) && negb (is_empty (jv_kty k)) && negb (is_empty (jv_x k)).

(* client.validateCommitment: the next commitment must differ from the commitment of the signing key *)
Definition builder_validate_commitment (k : jwk_view) (code : N) (next : bytes) : bool :=
  match get_commitment (jv_canonical k) code with
  | None => false
  | Some c => negb (bytes_eqb c next)
  end.

(* signutil.SignModel on the canonical payload *)
Definition sign_model (s : signer) (payload : bytes) : option bytes :=
  match sg_alg s with
  | None => None
  | Some a => if is_empty a then None
              else if negb (sg_sign_ok s) then None
              else Some (compact (sg_header_json s) payload (sg_sig s))
  end.

Definition built_hdr (s : signer) : hdr_facts :=
  {| h_json_ok := true; h_has_alg := true; h_b64 := B64Absent; h_marshal := sg_header_json s |}.

Definition no_jwk : jwk_view :=
  {| jv_present := false; jv_kty := []; jv_crv := []; jv_x := []; jv_y := []; jv_nonce := []; jv_canonical := [] |}.
Definition no_delta : delta_view :=
  {| dv_present := false; dv_actions := []; dv_patch_valid := []; dv_update_commitment := []; dv_canonical := [] |}.
Definition no_suffix : suffix_view :=
  {| sf_present := false; sf_delta_hash := []; sf_recovery_commitment := []; sf_canonical := []; sf_origin_ok := true |}.
Definition no_signed : signed_view :=
  {| sv_compact := []; sv_hdr := {| h_json_ok := false; h_has_alg := false; h_b64 := B64Absent; h_marshal := [] |};
     sv_hdr_names := []; sv_alg := None; sv_model_ok := false; sv_key := no_jwk;
     sv_delta_hash := []; sv_recovery_commitment := []; sv_did_suffix := []; sv_from := 0; sv_until := 0; sv_origin_ok := true |}.

(* patches as the caller supplies them: either a list or an opaque document *)
Record patch_input := {
  pi_opaque : bool;                (* OpaqueDocument != "" *)
  pi_has_patches : bool;           (* len(Patches) > 0 *)
  pi_from_doc_ok : bool }.         (* PatchesFromDocument succeeds (C17) *)

(* ---- update ---- *)
Record update_info := {
  ui_suffix : bytes; ui_reveal : bytes;
  ui_delta : delta_view;           (* DeltaModel{UpdateCommitment, Patches}: commitment, per-patch facts, canonical form *)
  ui_key : jwk_view; ui_code : N; ui_from : Z; ui_until : Z; ui_signer : signer;
  ui_origin_ok : bool;             (* not used by updates; kept so that views compare *)
  ui_payload : bytes;              (* canonical form of the signed data model built below *)
  ui_len : Z }.                    (* length of the emitted request *)

Definition build_update (i : update_info) : option req_view :=
  if is_empty (ui_suffix i) then None
  else if is_empty (ui_reveal i) then None
  else if match dv_actions (ui_delta i) with [] => true | _ => false end then None
  else if negb (jwk_validate (ui_key i)) then None
  else if negb (validate_signer (ui_signer i)) then None
  else match calculate_model_multihash (dv_canonical (ui_delta i)) (ui_code i) with
       | None => None
       | Some dh =>
         if negb (builder_validate_commitment (ui_key i) (ui_code i) (dv_update_commitment (ui_delta i))) then None
         else match sign_model (ui_signer i) (ui_payload i) with
              | None => None
              | Some jws =>
                Some {| rv_len := ui_len i; rv_schema_ok := true; rv_type := bytes_of_string "update"; rv_struct_ok := true;
                        rv_did_suffix := ui_suffix i; rv_reveal := ui_reveal i; rv_signed_data := jws;
                        rv_signed := {| sv_compact := jws; sv_hdr := built_hdr (ui_signer i);
                                        sv_hdr_names := sg_hdr_names (ui_signer i); sv_alg := sg_alg (ui_signer i);
                                        sv_model_ok := true; sv_key := ui_key i; sv_delta_hash := dh;
                                        sv_recovery_commitment := []; sv_did_suffix := [];
                                        sv_from := ui_from i; sv_until := ui_until i; sv_origin_ok := true |};
                        rv_delta := ui_delta i; rv_suffix := no_suffix |}
              end
       end.

(* ---- recover ---- *)
Record recover_info := {
  ri_suffix : bytes; ri_reveal : bytes; ri_patches : patch_input;
  ri_delta : delta_view; ri_key : jwk_view; ri_recovery_commitment : bytes;
  ri_code : N; ri_from : Z; ri_until : Z; ri_signer : signer;
  ri_origin_ok : bool;             (* the parser's anchor-origin validator verdict on the supplied origin *)
  ri_payload : bytes; ri_len : Z }.

Definition patches_supplied (pi : patch_input) : option unit :=
  if negb (pi_opaque pi) && negb (pi_has_patches pi) then None
  else if pi_opaque pi && pi_has_patches pi then None
  else Some tt.

Definition build_recover (i : recover_info) : option req_view :=
  if is_empty (ri_suffix i) then None
  else if is_empty (ri_reveal i) then None
  else match patches_supplied (ri_patches i) with
  | None => None
  | Some _ =>
  if negb (validate_signer (ri_signer i)) then None
  else if negb (jwk_validate (ri_key i)) then None
  else if pi_opaque (ri_patches i) && negb (pi_from_doc_ok (ri_patches i)) then None
  else match calculate_model_multihash (dv_canonical (ri_delta i)) (ri_code i) with
       | None => None
       | Some dh =>
         if negb (builder_validate_commitment (ri_key i) (ri_code i) (ri_recovery_commitment i)) then None
         else match sign_model (ri_signer i) (ri_payload i) with
              | None => None
              | Some jws =>
                Some {| rv_len := ri_len i; rv_schema_ok := true; rv_type := bytes_of_string "recover"; rv_struct_ok := true;
                        rv_did_suffix := ri_suffix i; rv_reveal := ri_reveal i; rv_signed_data := jws;
                        rv_signed := {| sv_compact := jws; sv_hdr := built_hdr (ri_signer i);
                                        sv_hdr_names := sg_hdr_names (ri_signer i); sv_alg := sg_alg (ri_signer i);
                                        sv_model_ok := true; sv_key := ri_key i; sv_delta_hash := dh;
                                        sv_recovery_commitment := ri_recovery_commitment i; sv_did_suffix := [];
                                        sv_from := ri_from i; sv_until := ri_until i; sv_origin_ok := ri_origin_ok i |};
                        rv_delta := ri_delta i; rv_suffix := no_suffix |}
              end
       end
  end.

(* ---- deactivate ---- *)
Record deactivate_info := {
  di_suffix : bytes; di_reveal : bytes; di_key : jwk_view; di_from : Z; di_until : Z; di_signer : signer;
  di_payload : bytes; di_len : Z }.

Definition build_deactivate (i : deactivate_info) : option req_view :=
  if is_empty (di_suffix i) then None
  else if is_empty (di_reveal i) then None
  else if negb (validate_signer (di_signer i)) then None
  else match sign_model (di_signer i) (di_payload i) with
       | None => None
       | Some jws =>
         Some {| rv_len := di_len i; rv_schema_ok := true; rv_type := bytes_of_string "deactivate"; rv_struct_ok := true;
                 rv_did_suffix := di_suffix i; rv_reveal := di_reveal i; rv_signed_data := jws;
                 rv_signed := {| sv_compact := jws; sv_hdr := built_hdr (di_signer i);
                                 sv_hdr_names := sg_hdr_names (di_signer i); sv_alg := sg_alg (di_signer i);
                                 sv_model_ok := true; sv_key := di_key i; sv_delta_hash := [];
                                 sv_recovery_commitment := []; sv_did_suffix := di_suffix i;
                                 sv_from := di_from i; sv_until := di_until i; sv_origin_ok := true |};
                 rv_delta := no_delta; rv_suffix := no_suffix |}
       end.

(* ---- create ---- *)
Record create_info := {
  ci_patches : patch_input; ci_delta : delta_view; ci_recovery_commitment : bytes; ci_code : N;
  ci_code_known : bool;            (* multihash.ValidCode: the code is in the multihash table *)
  ci_origin_ok : bool;
  ci_suffix_canonical : bytes -> bytes;   (* JCS of SuffixDataModel as a function of the delta hash computed below *)
  ci_len : Z }.

Definition build_create (i : create_info) : option req_view :=
  match patches_supplied (ci_patches i) with
  | None => None
  | Some _ =>
  if negb (ci_code_known i) then None
  else if negb (is_computed_using (ci_recovery_commitment i) [ci_code i]) then None
  else if negb (is_computed_using (dv_update_commitment (ci_delta i)) [ci_code i]) then None
  else if bytes_eqb (ci_recovery_commitment i) (dv_update_commitment (ci_delta i)) then None
  else if pi_opaque (ci_patches i) && negb (pi_from_doc_ok (ci_patches i)) then None
  else match calculate_model_multihash (dv_canonical (ci_delta i)) (ci_code i) with
       | None => None
       | Some dh =>
         Some {| rv_len := ci_len i; rv_schema_ok := true; rv_type := bytes_of_string "create"; rv_struct_ok := true;
                 rv_did_suffix := []; rv_reveal := []; rv_signed_data := [];
                 rv_signed := no_signed; rv_delta := ci_delta i;
                 rv_suffix := {| sf_present := true; sf_delta_hash := dh; sf_recovery_commitment := ci_recovery_commitment i;
                                 sf_canonical := ci_suffix_canonical i dh; sf_origin_ok := ci_origin_ok i |} |}
       end
  end.
