(* The request view computed from the request BYTES (what harness/internal/world/reqview.go computes with the real
   encoding/json, go-jose and the canonicalizer).  Definitions only.

   [decode_request b]  : everything the decoders make of the bytes - no facts involved
   [view_of_request b valid origin] : the [req_view] consumed by Parser.Accept.  Remaining facts:
     valid  - patchvalidator.Validate verdict per decoded patch, in order (dv_patch_valid)
     origin - verdict of the anchor-origin plug-in on the decoded anchorOrigin value; there is at most one such
              call per request (create: suffix data; recover: signed data)
   [view_of_request_with pv ov b] : the same with the two plug-ins as functions of the decoded values.
   The signature primitive is not part of the view. *)
From Coq Require Import String List ZArith NArith Bool.
From Coq.Strings Require Import Byte.
From SV Require Import Base.Bytes Json.Ast Json.Utf Json.Num Json.Jcs Json.GoJson Hash.B64 Jws.Compact Parser.Accept.
Import ListNotations.
Local Open Scope string_scope.
Local Open Scope list_scope.

(* ---------- first decoding: struct { Operation string `json:"type"` } ----------
   the field is read even when Unmarshal returned an error: (value of the field, no error recorded) *)
Fixpoint schema_members (m : list (bytes * gj)) (ty : bytes) (ok : bool) : bytes * bool :=
  match m with
  | [] => (ty, ok)
  | (k, v) :: r =>
    if is_field (fold_name k) "TYPE" then
      match v with
      | GStr s => schema_members r s ok
      | GNull => schema_members r ty ok
      | _ => schema_members r ty false                         (* UnmarshalTypeError, decoding goes on *)
      end
    else schema_members r ty ok
  end.

Definition schema_of (g : option gj) : bytes * bool :=
  match g with
  | None => ([], false)
  | Some (GObj m) => schema_members m [] true
  | Some GNull => ([], true)
  | Some _ => ([], false)
  end.

(* ---------- protected header (HdrFactsOf) ---------- *)
Definition hdr_none : hdr_facts := Build_hdr_facts false false B64Absent [].

Definition b64kind_of (m : list (bytes * json)) : b64kind :=
  match jget (bs "b64") m with
  | None => B64Absent
  | Some (JBool true) => B64True
  | Some (JBool false) => B64False
  | Some _ => B64NotBool
  end.

Definition sorted_names (m : list (bytes * json)) : list bytes := map fst (sort_bytewise m).

Definition hdr_of_part (part : bytes) : hdr_facts * list bytes * option bytes :=
  match b64_decode part with
  | None => (hdr_none, [], None)
  | Some raw =>
    match jose_unmarshal_map raw with
    | None => (hdr_none, [], None)
    | Some None => (Build_hdr_facts true false B64Absent [], [], None)
    | Some (Some m) =>
      (Build_hdr_facts true (has_key (bs "alg") m) (b64kind_of m) (jose_marshal (JObj m)),
       sorted_names m,
       match jget (bs "alg") m with Some (JStr s) => Some s | _ => None end)
    end
  end.

(* ---------- signed data (SignedView) ---------- *)
Definition jwk_view_of (k : option jwk_m) : jwk_view :=
  match k with
  | None => Build_jwk_view false [] [] [] [] [] []
  | Some j => Build_jwk_view true (jk_kty j) (jk_crv j) (jk_x j) (jk_y j) (jk_nonce j) (canonical_of (jwk_json j))
  end.

(* what the payload decodes to, per operation type *)
Inductive signed_model :=
| SMNone
| SMUpdate (m : upd_signed_m)
| SMRecover (m : rec_signed_m)
| SMDeactivate (m : deact_signed_m).

Definition signed_model_of (ty : bytes) (payload : bytes) : signed_model :=
  if eqs ty "update" then
    match unmarshal upd_signed_member upd_signed_zero payload with Some m => SMUpdate m | None => SMNone end
  else if eqs ty "recover" then
    match unmarshal rec_signed_member rec_signed_zero payload with Some m => SMRecover m | None => SMNone end
  else if eqs ty "deactivate" then
    match unmarshal deact_signed_member deact_signed_zero payload with Some m => SMDeactivate m | None => SMNone end
  else SMNone.

Record dsigned := {
  dg_hdr : hdr_facts; dg_names : list bytes; dg_alg : option bytes;
  dg_model : signed_model }.

Definition decode_signed (compact ty : bytes) : dsigned :=
  match split_dots compact with
  | [h; p; _] =>
    let '(hf, names, alg) := hdr_of_part h in
    Build_dsigned hf names alg
      (match b64_decode p with
       | Some payload => signed_model_of ty payload
       | None => SMNone
       end)
  | _ => Build_dsigned hdr_none [] None SMNone
  end.

(* the anchorOrigin value handed to the plug-in by SignedView, if it is called *)
Definition signed_origin_arg (g : dsigned) : option (option json) :=
  match dg_model g with SMRecover m => Some (rs_origin m) | _ => None end.

Definition signed_view_of (compact : bytes) (g : dsigned) (origin : bool) : signed_view :=
  match dg_model g with
  | SMNone =>
    Build_signed_view compact (dg_hdr g) (dg_names g) (dg_alg g) false (jwk_view_of None) [] [] [] 0%Z 0%Z true
  | SMUpdate m =>
    Build_signed_view compact (dg_hdr g) (dg_names g) (dg_alg g) true (jwk_view_of (us_key m))
                      (us_delta_hash m) [] [] (us_from m) (us_until m) true
  | SMRecover m =>
    Build_signed_view compact (dg_hdr g) (dg_names g) (dg_alg g) true (jwk_view_of (rs_key m))
                      (rs_delta_hash m) (rs_rec m) [] (rs_from m) (rs_until m) origin
  | SMDeactivate m =>
    Build_signed_view compact (dg_hdr g) (dg_names g) (dg_alg g) true (jwk_view_of (ds_key m))
                      [] [] (ds_did m) (ds_from m) (ds_until m) true
  end.

(* ---------- delta and suffix data (deltaView, suffixView) ---------- *)
Definition known_actions : list bytes :=
  map bs ["add-public-keys"; "remove-public-keys"; "add-services"; "remove-services"; "ietf-json-patch"; "replace";
          "add-also-known-as"; "remove-also-known-as"].

(* Patch.GetAction *)
Definition action_of (p : patchv) : option bytes :=
  match p with
  | None => None
  | Some m =>
    match jget (bs "action") m with
    | Some (JStr a) => if bmem a known_actions then Some a else None
    | _ => None
    end
  end.

Definition delta_view_of (d : option delta_m) (valid : list bool) : delta_view :=
  match d with
  | None => Build_delta_view false [] [] [] []
  | Some x =>
    Build_delta_view true (map action_of (dm_patches x)) (firstn (length (dm_patches x)) valid) (dm_upd x)
                     (canonical_of (delta_json x))
  end.

Definition suffix_view_of (s : option suffix_m) (origin : bool) : suffix_view :=
  match s with
  | None => Build_suffix_view false [] [] [] true
  | Some x => Build_suffix_view true (sm_delta_hash x) (sm_rec x) (canonical_of (suffix_json x)) origin
  end.

(* ---------- the request (ReqView) ---------- *)
Record dreq := {
  dq_len : Z;
  dq_schema_ok : bool;
  dq_type : bytes;
  dq_struct_ok : bool;
  dq_did : bytes; dq_reveal : bytes; dq_signed_data : bytes;
  dq_delta : option delta_m;
  dq_suffix : option suffix_m;
  dq_signed : dsigned }.

(* everything is a function of the length of the buffer and of the syntax tree (None = SyntaxError) *)
Definition decode_tree (len : Z) (tree : option gj) : dreq :=
  let '(ty, schema_ok) := schema_of tree in
  let mk ok did reveal sd delta sfx :=
      Build_dreq len schema_ok ty ok did reveal sd delta sfx (decode_signed sd ty) in
  let none := mk false [] [] [] None None in
  if negb schema_ok then none
  else if eqs ty "create" then
    match unmarshal_tree create_member create_zero tree with
    | Some r => mk true [] [] [] (cr_delta r) (cr_suffix r)
    | None => none
    end
  else if eqs ty "update" then
    match unmarshal_tree update_member update_zero tree with
    | Some r => mk true (ur_did r) (ur_reveal r) (ur_signed r) (ur_delta r) None
    | None => none
    end
  else if eqs ty "recover" then
    match unmarshal_tree update_member update_zero tree with
    | Some r => mk true (ur_did r) (ur_reveal r) (ur_signed r) (ur_delta r) None
    | None => none
    end
  else if eqs ty "deactivate" then
    match unmarshal_tree deact_member deact_zero tree with
    | Some r => mk true (de_did r) (de_reveal r) (de_signed r) None None
    | None => none
    end
  else none.

Definition decode_request (b : bytes) : dreq := decode_tree (Z.of_nat (length b)) (std_parse b).

(* the decoded patches, for the validator plug-in *)
Definition dq_patches (d : dreq) : list patchv :=
  match dq_delta d with Some x => dm_patches x | None => [] end.

(* the anchorOrigin value the origin plug-in is called with (None = it is not called) *)
Definition dq_origin_arg (d : dreq) : option (option json) :=
  match dq_suffix d with
  | Some s => Some (sm_origin s)
  | None => signed_origin_arg (dq_signed d)
  end.

Definition view_of_dreq (d : dreq) (valid : list bool) (origin : bool) : req_view :=
  Build_req_view (dq_len d) (dq_schema_ok d) (dq_type d) (dq_struct_ok d) (dq_did d) (dq_reveal d) (dq_signed_data d)
                 (signed_view_of (dq_signed_data d) (dq_signed d) origin)
                 (delta_view_of (dq_delta d) valid)
                 (suffix_view_of (dq_suffix d) origin).

Definition view_of_request (b : bytes) (valid : list bool) (origin : bool) : req_view :=
  view_of_dreq (decode_request b) valid origin.

(* the plug-ins as functions of the decoded values *)
Definition view_of_request_with (pv : patchv -> bool) (ov : option json -> bool) (b : bytes) : req_view :=
  let d := decode_request b in
  view_of_dreq d (map pv (dq_patches d)) (match dq_origin_arg d with Some a => ov a | None => true end).

(* the parser model run on bytes *)
Definition parse_operation_bytes (p : pproto) (batch time_ok : bool) (b : bytes) (valid : list bool) (origin : bool)
  : option parsed :=
  parse_operation p batch time_ok (view_of_request b valid origin).

Example view_garbage :
  view_of_request (bs "{""type"":1,""type"":""create""") [] true
  = Build_req_view 25 false [] false [] [] []
      (Build_signed_view [] hdr_none [] None false (jwk_view_of None) [] [] [] 0 0 true)
      (Build_delta_view false [] [] [] []) (Build_suffix_view false [] [] [] true).
Proof. vm_compute. reflexivity. Qed.

Example view_type_after_error :
  let v := view_of_request (bs "{""type"":1,""TYPE"":""create""}") [] true in
  (rv_schema_ok v, rv_type v) = (false, bs "create").
Proof. vm_compute. reflexivity. Qed.
