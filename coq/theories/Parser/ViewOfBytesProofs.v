(* Theorems about the view computed from the request bytes (Parser/ViewOfBytes.v): the parser model run on BYTES.
   (c) the view is a function of the length of the buffer and of the syntax tree; for a buffer that is the JCS
       text of a value it is a function of that value
   (d) acceptance of a byte string implies the rules of Parser/AcceptProofs.v, stated on what the bytes decode to *)
From Coq Require Import String List ZArith NArith Bool Lia.
From Coq.Strings Require Import Byte.
From SV Require Import Base.Bytes Hash.B64 Hash.Varint Hash.Multihash Hash.MultihashProofs Json.Ast Json.Jcs Json.JcsProofs Json.GoJson
  Json.GoJsonProofs Jws.Compact Resolve.Op Parser.Window Parser.Accept Parser.AcceptProofs Parser.ViewOfBytes.
Import ListNotations.
Local Open Scope string_scope.
Local Open Scope list_scope.
Local Open Scope Z_scope.

(* ================================================================================================ *)
(** * (c) what the view depends on *)

Theorem view_depends_on_tree : forall b1 b2 valid origin,
  std_parse b1 = std_parse b2 -> length b1 = length b2 ->
  view_of_request b1 valid origin = view_of_request b2 valid origin.
Proof. intros b1 b2 valid origin Ht Hl. unfold view_of_request, decode_request. now rewrite Ht, Hl. Qed.

(* a buffer that is the canonical (JCS) text of a value, white space after it allowed: the view is the view of the
   tree of that value; in particular member order, number spelling and escapes of an equivalent non-canonical text
   play no role once it has been canonicalised *)
Theorem canonical_request_view : forall v ws valid origin,
  gwfb v = true -> top_shapeb v = true -> (jdepth v <=? 10000)%N = true -> all_space ws = true ->
  view_of_request (print_canonical v ++ ws) valid origin
  = view_of_dreq (decode_tree (Z.of_nat (length (print_canonical v ++ ws))) (Some (ec v))) valid origin.
Proof.
  intros v ws valid origin H1 H2 H3 H4. unfold view_of_request, decode_request. f_equal. f_equal.
  pose proof (gwfb_sound _ H1) as Hw. unfold std_parse, go_parse.
  assert (Hrt : forall x, gwf x -> rt x) by (apply rt_all).
  pose proof (fsize_le_g v Hw) as Hf.
  assert (Hfuel : (fsize v <= go_fuel (print_canonical v ++ ws))%nat) by (unfold go_fuel; rewrite app_length; lia).
  assert (Hd : depth_fits std_limit 0 v) by (cbn [std_limit depth_fits]; apply N.leb_le in H3; lia).
  assert (E : pvalue (go_fuel (print_canonical v ++ ws)) std_limit 0 (print_canonical v ++ ws) = Some (ec v, ws)).
  { destruct (top_shapeb_sound _ H2) as [[l ->]|[m ->]].
    - pose proof Hw as Hw'. apply gwf_arr in Hw'. apply rt_arr; try assumption.
      rewrite Forall_forall in *. intros x Hx. apply Hrt. now apply Hw'.
    - pose proof Hw as Hw'. apply gwf_obj in Hw'. destruct Hw' as [_ Hall]. apply rt_obj; try assumption.
      rewrite Forall_forall in *. intros x Hx. apply Hrt. now apply Hall. }
  rewrite E. now rewrite (skip_ws_all_space _ H4).
Qed.

Corollary same_value_same_view : forall v1 v2 ws1 ws2 valid origin,
  gwfb v1 = true -> top_shapeb v1 = true -> (jdepth v1 <=? 10000)%N = true -> all_space ws1 = true ->
  gwfb v2 = true -> top_shapeb v2 = true -> (jdepth v2 <=? 10000)%N = true -> all_space ws2 = true ->
  cnorm v1 = cnorm v2 -> length (print_canonical v1 ++ ws1) = length (print_canonical v2 ++ ws2) ->
  view_of_request (print_canonical v1 ++ ws1) valid origin = view_of_request (print_canonical v2 ++ ws2) valid origin.
Proof.
  intros v1 v2 ws1 ws2 valid origin A1 A2 A3 A4 B1 B2 B3 B4 Hc Hl.
  rewrite !canonical_request_view by assumption. unfold ec. now rewrite Hc, Hl.
Qed.

(* ================================================================================================ *)
(** * (d) acceptance of bytes *)

Lemma eqs_eq : forall a s, eqs a s = true -> a = bytes_of_string s.
Proof. intros a s H. unfold eqs in H. now apply bytes_eqb_eq in H. Qed.

(* the first decoding *)
Lemma view_schema : forall b valid origin,
  let v := view_of_request b valid origin in
  rv_len v = Z.of_nat (length b) /\ rv_type v = fst (schema_of (std_parse b)) /\ rv_schema_ok v = snd (schema_of (std_parse b)).
Proof.
  intros b valid origin. unfold view_of_request, decode_request, decode_tree.
  destruct (schema_of (std_parse b)) as [ty ok]. cbn [fst snd].
  destruct (negb ok); [repeat split|].
  destruct (eqs ty "create"). { destruct (unmarshal_tree create_member create_zero (std_parse b)); repeat split. }
  destruct (eqs ty "update"). { destruct (unmarshal_tree update_member update_zero (std_parse b)); repeat split. }
  destruct (eqs ty "recover"). { destruct (unmarshal_tree update_member update_zero (std_parse b)); repeat split. }
  destruct (eqs ty "deactivate"). { destruct (unmarshal_tree deact_member deact_zero (std_parse b)); repeat split. }
  repeat split.
Qed.

Lemma schema_members_ty_nonempty_obj : forall t, fst (schema_of t) <> [] -> exists m, t = Some (GObj m).
Proof.
  intros [[| | | | |m]|] H; cbn in H; try congruence. now exists m.
Qed.

(* MAIN (all types, both modes): an accepted byte string is within the size limit, is one JSON object of the
   encoding/json grammar, decodes without error twice, and is dispatched on its "type" member *)
Theorem accepted_bytes_dispatch : forall p batch t b valid origin o,
  parse_operation_bytes p batch t b valid origin = Some o ->
  let v := view_of_request b valid origin in
  Z.of_nat (length b) <= pp_max_op_size p /\
  (exists m, std_parse b = Some (GObj m)) /\
  rv_schema_ok v = true /\ rv_struct_ok v = true /\
  ((rv_type v = bytes_of_string "create" /\ parse_create p batch v = Some o) \/
   (rv_type v = bytes_of_string "update" /\ parse_update p batch t v = Some o) \/
   (rv_type v = bytes_of_string "deactivate" /\ parse_deactivate p batch t v = Some o) \/
   (rv_type v = bytes_of_string "recover" /\ parse_recover p batch t v = Some o)).
Proof.
  intros p batch t b valid origin o H v. unfold parse_operation_bytes in H. fold v in H.
  pose proof (accepted_request_within_size _ _ _ _ _ H) as Hsz.
  destruct (parse_operation_dispatch _ _ _ _ _ H) as [Hs Hd].
  destruct (view_schema b valid origin) as [Hlen [Hty _]]. fold v in Hlen, Hty.
  split; [now rewrite <- Hlen|].
  assert (Hne : rv_type v <> []).
  { destruct Hd as [[E _]|[[E _]|[[E _]|[E _]]]]; apply eqs_eq in E; rewrite E; discriminate. }
  split; [apply schema_members_ty_nonempty_obj; now rewrite <- Hty|].
  split; [exact Hs|].
  assert (Hst : rv_struct_ok v = true).
  { destruct Hd as [[_ E]|[[_ E]|[[_ E]|[_ E]]]];
      [unfold parse_create in E | unfold parse_update in E | unfold parse_deactivate in E | unfold parse_recover in E];
      destruct (rv_struct_ok v); [reflexivity | discriminate | reflexivity | discriminate | reflexivity | discriminate | reflexivity | discriminate]. }
  split; [exact Hst|].
  destruct Hd as [[E P]|[[E P]|[[E P]|[E P]]]]; apply eqs_eq in E; auto.
Qed.

(* what the view of an update / recover / deactivate / create request is, in terms of the decoded structs *)
Lemma eqs_refl_s : forall s, eqs (bytes_of_string s) s = true.
Proof. intro s. unfold eqs. apply bytes_eqb_refl. Qed.

Lemma update_view_shape : forall b valid origin,
  let v := view_of_request b valid origin in
  rv_type v = bytes_of_string "update" -> rv_struct_ok v = true ->
  exists r, unmarshal update_member update_zero b = Some r /\
    rv_did_suffix v = ur_did r /\ rv_reveal v = ur_reveal r /\ rv_signed_data v = ur_signed r /\
    rv_delta v = delta_view_of (ur_delta r) valid /\
    rv_signed v = signed_view_of (ur_signed r) (decode_signed (ur_signed r) (bytes_of_string "update")) origin.
Proof.
  intros b valid origin v Hty Hst. subst v. unfold view_of_request, decode_request, decode_tree, unmarshal in *.
  destruct (schema_of (std_parse b)) as [ty ok].
  destruct (negb ok); [discriminate Hst|].
  destruct (eqs ty "create") eqn:E1.
  { apply eqs_eq in E1. destruct (unmarshal_tree create_member create_zero (std_parse b)); cbn in Hty; subst ty; discriminate Hty. }
  destruct (eqs ty "update") eqn:E2.
  { apply eqs_eq in E2. subst ty. destruct (unmarshal_tree update_member update_zero (std_parse b)) as [r|]; [|discriminate Hst].
    exists r. repeat split. }
  destruct (eqs ty "recover") eqn:E3.
  { apply eqs_eq in E3. destruct (unmarshal_tree update_member update_zero (std_parse b)); cbn in Hty; subst ty; discriminate Hty. }
  destruct (eqs ty "deactivate") eqn:E4.
  { apply eqs_eq in E4. destruct (unmarshal_tree deact_member deact_zero (std_parse b)); cbn in Hty; subst ty; discriminate Hty. }
  discriminate Hst.
Qed.

Lemma recover_view_shape : forall b valid origin,
  let v := view_of_request b valid origin in
  rv_type v = bytes_of_string "recover" -> rv_struct_ok v = true ->
  exists r, unmarshal update_member update_zero b = Some r /\
    rv_did_suffix v = ur_did r /\ rv_reveal v = ur_reveal r /\ rv_signed_data v = ur_signed r /\
    rv_delta v = delta_view_of (ur_delta r) valid /\
    rv_signed v = signed_view_of (ur_signed r) (decode_signed (ur_signed r) (bytes_of_string "recover")) origin.
Proof.
  intros b valid origin v Hty Hst. subst v. unfold view_of_request, decode_request, decode_tree, unmarshal in *.
  destruct (schema_of (std_parse b)) as [ty ok].
  destruct (negb ok); [discriminate Hst|].
  destruct (eqs ty "create") eqn:E1.
  { apply eqs_eq in E1. destruct (unmarshal_tree create_member create_zero (std_parse b)); cbn in Hty; subst ty; discriminate Hty. }
  destruct (eqs ty "update") eqn:E2.
  { apply eqs_eq in E2. destruct (unmarshal_tree update_member update_zero (std_parse b)); cbn in Hty; subst ty; discriminate Hty. }
  destruct (eqs ty "recover") eqn:E3.
  { apply eqs_eq in E3. subst ty. destruct (unmarshal_tree update_member update_zero (std_parse b)) as [r|]; [|discriminate Hst].
    exists r. repeat split. }
  destruct (eqs ty "deactivate") eqn:E4.
  { apply eqs_eq in E4. destruct (unmarshal_tree deact_member deact_zero (std_parse b)); cbn in Hty; subst ty; discriminate Hty. }
  discriminate Hst.
Qed.

Lemma deactivate_view_shape : forall b valid origin,
  let v := view_of_request b valid origin in
  rv_type v = bytes_of_string "deactivate" -> rv_struct_ok v = true ->
  exists r, unmarshal deact_member deact_zero b = Some r /\
    rv_did_suffix v = de_did r /\ rv_reveal v = de_reveal r /\ rv_signed_data v = de_signed r /\
    rv_signed v = signed_view_of (de_signed r) (decode_signed (de_signed r) (bytes_of_string "deactivate")) origin.
Proof.
  intros b valid origin v Hty Hst. subst v. unfold view_of_request, decode_request, decode_tree, unmarshal in *.
  destruct (schema_of (std_parse b)) as [ty ok].
  destruct (negb ok); [discriminate Hst|].
  destruct (eqs ty "create") eqn:E1.
  { apply eqs_eq in E1. destruct (unmarshal_tree create_member create_zero (std_parse b)); cbn in Hty; subst ty; discriminate Hty. }
  destruct (eqs ty "update") eqn:E2.
  { apply eqs_eq in E2. destruct (unmarshal_tree update_member update_zero (std_parse b)); cbn in Hty; subst ty; discriminate Hty. }
  destruct (eqs ty "recover") eqn:E3.
  { apply eqs_eq in E3. destruct (unmarshal_tree update_member update_zero (std_parse b)); cbn in Hty; subst ty; discriminate Hty. }
  destruct (eqs ty "deactivate") eqn:E4.
  { apply eqs_eq in E4. subst ty. destruct (unmarshal_tree deact_member deact_zero (std_parse b)) as [r|]; [|discriminate Hst].
    exists r. repeat split. }
  discriminate Hst.
Qed.

Lemma create_view_shape : forall b valid origin,
  let v := view_of_request b valid origin in
  rv_type v = bytes_of_string "create" -> rv_struct_ok v = true ->
  exists r, unmarshal create_member create_zero b = Some r /\
    rv_delta v = delta_view_of (cr_delta r) valid /\ rv_suffix v = suffix_view_of (cr_suffix r) origin.
Proof.
  intros b valid origin v Hty Hst. subst v. unfold view_of_request, decode_request, decode_tree, unmarshal in *.
  destruct (schema_of (std_parse b)) as [ty ok].
  destruct (negb ok); [discriminate Hst|].
  destruct (eqs ty "create") eqn:E1.
  { apply eqs_eq in E1. subst ty. destruct (unmarshal_tree create_member create_zero (std_parse b)) as [r|]; [|discriminate Hst].
    exists r. repeat split. }
  destruct (eqs ty "update") eqn:E2.
  { apply eqs_eq in E2. destruct (unmarshal_tree update_member update_zero (std_parse b)); cbn in Hty; subst ty; discriminate Hty. }
  destruct (eqs ty "recover") eqn:E3.
  { apply eqs_eq in E3. destruct (unmarshal_tree update_member update_zero (std_parse b)); cbn in Hty; subst ty; discriminate Hty. }
  destruct (eqs ty "deactivate") eqn:E4.
  { apply eqs_eq in E4. destruct (unmarshal_tree deact_member deact_zero (std_parse b)); cbn in Hty; subst ty; discriminate Hty. }
  discriminate Hst.
Qed.

(* a validated delta, in terms of the decoded DeltaModel and the verdict facts *)
Definition decoded_delta_ok (p : pproto) (d : option delta_m) (valid : list bool) : Prop :=
  exists x, d = Some x /\ dm_patches x <> [] /\
    blen (canonical_of (delta_json x)) <= pp_max_delta_size p /\
    hash_field_ok p (dm_upd x) /\
    Forall (fun pt => exists a, action_of pt = Some a /\ In a (pp_patches p)) (dm_patches x) /\
    (length (dm_patches x) <= length valid)%nat /\
    Forall (fun ok => ok = true) (firstn (length (dm_patches x)) valid).     (* every decoded patch passed the validator *)

Lemma delta_ok_decoded : forall p d valid, delta_ok p (delta_view_of d valid) -> decoded_delta_ok p d valid.
Proof.
  intros p d valid H. unfold delta_ok in H. destruct d as [x|]; cbn [delta_view_of dv_present] in H; [|destruct H; discriminate].
  cbn [dv_actions dv_patch_valid dv_update_commitment dv_canonical] in H.
  destruct H as (_ & Hne & Hsz & Hh & Hact & Hlen & Hval).
  exists x. split; [reflexivity|]. split; [intro E; apply Hne; now rewrite E|]. split; [exact Hsz|]. split; [exact Hh|].
  rewrite map_length in Hlen, Hval. rewrite firstn_length in Hlen.
  split; [|split; [lia|]].
  - apply Forall_forall. intros pt Hin. rewrite Forall_forall in Hact. apply (Hact (action_of pt)). now apply in_map.
  - rewrite firstn_firstn in Hval. replace (Nat.min (length (dm_patches x)) (length (dm_patches x))) with (length (dm_patches x)) in Hval by lia.
    exact Hval.
Qed.

(* UPDATE: an update request accepted at intake, as bytes *)
Theorem update_bytes_accept_implies_rules : forall p t b valid origin o,
  parse_operation_bytes p false t b valid origin = Some o ->
  let v := view_of_request b valid origin in
  rv_type v = bytes_of_string "update" ->
  exists r,
    unmarshal update_member update_zero b = Some r /\                       (* the bytes decode into UpdateRequest r *)
    ur_did r <> [] /\ hash_field_ok p (ur_reveal r) /\ ur_signed r <> [] /\
    signed_rules p v /\ t = true /\
    decoded_delta_ok p (ur_delta r) valid /\
    hash_field_ok p (sv_delta_hash (rv_signed v)) /\
    (exists code c, get_multihash_code (dv_update_commitment (rv_delta v)) = Some code /\
                    get_commitment (jv_canonical (sv_key (rv_signed v))) code = Some c /\
                    c <> dv_update_commitment (rv_delta v)) /\
    po_ty o = Update /\ po_suffix o = ur_did r.
Proof.
  intros p t b valid origin o H v Hty.
  destruct (accepted_bytes_dispatch _ _ _ _ _ _ _ H) as (_ & _ & _ & Hst & Hd). fold v in Hst, Hd.
  assert (Hp : parse_update p false t v = Some o).
  { destruct Hd as [[E _]|[[_ P]|[[E _]|[E _]]]]; [rewrite Hty in E; discriminate E | exact P | rewrite Hty in E; discriminate E | rewrite Hty in E; discriminate E]. }
  destruct (update_view_shape b valid origin Hty Hst) as (r & Hr & Hdid & Hrev & Hsd & Hdv & _). fold v in Hdid, Hrev, Hsd, Hdv.
  destruct (update_accept_implies_rules _ _ _ _ Hp) as (Hsr & Ht & Hdel & Hdh & Hc & Hoty & Hosfx).
  exists r. split; [exact Hr|].
  pose proof Hsr as (Hs1 & Hs2 & Hs3 & _).
  split; [now rewrite <- Hdid|]. split; [now rewrite <- Hrev|].
  split; [destruct Hs3 as [Hc0 _]; unfold v in Hc0; fold v in Hc0; rewrite <- Hsd; intro E; apply Hc0;
          unfold v, view_of_request, view_of_dreq; cbn [rv_signed]; unfold signed_view_of; destruct (dg_model _); cbn [sv_compact]; exact E|].
  split; [exact Hsr|]. split; [exact Ht|].
  split; [apply delta_ok_decoded; now rewrite <- Hdv|].
  split; [exact Hdh|]. split; [exact Hc|]. split; [exact Hoty|]. now rewrite Hosfx, Hdid.
Qed.

(* RECOVER *)
Theorem recover_bytes_accept_implies_rules : forall p t b valid origin o,
  parse_operation_bytes p false t b valid origin = Some o ->
  let v := view_of_request b valid origin in
  rv_type v = bytes_of_string "recover" ->
  exists r,
    unmarshal update_member update_zero b = Some r /\
    ur_did r <> [] /\ hash_field_ok p (ur_reveal r) /\
    signed_rules p v /\ t = true /\ origin = true /\                            (* the origin plug-in accepted *)
    decoded_delta_ok p (ur_delta r) valid /\
    hash_field_ok p (sv_delta_hash (rv_signed v)) /\ hash_field_ok p (sv_recovery_commitment (rv_signed v)) /\
    (exists code c, get_multihash_code (sv_recovery_commitment (rv_signed v)) = Some code /\
                    get_commitment (jv_canonical (sv_key (rv_signed v))) code = Some c /\
                    c <> sv_recovery_commitment (rv_signed v)) /\
    dv_update_commitment (rv_delta v) <> sv_recovery_commitment (rv_signed v) /\
    po_ty o = Recover /\ po_suffix o = ur_did r.
Proof.
  intros p t b valid origin o H v Hty.
  destruct (accepted_bytes_dispatch _ _ _ _ _ _ _ H) as (_ & _ & _ & Hst & Hd). fold v in Hst, Hd.
  assert (Hp : parse_recover p false t v = Some o).
  { destruct Hd as [[E _]|[[E _]|[[E _]|[_ P]]]]; [rewrite Hty in E; discriminate E | rewrite Hty in E; discriminate E | rewrite Hty in E; discriminate E | exact P]. }
  destruct (recover_view_shape b valid origin Hty Hst) as (r & Hr & Hdid & Hrev & Hsd & Hdv & Hsv). fold v in Hdid, Hrev, Hsd, Hdv, Hsv.
  destruct (recover_accept_implies_rules _ _ _ _ Hp) as (Hsr & Ht & Ho & Hdel & Hdh & Hrc & Hc & Hne & Hoty & Hosfx).
  exists r. split; [exact Hr|].
  pose proof Hsr as (Hs1 & Hs2 & _ & Hmodel & _).
  split; [now rewrite <- Hdid|]. split; [now rewrite <- Hrev|].
  split; [exact Hsr|]. split; [exact Ht|].
  split.
  { (* sv_model_ok = true under type recover means the payload decoded into RecoverSignedDataModel: the verdict is the fact *)
    rewrite Hsv in Ho, Hmodel. unfold signed_view_of in Ho, Hmodel.
    destruct (dg_model (decode_signed (ur_signed r) (bytes_of_string "recover"))) as [|m|m|m] eqn:Em; cbn [sv_origin_ok sv_model_ok] in Ho, Hmodel.
    - discriminate Hmodel.
    - exfalso. unfold decode_signed in Em. destruct (split_dots (ur_signed r)) as [|h [|pp [|g [|? ?]]]]; cbn [dg_model] in Em; try discriminate Em.
      destruct (hdr_of_part h) as [[hf nm] al]. cbn [dg_model] in Em. destruct (b64_decode pp) as [pl|]; [|discriminate Em].
      unfold signed_model_of in Em. change (eqs (bytes_of_string "recover") "update") with false in Em.
      change (eqs (bytes_of_string "recover") "recover") with true in Em. cbn match in Em.
      destruct (unmarshal rec_signed_member rec_signed_zero pl); discriminate Em.
    - exact Ho.
    - exfalso. unfold decode_signed in Em. destruct (split_dots (ur_signed r)) as [|h [|pp [|g [|? ?]]]]; cbn [dg_model] in Em; try discriminate Em.
      destruct (hdr_of_part h) as [[hf nm] al]. cbn [dg_model] in Em. destruct (b64_decode pp) as [pl|]; [|discriminate Em].
      unfold signed_model_of in Em. change (eqs (bytes_of_string "recover") "update") with false in Em.
      change (eqs (bytes_of_string "recover") "recover") with true in Em. cbn match in Em.
      destruct (unmarshal rec_signed_member rec_signed_zero pl); discriminate Em. }
  split; [apply delta_ok_decoded; now rewrite <- Hdv|].
  split; [exact Hdh|]. split; [exact Hrc|]. split; [exact Hc|]. split; [exact Hne|]. split; [exact Hoty|]. now rewrite Hosfx, Hdid.
Qed.

(* DEACTIVATE *)
Theorem deactivate_bytes_accept_implies_rules : forall p t b valid origin o,
  parse_operation_bytes p false t b valid origin = Some o ->
  let v := view_of_request b valid origin in
  rv_type v = bytes_of_string "deactivate" ->
  exists r,
    unmarshal deact_member deact_zero b = Some r /\
    de_did r <> [] /\ hash_field_ok p (de_reveal r) /\
    signed_rules p v /\ t = true /\ sv_did_suffix (rv_signed v) = de_did r /\
    po_ty o = Deactivate /\ po_suffix o = de_did r.
Proof.
  intros p t b valid origin o H v Hty.
  destruct (accepted_bytes_dispatch _ _ _ _ _ _ _ H) as (_ & _ & _ & Hst & Hd). fold v in Hst, Hd.
  assert (Hp : parse_deactivate p false t v = Some o).
  { destruct Hd as [[E _]|[[E _]|[[_ P]|[E _]]]]; [rewrite Hty in E; discriminate E | rewrite Hty in E; discriminate E | exact P | rewrite Hty in E; discriminate E]. }
  destruct (deactivate_view_shape b valid origin Hty Hst) as (r & Hr & Hdid & Hrev & Hsd & _). fold v in Hdid, Hrev, Hsd.
  destruct (deactivate_accept_implies_rules _ _ _ _ Hp) as (Hsr & Ht & Hsfx & Hoty & Hosfx).
  exists r. split; [exact Hr|]. pose proof Hsr as (Hs1 & Hs2 & _).
  split; [now rewrite <- Hdid|]. split; [now rewrite <- Hrev|]. split; [exact Hsr|]. split; [exact Ht|].
  split; [now rewrite Hsfx|]. split; [exact Hoty|]. now rewrite Hosfx.
Qed.

(* CREATE *)
Theorem create_bytes_accept_implies_rules : forall p t b valid origin o,
  parse_operation_bytes p false t b valid origin = Some o ->
  let v := view_of_request b valid origin in
  rv_type v = bytes_of_string "create" ->
  exists r s,
    unmarshal create_member create_zero b = Some r /\ cr_suffix r = Some s /\
    hash_field_ok p (sm_rec s) /\ hash_field_ok p (sm_delta_hash s) /\ origin = true /\
    decoded_delta_ok p (cr_delta r) valid /\
    is_valid_model_multihash (dv_canonical (rv_delta v)) (sm_delta_hash s) = true /\   (* suffix data commits to the delta *)
    dv_update_commitment (rv_delta v) <> sm_rec s /\
    po_ty o = Create /\ unique_suffix (canonical_of (suffix_json s)) (pp_hash_algs p) = Some (po_suffix o).
Proof.
  intros p t b valid origin o H v Hty.
  destruct (accepted_bytes_dispatch _ _ _ _ _ _ _ H) as (_ & _ & _ & Hst & Hd). fold v in Hst, Hd.
  assert (Hp : parse_create p false v = Some o).
  { destruct Hd as [[_ P]|[[E _]|[[E _]|[E _]]]]; [exact P | rewrite Hty in E; discriminate E | rewrite Hty in E; discriminate E | rewrite Hty in E; discriminate E]. }
  destruct (create_view_shape b valid origin Hty Hst) as (r & Hr & Hdv & Hsv). fold v in Hdv, Hsv.
  destruct (create_accept_implies_rules _ _ _ Hp) as (Hpres & Hrc & Hdh & Ho & Hdel & Hmh & Hne & Hoty & Hsfx).
  rewrite Hsv in Hpres, Hrc, Hdh, Ho, Hmh, Hne, Hsfx. destruct (cr_suffix r) as [s|] eqn:Es; [|discriminate Hpres].
  cbn [suffix_view_of sf_recovery_commitment sf_delta_hash sf_origin_ok sf_canonical] in *.
  exists r, s. split; [exact Hr|]. split; [exact Es|]. split; [exact Hrc|]. split; [exact Hdh|]. split; [exact Ho|].
  split; [apply delta_ok_decoded; now rewrite <- Hdv|]. split; [exact Hmh|]. split; [exact Hne|]. split; [exact Hoty|]. exact Hsfx.
Qed.

(* the size gate on bytes *)
Theorem oversize_bytes_rejected : forall p batch t b valid origin,
  Z.of_nat (length b) > pp_max_op_size p -> parse_operation_bytes p batch t b valid origin = None.
Proof.
  intros p batch t b valid origin H. unfold parse_operation_bytes. apply oversize_request_rejected.
  destruct (view_schema b valid origin) as [Hlen _]. now rewrite Hlen.
Qed.

(* bytes that are not JSON for encoding/json are rejected, whatever the facts *)
Theorem invalid_json_bytes_rejected : forall p batch t b valid origin,
  std_parse b = None -> parse_operation_bytes p batch t b valid origin = None.
Proof.
  intros p batch t b valid origin H. unfold parse_operation_bytes, parse_operation.
  destruct (view_schema b valid origin) as [_ [_ Hok]]. rewrite H in Hok. cbn [schema_of snd] in Hok.
  destruct (rv_len _ >? pp_max_op_size p); [reflexivity|]. now rewrite Hok.
Qed.

(* ================================================================================================ *)
(** * Non-vacuity: a real update request (taken from a run of harness/cmd/gen_view, seed 1; Ed25519 key, anchorFrom) *)

Definition ex_proto : pproto :=
  Build_pproto 6000 100 3000 16 7200 [18%N; 19%N]
    (map bytes_of_string ["EdDSA"; "ES256"; "ES384"; "ES512"; "ES256K"])
    (map bytes_of_string ["Ed25519"; "P-256"; "P-384"; "P-521"; "secp256k1"])
    (map bytes_of_string ["replace"; "add-public-keys"; "remove-public-keys"; "add-services"; "remove-services"; "ietf-json-patch";
                          "add-also-known-as"; "remove-also-known-as"]).

Definition ex_request : bytes := unhex "7b2264656c7461223a7b22757064617465436f6d6d69746d656e74223a22456942524e3154784d514f576435496f5551376853327743736f66514235417333437a54667671687430432d5177222c2270617463686573223a5b7b22616374696f6e223a226164642d7075626c69632d6b657973222c227075626c69634b657973223a5b7b226964223a226b32222c227075626c69634b65794a776b223a7b22637276223a22502d323536222c226b7479223a224543222c2278223a225055796d49716474465f717861417150414253772d432d6f7754314b59595162734d4b464d2d4c39664a41222c2279223a226e4d38346a4448434d4f544754685f5a64487134644242646f345a35506b454f57396a41387a3849734763227d2c22707572706f736573223a5b2261757468656e7469636174696f6e225d2c2274797065223a224a736f6e5765624b657932303230227d5d7d5d7d2c22646964537566666978223a22456943477a64565379416c4b36554f355447564642696f436a656c424c515563306451307675476d7551766b6651222c2272657665616c56616c7565223a224569435631764c39667349614d776662785f776e37564a625f6b6f674c58324444516176354d427130654c5f5967222c227369676e656444617461223a2265794a68624763694f694a465a45525451534a392e65794a68626d4e6f62334a47636d3974496a6f7a4e544d7a4f5441774d6a4d73496d526c624852685347467a61434936496b567051323149616d566b5a6d3432583039785a584a786545524f554563324e6d3930545639704c584675656d7030624646524d6a467a5658685a5a5545694c434a31634752686447564c5a586b694f6e736959334a32496a6f69525751794e5455784f534973496d743065534936496b394c55434973496e67694f694a616355517764546c494d7a4a4c637a4a58576e563657556472596b3957626d4a71625330346544526a4e57566c4f484257576d5a4b4e586842496977696553493649694a3966512e592d4a6756494e586c624253372d3967776969575932374e456d74424e72366d37634569654f656b52312d7143656f5a495239706573394b59315a32776d717a7956687555724731486b7556466d5a33733065414477222c2274797065223a22757064617465227d".

Example ex_accepted :
  option_map (fun o => (po_ty o, po_suffix o)) (parse_operation_bytes ex_proto false true ex_request [true] true)
  = Some (Update, bytes_of_string "EiCGzdVSyAlK6UO5TGVFBioCjelBLQUc0dQ0vuGmuQvkfQ").
Proof. vm_compute. reflexivity. Qed.

Example ex_type : rv_type (view_of_request ex_request [true] true) = bytes_of_string "update".
Proof. vm_compute. reflexivity. Qed.

Example ex_window :
  let s := rv_signed (view_of_request ex_request [true] true) in (sv_from s, sv_until s, sv_alg s) = (353390023, 0, Some (bytes_of_string "EdDSA")).
Proof. vm_compute. reflexivity. Qed.

(* the validator fact matters: with verdict false the same bytes are rejected at intake, accepted in batch mode *)
Example ex_refused_patch :
  (parse_operation_bytes ex_proto false true ex_request [false] true,
   option_map po_ty (parse_operation_bytes ex_proto true true ex_request [false] true)) = (None, Some Update).
Proof. vm_compute. reflexivity. Qed.

(* the decoded delta satisfies the side conditions of the round-trip theorem (GoJsonProofs.decode_canonical_text_std) *)
Example ex_canonical_roundtrip :
  match dq_delta (decode_request ex_request) with
  | Some d => gwfb (delta_json d) && top_shapeb (delta_json d)
  | None => false
  end = true.
Proof. vm_compute. reflexivity. Qed.

(* the request as a value, and its canonical (JCS) text: the hypotheses of [canonical_request_view] hold, and the
   canonical text is accepted with the same result *)
Definition ex_value : json :=
  match std_parse ex_request with
  | Some t => match to_iface t with Some j => j | None => JNull end
  | None => JNull
  end.

Example ex_value_ok : gwfb ex_value && top_shapeb ex_value && (jdepth ex_value <=? 10000)%N = true.
Proof. vm_compute. reflexivity. Qed.

Example ex_canonical_text_accepted :
  option_map (fun o => (po_ty o, po_suffix o)) (parse_operation_bytes ex_proto false true (print_canonical ex_value) [true] true)
  = Some (Update, bytes_of_string "EiCGzdVSyAlK6UO5TGVFBioCjelBLQUc0dQ0vuGmuQvkfQ").
Proof. vm_compute. reflexivity. Qed.

(* decoder semantics on the same request: the member name "DELTA" (or "delta" written with U+017F) is the same
   member; a later "delta":{} keeps the patches (it decodes INTO the first struct); a later "delta":null drops them *)
Definition ex_with_extra (extra : String.string) : bytes :=
  match ex_request with
  | _ :: r => x7b :: bytes_of_string extra ++ r          (* "{" extra rest *)
  | [] => []
  end.

Example ex_delta_merge :
  map (fun e => option_map po_ty (parse_operation_bytes ex_proto false true (ex_with_extra e) [true] true))
      ["""x"":1e400,"; """DELTA"":{},"; """type"":null,"; """delta"":null,"; """Type"":""create"","; """signedData"":1,"]
  = [Some Update; Some Update; Some Update; Some Update; Some Update; None].
Proof. vm_compute. reflexivity. Qed.

Example ex_delta_overwritten :
  option_map po_ty (parse_operation_bytes ex_proto false true
    (match rev ex_request with _ :: r => rev r ++ bytes_of_string ",""delta"":null}" | [] => [] end) [] true) = None.
Proof. vm_compute. reflexivity. Qed.
