(* Model of operationparser.Parser: ParseOperation and the per-type parsers with every check in
   source order (C10, C11, C12 intake, C08 long form).  Definitions only.

   Input is a *view* of the request: what encoding/json struct decoding, go-jose JWS/JSON decoding
   and JCS canonicalisation (lower layers, C07/C09) make of the request bytes.  Hashing, base64 and
   multihash framing are NOT facts: they are computed by the Hash model on the actual strings. *)
From Coq Require Import String List ZArith NArith Bool.
From Coq.Strings Require Import Byte.
From SV Require Import Base.Bytes Hash.B64 Hash.Varint Hash.Multihash Jws.Compact Resolve.Op Parser.Window.
Import ListNotations.
Local Open Scope string_scope.
Local Open Scope list_scope.
Local Open Scope Z_scope.

(* protocol.Protocol as far as the parser reads it *)
Record pproto := {
  pp_max_op_size : Z; pp_max_hash_len : Z; pp_max_delta_size : Z; pp_nonce_size : Z; pp_time_delta : Z;
  pp_hash_algs : list N; pp_sig_algs : list bytes; pp_key_algs : list bytes; pp_patches : list bytes }.

Record jwk_view := {
  jv_present : bool;
  jv_kty : bytes; jv_crv : bytes; jv_x : bytes; jv_y : bytes; jv_nonce : bytes;
  jv_canonical : bytes }.              (* JCS form of the decoded jws.JWK struct *)

Record signed_view := {
  sv_compact : bytes;                  (* the signedData string *)
  sv_hdr : hdr_facts;                  (* protected header as decoded by go-jose *)
  sv_hdr_names : list bytes;           (* its member names *)
  sv_alg : option bytes;               (* Some s when "alg" is a string *)
  sv_model_ok : bool;                  (* the JWS payload decodes into the signed-data struct of the type *)
  sv_key : jwk_view;                   (* updateKey / recoveryKey *)
  sv_delta_hash : bytes; sv_recovery_commitment : bytes; sv_did_suffix : bytes;
  sv_from : Z; sv_until : Z;
  sv_origin_ok : bool }.               (* anchor-origin validator verdict (plug-in) *)

Record delta_view := {
  dv_present : bool;
  dv_actions : list (option bytes);    (* Patch.GetAction per patch *)
  dv_patch_valid : list bool;          (* patchvalidator.Validate per patch (C18) *)
  dv_update_commitment : bytes;
  dv_canonical : bytes }.              (* JCS form of the decoded DeltaModel *)

Record suffix_view := {
  sf_present : bool; sf_delta_hash : bytes; sf_recovery_commitment : bytes;
  sf_canonical : bytes; sf_origin_ok : bool }.

Record req_view := {
  rv_len : Z;                          (* len(operationBuffer) *)
  rv_schema_ok : bool;                 (* decodes into {type string} *)
  rv_type : bytes;
  rv_struct_ok : bool;                 (* decodes into the request struct of its type *)
  rv_did_suffix : bytes; rv_reveal : bytes; rv_signed_data : bytes;
  rv_signed : signed_view; rv_delta : delta_view; rv_suffix : suffix_view }.

Definition blen (b : bytes) : Z := Z.of_nat (length b).
Definition bmem (x : bytes) (l : list bytes) : bool := existsb (bytes_eqb x) l.
Definition is_empty (b : bytes) : bool := match b with [] => true | _ => false end.

(* validateMultihash *)
Definition validate_multihash (p : pproto) (mh : bytes) : bool :=
  if blen mh >? pp_max_hash_len p then false else is_computed_using mh (pp_hash_algs p).

(* ValidateDelta *)
Definition action_enabled (p : pproto) (a : option bytes) : bool :=
  match a with Some x => bmem x (pp_patches p) | None => false end.

Fixpoint patches_ok (p : pproto) (acts : list (option bytes)) (valid : list bool) : bool :=
  match acts, valid with
  | [], _ => true
  | a :: ar, v :: vr => action_enabled p a && v && patches_ok p ar vr
  | _ :: _, [] => false
  end.

Definition validate_delta (p : pproto) (d : delta_view) : bool :=
  if negb (dv_present d) then false
  else match dv_actions d with
       | [] => false
       | _ => patches_ok p (dv_actions d) (dv_patch_valid d)
              && validate_multihash p (dv_update_commitment d)
              && negb (blen (dv_canonical d) >? pp_max_delta_size p)
       end.

(* ValidateSuffixData *)
Definition validate_suffix_data (p : pproto) (s : suffix_view) : bool :=
  sf_present s && validate_multihash p (sf_recovery_commitment s) && validate_multihash p (sf_delta_hash s).

(* validateNonce *)
Definition validate_nonce (p : pproto) (nonce : bytes) : bool :=
  if is_empty nonce then true
  else match b64_decode nonce with
       | Some b => blen b =? pp_nonce_size p
       | None => false
       end.

(* validateSigningKey *)
Definition validate_signing_key (p : pproto) (k : jwk_view) : bool :=
  jv_present k
  && negb (is_empty (jv_crv k)) && negb (is_empty (jv_kty k)) && negb (is_empty (jv_x k))   (* JWK.Validate *)
  && bmem (jv_crv k) (pp_key_algs p)
  && validate_nonce p (jv_nonce k).

(* parseSignedData: non-empty, compact JWS parses, protected header rules *)
Definition allowed_header (n : bytes) : bool := eqs n "alg" || eqs n "kid".

Definition parse_signed_data (p : pproto) (s : signed_view) : bool :=
  if is_empty (sv_compact s) then false
  else match parse_compact (sv_compact s) (sv_hdr s) with
       | None => false
       | Some _ =>
         match sv_alg s with
         | None => false                                   (* alg missing or not a string *)
         | Some a =>
           negb (is_empty a) && forallb allowed_header (sv_hdr_names s) && bmem a (pp_sig_algs p)
         end
       end.

(* validateCommitment: the next commitment must not be the commitment of the given key *)
Definition validate_commitment (k : jwk_view) (next : bytes) : bool :=
  match get_multihash_code next with
  | None => false
  | Some code =>
    match get_commitment (jv_canonical k) code with
    | None => false
    | Some c => negb (bytes_eqb c next)
    end
  end.

(* request-level validation shared by update / recover / deactivate *)
Definition validate_request_fields (p : pproto) (v : req_view) : bool :=
  negb (is_empty (rv_did_suffix v)) && negb (is_empty (rv_signed_data v)) && validate_multihash p (rv_reveal v).

Definition reveal_matches (k : jwk_view) (reveal : bytes) : bool := is_valid_model_multihash (jv_canonical k) reveal.

Record parsed := { po_ty : optype; po_suffix : bytes; po_reveal : bytes }.

(* the window handed to the time validator; [time_ok] is that plug-in's verdict *)
Definition intake_window (p : pproto) (s : signed_view) : Z * Z := (sv_from s, eff_until (pp_time_delta p) (sv_from s) (sv_until s)).

Definition parse_create (p : pproto) (batch : bool) (v : req_view) : option parsed :=
  if negb (rv_struct_ok v) then None
  else if negb (validate_suffix_data p (rv_suffix v)) then None
  else if negb batch &&
          negb (sf_origin_ok (rv_suffix v)
                && validate_delta p (rv_delta v)
                && is_valid_model_multihash (dv_canonical (rv_delta v)) (sf_delta_hash (rv_suffix v))
                && negb (bytes_eqb (dv_update_commitment (rv_delta v)) (sf_recovery_commitment (rv_suffix v))))
       then None
  else match unique_suffix (sf_canonical (rv_suffix v)) (pp_hash_algs p) with
       | Some s => Some {| po_ty := Create; po_suffix := s; po_reveal := [] |}
       | None => None
       end.

Definition parse_update (p : pproto) (batch time_ok : bool) (v : req_view) : option parsed :=
  let s := rv_signed v in
  if negb (rv_struct_ok v) then None
  else if negb (validate_request_fields p v) then None
  else if negb (parse_signed_data p s) then None
  else if negb (sv_model_ok s) then None
  else if negb (validate_signing_key p (sv_key s)) then None
  else if negb (validate_multihash p (sv_delta_hash s)) then None
  else if negb batch &&
          negb (time_ok && validate_delta p (rv_delta v)
                && validate_commitment (sv_key s) (dv_update_commitment (rv_delta v)))
       then None
  else if negb (reveal_matches (sv_key s) (rv_reveal v)) then None
  else Some {| po_ty := Update; po_suffix := rv_did_suffix v; po_reveal := rv_reveal v |}.

Definition parse_recover (p : pproto) (batch time_ok : bool) (v : req_view) : option parsed :=
  let s := rv_signed v in
  if negb (rv_struct_ok v) then None
  else if negb (validate_request_fields p v) then None
  else if negb (parse_signed_data p s) then None
  else if negb (sv_model_ok s) then None
  else if negb (validate_signing_key p (sv_key s)) then None
  else if negb (validate_multihash p (sv_recovery_commitment s)) then None
  else if negb (validate_multihash p (sv_delta_hash s)) then None
  else if negb (validate_commitment (sv_key s) (sv_recovery_commitment s)) then None
  else if negb batch &&
          negb (sv_origin_ok s && time_ok && validate_delta p (rv_delta v)
                && negb (bytes_eqb (dv_update_commitment (rv_delta v)) (sv_recovery_commitment s)))
       then None
  else if negb (reveal_matches (sv_key s) (rv_reveal v)) then None
  else Some {| po_ty := Recover; po_suffix := rv_did_suffix v; po_reveal := rv_reveal v |}.

Definition parse_deactivate (p : pproto) (batch time_ok : bool) (v : req_view) : option parsed :=
  let s := rv_signed v in
  if negb (rv_struct_ok v) then None
  else if negb (validate_request_fields p v) then None
  else if negb (parse_signed_data p s) then None
  else if negb (sv_model_ok s) then None
  else if negb (validate_signing_key p (sv_key s)) then None
  else if negb (bytes_eqb (sv_did_suffix s) (rv_did_suffix v)) then None
  else if negb (reveal_matches (sv_key s) (rv_reveal v)) then None
  else if negb batch && negb time_ok then None
  else Some {| po_ty := Deactivate; po_suffix := rv_did_suffix v; po_reveal := rv_reveal v |}.

(* ParseOperation *)
Definition parse_operation (p : pproto) (batch time_ok : bool) (v : req_view) : option parsed :=
  if rv_len v >? pp_max_op_size p then None
  else if negb (rv_schema_ok v) then None
  else if eqs (rv_type v) "create" then parse_create p batch v
  else if eqs (rv_type v) "update" then parse_update p batch time_ok v
  else if eqs (rv_type v) "deactivate" then parse_deactivate p batch time_ok v
  else if eqs (rv_type v) "recover" then parse_recover p batch time_ok v
  else None.

(* GetRevealValue / GetCommitment (batch mode); None = error *)
Definition get_reveal_value_of (p : pproto) (v : req_view) : option bytes :=
  match parse_operation p true true v with
  | Some o => match po_ty o with Create => None | _ => Some (po_reveal o) end
  | None => None
  end.

Definition get_commitment_of (p : pproto) (v : req_view) : option bytes :=
  match parse_operation p true true v with
  | Some o =>
    match po_ty o with
    | Update => if dv_present (rv_delta v) then Some (dv_update_commitment (rv_delta v)) else None
    | Deactivate => Some []
    | Recover => Some (sv_recovery_commitment (rv_signed v))
    | Create => None
    end
  | None => None
  end.
