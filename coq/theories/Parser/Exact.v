(* C10: the limits of the operation parser are inclusive and exact (model level).
   1. iff-characterisations of every numeric guard: validate_multihash (MaxOperationHashLength), the
      request size gate of ParseOperation (MaxOperationSize), validateNonce (NonceSize), the size part
      of ValidateDelta (MaxDeltaSize);
   2. parameter independence: two protocols that differ only in ONE numeric parameter X, and whose
      X-guard gives the same verdict on this request, parse the request to the same result (one theorem
      per X); the general form is [agree_parse_operation];
   3. monotonicity / threshold: a request accepted under limit L is accepted, with the same result,
      under every larger L, and rejected as soon as L is below the actual size; NonceSize is an equality
      guard: a non-empty nonce accepted under one size is refused under every other size.
   Proofs about the existing model Parser/Accept.v; the few definitions below only name parts of it. *)
From Coq Require Import String List ZArith NArith Bool Lia.
From Coq.Strings Require Import Byte.
From SV Require Import Base.Bytes Hash.B64 Hash.Varint Hash.Multihash Hash.MultihashProofs Jws.Compact Resolve.Op
  Parser.Window Parser.Accept Parser.AcceptProofs.
Import ListNotations.
Local Open Scope string_scope.
Local Open Scope list_scope.
Local Open Scope Z_scope.

Lemma gtb_false_iff a b : (a >? b) = false <-> a <= b.
Proof. rewrite Z.gtb_ltb, Z.ltb_ge. reflexivity. Qed.

Lemma gtb_true_iff a b : (a >? b) = true <-> a > b.
Proof. rewrite Z.gtb_ltb, Z.ltb_lt. lia. Qed.

(* ------------------------------------------------------------------------------------------ *)
(* 1. Exact characterisation of each guard                                                     *)
(* ------------------------------------------------------------------------------------------ *)

(* validateMultihash: length at most MaxOperationHashLength (inclusive) and an allowed algorithm *)
Theorem validate_multihash_iff p mh :
  validate_multihash p mh = true <-> blen mh <= pp_max_hash_len p /\ is_computed_using mh (pp_hash_algs p) = true.
Proof.
  unfold validate_multihash. destruct (blen mh >? pp_max_hash_len p) eqn:E.
  - apply gtb_true_iff in E. split; [discriminate | intros [H _]; lia].
  - apply gtb_false_iff in E. tauto.
Qed.

(* exactly at the limit the length plays no role; one byte more is refused *)
Corollary validate_multihash_at_limit p mh :
  blen mh = pp_max_hash_len p -> validate_multihash p mh = is_computed_using mh (pp_hash_algs p).
Proof.
  intros H. unfold validate_multihash.
  assert (E : (blen mh >? pp_max_hash_len p) = false) by (apply gtb_false_iff; lia). rewrite E. reflexivity.
Qed.

Corollary validate_multihash_above_limit p mh : blen mh = pp_max_hash_len p + 1 -> validate_multihash p mh = false.
Proof. intros H. apply over_long_hash_rejected. lia. Qed.

(* ParseOperation: what comes after the size gate *)
Definition parse_after_gate (p : pproto) (batch time_ok : bool) (v : req_view) : option parsed :=
  if negb (rv_schema_ok v) then None
  else if eqs (rv_type v) "create" then parse_create p batch v
  else if eqs (rv_type v) "update" then parse_update p batch time_ok v
  else if eqs (rv_type v) "deactivate" then parse_deactivate p batch time_ok v
  else if eqs (rv_type v) "recover" then parse_recover p batch time_ok v
  else None.

Theorem size_gate_exact p b t v :
  parse_operation p b t v = if rv_len v >? pp_max_op_size p then None else parse_after_gate p b t v.
Proof. reflexivity. Qed.

(* the request size gate: at most MaxOperationSize bytes (inclusive), and nothing else depends on the size *)
Theorem size_gate_iff p b t v o :
  parse_operation p b t v = Some o <-> rv_len v <= pp_max_op_size p /\ parse_after_gate p b t v = Some o.
Proof.
  rewrite size_gate_exact. destruct (rv_len v >? pp_max_op_size p) eqn:E.
  - apply gtb_true_iff in E. split; [discriminate | intros [H _]; lia].
  - apply gtb_false_iff in E. tauto.
Qed.

Corollary size_gate_at_limit p b t v :
  rv_len v = pp_max_op_size p -> parse_operation p b t v = parse_after_gate p b t v.
Proof.
  intros H. rewrite size_gate_exact.
  assert (E : (rv_len v >? pp_max_op_size p) = false) by (apply gtb_false_iff; lia). rewrite E. reflexivity.
Qed.

Corollary size_gate_above_limit p b t v : rv_len v = pp_max_op_size p + 1 -> parse_operation p b t v = None.
Proof. intros H. apply oversize_request_rejected. lia. Qed.

(* validateNonce: absent, or base64url of exactly NonceSize bytes *)
Theorem validate_nonce_iff p n :
  validate_nonce p n = true <-> n = [] \/ exists b, b64_decode n = Some b /\ blen b = pp_nonce_size p.
Proof.
  unfold validate_nonce. destruct n as [|x r].
  - cbn [is_empty]. split; [intros _; left; reflexivity | reflexivity].
  - cbn [is_empty]. destruct (b64_decode (x :: r)) as [b|].
    + rewrite Z.eqb_eq. split.
      * intros H. right. exists b. split; [reflexivity | exact H].
      * intros [H|(b' & Hb & Hl)]; [discriminate H | inversion Hb; subst; exact Hl].
    + split; [discriminate | intros [H|(b' & Hb & _)]; discriminate].
Qed.

(* ValidateDelta: its size part is "canonical form at most MaxDeltaSize bytes" (inclusive); the rest does
   not depend on MaxDeltaSize *)
Definition validate_delta_nosize (p : pproto) (d : delta_view) : bool :=
  dv_present d && negb (match dv_actions d with [] => true | _ => false end)
  && patches_ok p (dv_actions d) (dv_patch_valid d) && validate_multihash p (dv_update_commitment d).

Theorem validate_delta_iff p d :
  validate_delta p d = true <-> blen (dv_canonical d) <= pp_max_delta_size p /\ validate_delta_nosize p d = true.
Proof.
  unfold validate_delta, validate_delta_nosize. rewrite <- gtb_false_iff.
  destruct (dv_present d); cbn [negb andb]; [|split; [discriminate | intros [_ H]; discriminate H]].
  destruct (dv_actions d) as [|a r]; [split; [discriminate | intros [_ H]; discriminate H]|]. cbn [negb andb].
  destruct (blen (dv_canonical d) >? pp_max_delta_size p); cbn [negb].
  - rewrite andb_false_r. split; [discriminate | intros [H _]; discriminate H].
  - rewrite andb_true_r. tauto.
Qed.

Corollary validate_delta_at_limit p d :
  blen (dv_canonical d) = pp_max_delta_size p -> validate_delta p d = validate_delta_nosize p d.
Proof.
  intros H. destruct (validate_delta_nosize p d) eqn:E.
  - apply validate_delta_iff. split; [lia | exact E].
  - destruct (validate_delta p d) eqn:E'; [|reflexivity]. apply validate_delta_iff in E'. destruct E' as [_ E']. congruence.
Qed.

Corollary validate_delta_above_limit p d : blen (dv_canonical d) = pp_max_delta_size p + 1 -> validate_delta p d = false.
Proof. intros H. apply oversize_delta_rejected. lia. Qed.

(* ------------------------------------------------------------------------------------------ *)
(* 2. Parameter independence                                                                   *)
(* ------------------------------------------------------------------------------------------ *)

(* all hash strings of a request *)
Definition hash_fields (v : req_view) : list bytes :=
  [rv_reveal v; sv_delta_hash (rv_signed v); sv_recovery_commitment (rv_signed v);
   dv_update_commitment (rv_delta v); sf_recovery_commitment (rv_suffix v); sf_delta_hash (rv_suffix v)].

(* the hash strings validateMultihash is applied to, by request type and mode: the delta (and with it
   delta.updateCommitment) is validated by the parser at intake only - in batch mode ValidateDelta is
   left to the applier - and never for a deactivate *)
Definition delta_checked (batch : bool) (v : req_view) : list bytes :=
  if batch then [] else [dv_update_commitment (rv_delta v)].

(* dispatch on the request type, in the order of ParseOperation *)
Definition type_case {A : Type} (v : req_view) (c u d r other : A) : A :=
  if eqs (rv_type v) "create" then c
  else if eqs (rv_type v) "update" then u
  else if eqs (rv_type v) "deactivate" then d
  else if eqs (rv_type v) "recover" then r
  else other.

Definition checked_hash_fields (batch : bool) (v : req_view) : list bytes :=
  type_case v
    ([sf_recovery_commitment (rv_suffix v); sf_delta_hash (rv_suffix v)] ++ delta_checked batch v)
    ([rv_reveal v; sv_delta_hash (rv_signed v)] ++ delta_checked batch v)
    [rv_reveal v]
    ([rv_reveal v; sv_recovery_commitment (rv_signed v); sv_delta_hash (rv_signed v)] ++ delta_checked batch v)
    [].

(* ValidateDelta (hence the MaxDeltaSize guard) is run by the parser / validateNonce is run *)
Definition delta_size_checked (batch : bool) (v : req_view) : bool := negb batch && type_case v true true false true false.
Definition nonce_checked (v : req_view) : bool := type_case v false true true true false.

(* the non-numeric configuration is the same *)
Definition same_algs (p q : pproto) : Prop :=
  pp_hash_algs p = pp_hash_algs q /\ pp_sig_algs p = pp_sig_algs q /\ pp_key_algs p = pp_key_algs q /\
  pp_patches p = pp_patches q.

(* the verdict of each numeric guard on this request *)
Definition op_size_guard (p : pproto) (v : req_view) : bool := rv_len v >? pp_max_op_size p.
Definition hash_len_guard (p : pproto) (h : bytes) : bool := blen h >? pp_max_hash_len p.
Definition delta_size_guard (p : pproto) (v : req_view) : bool := blen (dv_canonical (rv_delta v)) >? pp_max_delta_size p.
Definition nonce_guard (p : pproto) (v : req_view) : bool := validate_nonce p (jv_nonce (sv_key (rv_signed v))).

(* p and q agree on this request: same algorithms, and every numeric guard that is evaluated gives the same
   verdict.  (MaxOperationTimeDelta is not read by parse_operation: the time validator's verdict is its
   argument.)  [agree_body] is the part that concerns what comes after the size gate. *)
Definition agree_body (b : bool) (p q : pproto) (v : req_view) : Prop :=
  same_algs p q /\
  Forall (fun h => hash_len_guard p h = hash_len_guard q h) (checked_hash_fields b v) /\
  (delta_size_checked b v = true -> delta_size_guard p v = delta_size_guard q v) /\
  (nonce_checked v = true -> nonce_guard p v = nonce_guard q v).

Definition agree (b : bool) (p q : pproto) (v : req_view) : Prop :=
  op_size_guard p v = op_size_guard q v /\ agree_body b p q v.

Lemma validate_multihash_congr p q h :
  pp_hash_algs p = pp_hash_algs q -> hash_len_guard p h = hash_len_guard q h ->
  validate_multihash p h = validate_multihash q h.
Proof. unfold validate_multihash, hash_len_guard. intros -> ->. reflexivity. Qed.

Lemma patches_ok_congr p q acts : pp_patches p = pp_patches q ->
  forall valid, patches_ok p acts valid = patches_ok q acts valid.
Proof.
  intros Hp. induction acts as [|a r IH]; intros valid; cbn [patches_ok]; [reflexivity|].
  destruct valid as [|x t]; [reflexivity|]. rewrite IH. unfold action_enabled. rewrite Hp. reflexivity.
Qed.

Lemma validate_delta_congr p q v :
  same_algs p q -> hash_len_guard p (dv_update_commitment (rv_delta v)) = hash_len_guard q (dv_update_commitment (rv_delta v)) ->
  delta_size_guard p v = delta_size_guard q v -> validate_delta p (rv_delta v) = validate_delta q (rv_delta v).
Proof.
  intros (Hh & _ & _ & Hp) Hg Hd. unfold validate_delta.
  rewrite (validate_multihash_congr p q _ Hh Hg), (patches_ok_congr p q _ Hp). unfold delta_size_guard in Hd. rewrite Hd. reflexivity.
Qed.

Lemma signing_key_congr p q v :
  same_algs p q -> nonce_guard p v = nonce_guard q v ->
  validate_signing_key p (sv_key (rv_signed v)) = validate_signing_key q (sv_key (rv_signed v)).
Proof. intros (_ & _ & Hk & _) Hn. unfold validate_signing_key. unfold nonce_guard in Hn. rewrite Hn, Hk. reflexivity. Qed.

Lemma signed_data_congr p q s : same_algs p q -> parse_signed_data p s = parse_signed_data q s.
Proof. intros (_ & Hs & _). unfold parse_signed_data. rewrite Hs. reflexivity. Qed.

Ltac guard_of Hf := apply Hf; cbn [In app delta_checked]; auto 10.

Lemma agree_create p q b v :
  same_algs p q ->
  (forall h, In h ([sf_recovery_commitment (rv_suffix v); sf_delta_hash (rv_suffix v)] ++ delta_checked b v) ->
             hash_len_guard p h = hash_len_guard q h) ->
  (b = false -> delta_size_guard p v = delta_size_guard q v) ->
  parse_create p b v = parse_create q b v.
Proof.
  intros Ha Hf Hd. pose proof Ha as (Hh & _).
  assert (G1 : hash_len_guard p (sf_recovery_commitment (rv_suffix v)) = hash_len_guard q (sf_recovery_commitment (rv_suffix v))) by guard_of Hf.
  assert (G2 : hash_len_guard p (sf_delta_hash (rv_suffix v)) = hash_len_guard q (sf_delta_hash (rv_suffix v))) by guard_of Hf.
  unfold parse_create, validate_suffix_data.
  rewrite (validate_multihash_congr p q _ Hh G1), (validate_multihash_congr p q _ Hh G2), Hh.
  destruct b; cbn [negb andb]; [reflexivity|].
  rewrite (validate_delta_congr p q v Ha); [reflexivity | guard_of Hf | apply Hd; reflexivity].
Qed.

Lemma agree_update p q b t v :
  same_algs p q ->
  (forall h, In h ([rv_reveal v; sv_delta_hash (rv_signed v)] ++ delta_checked b v) -> hash_len_guard p h = hash_len_guard q h) ->
  (b = false -> delta_size_guard p v = delta_size_guard q v) -> nonce_guard p v = nonce_guard q v ->
  parse_update p b t v = parse_update q b t v.
Proof.
  intros Ha Hf Hd Hn. pose proof Ha as (Hh & _).
  assert (G1 : hash_len_guard p (rv_reveal v) = hash_len_guard q (rv_reveal v)) by guard_of Hf.
  assert (G2 : hash_len_guard p (sv_delta_hash (rv_signed v)) = hash_len_guard q (sv_delta_hash (rv_signed v))) by guard_of Hf.
  unfold parse_update, validate_request_fields.
  rewrite (validate_multihash_congr p q _ Hh G1), (validate_multihash_congr p q _ Hh G2),
          (signed_data_congr p q _ Ha), (signing_key_congr p q v Ha Hn).
  destruct b; cbn [negb andb]; [reflexivity|].
  rewrite (validate_delta_congr p q v Ha); [reflexivity | guard_of Hf | apply Hd; reflexivity].
Qed.

Lemma agree_recover p q b t v :
  same_algs p q ->
  (forall h, In h ([rv_reveal v; sv_recovery_commitment (rv_signed v); sv_delta_hash (rv_signed v)] ++ delta_checked b v) ->
             hash_len_guard p h = hash_len_guard q h) ->
  (b = false -> delta_size_guard p v = delta_size_guard q v) -> nonce_guard p v = nonce_guard q v ->
  parse_recover p b t v = parse_recover q b t v.
Proof.
  intros Ha Hf Hd Hn. pose proof Ha as (Hh & _).
  assert (G1 : hash_len_guard p (rv_reveal v) = hash_len_guard q (rv_reveal v)) by guard_of Hf.
  assert (G2 : hash_len_guard p (sv_recovery_commitment (rv_signed v)) = hash_len_guard q (sv_recovery_commitment (rv_signed v))) by guard_of Hf.
  assert (G3 : hash_len_guard p (sv_delta_hash (rv_signed v)) = hash_len_guard q (sv_delta_hash (rv_signed v))) by guard_of Hf.
  unfold parse_recover, validate_request_fields.
  rewrite (validate_multihash_congr p q _ Hh G1), (validate_multihash_congr p q _ Hh G2), (validate_multihash_congr p q _ Hh G3),
          (signed_data_congr p q _ Ha), (signing_key_congr p q v Ha Hn).
  destruct b; cbn [negb andb]; [reflexivity|].
  rewrite (validate_delta_congr p q v Ha); [reflexivity | guard_of Hf | apply Hd; reflexivity].
Qed.

Lemma agree_deactivate p q b t v :
  same_algs p q -> hash_len_guard p (rv_reveal v) = hash_len_guard q (rv_reveal v) -> nonce_guard p v = nonce_guard q v ->
  parse_deactivate p b t v = parse_deactivate q b t v.
Proof.
  intros Ha G1 Hn. pose proof Ha as (Hh & _). unfold parse_deactivate, validate_request_fields.
  rewrite (validate_multihash_congr p q _ Hh G1), (signed_data_congr p q _ Ha), (signing_key_congr p q v Ha Hn). reflexivity.
Qed.

Definition is_some_b {A : Type} (o : option A) : bool := match o with Some _ => true | None => false end.

Lemma negb_true_false b : negb b = true -> b = false.
Proof. destruct b; [discriminate | reflexivity]. Qed.

Lemma agree_after_gate p q v b t : agree_body b p q v -> parse_after_gate p b t v = parse_after_gate q b t v.
Proof.
  intros (Ha & Hf & Hd & Hn). rewrite Forall_forall in Hf.
  unfold parse_after_gate. unfold checked_hash_fields, type_case in Hf. unfold delta_size_checked, type_case in Hd. unfold nonce_checked, type_case in Hn.
  destruct (rv_schema_ok v); cbn [negb]; [|reflexivity].
  destruct (eqs (rv_type v) "create").
  { apply agree_create; [exact Ha | exact Hf|]. intros ->. apply Hd. reflexivity. }
  destruct (eqs (rv_type v) "update").
  { apply agree_update; [exact Ha | exact Hf | | apply Hn; reflexivity]. intros ->. apply Hd. reflexivity. }
  destruct (eqs (rv_type v) "deactivate").
  { apply agree_deactivate; [exact Ha | apply Hf; left; reflexivity | apply Hn; reflexivity]. }
  destruct (eqs (rv_type v) "recover"); [|reflexivity].
  apply agree_recover; [exact Ha | exact Hf | | apply Hn; reflexivity]. intros ->. apply Hd. reflexivity.
Qed.

(* GENERAL FORM: the result depends on the numeric parameters only through the verdicts of the guards that
   are evaluated for this request type and mode *)
Theorem agree_parse_operation p q v b t : agree b p q v -> parse_operation p b t v = parse_operation q b t v.
Proof.
  intros [Hs Hb]. rewrite !size_gate_exact, (agree_after_gate p q v b t Hb). unfold op_size_guard in Hs. rewrite Hs. reflexivity.
Qed.

(* "p and q differ only in parameter X": every other field is equal (pp_time_delta may differ too: the
   parser does not read it) *)
Definition differ_only_op_size (p q : pproto) : Prop :=
  same_algs p q /\ pp_max_hash_len p = pp_max_hash_len q /\ pp_max_delta_size p = pp_max_delta_size q /\ pp_nonce_size p = pp_nonce_size q.
Definition differ_only_hash_len (p q : pproto) : Prop :=
  same_algs p q /\ pp_max_op_size p = pp_max_op_size q /\ pp_max_delta_size p = pp_max_delta_size q /\ pp_nonce_size p = pp_nonce_size q.
Definition differ_only_delta_size (p q : pproto) : Prop :=
  same_algs p q /\ pp_max_op_size p = pp_max_op_size q /\ pp_max_hash_len p = pp_max_hash_len q /\ pp_nonce_size p = pp_nonce_size q.
Definition differ_only_nonce_size (p q : pproto) : Prop :=
  same_algs p q /\ pp_max_op_size p = pp_max_op_size q /\ pp_max_hash_len p = pp_max_hash_len q /\ pp_max_delta_size p = pp_max_delta_size q.

Lemma same_hash_guards p q l : pp_max_hash_len p = pp_max_hash_len q ->
  Forall (fun h => hash_len_guard p h = hash_len_guard q h) l.
Proof. intros H. apply Forall_forall. intros h _. unfold hash_len_guard. rewrite H. reflexivity. Qed.

Lemma same_op_guard p q v : pp_max_op_size p = pp_max_op_size q -> op_size_guard p v = op_size_guard q v.
Proof. intros H. unfold op_size_guard. rewrite H. reflexivity. Qed.
Lemma same_delta_guard p q v : pp_max_delta_size p = pp_max_delta_size q -> delta_size_guard p v = delta_size_guard q v.
Proof. intros H. unfold delta_size_guard. rewrite H. reflexivity. Qed.
Lemma same_nonce_guard p q v : pp_nonce_size p = pp_nonce_size q -> nonce_guard p v = nonce_guard q v.
Proof. intros H. unfold nonce_guard, validate_nonce. rewrite H. reflexivity. Qed.

(* every checked field is a hash field of the request *)
Lemma checked_incl b v : incl (checked_hash_fields b v) (hash_fields v).
Proof.
  unfold checked_hash_fields, type_case, hash_fields, delta_checked. intros h Hin.
  destruct (eqs (rv_type v) "create"); [destruct b; cbn [app In] in *; intuition|].
  destruct (eqs (rv_type v) "update"); [destruct b; cbn [app In] in *; intuition|].
  destruct (eqs (rv_type v) "deactivate"); [cbn [app In] in *; intuition|].
  destruct (eqs (rv_type v) "recover"); [destruct b; cbn [app In] in *; intuition | destruct Hin].
Qed.

(* X = MaxOperationSize *)
Theorem max_op_size_independence p q b t v :
  differ_only_op_size p q -> op_size_guard p v = op_size_guard q v ->
  parse_operation p b t v = parse_operation q b t v.
Proof.
  intros (Ha & Hh & Hd & Hn) Hg. apply agree_parse_operation. split; [exact Hg|].
  split; [exact Ha|]. split; [apply same_hash_guards; exact Hh|].
  split; intros _; [apply same_delta_guard; exact Hd | apply same_nonce_guard; exact Hn].
Qed.

(* X = MaxOperationHashLength: the guard is evaluated on the checked hash fields of the request *)
Theorem max_hash_len_independence p q b t v :
  differ_only_hash_len p q -> Forall (fun h => hash_len_guard p h = hash_len_guard q h) (checked_hash_fields b v) ->
  parse_operation p b t v = parse_operation q b t v.
Proof.
  intros (Ha & Hs & Hd & Hn) Hg. apply agree_parse_operation. split; [apply same_op_guard; exact Hs|].
  split; [exact Ha|]. split; [exact Hg|].
  split; intros _; [apply same_delta_guard; exact Hd | apply same_nonce_guard; exact Hn].
Qed.

Corollary max_hash_len_independence_all_fields p q b t v :
  differ_only_hash_len p q -> Forall (fun h => hash_len_guard p h = hash_len_guard q h) (hash_fields v) ->
  parse_operation p b t v = parse_operation q b t v.
Proof.
  intros Hd Hg. apply max_hash_len_independence; [exact Hd|]. rewrite Forall_forall in *. intros h Hh. apply Hg, (checked_incl b v), Hh.
Qed.

(* X = MaxDeltaSize: when the parser does not run ValidateDelta (batch mode, deactivate) it does not matter at all *)
Theorem max_delta_size_independence p q b t v :
  differ_only_delta_size p q -> (delta_size_checked b v = true -> delta_size_guard p v = delta_size_guard q v) ->
  parse_operation p b t v = parse_operation q b t v.
Proof.
  intros (Ha & Hs & Hh & Hn) Hg. apply agree_parse_operation. split; [apply same_op_guard; exact Hs|].
  split; [exact Ha|]. split; [apply same_hash_guards; exact Hh|].
  split; [exact Hg | intros _; apply same_nonce_guard; exact Hn].
Qed.

(* X = NonceSize: irrelevant for a create *)
Theorem nonce_size_independence p q b t v :
  differ_only_nonce_size p q -> (nonce_checked v = true -> nonce_guard p v = nonce_guard q v) ->
  parse_operation p b t v = parse_operation q b t v.
Proof.
  intros (Ha & Hs & Hh & Hd) Hg. apply agree_parse_operation. split; [apply same_op_guard; exact Hs|].
  split; [exact Ha|]. split; [apply same_hash_guards; exact Hh|].
  split; [intros _; apply same_delta_guard; exact Hd | exact Hg].
Qed.

(* MaxOperationTimeDelta plays no role in parse_operation at all *)
Theorem time_delta_independence p q b t v :
  same_algs p q -> pp_max_op_size p = pp_max_op_size q -> pp_max_hash_len p = pp_max_hash_len q ->
  pp_max_delta_size p = pp_max_delta_size q -> pp_nonce_size p = pp_nonce_size q ->
  parse_operation p b t v = parse_operation q b t v.
Proof.
  intros Ha Hs Hh Hd Hn. apply agree_parse_operation. split; [apply same_op_guard; exact Hs|].
  split; [exact Ha|]. split; [apply same_hash_guards; exact Hh|].
  split; intros _; [apply same_delta_guard; exact Hd | apply same_nonce_guard; exact Hn].
Qed.

(* ------------------------------------------------------------------------------------------ *)
(* 3. Monotonicity and thresholds                                                              *)
(* ------------------------------------------------------------------------------------------ *)

(* q allows at least what p allows: same algorithms and nonce size, each limit at least as large *)
Definition more_permissive (p q : pproto) : Prop :=
  same_algs p q /\ pp_nonce_size p = pp_nonce_size q /\
  pp_max_op_size p <= pp_max_op_size q /\ pp_max_hash_len p <= pp_max_hash_len q /\
  pp_max_delta_size p <= pp_max_delta_size q.

Lemma validate_multihash_mono p q h :
  more_permissive p q -> validate_multihash p h = true -> validate_multihash q h = true.
Proof.
  intros ((Hh & _) & _ & _ & Hl & _) H. apply validate_multihash_iff in H. apply validate_multihash_iff.
  rewrite <- Hh. split; [lia | apply H].
Qed.

Lemma validate_delta_mono p q d :
  more_permissive p q -> validate_delta p d = true -> validate_delta q d = true.
Proof.
  intros Hle H. pose proof Hle as ((_ & _ & _ & Hp) & _ & _ & _ & Hd).
  apply validate_delta_iff in H. destruct H as [Hs H]. apply validate_delta_iff. split; [lia|].
  unfold validate_delta_nosize in *. rewrite <- (patches_ok_congr p q _ Hp).
  apply andb_true_iff in H. destruct H as [H Hm]. rewrite H. apply (validate_multihash_mono _ _ _ Hle Hm).
Qed.

Lemma signing_key_same p q k : more_permissive p q -> validate_signing_key q k = validate_signing_key p k.
Proof.
  intros ((_ & _ & Hk & _) & Hn & _). unfold validate_signing_key, validate_nonce. rewrite Hk, Hn. reflexivity.
Qed.

Lemma signed_data_same p q s : more_permissive p q -> parse_signed_data q s = parse_signed_data p s.
Proof. intros ((_ & Hs & _) & _). unfold parse_signed_data. rewrite Hs. reflexivity. Qed.

Lemma request_fields_mono p q v :
  more_permissive p q -> validate_request_fields p v = true -> validate_request_fields q v = true.
Proof.
  intros Hle H. unfold validate_request_fields in *. apply andb_true_iff in H. destruct H as [H Hm].
  rewrite H, (validate_multihash_mono _ _ _ Hle Hm). reflexivity.
Qed.

Lemma suffix_data_mono p q s :
  more_permissive p q -> validate_suffix_data p s = true -> validate_suffix_data q s = true.
Proof.
  intros Hle H. unfold validate_suffix_data in *. apply andb_true_iff in H. destruct H as [H H2].
  apply andb_true_iff in H. destruct H as [H0 H1].
  rewrite H0, (validate_multihash_mono _ _ _ Hle H1), (validate_multihash_mono _ _ _ Hle H2). reflexivity.
Qed.

Lemma create_mono p q b v o : more_permissive p q -> parse_create p b v = Some o -> parse_create q b v = Some o.
Proof.
  intros Hle H. pose proof Hle as ((Hh & _) & _). unfold parse_create in *. rewrite <- Hh.
  destruct (rv_struct_ok v); cbn [negb] in *; [|discriminate].
  destruct (validate_suffix_data p (rv_suffix v)) eqn:E1; cbn [negb] in H; [|discriminate].
  rewrite (suffix_data_mono _ _ _ Hle E1). cbn [negb].
  destruct b; cbn [negb andb] in *; [exact H|].
  destruct (sf_origin_ok (rv_suffix v)); cbn [andb] in *; [|discriminate].
  destruct (validate_delta p (rv_delta v)) eqn:E2; cbn [andb negb] in H; [|discriminate].
  rewrite (validate_delta_mono _ _ _ Hle E2). exact H.
Qed.

Lemma update_mono p q b t v o : more_permissive p q -> parse_update p b t v = Some o -> parse_update q b t v = Some o.
Proof.
  intros Hle H. unfold parse_update in *. rewrite (signed_data_same p q _ Hle), (signing_key_same p q _ Hle).
  destruct (rv_struct_ok v); cbn [negb] in *; [|discriminate].
  destruct (validate_request_fields p v) eqn:E1; cbn [negb] in H; [|discriminate].
  rewrite (request_fields_mono _ _ _ Hle E1). cbn [negb].
  destruct (parse_signed_data p (rv_signed v)); cbn [negb] in *; [|discriminate].
  destruct (sv_model_ok (rv_signed v)); cbn [negb] in *; [|discriminate].
  destruct (validate_signing_key p (sv_key (rv_signed v))); cbn [negb] in *; [|discriminate].
  destruct (validate_multihash p (sv_delta_hash (rv_signed v))) eqn:E2; cbn [negb] in H; [|discriminate].
  rewrite (validate_multihash_mono _ _ _ Hle E2). cbn [negb].
  destruct b; cbn [negb andb] in *; [exact H|].
  destruct t; cbn [andb] in *; [|discriminate].
  destruct (validate_delta p (rv_delta v)) eqn:E3; cbn [andb negb] in H; [|discriminate].
  rewrite (validate_delta_mono _ _ _ Hle E3). exact H.
Qed.

Lemma recover_mono p q b t v o : more_permissive p q -> parse_recover p b t v = Some o -> parse_recover q b t v = Some o.
Proof.
  intros Hle H. unfold parse_recover in *. rewrite (signed_data_same p q _ Hle), (signing_key_same p q _ Hle).
  destruct (rv_struct_ok v); cbn [negb] in *; [|discriminate].
  destruct (validate_request_fields p v) eqn:E1; cbn [negb] in H; [|discriminate].
  rewrite (request_fields_mono _ _ _ Hle E1). cbn [negb].
  destruct (parse_signed_data p (rv_signed v)); cbn [negb] in *; [|discriminate].
  destruct (sv_model_ok (rv_signed v)); cbn [negb] in *; [|discriminate].
  destruct (validate_signing_key p (sv_key (rv_signed v))); cbn [negb] in *; [|discriminate].
  destruct (validate_multihash p (sv_recovery_commitment (rv_signed v))) eqn:E2; cbn [negb] in H; [|discriminate].
  rewrite (validate_multihash_mono _ _ _ Hle E2). cbn [negb].
  destruct (validate_multihash p (sv_delta_hash (rv_signed v))) eqn:E3; cbn [negb] in H; [|discriminate].
  rewrite (validate_multihash_mono _ _ _ Hle E3). cbn [negb].
  destruct (validate_commitment (sv_key (rv_signed v)) (sv_recovery_commitment (rv_signed v))); cbn [negb] in *; [|discriminate].
  destruct b; cbn [negb andb] in *; [exact H|].
  destruct (sv_origin_ok (rv_signed v)); cbn [andb] in *; [|discriminate].
  destruct t; cbn [andb] in *; [|discriminate].
  destruct (validate_delta p (rv_delta v)) eqn:E4; cbn [andb negb] in H; [|discriminate].
  rewrite (validate_delta_mono _ _ _ Hle E4). exact H.
Qed.

Lemma deactivate_mono p q b t v o : more_permissive p q -> parse_deactivate p b t v = Some o -> parse_deactivate q b t v = Some o.
Proof.
  intros Hle H. unfold parse_deactivate in *. rewrite (signed_data_same p q _ Hle), (signing_key_same p q _ Hle).
  destruct (rv_struct_ok v); cbn [negb] in *; [|discriminate].
  destruct (validate_request_fields p v) eqn:E1; cbn [negb] in H; [|discriminate].
  rewrite (request_fields_mono _ _ _ Hle E1). cbn [negb]. exact H.
Qed.

(* MONOTONICITY, general form: whatever is accepted stays accepted, with the same result, when limits grow *)
Theorem parse_operation_mono p q b t v o :
  more_permissive p q -> parse_operation p b t v = Some o -> parse_operation q b t v = Some o.
Proof.
  intros Hle H. pose proof Hle as (_ & _ & Hs & _). apply size_gate_iff in H. destruct H as [Hl H]. apply size_gate_iff.
  split; [lia|]. unfold parse_after_gate in *.
  destruct (rv_schema_ok v); cbn [negb] in *; [|discriminate].
  destruct (eqs (rv_type v) "create"); [eapply create_mono; eassumption|].
  destruct (eqs (rv_type v) "update"); [eapply update_mono; eassumption|].
  destruct (eqs (rv_type v) "deactivate"); [eapply deactivate_mono; eassumption|].
  destruct (eqs (rv_type v) "recover"); [eapply recover_mono; eassumption | discriminate].
Qed.

Lemma more_permissive_refl_except p q :
  same_algs p q -> pp_nonce_size p = pp_nonce_size q -> pp_max_op_size p <= pp_max_op_size q ->
  pp_max_hash_len p <= pp_max_hash_len q -> pp_max_delta_size p <= pp_max_delta_size q -> more_permissive p q.
Proof. unfold more_permissive. auto. Qed.

(* one theorem per limit: accepted under L, accepted under every larger L *)
Theorem max_op_size_monotone p q b t v o :
  differ_only_op_size p q -> pp_max_op_size p <= pp_max_op_size q ->
  parse_operation p b t v = Some o -> parse_operation q b t v = Some o.
Proof. intros (Ha & Hh & Hd & Hn) Hle. apply parse_operation_mono. apply more_permissive_refl_except; auto; lia. Qed.

Theorem max_hash_len_monotone p q b t v o :
  differ_only_hash_len p q -> pp_max_hash_len p <= pp_max_hash_len q ->
  parse_operation p b t v = Some o -> parse_operation q b t v = Some o.
Proof. intros (Ha & Hs & Hd & Hn) Hle. apply parse_operation_mono. apply more_permissive_refl_except; auto; lia. Qed.

Theorem max_delta_size_monotone p q b t v o :
  differ_only_delta_size p q -> pp_max_delta_size p <= pp_max_delta_size q ->
  parse_operation p b t v = Some o -> parse_operation q b t v = Some o.
Proof. intros (Ha & Hs & Hh & Hn) Hle. apply parse_operation_mono. apply more_permissive_refl_except; auto; lia. Qed.

(* THRESHOLD for the request size: a request accepted under some limit is accepted under L exactly when its
   length is at most L - the limit is inclusive and nothing else about L matters *)
Theorem max_op_size_threshold p q b t v o :
  differ_only_op_size p q -> parse_operation p b t v = Some o ->
  parse_operation q b t v = if op_size_guard q v then None else Some o.
Proof.
  intros (Ha & Hh & Hd & Hn) H. apply size_gate_iff in H. destruct H as [_ H].
  rewrite size_gate_exact. unfold op_size_guard. destruct (rv_len v >? pp_max_op_size q); [reflexivity|].
  rewrite <- H. symmetry. apply agree_after_gate.
  split; [exact Ha|]. split; [apply same_hash_guards; exact Hh|].
  split; intros _; [apply same_delta_guard; exact Hd | apply same_nonce_guard; exact Hn].
Qed.

(* ------------------------------------------------------------------------------------------ *)
(* 4. Thresholds for the other limits                                                          *)
(* ------------------------------------------------------------------------------------------ *)

(* acceptance means that every guard that is evaluated for this type and mode passed *)
Lemma create_accepted_checks p b v o : parse_create p b v = Some o ->
  validate_multihash p (sf_recovery_commitment (rv_suffix v)) = true /\ validate_multihash p (sf_delta_hash (rv_suffix v)) = true /\
  (b = false -> validate_delta p (rv_delta v) = true).
Proof.
  unfold parse_create, validate_suffix_data. intros H.
  destruct (rv_struct_ok v); cbn [negb] in H; [|discriminate].
  destruct (sf_present (rv_suffix v)); cbn [andb negb] in H; [|discriminate].
  destruct (validate_multihash p (sf_recovery_commitment (rv_suffix v))); cbn [andb negb] in H; [|discriminate].
  destruct (validate_multihash p (sf_delta_hash (rv_suffix v))); cbn [andb negb] in H; [|discriminate].
  split; [reflexivity|]. split; [reflexivity|]. intros ->. cbn [negb andb] in H.
  destruct (sf_origin_ok (rv_suffix v)); cbn [andb negb] in H; [|discriminate].
  destruct (validate_delta p (rv_delta v)); [reflexivity | discriminate].
Qed.

Lemma signed_prefix_checks p v :
  validate_request_fields p v = true -> validate_multihash p (rv_reveal v) = true.
Proof. unfold validate_request_fields. intros H. apply andb_true_iff in H. apply H. Qed.

Lemma signing_key_nonce p k : validate_signing_key p k = true -> validate_nonce p (jv_nonce k) = true.
Proof. unfold validate_signing_key. intros H. apply andb_true_iff in H. apply H. Qed.

Lemma update_accepted_checks p b t v o : parse_update p b t v = Some o ->
  validate_multihash p (rv_reveal v) = true /\ validate_multihash p (sv_delta_hash (rv_signed v)) = true /\
  nonce_guard p v = true /\ (b = false -> validate_delta p (rv_delta v) = true).
Proof.
  unfold parse_update. intros H.
  destruct (rv_struct_ok v); cbn [negb] in H; [|discriminate].
  destruct (validate_request_fields p v) eqn:E1; cbn [negb] in H; [|discriminate].
  destruct (parse_signed_data p (rv_signed v)); cbn [negb] in H; [|discriminate].
  destruct (sv_model_ok (rv_signed v)); cbn [negb] in H; [|discriminate].
  destruct (validate_signing_key p (sv_key (rv_signed v))) eqn:E2; cbn [negb] in H; [|discriminate].
  destruct (validate_multihash p (sv_delta_hash (rv_signed v))); cbn [negb] in H; [|discriminate].
  split; [apply signed_prefix_checks; exact E1|]. split; [reflexivity|]. split; [apply signing_key_nonce; exact E2|].
  intros ->. cbn [negb andb] in H. destruct t; cbn [andb negb] in H; [|discriminate].
  destruct (validate_delta p (rv_delta v)); [reflexivity | discriminate].
Qed.

Lemma recover_accepted_checks p b t v o : parse_recover p b t v = Some o ->
  validate_multihash p (rv_reveal v) = true /\ validate_multihash p (sv_recovery_commitment (rv_signed v)) = true /\
  validate_multihash p (sv_delta_hash (rv_signed v)) = true /\
  nonce_guard p v = true /\ (b = false -> validate_delta p (rv_delta v) = true).
Proof.
  unfold parse_recover. intros H.
  destruct (rv_struct_ok v); cbn [negb] in H; [|discriminate].
  destruct (validate_request_fields p v) eqn:E1; cbn [negb] in H; [|discriminate].
  destruct (parse_signed_data p (rv_signed v)); cbn [negb] in H; [|discriminate].
  destruct (sv_model_ok (rv_signed v)); cbn [negb] in H; [|discriminate].
  destruct (validate_signing_key p (sv_key (rv_signed v))) eqn:E2; cbn [negb] in H; [|discriminate].
  destruct (validate_multihash p (sv_recovery_commitment (rv_signed v))); cbn [negb] in H; [|discriminate].
  destruct (validate_multihash p (sv_delta_hash (rv_signed v))); cbn [negb] in H; [|discriminate].
  destruct (validate_commitment (sv_key (rv_signed v)) (sv_recovery_commitment (rv_signed v))); cbn [negb] in H; [|discriminate].
  split; [apply signed_prefix_checks; exact E1|]. split; [reflexivity|]. split; [reflexivity|].
  split; [apply signing_key_nonce; exact E2|].
  intros ->. cbn [negb andb] in H. destruct (sv_origin_ok (rv_signed v)); cbn [andb negb] in H; [|discriminate].
  destruct t; cbn [andb negb] in H; [|discriminate].
  destruct (validate_delta p (rv_delta v)); [reflexivity | discriminate].
Qed.

Lemma deactivate_accepted_checks p b t v o : parse_deactivate p b t v = Some o ->
  validate_multihash p (rv_reveal v) = true /\ nonce_guard p v = true.
Proof.
  unfold parse_deactivate. intros H.
  destruct (rv_struct_ok v); cbn [negb] in H; [|discriminate].
  destruct (validate_request_fields p v) eqn:E1; cbn [negb] in H; [|discriminate].
  destruct (parse_signed_data p (rv_signed v)); cbn [negb] in H; [|discriminate].
  destruct (sv_model_ok (rv_signed v)); cbn [negb] in H; [|discriminate].
  destruct (validate_signing_key p (sv_key (rv_signed v))) eqn:E2; cbn [negb] in H; [|discriminate].
  split; [apply signed_prefix_checks; exact E1 | apply signing_key_nonce; exact E2].
Qed.

Lemma validate_delta_commitment p d : validate_delta p d = true -> validate_multihash p (dv_update_commitment d) = true.
Proof.
  unfold validate_delta. destruct (dv_present d); cbn [negb]; [|discriminate]. destruct (dv_actions d); [discriminate|].
  intros H. apply andb_true_iff in H. destruct H as [H _]. apply andb_true_iff in H. apply H.
Qed.

Theorem accepted_checks_passed p b t v o :
  parse_operation p b t v = Some o ->
  Forall (fun h => validate_multihash p h = true) (checked_hash_fields b v) /\
  (delta_size_checked b v = true -> validate_delta p (rv_delta v) = true) /\
  (nonce_checked v = true -> nonce_guard p v = true).
Proof.
  intros H. apply size_gate_iff in H. destruct H as [_ H]. unfold parse_after_gate in H.
  unfold checked_hash_fields, delta_size_checked, nonce_checked, type_case, delta_checked.
  destruct (rv_schema_ok v); cbn [negb] in H; [|discriminate].
  destruct (eqs (rv_type v) "create").
  { destruct (create_accepted_checks _ _ _ _ H) as (H1 & H2 & H3). split; [|split].
    - destruct b; cbn [app]; repeat constructor; try assumption. apply validate_delta_commitment, H3. reflexivity.
    - rewrite andb_true_r. intros Hb. apply H3. apply negb_true_false, Hb.
    - discriminate. }
  destruct (eqs (rv_type v) "update").
  { destruct (update_accepted_checks _ _ _ _ _ H) as (H1 & H2 & Hn & H3). split; [|split].
    - destruct b; cbn [app]; repeat constructor; try assumption. apply validate_delta_commitment, H3. reflexivity.
    - rewrite andb_true_r. intros Hb. apply H3. apply negb_true_false, Hb.
    - intros _. exact Hn. }
  destruct (eqs (rv_type v) "deactivate").
  { destruct (deactivate_accepted_checks _ _ _ _ _ H) as (H1 & Hn). split; [|split].
    - repeat constructor. exact H1.
    - rewrite andb_false_r. discriminate.
    - intros _. exact Hn. }
  destruct (eqs (rv_type v) "recover"); [|discriminate].
  destruct (recover_accepted_checks _ _ _ _ _ H) as (H1 & H2 & H3 & Hn & H4). split; [|split].
  - destruct b; cbn [app]; repeat constructor; try assumption. apply validate_delta_commitment, H4. reflexivity.
  - rewrite andb_true_r. intros Hb. apply H4. apply negb_true_false, Hb.
  - intros _. exact Hn.
Qed.

Lemma validate_multihash_guard p h : validate_multihash p h = true -> hash_len_guard p h = false.
Proof. intros H. apply validate_multihash_iff in H. apply gtb_false_iff. apply H. Qed.

Lemma validate_delta_guard p v : validate_delta p (rv_delta v) = true -> delta_size_guard p v = false.
Proof. intros H. apply validate_delta_iff in H. apply gtb_false_iff. apply H. Qed.

(* THRESHOLD for the hash length: a request accepted under some limit is accepted under L exactly when every
   hash string that is checked for its type and mode has at most L characters *)
Theorem max_hash_len_threshold p q b t v o :
  differ_only_hash_len p q -> parse_operation p b t v = Some o ->
  parse_operation q b t v = if existsb (hash_len_guard q) (checked_hash_fields b v) then None else Some o.
Proof.
  intros Hdiff H. destruct (existsb (hash_len_guard q) (checked_hash_fields b v)) eqn:E.
  - destruct (parse_operation q b t v) as [o'|] eqn:Eq; [|reflexivity]. exfalso.
    destruct (accepted_checks_passed _ _ _ _ _ Eq) as (Hf & _). rewrite Forall_forall in Hf.
    apply existsb_exists in E. destruct E as (h & Hin & Hg). rewrite (validate_multihash_guard _ _ (Hf h Hin)) in Hg. discriminate.
  - rewrite <- H. symmetry. apply max_hash_len_independence; [exact Hdiff|].
    destruct (accepted_checks_passed _ _ _ _ _ H) as (Hf & _). rewrite Forall_forall in *. intros h Hin.
    rewrite (validate_multihash_guard _ _ (Hf h Hin)). symmetry.
    destruct (hash_len_guard q h) eqn:Eg; [|reflexivity].
    assert (Hex : existsb (hash_len_guard q) (checked_hash_fields b v) = true) by (apply existsb_exists; exists h; auto).
    rewrite Hex in E. discriminate E.
Qed.

(* THRESHOLD for the delta size (where the parser validates the delta: intake mode, not a deactivate) *)
Theorem max_delta_size_threshold p q b t v o :
  differ_only_delta_size p q -> parse_operation p b t v = Some o ->
  parse_operation q b t v = if delta_size_checked b v && delta_size_guard q v then None else Some o.
Proof.
  intros Hdiff H. destruct (delta_size_checked b v && delta_size_guard q v) eqn:E.
  - apply andb_true_iff in E. destruct E as [Ec Eg].
    destruct (parse_operation q b t v) as [o'|] eqn:Eq; [|reflexivity]. exfalso.
    destruct (accepted_checks_passed _ _ _ _ _ Eq) as (_ & Hd & _).
    rewrite (validate_delta_guard _ _ (Hd Ec)) in Eg. discriminate.
  - rewrite <- H. symmetry. apply max_delta_size_independence; [exact Hdiff|]. intros Hc.
    destruct (accepted_checks_passed _ _ _ _ _ H) as (_ & Hd & _).
    rewrite (validate_delta_guard _ _ (Hd Hc)). rewrite Hc in E. cbn [andb] in E. symmetry. exact E.
Qed.

(* NonceSize is an equality guard *)
Theorem nonce_size_threshold p q b t v o :
  differ_only_nonce_size p q -> parse_operation p b t v = Some o ->
  parse_operation q b t v = if nonce_checked v && negb (nonce_guard q v) then None else Some o.
Proof.
  intros Hdiff H. destruct (nonce_checked v && negb (nonce_guard q v)) eqn:E.
  - apply andb_true_iff in E. destruct E as [Ec Eg]. apply negb_true_false in Eg.
    destruct (parse_operation q b t v) as [o'|] eqn:Eq; [|reflexivity]. exfalso.
    destruct (accepted_checks_passed _ _ _ _ _ Eq) as (_ & _ & Hn). rewrite (Hn Ec) in Eg. discriminate.
  - rewrite <- H. symmetry. apply nonce_size_independence; [exact Hdiff|]. intros Hc.
    destruct (accepted_checks_passed _ _ _ _ _ H) as (_ & _ & Hn). rewrite (Hn Hc).
    rewrite Hc in E. cbn [andb] in E. symmetry. destruct (nonce_guard q v); [reflexivity | discriminate E].
Qed.

(* a non-empty nonce accepted under one NonceSize is refused under every other *)
Theorem nonce_size_exact p q n :
  n <> [] -> validate_nonce p n = true -> pp_nonce_size q <> pp_nonce_size p -> validate_nonce q n = false.
Proof.
  intros Hne Hp Hq. destruct (validate_nonce q n) eqn:E; [|reflexivity]. exfalso.
  apply validate_nonce_iff in Hp, E.
  destruct Hp as [Hp|(b1 & Hb1 & Hl1)]; [contradiction|]. destruct E as [E|(b2 & Hb2 & Hl2)]; [contradiction|].
  rewrite Hb1 in Hb2. inversion Hb2; subst b2. congruence.
Qed.

(* ------------------------------------------------------------------------------------------ *)
(* 5. Non-vacuity                                                                              *)
(* ------------------------------------------------------------------------------------------ *)

Definition ex_p (op hash delta nonce : Z) : pproto :=
  {| pp_max_op_size := op; pp_max_hash_len := hash; pp_max_delta_size := delta; pp_nonce_size := nonce; pp_time_delta := 7200;
     pp_hash_algs := [18%N]; pp_sig_algs := [bytes_of_string "EdDSA"]; pp_key_algs := [bytes_of_string "Ed25519"];
     pp_patches := [bytes_of_string "replace"] |}.

(* base64url(multihash(sha2-256, 32 zero bytes)): 46 characters *)
Definition ex_mh : bytes := b64_encode (mh_encode 18%N (repeat x00 32)).

Definition ex_mh2 : bytes := b64_encode (mh_encode 18%N (repeat x01 32)).
Definition ex_delta_canonical : bytes := repeat x61 50.
Definition ex_delta_hash : bytes := match calculate_model_multihash ex_delta_canonical 18%N with Some h => h | None => [] end.

Example ex_mh_len : (blen ex_mh, blen ex_mh2, blen ex_delta_hash) = (46, 46, 46). Proof. vm_compute. reflexivity. Qed.

(* inclusive and exact: accepted at 46, refused at 45 *)
Example ex_multihash_limit :
  (validate_multihash (ex_p 100 46 100 16) ex_mh, validate_multihash (ex_p 100 45 100 16) ex_mh) = (true, false).
Proof. vm_compute. reflexivity. Qed.

Definition ex_create (len : Z) : req_view :=
  {| rv_len := len; rv_schema_ok := true; rv_type := bytes_of_string "create"; rv_struct_ok := true;
     rv_did_suffix := []; rv_reveal := []; rv_signed_data := [];
     rv_signed := {| sv_compact := []; sv_hdr := {| h_json_ok := false; h_has_alg := false; h_b64 := B64Absent; h_marshal := [] |};
                     sv_hdr_names := []; sv_alg := None; sv_model_ok := false;
                     sv_key := {| jv_present := false; jv_kty := []; jv_crv := []; jv_x := []; jv_y := []; jv_nonce := []; jv_canonical := [] |};
                     sv_delta_hash := []; sv_recovery_commitment := []; sv_did_suffix := []; sv_from := 0; sv_until := 0; sv_origin_ok := true |};
     rv_delta := {| dv_present := true; dv_actions := [Some (bytes_of_string "replace")]; dv_patch_valid := [true];
                    dv_update_commitment := ex_mh; dv_canonical := ex_delta_canonical |};
     rv_suffix := {| sf_present := true; sf_delta_hash := ex_delta_hash; sf_recovery_commitment := ex_mh2;
                     sf_canonical := bytes_of_string "{}"; sf_origin_ok := true |} |}.

(* the size gate: a 100-byte request under limits 100 / 99; the delta (50 bytes canonical) under limits 50 / 49
   in batch mode, where only the size gate applies *)
Example ex_size_gate :
  (is_some_b (parse_operation (ex_p 100 46 50 16) true true (ex_create 100)),
   is_some_b (parse_operation (ex_p 99 46 50 16) true true (ex_create 100)),
   is_some_b (parse_operation (ex_p 100 46 49 16) true true (ex_create 100)),
   validate_delta (ex_p 100 46 50 16) (rv_delta (ex_create 100)),
   validate_delta (ex_p 100 46 49 16) (rv_delta (ex_create 100)))
  = (true, false, true, true, false).
Proof. vm_compute. reflexivity. Qed.

(* the hypotheses of the threshold / independence theorems hold for these protocols *)
Example ex_differ :
  differ_only_op_size (ex_p 100 46 50 16) (ex_p 99 46 50 16) /\ differ_only_hash_len (ex_p 100 46 50 16) (ex_p 100 45 50 16) /\
  differ_only_delta_size (ex_p 100 46 50 16) (ex_p 100 46 49 16) /\ differ_only_nonce_size (ex_p 100 46 50 16) (ex_p 100 46 50 8).
Proof. unfold differ_only_op_size, differ_only_hash_len, differ_only_delta_size, differ_only_nonce_size, same_algs. cbn. tauto. Qed.

(* at intake the delta size and the hash length of delta.updateCommitment are guarded too: inclusive and exact *)
Example ex_intake_limits :
  (is_some_b (parse_operation (ex_p 100 46 50 16) false true (ex_create 100)),
   is_some_b (parse_operation (ex_p 100 46 49 16) false true (ex_create 100)),
   is_some_b (parse_operation (ex_p 100 45 50 16) false true (ex_create 100)),
   existsb (hash_len_guard (ex_p 100 45 50 16)) (checked_hash_fields false (ex_create 100)),
   delta_size_checked false (ex_create 100) && delta_size_guard (ex_p 100 46 49 16) (ex_create 100))
  = (true, false, false, true, true).
Proof. vm_compute. reflexivity. Qed.
