(* protocol.Protocol: the numeric parameters, and Go's fixed-width integer conversions as used by
   the translated kernels.  Definitions only. *)
From Coq Require Import ZArith List String.
Local Open Scope Z_scope.

Record proto := {
  GenesisTime : Z;
  MaxOperationCount : Z;
  MaxOperationSize : Z;
  MaxOperationHashLength : Z;
  MaxDeltaSize : Z;
  MaxCasURILength : Z;
  MaxCoreIndexFileSize : Z;
  MaxProofFileSize : Z;
  MaxProvisionalIndexFileSize : Z;
  MaxChunkFileSize : Z;
  MaxOperationTimeDelta : Z;
  NonceSize : Z;
  MaxMemoryDecompressionFactor : Z }.

(* two's complement wrap to 64 bits *)
Definition to_int64 (z : Z) : Z := (z + 2^63) mod 2^64 - 2^63.
Definition to_uint64 (z : Z) : Z := z mod 2^64.
Definition to_int (z : Z) : Z := to_int64 z.      (* int is 64 bits on the supported platforms *)
Definition to_uint (z : Z) : Z := to_uint64 z.

(* all parameters are unsigned and far below 2^62 in any sane configuration *)
Definition small (z : Z) : Prop := 0 <= z < 2^62.
Definition proto_small (p : proto) : Prop :=
  small (MaxOperationCount p) /\ small (MaxOperationSize p) /\ small (MaxOperationHashLength p) /\
  small (MaxDeltaSize p) /\ small (MaxCasURILength p) /\ small (MaxOperationTimeDelta p) /\
  small (NonceSize p) /\ small (MaxMemoryDecompressionFactor p) /\ small (GenesisTime p).
