(* Anchoring-time window (C05).  Model of operationapplier.verifyAnchoringTimeRange /
   getAnchorUntil and operationparser.getAnchorUntil.  Definitions only. *)
From Coq Require Import ZArith Bool.
Local Open Scope Z_scope.

(* effective upper bound: a missing anchorUntil (0) with a present anchorFrom defaults to
   anchorFrom + MaxOperationTimeDelta *)
Definition eff_until (max_time_delta from until : Z) : Z :=
  if negb (from =? 0) && (until =? 0) then from + max_time_delta else until.

(* verifyAnchoringTimeRange: true = no error *)
Definition in_window (max_time_delta from until anchor : Z) : bool :=
  if (from =? 0) && (until =? 0) then true
  else if from >? anchor then false
  else if eff_until max_time_delta from until <? anchor then false
  else true.
