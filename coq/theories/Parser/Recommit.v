(* Intake rule "no re-commit to the revealed key" (C12), at the level of which key and which
   multihash code each commitment is made of.  Definitions only.
   A commitment is identified by (key, code): commitment strings of different keys or codes
   differ (no hash collision among the generated keys; checked by the harness at run time). *)
From Coq Require Import ZArith Bool.
From SV Require Import Resolve.Op.
Local Open Scope Z_scope.

Record commit_id := { ck : Z; ccode : Z }.
Definition commit_eqb (a b : commit_id) : bool := (ck a =? ck b) && (ccode a =? ccode b).

(* operationparser.validateCommitment: the current commitment is recomputed from the revealed key
   under the code the next commitment names *)
Definition reuses_revealed (revealed : Z) (next : commit_id) : bool := ck next =? revealed.

(* Parse (batch=false) acceptance as far as the re-commit rules are concerned *)
Definition intake_accepts (t : optype) (revealed : Z) (next : commit_id) (other : commit_id) : bool :=
  match t with
  | Update => negb (reuses_revealed revealed next)
  | Recover => negb (reuses_revealed revealed next) && negb (commit_eqb other next)
  | Create => negb (commit_eqb other next)
  | Deactivate => true
  end.
