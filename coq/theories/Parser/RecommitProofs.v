From Coq Require Import ZArith Bool Lia.
From SV Require Import Resolve.Op Parser.Recommit.
Local Open Scope Z_scope.

Lemma commit_eqb_spec a b : commit_eqb a b = true <-> ck a = ck b /\ ccode a = ccode b.
Proof. unfold commit_eqb. rewrite andb_true_iff, !Z.eqb_eq. tauto. Qed.

Lemma intake_accepts_sound t revealed next other :
  intake_accepts t revealed next other = true ->
  (t = Update \/ t = Recover -> ck next <> revealed) /\
  (t = Create \/ t = Recover -> ~ (ck other = ck next /\ ccode other = ccode next)).
Proof.
  unfold intake_accepts, reuses_revealed. destruct t; intros H.
  - split; [intros [?|?]; discriminate|]. intros _ Hc. apply commit_eqb_spec in Hc. rewrite Hc in H. discriminate.
  - split; [|intros [?|?]; discriminate]. intros _ Hc. apply Z.eqb_eq in Hc. rewrite Hc in H. discriminate.
  - apply andb_true_iff in H. destruct H as [H1 H2]. split.
    + intros _ Hc. apply Z.eqb_eq in Hc. rewrite Hc in H1. discriminate.
    + intros _ Hc. apply commit_eqb_spec in Hc. rewrite Hc in H2. discriminate.
  - split; intros [?|?]; discriminate.
Qed.

Lemma intake_rejects_only_recommit t revealed next other :
  intake_accepts t revealed next other = false ->
  (t = Update /\ ck next = revealed) \/
  (t = Recover /\ (ck next = revealed \/ (ck other = ck next /\ ccode other = ccode next))) \/
  (t = Create /\ ck other = ck next /\ ccode other = ccode next).
Proof.
  unfold intake_accepts, reuses_revealed. destruct t; intros H.
  - right. right. apply negb_false_iff, commit_eqb_spec in H. tauto.
  - left. apply negb_false_iff, Z.eqb_eq in H. tauto.
  - right. left. split; [reflexivity|]. apply andb_false_iff in H. destruct H as [H|H]; apply negb_false_iff in H.
    + left. apply Z.eqb_eq. exact H.
    + right. apply commit_eqb_spec. exact H.
  - discriminate.
Qed.
