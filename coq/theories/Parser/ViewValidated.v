(* The request view with the patch-validator verdicts COMPUTED: the C18 model of patchvalidator.Validate
   (Doc/Validator.v) is run on the patches that Parser/ViewOfBytes.v decodes from the request bytes, so that the
   list [valid] (dv_patch_valid) is no longer a fact supplied by the harness.  Definitions only.

   How a decoded patch reaches the validator in the code
     operationparser.ValidateDelta ranges over delta.Patches ([]patch.Patch, patch.Patch = map[Key]interface{}) as
     encoding/json left them: every value is nil / bool / float64 / string / []interface{} / map[string]interface{}.
     patchvalidator.Validate works on these values by type assertion only -
       Patch.GetAction, Patch.GetValue        map lookups; a nil map (patch written as null) has no "action"
       getRequiredArray, getRequiredMap       entry.([]interface{}) / entry.(map[string]interface{})
       document.ParsePublicKeys/ParseServices, document.StringArray, ReplaceDocumentFromJSONLDObject
                                              type assertions, elements of another kind are skipped
     - with ONE exception: the ietf-json-patch validator re-marshals the value (json.Marshal of the []interface{})
     and decodes the text again with jsonpatch.DecodePatch into []map[string]*json.RawMessage, then json.Unmarshal of
     "path" / "from" into a string.  On values that come out of encoding/json this round trip is the identity for
     everything the validator looks at: numbers are finite doubles (Marshal cannot fail), strings are valid UTF-8
     (the decoder already coerced them; HTML/U+2028 escaping is undone by the second decoding), maps have no
     duplicate names, null elements become nil maps ("path not found"), a null "path" becomes a nil *RawMessage
     ("invalid path"), nesting only gets shallower.  Doc/Validator.v [jsonpatch_paths_out] is that decoding of the
     re-marshalled operations, as a function of the value.
   Hence the value handed to the validator model is the decoded map as a JSON object ([json_of_patchv]); member
   lookup by LAST occurrence ([jlast], Doc/Validator.v) and by FIRST occurrence ([jget], action_of in ViewOfBytes.v)
   agree on it because the decoder ([patch_members], jset) never produces a duplicate name
   (ViewValidatedProofs.decoded_patches_wf).

   Oracles (Section variables, as in Doc/Validator.v; behaviour of net/url, not modelled):
     uri_ok s    = true  iff  url.ParseRequestURI(s) succeeds
     uri_parse s = Some t iff url.Parse(s) succeeds and t = its String()
   The anchor-origin plug-in stays a function [ov] of the decoded anchorOrigin value. *)
From Coq Require Import String List ZArith NArith Bool.
From Coq.Strings Require Import Byte.
From SV Require Import Base.Bytes Json.Ast Json.GoJson Doc.Validator Parser.Accept Parser.ViewOfBytes.
Import ListNotations.

(* patch.Patch as the value the validator model takes: nil map = null (no members), otherwise the object *)
Definition json_of_patchv (p : patchv) : json :=
  match p with
  | Some m => JObj m
  | None => JNull
  end.

(* the patches of the decoded delta, in order, as validator inputs *)
Definition decoded_patches (b : bytes) : list json := map json_of_patchv (dq_patches (decode_request b)).

Section Oracles.
Variable uri_ok : bytes -> bool.               (* url.ParseRequestURI succeeds *)
Variable uri_parse : bytes -> option bytes.    (* url.Parse + String() *)

(* patchvalidator.Validate(p) == nil on a decoded patch *)
Definition patch_validator (p : patchv) : bool := validate_patch uri_ok uri_parse (json_of_patchv p).

(* the verdict list that used to be a fact *)
Definition valid_of_bytes (b : bytes) : list bool := map (validate_patch uri_ok uri_parse) (decoded_patches b).

(* the view with the validator model plugged in *)
Definition validated_view (ov : option json -> bool) (b : bytes) : req_view :=
  view_of_request_with patch_validator ov b.

(* the verdict of the origin plug-in for this request (true when it is not called) *)
Definition origin_of_bytes (ov : option json -> bool) (b : bytes) : bool :=
  match dq_origin_arg (decode_request b) with Some a => ov a | None => true end.

(* the parser model on request bytes, validator included *)
Definition parse_operation_validated (p : pproto) (batch time_ok : bool) (ov : option json -> bool) (b : bytes)
  : option parsed :=
  parse_operation p batch time_ok (validated_view ov b).

(* the loop of ValidateDelta over the decoded patches, as the C18 model states it (action known, enabled, Validate) *)
Definition delta_patches_validated (p : pproto) (b : bytes) : bool :=
  validate_delta_patches uri_ok uri_parse (pp_patches p) (decoded_patches b).

End Oracles.

(* ---------- examples ---------- *)
Local Open Scope string_scope.

(* a nil patch has no action: rejected by Validate, and GetAction fails *)
Example nil_patch_rejected :
  (patch_validator (fun _ => true) (fun u => Some u) None, action_of None) = (false, None).
Proof. reflexivity. Qed.

(* duplicate members of a patch object: the later one wins in the decoded map, for the action and for the value *)
Example duplicate_members_last_wins :
  let b := bs "{""type"":""update"",""delta"":{""patches"":[{""action"":""replace"",""ids"":[],""action"":""remove-services"",""ids"":[""a b""],""ids"":[""s1""]}]}}" in
  (decoded_patches b, valid_of_bytes (fun _ => true) (fun u => Some u) b)
  = ([JObj [(bs "action", JStr (bs "remove-services")); (bs "ids", JArr [JStr (bs "s1")])]], [true]).
Proof. vm_compute. reflexivity. Qed.

(* a second "patches" array decodes INTO the maps of the first: the validator sees the merged patch *)
Example merged_patch_is_validated :
  let b := bs "{""type"":""update"",""delta"":{""patches"":[{""action"":""ietf-json-patch""}],""patches"":[{""patches"":[{""op"":""remove"",""path"":""/service/0""}]}]}}" in
  (map (patch_action) (decoded_patches b), valid_of_bytes (fun _ => true) (fun u => Some u) b)
  = ([Some (bs "ietf-json-patch")], [false]).
Proof. vm_compute. reflexivity. Qed.
