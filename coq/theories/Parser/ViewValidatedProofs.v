(* Theorems about Parser/ViewValidated.v: the parser model on request BYTES with the C18 validator model computing the
   per-patch verdicts (C10 <-> C18).
   (a) bridge: [validated_view] / [parse_operation_validated] are [view_of_request] / [parse_operation_bytes] on the
       computed verdict list, so every theorem of ViewOfBytesProofs.v applies with valid := valid_of_bytes b
   (b) the decoder never produces a patch with a repeated member name; hence Patch.GetAction as modelled by the parser
       view (first occurrence) and by the validator model (last occurrence) agree on decoded patches
   (c) the loop of ValidateDelta in the parser model (C10, patches_ok on the view) IS the loop of the C18 model
       (validate_delta_patches) on the decoded patches
   (d) acceptance at intake of a create / update / recover request, as bytes: every decoded patch has an enabled action
       and satisfies validate_patch; composition with the C18 theorems (patch_rules; an accepted request's
       ietf-json-patch leaves publicKey / service untouched)
   (e) examples on the bytes of real requests *)
From Coq Require Import String List ZArith NArith Bool Lia.
From Coq.Strings Require Import Byte.
From SV Require Import Base.Bytes Json.Ast Json.GoJson Jws.Compact Resolve.Op Parser.Accept Parser.AcceptProofs Parser.ViewOfBytes
  Parser.ViewOfBytesProofs Doc.JsonPatch Doc.Validator Doc.ValidatorProofs Doc.JsonPatchProofs Parser.ViewValidated.
Import ListNotations.
Local Open Scope string_scope.
Local Open Scope list_scope.

Local Lemma beq_eq : forall a b, bytes_eqb a b = true -> a = b.
Proof. exact SV.Doc.ValidatorProofs.bytes_eqb_eq. Qed.
Local Lemma beq_refl : forall a, bytes_eqb a a = true.
Proof. exact SV.Doc.ValidatorProofs.bytes_eqb_refl. Qed.

(* ================================================================================================ *)
(** * (b) decoded patches have pairwise distinct member names *)

Definition patchv_wf (p : patchv) : Prop :=
  match p with Some m => NoDup (map fst m) | None => True end.

Definition delta_wf (d : delta_m) : Prop := Forall patchv_wf (dm_patches d) /\ Forall patchv_wf (dm_stale d).

Definition opt_wf {T} (P : T -> Prop) (o : option T) : Prop := match o with Some x => P x | None => True end.

Lemma jset_keys : forall k (v : json) m x, In x (map fst (jset k v m)) -> x = k \/ In x (map fst m).
Proof.
  intros k v m. induction m as [|[k' v'] r IH]; intros x H; cbn [jset] in H.
  - cbn in H. destruct H as [H|[]]. now left.
  - destruct (bytes_eqb k k') eqn:E.
    + apply beq_eq in E. subst k'. right. exact H.
    + cbn [map fst] in H. destruct H as [H|H]; [right; now left|].
      destruct (IH x H) as [H1|H1]; [now left | right; now right].
Qed.

Lemma jset_nodup : forall k (v : json) m, NoDup (map fst m) -> NoDup (map fst (jset k v m)).
Proof.
  intros k v m. induction m as [|[k' v'] r IH]; intros H; cbn [jset].
  - cbn. constructor; [intros [] | constructor].
  - destruct (bytes_eqb k k') eqn:E.
    + apply beq_eq in E. subst k'. exact H.
    + cbn [map fst] in *. inversion H as [|? ? Hni Hr]; subst. constructor; [|now apply IH].
      intro Hin. destruct (jset_keys _ _ _ _ Hin) as [H1|H1]; [|now apply Hni].
      subst k'. rewrite beq_refl in E. discriminate E.
Qed.

Lemma patch_members_nodup : forall m acc r,
  NoDup (map fst acc) -> patch_members m acc = Some r -> NoDup (map fst r).
Proof.
  induction m as [|[k v] m IH]; intros acc r Hn H; cbn [patch_members] in H.
  - inversion H; subst. exact Hn.
  - destruct (to_iface v) as [j|]; [|discriminate H]. apply (IH _ _ (jset_nodup k j acc Hn) H).
Qed.

Lemma dec_patch_wf : forall g old p, patchv_wf old -> dec_patch g old = Some p -> patchv_wf p.
Proof.
  intros g old p Hold H. destruct g; cbn [dec_patch] in H; try discriminate H.
  - inversion H; subst. exact I.
  - destruct (patch_members m match old with Some x => x | None => [] end) as [r|] eqn:E; [|discriminate H].
    inversion H; subst. cbn [patchv_wf]. eapply patch_members_nodup; [|exact E].
    destruct old as [x|]; [exact Hold | constructor].
Qed.

Lemma Forall_rev' : forall {A} (P : A -> Prop) l, Forall P l -> Forall P (rev' l).
Proof.
  intros A P l H. unfold rev'. rewrite <- rev_alt. apply Forall_forall. intros x Hx. apply in_rev in Hx.
  rewrite Forall_forall in H. now apply H.
Qed.

Lemma dec_elems_wf : forall l backing acc el st,
  Forall patchv_wf backing -> Forall patchv_wf acc -> dec_elems l backing acc = Some (el, st) ->
  Forall patchv_wf el /\ Forall patchv_wf st.
Proof.
  induction l as [|g l IH]; intros backing acc el st Hb Ha H; cbn [dec_elems] in H.
  - inversion H; subst. split; [now apply Forall_rev' | exact Hb].
  - destruct backing as [|o b'].
    + destruct (dec_patch g None) as [p|] eqn:E; [|discriminate H].
      apply (IH [] (p :: acc) el st); [constructor | constructor; [apply (dec_patch_wf g None p I E) | exact Ha] | exact H].
    + inversion Hb as [|? ? Ho Hb']; subst.
      destruct (dec_patch g o) as [p|] eqn:E; [|discriminate H].
      apply (IH b' (p :: acc) el st); [exact Hb' | constructor; [apply (dec_patch_wf g o p Ho E) | exact Ha] | exact H].
Qed.

Lemma delta_member_wf : forall st fk v st', delta_wf st -> delta_member st fk v = Some st' -> delta_wf st'.
Proof.
  intros st fk v st' [Hp Hs] H. unfold delta_member in H.
  destruct (is_field fk "UPDATECOMMITMENT").
  { destruct (dec_str v (dm_upd st)); [|discriminate H]. inversion H; subst. split; assumption. }
  destruct (is_field fk "PATCHES"); [|inversion H; subst; split; assumption].
  destruct v as [| | | |l|]; try discriminate H.
  - inversion H; subst. split; constructor.
  - destruct l as [|g l]; [inversion H; subst; split; constructor|].
    destruct (dec_elems (g :: l) (dm_patches st ++ dm_stale st) []) as [[el sl]|] eqn:E; [|discriminate H].
    inversion H; subst. cbn [delta_wf dm_patches dm_stale].
    apply (dec_elems_wf _ _ _ _ _ (proj2 (Forall_app _ _ _) (conj Hp Hs)) (Forall_nil _) E).
Qed.

Lemma fold_members_inv : forall {T} (P : T -> Prop) (f : T -> bytes -> gj -> option T),
  (forall st k v st', P st -> f st k v = Some st' -> P st') ->
  forall m st st', P st -> fold_members f m st = Some st' -> P st'.
Proof.
  intros T P f Hf. induction m as [|[k v] m IH]; intros st st' Hp H; cbn [fold_members] in H.
  - inversion H; subst. exact Hp.
  - destruct (f st (fold_name k) v) as [st1|] eqn:E; [|discriminate H]. apply (IH st1 st' (Hf _ _ _ _ Hp E) H).
Qed.

Lemma dec_ptr_inv : forall {T} (P : T -> Prop) (zero : T) (f : T -> bytes -> gj -> option T),
  (forall st k v st', P st -> f st k v = Some st' -> P st') -> P zero ->
  forall g old r, opt_wf P old -> dec_ptr zero f g old = Some r -> opt_wf P r.
Proof.
  intros T P zero f Hf Hz g old r Hold H. destruct g; cbn [dec_ptr] in H; try discriminate H.
  - inversion H; subst. exact I.
  - destruct (fold_members f m match old with Some x => x | None => zero end) as [x|] eqn:E; [|discriminate H].
    inversion H; subst. cbn [opt_wf]. eapply (fold_members_inv P f Hf m); [|exact E].
    destruct old as [y|]; [exact Hold | exact Hz].
Qed.

Lemma unmarshal_tree_inv : forall {T} (P : T -> Prop) (zero : T) (f : T -> bytes -> gj -> option T),
  (forall st k v st', P st -> f st k v = Some st' -> P st') -> P zero ->
  forall g r, unmarshal_tree f zero g = Some r -> P r.
Proof.
  intros T P zero f Hf Hz g r H. destruct g as [t|]; [|discriminate H]. cbn [unmarshal_tree] in H.
  destruct t; cbn [dec_struct] in H; try discriminate H.
  - inversion H; subst. exact Hz.
  - apply (fold_members_inv P f Hf m zero r Hz H).
Qed.

Lemma delta_zero_wf : delta_wf delta_zero.
Proof. split; constructor. Qed.

Lemma create_member_wf : forall st fk v st',
  opt_wf delta_wf (cr_delta st) -> create_member st fk v = Some st' -> opt_wf delta_wf (cr_delta st').
Proof.
  intros st fk v st' Hp H. unfold create_member in H.
  destruct (is_field fk "TYPE"). { destruct (dec_str v (cr_type st)); [|discriminate H]. inversion H; subst. exact Hp. }
  destruct (is_field fk "SUFFIXDATA").
  { destruct (dec_ptr suffix_zero suffix_member v (cr_suffix st)); [|discriminate H]. inversion H; subst. exact Hp. }
  destruct (is_field fk "DELTA"); [|inversion H; subst; exact Hp].
  destruct (dec_ptr delta_zero delta_member v (cr_delta st)) as [r|] eqn:E; [|discriminate H].
  inversion H; subst. cbn [cr_delta].
  apply (dec_ptr_inv delta_wf delta_zero delta_member delta_member_wf delta_zero_wf v (cr_delta st) r Hp E).
Qed.

Lemma update_member_wf : forall st fk v st',
  opt_wf delta_wf (ur_delta st) -> update_member st fk v = Some st' -> opt_wf delta_wf (ur_delta st').
Proof.
  intros st fk v st' Hp H. unfold update_member in H.
  destruct (is_field fk "TYPE"). { destruct (dec_str v (ur_type st)); [|discriminate H]. inversion H; subst. exact Hp. }
  destruct (is_field fk "DIDSUFFIX"). { destruct (dec_str v (ur_did st)); [|discriminate H]. inversion H; subst. exact Hp. }
  destruct (is_field fk "REVEALVALUE"). { destruct (dec_str v (ur_reveal st)); [|discriminate H]. inversion H; subst. exact Hp. }
  destruct (is_field fk "SIGNEDDATA"). { destruct (dec_str v (ur_signed st)); [|discriminate H]. inversion H; subst. exact Hp. }
  destruct (is_field fk "DELTA"); [|inversion H; subst; exact Hp].
  destruct (dec_ptr delta_zero delta_member v (ur_delta st)) as [r|] eqn:E; [|discriminate H].
  inversion H; subst. cbn [ur_delta].
  apply (dec_ptr_inv delta_wf delta_zero delta_member delta_member_wf delta_zero_wf v (ur_delta st) r Hp E).
Qed.

Lemma decode_tree_delta_wf : forall len tree, opt_wf delta_wf (dq_delta (decode_tree len tree)).
Proof.
  intros len tree. unfold decode_tree. destruct (schema_of tree) as [ty ok].
  destruct (negb ok); [exact I|].
  destruct (eqs ty "create").
  { destruct (unmarshal_tree create_member create_zero tree) as [r|] eqn:E; [|exact I]. cbn [dq_delta].
    apply (unmarshal_tree_inv (fun st => opt_wf delta_wf (cr_delta st)) create_zero create_member create_member_wf I tree r E). }
  destruct (eqs ty "update").
  { destruct (unmarshal_tree update_member update_zero tree) as [r|] eqn:E; [|exact I]. cbn [dq_delta].
    apply (unmarshal_tree_inv (fun st => opt_wf delta_wf (ur_delta st)) update_zero update_member update_member_wf I tree r E). }
  destruct (eqs ty "recover").
  { destruct (unmarshal_tree update_member update_zero tree) as [r|] eqn:E; [|exact I]. cbn [dq_delta].
    apply (unmarshal_tree_inv (fun st => opt_wf delta_wf (ur_delta st)) update_zero update_member update_member_wf I tree r E). }
  destruct (eqs ty "deactivate").
  { destruct (unmarshal_tree deact_member deact_zero tree); exact I. }
  exact I.
Qed.

(* THEOREM decoded_patches_wf: whatever the request bytes, no decoded patch has two members of the same name
   (Go maps; in the model: [patch_members] inserts with [jset]) - including patches assembled from several "patches"
   arrays and from stale elements of the backing array *)
Theorem decoded_patches_wf : forall b, Forall patchv_wf (dq_patches (decode_request b)).
Proof.
  intro b. unfold dq_patches, decode_request.
  pose proof (decode_tree_delta_wf (Z.of_nat (length b)) (std_parse b)) as H.
  destruct (dq_delta (decode_tree (Z.of_nat (length b)) (std_parse b))) as [x|]; [exact (proj1 H) | constructor].
Qed.

(* first and last occurrence agree when names are distinct *)
Lemma jlast_in : forall k m x, jlast k m = Some x -> In k (map fst m).
Proof.
  intros k m. induction m as [|[k' v] r IH]; intros x H; cbn [jlast] in H; [discriminate H|].
  destruct (jlast k r) as [y|] eqn:E.
  - right. apply (IH y eq_refl).
  - destruct (bytes_eqb k k') eqn:Ek; [|discriminate H]. apply beq_eq in Ek. subst k'. now left.
Qed.

Lemma jlast_jget_nodup : forall k m, NoDup (map fst m) -> jlast k m = jget k m.
Proof.
  intros k m. induction m as [|[k' v] r IH]; intros Hn; [reflexivity|].
  cbn [map fst] in Hn. inversion Hn as [|? ? Hni Hr]; subst. cbn [jlast jget]. pose proof (IH Hr) as E0.
  destruct (bytes_eqb k k') eqn:E.
  - apply beq_eq in E. subst k'. destruct (jlast k r) as [y|] eqn:Ej; [|reflexivity].
    exfalso. apply Hni. apply (jlast_in _ _ _ Ej).
  - rewrite E0. destruct (jget k r); reflexivity.
Qed.

(* the configured actions: the table of the parser view and the table of the validator model are the same set *)
Lemma known_action_iff : forall a,
  bmem a known_actions = match action_value_key a with Some _ => true | None => false end.
Proof.
  intro a. unfold action_value_key, B.
  destruct (bytes_eqb a (bs "add-public-keys")) eqn:E1; [apply beq_eq in E1; subst a; reflexivity|].
  destruct (bytes_eqb a (bs "remove-public-keys")) eqn:E2; [apply beq_eq in E2; subst a; reflexivity|].
  destruct (bytes_eqb a (bs "add-services")) eqn:E3; [apply beq_eq in E3; subst a; reflexivity|].
  destruct (bytes_eqb a (bs "remove-services")) eqn:E4; [apply beq_eq in E4; subst a; reflexivity|].
  destruct (bytes_eqb a (bs "ietf-json-patch")) eqn:E5; [apply beq_eq in E5; subst a; reflexivity|].
  destruct (bytes_eqb a (bs "replace")) eqn:E6; [apply beq_eq in E6; subst a; reflexivity|].
  destruct (bytes_eqb a (bs "add-also-known-as")) eqn:E7; [apply beq_eq in E7; subst a; reflexivity|].
  destruct (bytes_eqb a (bs "remove-also-known-as")) eqn:E8; [apply beq_eq in E8; subst a; reflexivity|].
  unfold bmem, known_actions. cbn [map existsb]. rewrite E1, E2, E3, E4, E5, E6, E7, E8. reflexivity.
Qed.

(* THEOREM action_of_patch_action: on a patch with distinct member names, Patch.GetAction of the parser view
   (ViewOfBytes.action_of) and of the validator model (Validator.patch_action) coincide *)
Theorem action_of_patch_action : forall p, patchv_wf p -> action_of p = patch_action (json_of_patchv p).
Proof.
  intros [m|] Hwf; [|reflexivity]. cbn [action_of json_of_patchv patch_action patchv_wf] in *.
  unfold B. rewrite (jlast_jget_nodup (bs "action") m Hwf).
  destruct (jget (bs "action") m) as [[| | |a| |]|]; try reflexivity.
  rewrite known_action_iff. destruct (action_value_key a); reflexivity.
Qed.

(* ================================================================================================ *)
Section Oracles.
Variable uri_ok : bytes -> bool.               (* url.ParseRequestURI succeeds *)
Variable uri_parse : bytes -> option bytes.    (* url.Parse + String() *)

Notation pv := (patch_validator uri_ok uri_parse).
Notation vpatch := (validate_patch uri_ok uri_parse).

(** * (a) bridge to ViewOfBytes *)

Lemma valid_of_bytes_map : forall b, valid_of_bytes uri_ok uri_parse b = map pv (dq_patches (decode_request b)).
Proof. intro b. unfold valid_of_bytes, decoded_patches. rewrite map_map. reflexivity. Qed.

Theorem validated_view_is_view_of_request : forall ov b,
  validated_view uri_ok uri_parse ov b = view_of_request b (valid_of_bytes uri_ok uri_parse b) (origin_of_bytes ov b).
Proof.
  intros ov b. unfold validated_view, view_of_request_with, view_of_request, origin_of_bytes. now rewrite valid_of_bytes_map.
Qed.

Theorem parse_operation_validated_is_bytes : forall p batch t ov b,
  parse_operation_validated uri_ok uri_parse p batch t ov b
  = parse_operation_bytes p batch t b (valid_of_bytes uri_ok uri_parse b) (origin_of_bytes ov b).
Proof.
  intros. unfold parse_operation_validated, parse_operation_bytes. now rewrite validated_view_is_view_of_request.
Qed.

(* the delta part of the view *)
Lemma validated_view_delta : forall ov b,
  rv_delta (validated_view uri_ok uri_parse ov b)
  = delta_view_of (dq_delta (decode_request b)) (map pv (dq_patches (decode_request b))).
Proof. reflexivity. Qed.

(* the verdict list inside the view is exactly the computed list: one verdict per decoded patch, in order *)
Theorem validated_view_valid : forall ov b,
  dv_patch_valid (rv_delta (validated_view uri_ok uri_parse ov b)) = valid_of_bytes uri_ok uri_parse b.
Proof.
  intros ov b. rewrite validated_view_delta, valid_of_bytes_map. unfold dq_patches.
  destruct (dq_delta (decode_request b)) as [x|]; cbn [delta_view_of dv_patch_valid]; [|reflexivity].
  rewrite <- (map_length pv (dm_patches x)). apply firstn_all.
Qed.

Theorem validated_view_actions : forall ov b,
  dv_actions (rv_delta (validated_view uri_ok uri_parse ov b)) = map patch_action (decoded_patches b).
Proof.
  intros ov b. rewrite validated_view_delta. unfold decoded_patches. rewrite map_map.
  pose proof (decoded_patches_wf b) as Hwf. unfold dq_patches in *.
  destruct (dq_delta (decode_request b)) as [x|]; cbn [delta_view_of dv_actions]; [|reflexivity].
  apply map_ext_in. intros p Hin. apply action_of_patch_action. rewrite Forall_forall in Hwf. now apply Hwf.
Qed.

(** * (c) the two loops of ValidateDelta *)

Lemma mem_bytes_bmem : forall a l, mem_bytes a l = bmem a l.
Proof. reflexivity. Qed.

Lemma vout_ok_vand : forall a b, vout_ok (vand a b) = vout_ok a && vout_ok b.
Proof. intros [| |] b; reflexivity. Qed.

Lemma patches_loop_agrees : forall p (ps : list patchv), Forall patchv_wf ps ->
  vout_ok (validate_patches_out uri_ok uri_parse (pp_patches p) (map json_of_patchv ps))
  = patches_ok p (map action_of ps) (map pv ps).
Proof.
  intros p ps. induction ps as [|x r IH]; intros Hwf; [reflexivity|].
  inversion Hwf as [|? ? Hx Hr]; subst. cbn [map validate_patches_out patches_ok].
  rewrite (action_of_patch_action x Hx). destruct (patch_action (json_of_patchv x)) as [a|]; cbn [action_enabled]; [|reflexivity].
  rewrite mem_bytes_bmem. destruct (bmem a (pp_patches p)); cbn [andb]; [|reflexivity].
  rewrite vout_ok_vand, (IH Hr). reflexivity.
Qed.

(* THEOREM delta_loop_agrees: for every byte string, the patch loop of ValidateDelta as the C18 model states it
   (Doc/Validator.v validate_delta_patches: at least one patch; for each, action configured, enabled, Validate) run on
   the patches decoded from the bytes, equals the patch loop of the parser model (Accept.v patches_ok) on the view *)
Theorem delta_loop_agrees : forall p ov b,
  let d := rv_delta (validated_view uri_ok uri_parse ov b) in
  delta_patches_validated uri_ok uri_parse p b
  = match dv_actions d with [] => false | _ => patches_ok p (dv_actions d) (dv_patch_valid d) end.
Proof.
  intros p ov b d. subst d. rewrite validated_view_valid, valid_of_bytes_map, validated_view_delta.
  unfold delta_patches_validated, decoded_patches, validate_delta_patches, validate_delta_patches_out.
  pose proof (decoded_patches_wf b) as Hwf. unfold dq_patches in *.
  destruct (dq_delta (decode_request b)) as [x|]; cbn [delta_view_of dv_actions]; [|reflexivity].
  destruct (dm_patches x) as [|q r] eqn:Eq; [reflexivity|].
  rewrite <- Eq in *. rewrite <- (patches_loop_agrees p (dm_patches x) Hwf). rewrite Eq. reflexivity.
Qed.

(* validate_delta of the parser model, in C18 terms *)
Corollary validate_delta_validated : forall p ov b,
  let d := rv_delta (validated_view uri_ok uri_parse ov b) in
  validate_delta p d
  = dv_present d && delta_patches_validated uri_ok uri_parse p b
    && validate_multihash p (dv_update_commitment d) && negb (Z.gtb (blen (dv_canonical d)) (pp_max_delta_size p)).
Proof.
  intros p ov b d. rewrite (delta_loop_agrees p ov b). fold d. unfold validate_delta.
  destruct (dv_present d); cbn [negb andb]; [|reflexivity].
  destruct (dv_actions d); [reflexivity|]. now rewrite <- andb_assoc.
Qed.

(** * (d) acceptance at intake *)

(* what an accepted delta gives, on the decoded patches *)
Definition patches_validated (p : pproto) (b : bytes) : Prop :=
  dq_patches (decode_request b) <> [] /\
  Forall (fun pt => vpatch (json_of_patchv pt) = true /\
                    exists a, action_of pt = Some a /\ patch_action (json_of_patchv pt) = Some a /\ In a (pp_patches p))
         (dq_patches (decode_request b)).

Lemma delta_ok_patches_validated : forall p ov b,
  delta_ok p (rv_delta (validated_view uri_ok uri_parse ov b)) -> patches_validated p b.
Proof.
  intros p ov b H. rewrite validated_view_delta in H. apply delta_ok_decoded in H.
  destruct H as (x & Ex & Hne & _ & _ & Hact & _ & Hval).
  pose proof (decoded_patches_wf b) as Hwf. unfold patches_validated, dq_patches in *. rewrite Ex in *.
  split; [exact Hne|].
  rewrite <- (map_length pv (dm_patches x)), firstn_all in Hval.
  apply Forall_forall. intros pt Hin. rewrite Forall_forall in Hact, Hwf, Hval. split.
  - apply (Hval (pv pt)). now apply in_map.
  - destruct (Hact pt Hin) as (a & Ha & Hen). exists a. split; [exact Ha|]. split; [|exact Hen].
    rewrite <- (action_of_patch_action pt (Hwf pt Hin)). exact Ha.
Qed.

(* THEOREM accepted_request_patches_validated (create, update and recover at intake): if the parser model accepts the
   bytes, the decoded delta has at least one patch, and every decoded patch satisfies the C18 validator model and
   carries a configured action that the protocol enables *)
Theorem accepted_request_patches_validated : forall p t ov b o,
  parse_operation_validated uri_ok uri_parse p false t ov b = Some o ->
  po_ty o <> Deactivate ->
  patches_validated p b.
Proof.
  intros p t ov b o H Hty. unfold parse_operation_validated in H.
  destruct (parse_operation_dispatch _ _ _ _ _ H) as [_ Hd].
  apply (delta_ok_patches_validated p ov b).
  destruct Hd as [[_ P]|[[_ P]|[[_ P]|[_ P]]]].
  - now destruct (create_accept_implies_rules _ _ _ P) as (_ & _ & _ & _ & Hdel & _).
  - now destruct (update_accept_implies_rules _ _ _ _ P) as (_ & _ & Hdel & _).
  - destruct (deactivate_accept_implies_rules _ _ _ _ P) as (_ & _ & _ & Ho & _). contradiction.
  - now destruct (recover_accept_implies_rules _ _ _ _ P) as (_ & _ & _ & Hdel & _).
Qed.

(* the same conclusion as the C18 acceptance predicate on the decoded patches *)
Lemma all_validated_loop : forall enabled (ps : list patchv),
  Forall (fun pt => vpatch (json_of_patchv pt) = true /\
                    exists a, action_of pt = Some a /\ patch_action (json_of_patchv pt) = Some a /\ In a enabled) ps ->
  validate_patches_out uri_ok uri_parse enabled (map json_of_patchv ps) = VAccept.
Proof.
  intros enabled ps. induction ps as [|x r IH]; intros H; [reflexivity|].
  inversion H as [|? ? [Hv (a & _ & Ha & Hen)] Hr]; subst. cbn [map validate_patches_out]. rewrite Ha.
  rewrite (In_mem_bytes a enabled Hen). unfold validate_patch in Hv.
  destruct (validate_patch_out uri_ok uri_parse (json_of_patchv x)); try discriminate Hv. cbn [vand]. exact (IH Hr).
Qed.

Lemma patches_validated_delta : forall p b, patches_validated p b -> delta_patches_validated uri_ok uri_parse p b = true.
Proof.
  intros p b [Hne H]. unfold delta_patches_validated, decoded_patches, validate_delta_patches, validate_delta_patches_out.
  pose proof (all_validated_loop (pp_patches p) _ H) as E.
  destruct (dq_patches (decode_request b)) as [|q r]; [contradiction|].
  cbn [map] in *. now rewrite E.
Qed.

(* THEOREM accepted_request_patch_rules (C10 o C18): a create / update / recover request accepted at intake, as bytes,
   carries a non-empty list of patches each of which obeys the structural rules of Doc/ValidatorProofs.v
   [patch_rules]: enabled action; key ids 1-50 URL-safe bytes, pairwise distinct; key types permitted for each declared
   purpose; exactly one key-material member; service ids / types within their rules and every endpoint a URI that
   url.ParseRequestURI accepts; JSON-patch pointers well formed and outside the protected sections; no entry escapes *)
Theorem accepted_request_patch_rules : forall p t ov b o,
  parse_operation_validated uri_ok uri_parse p false t ov b = Some o ->
  po_ty o <> Deactivate ->
  decoded_patches b <> [] /\ Forall (patch_rules uri_ok service_endpoints (pp_patches p)) (decoded_patches b).
Proof.
  intros p t ov b o H Hty.
  apply (validated_rules uri_ok uri_parse (pp_patches p) (decoded_patches b)).
  apply (patches_validated_delta p b). apply (accepted_request_patches_validated p t ov b o H Hty).
Qed.

(* THEOREM accepted_request_json_patch_protects (C10 o C18): whatever ietf-json-patch an accepted request carries, if the
   JSON-patch engine model applies it to a document object (distinct member names) and returns a document, the
   members "publicKey" and "service" of that document are what they were - the accepted request's JSON patch never
   touches the protected members (Doc/JsonPatchProofs.v jsonpatch_protects) *)
Theorem accepted_request_json_patch_protects : forall p t ov b o j ops m d',
  parse_operation_validated uri_ok uri_parse p false t ov b = Some o ->
  po_ty o <> Deactivate ->
  In j (decoded_patches b) -> patch_jsonpatch j = Some ops ->
  SV.Doc.JsonPatchProofs.wf (JObj m) = true -> jp_apply ops (JObj m) = Ok d' ->
  jmember "publicKey" d' = jget (bs "publicKey") m /\ jmember "service" d' = jget (bs "service") m.
Proof.
  intros p t ov b o j ops m d' H Hty Hin Hops Hwf Happ.
  destruct (accepted_request_patch_rules p t ov b o H Hty) as [_ Hall].
  rewrite Forall_forall in Hall. destruct (Hall j Hin) as (_ & _ & _ & _ & _ & Hjp & _).
  apply (jsonpatch_protects ops m d' Hwf (Hjp ops Hops) Happ).
Qed.

(* the same for every root member whose name starts with a protected name (the code's prefix test) *)
Theorem accepted_request_json_patch_protects_prefix : forall p t ov b o j ops m d' k,
  parse_operation_validated uri_ok uri_parse p false t ov b = Some o ->
  po_ty o <> Deactivate ->
  In j (decoded_patches b) -> patch_jsonpatch j = Some ops ->
  SV.Doc.JsonPatchProofs.wf (JObj m) = true -> jp_apply ops (JObj m) = Ok d' -> prot_prefix k = true ->
  jfield k d' = jget k m.
Proof.
  intros p t ov b o j ops m d' k H Hty Hin Hops Hwf Happ Hk.
  destruct (accepted_request_patch_rules p t ov b o H Hty) as [_ Hall].
  rewrite Forall_forall in Hall. destruct (Hall j Hin) as (_ & _ & _ & _ & _ & Hjp & _).
  apply (jsonpatch_protects_prefix ops m d' k Hwf (Hjp ops Hops) Happ Hk).
Qed.

(* the per-type statements of ViewOfBytesProofs.v, instantiated: an accepted UPDATE as bytes (all its rules, with the
   verdict list computed) *)
Theorem update_validated_accept_implies_rules : forall p t ov b o,
  parse_operation_validated uri_ok uri_parse p false t ov b = Some o ->
  rv_type (validated_view uri_ok uri_parse ov b) = bytes_of_string "update" ->
  exists r,
    unmarshal update_member update_zero b = Some r /\
    ur_did r <> [] /\ hash_field_ok p (ur_reveal r) /\ ur_signed r <> [] /\
    signed_rules p (validated_view uri_ok uri_parse ov b) /\ t = true /\
    decoded_delta_ok p (ur_delta r) (valid_of_bytes uri_ok uri_parse b) /\
    patches_validated p b /\
    po_ty o = Update /\ po_suffix o = ur_did r.
Proof.
  intros p t ov b o H Hty.
  pose proof H as H0. rewrite parse_operation_validated_is_bytes in H0. rewrite validated_view_is_view_of_request in Hty.
  destruct (update_bytes_accept_implies_rules _ _ _ _ _ _ H0 Hty) as (r & Hr & Hdid & Hrev & Hsd & Hsr & Ht & Hdel & _ & _ & Hoty & Hsfx).
  exists r. rewrite validated_view_is_view_of_request.
  repeat (split; [assumption|]). split; [|split; assumption].
  apply (accepted_request_patches_validated p t ov b o H). rewrite Hoty. discriminate.
Qed.

(* a refused patch rejects the request at intake, whatever else the bytes contain *)
Theorem refused_patch_rejects : forall p t ov b pt,
  In pt (dq_patches (decode_request b)) -> vpatch (json_of_patchv pt) = false ->
  forall o, parse_operation_validated uri_ok uri_parse p false t ov b = Some o -> po_ty o = Deactivate.
Proof.
  intros p t ov b pt Hin Hv o H.
  assert (E : po_ty o = Deactivate \/ po_ty o <> Deactivate) by (destruct (po_ty o); [right|right|right|left]; congruence).
  destruct E as [E|E]; [exact E|].
  destruct (accepted_request_patches_validated p t ov b o H E) as [_ Hall].
  rewrite Forall_forall in Hall. destruct (Hall pt Hin) as [Hv' _]. rewrite Hv in Hv'. discriminate Hv'.
Qed.

End Oracles.

(* ================================================================================================ *)
(** * (e) non-vacuity: real requests (a run of harness/cmd/gen_vlink, seed 1; P-256 key) *)

(* stand-ins for the two net/url oracles, exact on the strings that occur as service endpoint in the examples
   ("https://g.example"; no also-known-as URI occurs): ValidatorProofs.uri_ok_demo / uri_parse_demo *)

(* an update whose delta carries an add-services patch and an ietf-json-patch
   [{"op":"add","path":"/ok","value":{"a":[1,2]}},{"from":"/ok/a","op":"move","path":"/moved"}] *)
Definition ex_vl_request : bytes := unhex "7b2264656c7461223a7b22757064617465436f6d6d69746d656e74223a22456944376f73354331596f4b522d533934704a436d66786f746c50752d56666b453154734e6974484a42715a5f77222c2270617463686573223a5b7b22616374696f6e223a226164642d7365727669636573222c227365727669636573223a5b7b226964223a227367222c2273657276696365456e64706f696e74223a2268747470733a2f2f672e6578616d706c65222c2274797065223a2274227d5d7d2c7b22616374696f6e223a22696574662d6a736f6e2d7061746368222c2270617463686573223a5b7b226f70223a22616464222c2270617468223a222f6f6b222c2276616c7565223a7b2261223a5b312c325d7d7d2c7b2266726f6d223a222f6f6b2f61222c226f70223a226d6f7665222c2270617468223a222f6d6f766564227d5d7d5d7d2c22646964537566666978223a224569442d573232524a6f6f50786e5157496f6d577a6c62615158544e705a4a396b356275485564714778585f3141222c2272657665616c56616c7565223a224569414470747546677475576f6535634a326f612d6f30677731647a52592d4e7a6573743732697a66576f326151222c227369676e656444617461223a2265794a68624763694f694a46557a49314e694a392e65794a6b5a57783059556868633267694f694a466155524f61485a565257397562556c325a6a427a57575a6962444e61576c6c466145354d6332394b646b7477553342354e446c46637a4233526d5652496977696458426b5958526c53325635496a7037496d4e7964694936496c41744d6a55324969776961335235496a6f6952554d694c434a34496a6f696356465152334e4a615642664e546c584e486c305345644764556c4b4d4456566545645064454a77615849316455354a556e63354d6930344d434973496e6b694f69493553587043626d3148523052736432464e5a324a77575764346554527a5244597855554d3054445a3053335243633142524e586c7164546842496e31392e385f51506d7948717a353164566a6e774347724842644a6d464f5564547a4a3262727a41593832376876424a354b6a494e464b3651776e4275596a584c4f764a5070795570494b4d416a6e7239545249477445546377222c2274797065223a22757064617465227d".

(* the same request with the move aimed at the service section: "path":"/service/0" *)
Definition ex_vl_refused : bytes := unhex "7b2264656c7461223a7b22757064617465436f6d6d69746d656e74223a22456944376f73354331596f4b522d533934704a436d66786f746c50752d56666b453154734e6974484a42715a5f77222c2270617463686573223a5b7b22616374696f6e223a226164642d7365727669636573222c227365727669636573223a5b7b226964223a227367222c2273657276696365456e64706f696e74223a2268747470733a2f2f672e6578616d706c65222c2274797065223a2274227d5d7d2c7b22616374696f6e223a22696574662d6a736f6e2d7061746368222c2270617463686573223a5b7b226f70223a22616464222c2270617468223a222f6f6b222c2276616c7565223a7b2261223a5b312c325d7d7d2c7b2266726f6d223a222f6f6b2f61222c226f70223a226d6f7665222c2270617468223a222f736572766963652f30227d5d7d5d7d2c22646964537566666978223a224569442d573232524a6f6f50786e5157496f6d577a6c62615158544e705a4a396b356275485564714778585f3141222c2272657665616c56616c7565223a224569414470747546677475576f6535634a326f612d6f30677731647a52592d4e7a6573743732697a66576f326151222c227369676e656444617461223a2265794a68624763694f694a46557a49314e694a392e65794a6b5a57783059556868633267694f694a466155524f61485a565257397562556c325a6a427a57575a6962444e61576c6c466145354d6332394b646b7477553342354e446c46637a4233526d5652496977696458426b5958526c53325635496a7037496d4e7964694936496c41744d6a55324969776961335235496a6f6952554d694c434a34496a6f696356465152334e4a615642664e546c584e486c305345644764556c4b4d4456566545645064454a77615849316455354a556e63354d6930344d434973496e6b694f69493553587043626d3148523052736432464e5a324a77575764346554527a5244597855554d3054445a3053335243633142524e586c7164546842496e31392e385f51506d7948717a353164566a6e774347724842644a6d464f5564547a4a3262727a41593832376876424a354b6a494e464b3651776e4275596a584c4f764a5070795570494b4d416a6e7239545249477445546377222c2274797065223a22757064617465227d".

Definition ex_ov : option json -> bool := fun _ => true.

Example ex_vl_accepted :
  option_map (fun o => (po_ty o, po_suffix o))
    (parse_operation_validated uri_ok_demo uri_parse_demo ex_proto false true ex_ov ex_vl_request)
  = Some (Update, bytes_of_string "EiD-W22RJooPxnQWIomWzlbaQXTNpZJ9k5buHUdqGxX_1A").
Proof. vm_compute. reflexivity. Qed.

(* the verdicts are computed, patch by patch; actions as the validator model reads them *)
Example ex_vl_verdicts :
  (valid_of_bytes uri_ok_demo uri_parse_demo ex_vl_request, map patch_action (decoded_patches ex_vl_request))
  = ([true; true], [Some (bs "add-services"); Some (bs "ietf-json-patch")]).
Proof. vm_compute. reflexivity. Qed.

(* the hypotheses of [accepted_request_json_patch_protects] are satisfiable on it: its second patch is a JSON patch that
   the engine model applies to a document with both protected sections, which come out untouched *)
Definition ex_doc_members : list (bytes * json) :=
  [(bs "publicKey", JArr [JObj [(bs "id", JStr (bs "k1"))]]); (bs "service", JArr [JObj [(bs "id", JStr (bs "s1"))]])].

Example ex_vl_protects_nonvacuous :
  match nth_error (decoded_patches ex_vl_request) 1 with
  | Some j =>
    match patch_jsonpatch j with
    | Some ops =>
      SV.Doc.JsonPatchProofs.wf (JObj ex_doc_members)
      && match jp_apply ops (JObj ex_doc_members) with
         | Ok d' => json_eqb d' (JObj (ex_doc_members ++ [(bs "ok", JObj []); (bs "moved", JArr [JNum 0x3FF0000000000000; JNum 0x4000000000000000])]))
         | _ => false
         end
    | None => false
    end
  | None => false
  end = true.
Proof. vm_compute. reflexivity. Qed.

(* the refused variant: the validator model computes [true; false]; rejected at intake, still parsed in batch mode
   (where ValidateDelta does not run), exactly as the real parser does (case "signed:update:example-refused" of the
   generator) *)
Example ex_vl_refused_rejected :
  (valid_of_bytes uri_ok_demo uri_parse_demo ex_vl_refused,
   parse_operation_validated uri_ok_demo uri_parse_demo ex_proto false true ex_ov ex_vl_refused,
   option_map po_ty (parse_operation_validated uri_ok_demo uri_parse_demo ex_proto true true ex_ov ex_vl_refused))
  = ([true; false], None, Some Update).
Proof. vm_compute. reflexivity. Qed.

(* an endpoint the URI oracle refuses decides as well: with uri_ok = (fun _ => false) the first patch is refused *)
Example ex_vl_oracle_matters :
  (valid_of_bytes (fun _ => false) uri_parse_demo ex_vl_request,
   parse_operation_validated (fun _ => false) uri_parse_demo ex_proto false true ex_ov ex_vl_request) = ([false; true], None).
Proof. vm_compute. reflexivity. Qed.

(* the protocol decides: under a protocol that does not enable ietf-json-patch the same bytes are rejected although
   every patch satisfies the validator *)
Example ex_vl_action_disabled :
  parse_operation_validated uri_ok_demo uri_parse_demo
    (Build_pproto 6000 100 3000 16 7200 [18%N; 19%N] (pp_sig_algs ex_proto) (pp_key_algs ex_proto)
                  (map bytes_of_string ["replace"; "add-public-keys"; "add-services"]))
    false true ex_ov ex_vl_request = None.
Proof. vm_compute. reflexivity. Qed.

(* the request of ViewOfBytesProofs.v (gen_view, seed 1): the verdict that used to be the fact [true] is computed *)
Example ex_request_verdict_computed :
  (valid_of_bytes uri_ok_demo uri_parse_demo ex_request,
   option_map po_ty (parse_operation_validated uri_ok_demo uri_parse_demo ex_proto false true ex_ov ex_request))
  = ([true], Some Update).
Proof. vm_compute. reflexivity. Qed.
