(* Proofs about the anchoring-time window (C05). *)
From Coq Require Import ZArith Bool Lia.
From SV Require Import Parser.Window.
Local Open Scope Z_scope.

Lemma in_window_spec d f u a :
  in_window d f u a = true <-> (f = 0 /\ u = 0) \/ (f <= a /\ a <= eff_until d f u).
Proof.
  unfold in_window.
  destruct (f =? 0) eqn:Hf; destruct (u =? 0) eqn:Hu; cbn [andb];
    try (split; [intros _; left; lia | reflexivity]).
  all: destruct (f >? a) eqn:Hfa; [split; [discriminate | intros [[? ?]|[? ?]]; lia] |].
  all: destruct (eff_until d f u <? a) eqn:He; [split; [discriminate | intros [[? ?]|[? ?]]; lia] |].
  all: split; [intros _; right; lia | reflexivity].
Qed.

Lemma eff_until_default d f : f <> 0 -> eff_until d f 0 = f + d.
Proof. intros Hf. unfold eff_until. destruct (f =? 0) eqn:E; [lia | reflexivity]. Qed.

Lemma eff_until_explicit d f u : u <> 0 -> eff_until d f u = u.
Proof. intros Hu. unfold eff_until. destruct (u =? 0) eqn:E; [lia |]. rewrite andb_false_r. reflexivity. Qed.

Lemma eff_until_no_from d u : eff_until d 0 u = u.
Proof. reflexivity. Qed.

Lemma in_window_none d a : in_window d 0 0 a = true.
Proof. reflexivity. Qed.

Lemma in_window_default d f a :
  f <> 0 -> (in_window d f 0 a = true <-> f <= a <= f + d).
Proof.
  intros Hf. rewrite in_window_spec, eff_until_default by assumption. split.
  - intros [[? ?]|[? ?]]; lia.
  - intros [? ?]. right. lia.
Qed.

Lemma in_window_explicit d f u a :
  u <> 0 -> (in_window d f u a = true <-> f <= a <= u).
Proof.
  intros Hu. rewrite in_window_spec, eff_until_explicit by assumption. split.
  - intros [[? ?]|[? ?]]; lia.
  - intros [? ?]. right. lia.
Qed.
