(* Batch files (core index, core proof, provisional index, provisional proof, chunk) and the two
   directions over them: OperationHandler.PrepareTxnFiles and OperationProvider.GetTxnOperations
   (C13, C14, C15).  Definitions only.

   Files are modelled after JSON decoding: a [raw A] is what CAS serves for one reference together
   with the verdicts of the layers below the provider (read, gunzip, JSON decoding into the file's
   struct).  References are resolved by nesting: the file a URI points to sits where the URI is. *)
From Coq Require Import List ZArith Bool.
From SV Require Import Resolve.Op.
Import ListNotations.
Local Open Scope Z_scope.

(* -- what is in the files -- *)
Record create_ref := {
  cc_sd_present : bool;       (* suffixData member present and an object *)
  cc_sd_valid : bool;         (* parser.ValidateSuffixData verdict *)
  cc_sfx : Z;                 (* unique suffix computed from the suffix data *)
  cc_sdata : Z;               (* identity of the suffix data *)
  cc_origin : Z }.

Record op_ref := { or_sfx : Z; or_sfx_len : Z; or_reveal : Z; or_reveal_len : Z }.

Record proof_entry := {
  pe_signed : Z;              (* identity of the compact JWS *)
  pe_parse_ok : bool;         (* parser.ParseSignedDataFor<type> verdict *)
  pe_origin : Z }.            (* recover: anchor origin inside the signed data *)

Record delta_entry := { de_delta : Z; de_valid : bool (* parser.ValidateDelta verdict *) }.

Record raw (A : Type) := {
  f_read_ok : bool;           (* CAS (or an alternate source) returned content *)
  f_raw_size : Z;             (* size as served *)
  f_decomp_ok : bool;         (* decompression succeeded *)
  f_size : Z;                 (* size after decompression *)
  f_parsed : option A }.      (* JSON decoding into the file's struct *)
Arguments f_read_ok {A}. Arguments f_raw_size {A}. Arguments f_decomp_ok {A}.
Arguments f_size {A}. Arguments f_parsed {A}.

Record chunk_file := { ch_deltas : list delta_entry }.
Record prov_proof_file := { pp_updates : list proof_entry }.
Record core_proof_file := { cp_recovers : list proof_entry; cp_deactivates : list proof_entry }.

(* a reference: length of the URI string and, when the URI is not empty, what it points to *)
Record ref (A : Type) := { uri_len : Z; target : option (raw A) }.
Arguments uri_len {A}. Arguments target {A}.

Record prov_index_file := {
  pi_proof : ref prov_proof_file;
  pi_chunks : list (ref chunk_file);
  pi_updates : list op_ref }.

Record core_index_file := {
  ci_proof : ref core_proof_file;
  ci_prov : ref prov_index_file;
  ci_creates : list create_ref;
  ci_recovers : list op_ref;
  ci_deactivates : list op_ref }.

Record anchor := {
  a_syntax_ok : bool;         (* "<positive integer>.<uri>" *)
  a_count : Z;
  a_core : raw core_index_file }.

Record limits := {
  l_hash_len : Z; l_uri_len : Z; l_core_index : Z; l_proof : Z; l_prov_index : Z; l_chunk : Z; l_factor : Z }.

(* -- what comes out -- *)
Record rop := { ro_ty : optype; ro_sfx : Z; ro_reveal : Z; ro_signed : Z; ro_delta : Z; ro_sdata : Z; ro_origin : Z }.

(* -- OperationProvider -- *)
(* readFromCAS + Parse<File> *)
Definition read_file {A} (L : limits) (max : Z) (r : raw A) : option A :=
  if negb (f_read_ok r) then None
  else if f_raw_size r >? max then None
  else if negb (f_decomp_ok r) then None
  else if f_size r >? max * l_factor L then None
  else f_parsed r.

Definition uri_ok {A} (L : limits) (r : ref A) : bool := uri_len r <=? l_uri_len L.
Definition present {A} (r : ref A) : bool := negb (uri_len r =? 0).

(* validateRequiredMultihash *)
Definition mh_ok (L : limits) (len : Z) : bool := negb (len =? 0) && (len <=? l_hash_len L).
Definition op_ref_ok (L : limits) (r : op_ref) : bool := mh_ok L (or_sfx_len r) && mh_ok L (or_reveal_len r).

Fixpoint has_dup (seen : list Z) (l : list Z) : bool :=
  match l with [] => false | x :: r => memZ x seen || has_dup (x :: seen) r end.

Definition validate_core_index (L : limits) (c : core_index_file) : bool :=
  let n := (length (ci_recovers c) + length (ci_deactivates c))%nat in
  (if (0 <? n)%nat then present (ci_proof c) else negb (present (ci_proof c)))
  && uri_ok L (ci_proof c) && uri_ok L (ci_prov c)
  && forallb (fun r => cc_sd_present r && cc_sd_valid r) (ci_creates c)
  && forallb (op_ref_ok L) (ci_recovers c) && forallb (op_ref_ok L) (ci_deactivates c).

Definition validate_core_proof (p : core_proof_file) : bool :=
  forallb pe_parse_ok (cp_recovers p) && forallb pe_parse_ok (cp_deactivates p).

Definition validate_prov_index (L : limits) (p : prov_index_file) : bool :=
  (if (0 <? length (pi_updates p))%nat then present (pi_proof p) else negb (present (pi_proof p)))
  && uri_ok L (pi_proof p)
  && match pi_chunks p with c :: _ => uri_ok L c | [] => true end
  && forallb (op_ref_ok L) (pi_updates p).

Definition validate_prov_proof (p : prov_proof_file) : bool := forallb pe_parse_ok (pp_updates p).
Definition validate_chunk (c : chunk_file) : bool := forallb de_valid (ch_deltas c).

(* read a referenced file that must exist: an empty or dangling reference cannot be read *)
Definition read_ref {A} (L : limits) (max : Z) (r : ref A) : option A :=
  match target r with Some f => read_file L max f | None => None end.

Record batch_files := {
  bf_core : core_index_file;
  bf_core_proof : option core_proof_file;
  bf_prov : option (prov_index_file * option prov_proof_file * chunk_file) }.

Definition get_prov_files (L : limits) (r : ref prov_index_file)
  : option (prov_index_file * option prov_proof_file * chunk_file) :=
  match read_ref L (l_prov_index L) r with
  | None => None
  | Some pi =>
    if negb (validate_prov_index L pi) then None else
    let proof :=
      if present (pi_proof pi) then
        match read_ref L (l_proof L) (pi_proof pi) with
        | Some pp => if validate_prov_proof pp then Some (Some pp) else None
        | None => None
        end
      else Some None in
    match proof with
    | None => None
    | Some pp =>
      match pi_chunks pi with
      | [] => None
      | c :: _ =>
        match read_ref L (l_chunk L) c with
        | Some ch => if validate_chunk ch then Some (pi, pp, ch) else None
        | None => None
        end
      end
    end
  end.

(* validateBatchFileCounts *)
Definition counts_ok (b : batch_files) : bool :=
  let c := bf_core b in
  match bf_core_proof b with
  | Some p => Nat.eqb (length (ci_recovers c)) (length (cp_recovers p))
              && Nat.eqb (length (ci_deactivates c)) (length (cp_deactivates p))
  | None => true
  end &&
  match bf_prov b with
  | Some (pi, pp, ch) =>
    match pp with
    | Some p => Nat.eqb (length (pi_updates pi)) (length (pp_updates p))
    | None => true
    end &&
    Nat.eqb (length (ci_creates c) + length (ci_recovers c) + length (pi_updates pi)) (length (ch_deltas ch))
  | None => true
  end.

Definition get_batch_files (L : limits) (c : core_index_file) : option batch_files :=
  let proof :=
    if present (ci_proof c) then
      match read_ref L (l_proof L) (ci_proof c) with
      | Some p => if validate_core_proof p then Some (Some p) else None
      | None => None
      end
    else Some None in
  match proof with
  | None => None
  | Some cp =>
    let prov := if present (ci_prov c) then
                  match get_prov_files L (ci_prov c) with Some x => Some (Some x) | None => None end
                else Some None in
    match prov with
    | None => None
    | Some pv =>
      let b := {| bf_core := c; bf_core_proof := cp; bf_prov := pv |} in
      if counts_ok b then Some b else None
    end
  end.

(* positional zips; [nth] with a default stands for Go's slice indexing - the count checks above
   are what make every index below in range (Batch/Safe.v) *)
Definition dflt_proof : proof_entry := {| pe_signed := 0; pe_parse_ok := false; pe_origin := 0 |}.
Definition dflt_delta : delta_entry := {| de_delta := 0; de_valid := false |}.

Fixpoint zip_ops (ty : optype) (refs : list op_ref) (proofs : list proof_entry) : list rop :=
  match refs with
  | [] => []
  | r :: rs =>
    let p := hd dflt_proof proofs in
    {| ro_ty := ty; ro_sfx := or_sfx r; ro_reveal := or_reveal r; ro_signed := pe_signed p; ro_delta := 0;
       ro_sdata := 0; ro_origin := match ty with Recover => pe_origin p | _ => 0 end |}
    :: zip_ops ty rs (tl proofs)
  end.

Definition create_ops (l : list create_ref) : list rop :=
  map (fun c => {| ro_ty := Create; ro_sfx := cc_sfx c; ro_reveal := 0; ro_signed := 0; ro_delta := 0;
                   ro_sdata := cc_sdata c; ro_origin := cc_origin c |}) l.

Fixpoint with_deltas (ops : list rop) (ds : list delta_entry) : list rop :=
  match ops with
  | [] => []
  | o :: r => {| ro_ty := ro_ty o; ro_sfx := ro_sfx o; ro_reveal := ro_reveal o; ro_signed := ro_signed o;
                 ro_delta := de_delta (hd dflt_delta ds); ro_sdata := ro_sdata o; ro_origin := ro_origin o |}
              :: with_deltas r (tl ds)
  end.

(* assembleAnchoredOperations *)
Definition assemble (b : batch_files) : option (list rop) :=
  let c := bf_core b in
  let core_sfx := map cc_sfx (ci_creates c) ++ map or_sfx (ci_recovers c) ++ map or_sfx (ci_deactivates c) in
  if has_dup [] core_sfx then None else
  let cp := match bf_core_proof b with Some p => p | None => {| cp_recovers := []; cp_deactivates := [] |} end in
  let deacts := zip_ops Deactivate (ci_deactivates c) (cp_deactivates cp) in
  match bf_prov b with
  | None => Some deacts
  | Some (pi, pp, ch) =>
    if has_dup [] (core_sfx ++ map or_sfx (pi_updates pi)) then None else
    let recovers := zip_ops Recover (ci_recovers c) (cp_recovers cp) in
    if negb (forallb pe_parse_ok (firstn (length (ci_recovers c)) (cp_recovers cp))) then None else
    let pproofs := match pp with Some p => pp_updates p | None => [] end in
    let updates := zip_ops Update (pi_updates pi) pproofs in
    let ops := create_ops (ci_creates c) ++ recovers ++ updates in
    if negb (Nat.eqb (length ops) (length (ch_deltas ch))) then None else
    Some (with_deltas ops (ch_deltas ch) ++ deacts)
  end.

(* GetTxnOperations *)
Definition get_txn_operations (L : limits) (a : anchor) : option (list rop) :=
  if negb (a_syntax_ok a) then None else
  match read_file L (l_core_index L) (a_core a) with
  | None => None
  | Some c =>
    if negb (validate_core_index L c) then None else
    match get_batch_files L c with
    | None => None
    | Some b =>
      match assemble b with
      | None => None
      | Some ops => if Z.of_nat (length ops) =? a_count a then Some ops else None
      end
    end
  end.
