(* Theorems about the batch-file view computed from bytes (Batch/FilesOfBytes.v): GetTxnOperations run on BYTES.
   (a) the decoders are total and never fail for lack of fuel
   (b) round trip: the canonical JSON text of a file struct (what the handler writes: docutil.MarshalCanonical)
       decodes to that struct
   (c) the theorems of Batch/Safe.v and Batch/RoundTrip.v restated for [get_txn_operations_bytes]: what a successful
       read says about the anchor TEXT, the CAS entries and the decoded file structs
   (d) a reachable file whose bytes are not the JSON text of an object (or null) of the right shape makes the
       transaction fail *)
From Coq Require Import String List ZArith NArith Bool Lia Arith Permutation.
From Coq.Strings Require Import Byte.
From SV Require Import Base.Bytes Json.Ast Json.Utf Json.Num Json.Jcs Json.JcsProofs Json.GoJson Json.GoJsonProofs
  Resolve.Op Batch.Files Batch.Handler Batch.Safe Batch.RoundTrip Batch.FilesOfBytes.
Import ListNotations.
Local Open Scope Z_scope.

(* ================================================================================================ *)
(** * (a) totality and fuel *)

(* Every function of Batch/FilesOfBytes.v is a total Gallina function: the struct decoders recurse on the syntax tree,
   [anchor_view_of_bytes] follows references to a fixed depth (core index -> provisional index -> chunk), so a CAS whose
   files refer to each other in a cycle cannot make it loop.  The only counter is the fuel of the JSON parser. *)

Definition parse_with_fuel (n : nat) (b : bytes) : option gj :=
  match pvalue n std_limit 0 b with
  | Some (v, rest) => match skip_ws rest with [] => Some v | _ => None end
  | None => None
  end.

Lemma parse_enough_fuel : forall b k, parse_with_fuel (go_fuel b + k) b = std_parse b.
Proof. intros b k. apply go_parse_any_fuel. Qed.

Lemma parse_fuel_mono : forall n b t, parse_with_fuel n b = Some t -> std_parse b = Some t.
Proof.
  intros n b t. unfold parse_with_fuel. destruct (pvalue n std_limit 0 b) as [[v rest]|] eqn:E; [|discriminate].
  intros H. rewrite <- (parse_enough_fuel b n). unfold parse_with_fuel.
  rewrite Nat.add_comm. rewrite (pvalue_mono _ _ _ _ _ (go_fuel b) E). exact H.
Qed.

(* any amount of fuel above [go_fuel b] gives the result the decoder computes, and a smaller amount can only turn a
   result into an error, never into another result: a None of a decoder is a rejection (syntax, nesting depth above
   10000, a value of the wrong kind), never an exhausted counter *)
Theorem unmarshal_fuel : forall (T : Type) (f : T -> bytes -> gj -> option T) (zero : T) (b : bytes),
  (forall k, unmarshal_tree f zero (parse_with_fuel (go_fuel b + k) b) = unmarshal f zero b) /\
  (forall n x, unmarshal_tree f zero (parse_with_fuel n b) = Some x -> unmarshal f zero b = Some x).
Proof.
  intros T f zero b. split.
  - intros k. unfold unmarshal. now rewrite parse_enough_fuel.
  - intros n x H. unfold unmarshal. destruct (parse_with_fuel n b) as [t|] eqn:E; [|discriminate].
    now rewrite (parse_fuel_mono _ _ _ E).
Qed.

Corollary file_decoders_fuel : forall b k,
  unmarshal_tree core_index_member core_index_zero (parse_with_fuel (go_fuel b + k) b) = decode_core_index b /\
  unmarshal_tree core_proof_member core_proof_zero (parse_with_fuel (go_fuel b + k) b) = decode_core_proof b /\
  unmarshal_tree prov_index_member prov_index_zero (parse_with_fuel (go_fuel b + k) b) = decode_prov_index b /\
  unmarshal_tree prov_proof_member prov_proof_zero (parse_with_fuel (go_fuel b + k) b) = decode_prov_proof b /\
  unmarshal_tree chunk_member chunk_zero (parse_with_fuel (go_fuel b + k) b) = decode_chunk b.
Proof. intros b k. repeat split; apply unmarshal_fuel. Qed.

(* ================================================================================================ *)
(** * (d), first half: what a decoder accepts is the text of an object or of null *)

Lemma unmarshal_shape : forall {T} (f : T -> bytes -> gj -> option T) zero b x,
  unmarshal f zero b = Some x ->
  exists t, std_parse b = Some t /\ ((t = GNull /\ x = zero) \/ exists ms, t = GObj ms /\ fold_members f ms zero = Some x).
Proof.
  intros T f zero b x. unfold unmarshal, unmarshal_tree. destruct (std_parse b) as [t|]; [|discriminate].
  intros H. exists t. split; [reflexivity|]. destruct t; unfold dec_struct in H; try discriminate.
  - left. split; [reflexivity | congruence].
  - right. eauto.
Qed.

Definition json_object_or_null (b : bytes) : Prop :=
  exists t, std_parse b = Some t /\ (t = GNull \/ exists ms, t = GObj ms).

Theorem decoded_is_object_or_null : forall b,
  (decode_core_index b <> None -> json_object_or_null b) /\ (decode_core_proof b <> None -> json_object_or_null b) /\
  (decode_prov_index b <> None -> json_object_or_null b) /\ (decode_prov_proof b <> None -> json_object_or_null b) /\
  (decode_chunk b <> None -> json_object_or_null b).
Proof.
  assert (G : forall {T} (f : T -> bytes -> gj -> option T) zero b, unmarshal f zero b <> None -> json_object_or_null b).
  { intros T f zero b H. destruct (unmarshal f zero b) as [x|] eqn:E; [|congruence].
    destruct (unmarshal_shape _ _ _ _ E) as [t [Ht Hs]]. exists t. split; [exact Ht|].
    destruct Hs as [[-> _]|[ms [-> _]]]; [left; reflexivity | right; eauto]. }
  intros b. repeat split; apply G.
Qed.

(* ================================================================================================ *)
(** * (c) a successful read, on bytes *)

Definition entry_ok (L : limits) (max : Z) (e : cas_entry) : Prop :=
  ce_read_ok e = true /\ ce_raw_size e <= max /\ ce_decomp_ok e = true /\ blen (ce_content e) <= max * l_factor L.

(* the CAS has, at [uri], content within the limits that decodes to [m] *)
Definition file_at {T} (L : limits) (C : cas) (max : Z) (uri : bytes) (dec : bytes -> option T) (m : T) : Prop :=
  exists e, cas_get C uri = Some e /\ entry_ok L max e /\ dec (ce_content e) = Some m.

Lemma read_unreadable : forall {A} L max, read_file L max (@unreadable A) = None.
Proof. reflexivity. Qed.

Lemma raw_of_read : forall {A} L max oe (parse : bytes -> option A) x,
  read_file L max (raw_of oe parse) = Some x ->
  exists e, oe = Some e /\ entry_ok L max e /\ parse (ce_content e) = Some x.
Proof.
  intros A L max oe parse x H. unfold raw_of in H. destruct oe as [e|]; [|discriminate].
  destruct (ce_read_ok e) eqn:Er; cbn [negb] in H; [|discriminate].
  destruct (ce_decomp_ok e) eqn:Ed; cbn [negb] in H.
  - apply read_file_some in H. cbn [f_read_ok f_raw_size f_decomp_ok f_size f_parsed] in H.
    destruct H as (_ & H1 & _ & H2 & H3). exists e. unfold entry_ok. repeat split; assumption || reflexivity.
  - apply read_file_some in H. cbn [f_decomp_ok] in H. destruct H as (_ & _ & H & _). discriminate.
Qed.

Lemma blen_nonneg : forall s, 0 <= blen s.
Proof. intros s. unfold blen. lia. Qed.

Lemma blen_zero : forall s, blen s = 0 <-> s = [].
Proof. intros [|c r]; unfold blen; cbn [length]; split; intros H; try reflexivity; try discriminate; lia. Qed.

Lemma uri_len_ref_of : forall {A} C uri (parse : bytes -> option A), uri_len (ref_of C uri parse) = blen uri.
Proof. intros A C [|c r] parse; reflexivity. Qed.

Lemma present_ref_of : forall {A} C uri (parse : bytes -> option A), present (ref_of C uri parse) = true <-> uri <> [].
Proof.
  intros A C uri parse. unfold present. rewrite uri_len_ref_of, negb_true_iff, Z.eqb_neq, blen_zero. tauto.
Qed.

Lemma present_ref_of_false : forall {A} C uri (parse : bytes -> option A), present (ref_of C uri parse) = false <-> uri = [].
Proof.
  intros A C uri parse. unfold present. rewrite uri_len_ref_of, negb_false_iff, Z.eqb_eq, blen_zero. tauto.
Qed.

Lemma ref_of_read : forall {A} L C max uri (parse : bytes -> option A) x,
  read_ref L max (ref_of C uri parse) = Some x -> uri <> [] /\ file_at L C max uri parse x.
Proof.
  intros A L C max uri parse x H. unfold read_ref, ref_of in H. destruct uri as [|c r]; cbn [target] in H; [discriminate|].
  split; [discriminate|]. apply raw_of_read in H. destruct H as (e & He & Hok & Hp). exists e. auto.
Qed.

Lemma proofs_of_length : forall I l fs, length (proofs_of I l fs) = length l.
Proof. intros I l. induction l as [|s r IH]; intros fs; cbn [proofs_of length]; [reflexivity | now rewrite IH]. Qed.

Lemma deltas_of_length : forall I l fs, length (deltas_of I l fs) = length l.
Proof.
  intros I l. induction l as [|[d|] r IH]; intros fs; cbn [deltas_of length]; [reflexivity | now rewrite IH | now rewrite IH].
Qed.

Lemma creates_of_length : forall I l fs, length (creates_of I l fs) = length l.
Proof.
  intros I l. induction l as [|c r IH]; intros fs; cbn [creates_of]; [reflexivity|].
  destruct (crm_suffix c); cbn [length]; now rewrite IH.
Qed.

(* inversion of the provider's file reading, keeping where every file came from *)
Lemma get_prov_files_reads : forall L r pi pp ch,
  get_prov_files L r = Some (pi, pp, ch) ->
  read_ref L (l_prov_index L) r = Some pi /\ validate_prov_index L pi = true /\
  (present (pi_proof pi) = true -> exists q, read_ref L (l_proof L) (pi_proof pi) = Some q /\ pp = Some q) /\
  (present (pi_proof pi) = false -> pp = None) /\
  exists c0 rest, pi_chunks pi = c0 :: rest /\ read_ref L (l_chunk L) c0 = Some ch.
Proof.
  intros L r pi pp ch H. unfold get_prov_files in H.
  destruct (read_ref L (l_prov_index L) r) as [pi'|] eqn:Erpi; [|discriminate].
  destruct (validate_prov_index L pi') eqn:Ev; cbn [negb] in H; [|discriminate].
  destruct (present (pi_proof pi')) eqn:Ep.
  - destruct (read_ref L (l_proof L) (pi_proof pi')) as [q|] eqn:Erq; [|discriminate].
    destruct (validate_prov_proof q); [|discriminate].
    destruct (pi_chunks pi') as [|c0 rest] eqn:Ec; [discriminate|].
    destruct (read_ref L (l_chunk L) c0) as [ch'|] eqn:Er; [|discriminate].
    destruct (validate_chunk ch'); [|discriminate]. inversion H; subst.
    repeat split; auto; [intros _; exists q; auto | rewrite Ep; discriminate | exists c0, rest; auto].
  - destruct (pi_chunks pi') as [|c0 rest] eqn:Ec; [discriminate|].
    destruct (read_ref L (l_chunk L) c0) as [ch'|] eqn:Er; [|discriminate].
    destruct (validate_chunk ch'); [|discriminate]. inversion H; subst.
    repeat split; auto; [rewrite Ep; discriminate | exists c0, rest; auto].
Qed.

Lemma get_batch_files_reads : forall L c b,
  get_batch_files L c = Some b ->
  bf_core b = c /\ counts_ok b = true /\
  (present (ci_proof c) = true -> exists p, read_ref L (l_proof L) (ci_proof c) = Some p /\ bf_core_proof b = Some p) /\
  (present (ci_proof c) = false -> bf_core_proof b = None) /\
  (present (ci_prov c) = true -> exists x, get_prov_files L (ci_prov c) = Some x /\ bf_prov b = Some x) /\
  (present (ci_prov c) = false -> bf_prov b = None).
Proof.
  intros L c b H. unfold get_batch_files in H.
  destruct (present (ci_proof c)) eqn:Ep.
  - destruct (read_ref L (l_proof L) (ci_proof c)) as [p|] eqn:Erp; [|discriminate].
    destruct (validate_core_proof p); [|discriminate].
    destruct (present (ci_prov c)) eqn:Epv.
    + destruct (get_prov_files L (ci_prov c)) as [x|] eqn:Eg; [|discriminate].
      match type of H with (if ?t then _ else _) = _ => destruct t eqn:Ec; [|discriminate] end.
      inversion H; subst. cbn [bf_core bf_core_proof bf_prov]. repeat split; eauto; discriminate.
    + match type of H with (if ?t then _ else _) = _ => destruct t eqn:Ec; [|discriminate] end.
      inversion H; subst. cbn [bf_core bf_core_proof bf_prov]. repeat split; eauto; discriminate.
  - destruct (present (ci_prov c)) eqn:Epv.
    + destruct (get_prov_files L (ci_prov c)) as [x|] eqn:Eg; [|discriminate].
      match type of H with (if ?t then _ else _) = _ => destruct t eqn:Ec; [|discriminate] end.
      inversion H; subst. cbn [bf_core bf_core_proof bf_prov]. repeat split; eauto; discriminate.
    + match type of H with (if ?t then _ else _) = _ => destruct t eqn:Ec; [|discriminate] end.
      inversion H; subst. cbn [bf_core bf_core_proof bf_prov]. repeat split; eauto; discriminate.
Qed.

Lemma digits_val_ge : forall s acc v, digits_val s acc = Some v -> 0 <= acc -> acc <= v.
Proof.
  induction s as [|c r IH]; intros acc v H Ha; cbn [digits_val] in H; [inversion H; lia|].
  destruct (is_digit_b c) eqn:Ed; [|discriminate]. apply IH in H.
  - assert (48 <= bZ c) by (destruct c; cbn in Ed; try discriminate; vm_compute; discriminate). lia.
  - assert (48 <= bZ c) by (destruct c; cbn in Ed; try discriminate; vm_compute; discriminate). lia.
Qed.

(* ParseAnchorData succeeded: exactly two parts, the first a positive decimal number without leading zero *)
Lemma parse_anchor_ok : forall a n uri,
  parse_anchor a = (true, n, uri) ->
  exists digits, split_dot [] a = [digits; uri] /\ positive_int_text digits = true /\ digits_val digits 0 = Some n /\ 0 < n < two63.
Proof.
  intros a n uri H. unfold parse_anchor in H.
  destruct (split_dot [] a) as [|d [|u [|x l]]] eqn:Es; try discriminate.
  destruct (positive_int_text d) eqn:Ep; [|discriminate].
  destruct (digits_val d 0) as [v|] eqn:Ed; [|discriminate].
  destruct (v <? two63) eqn:Ev; [|discriminate]. inversion H; subst. exists d. apply Z.ltb_lt in Ev.
  repeat split; auto.
  destruct d as [|c r]; [discriminate|]. cbn [positive_int_text] in Ep. cbn [digits_val] in Ed.
  apply andb_true_iff in Ep. destruct Ep as [Ep _]. apply andb_true_iff in Ep. destruct Ep as [E1 E2].
  apply Z.leb_le in E1, E2.
  assert (Hd : is_digit_b c = true) by (destruct c; cbn in E1, E2; try lia; reflexivity).
  rewrite Hd in Ed. apply digits_val_ge in Ed; lia.
Qed.

(* MAIN (c): what a successful GetTxnOperations says about the anchor text, the CAS and the file bytes *)
Theorem bytes_success_structure : forall L F C a ops,
  get_txn_operations_bytes L F C a = Some ops ->
  exists uri m,
    parse_anchor a = (true, Z.of_nat (length ops), uri) /\
    file_at L C (l_core_index L) uri decode_core_index m /\
    blen (cim_proof_uri m) <= l_uri_len L /\ blen (cim_prov_uri m) <= l_uri_len L /\
    (cim_proof_uri m <> [] <-> (0 < length (core_recovers m) + length (core_deactivates m))%nat) /\
    (cim_proof_uri m <> [] ->
       exists p, file_at L C (l_proof L) (cim_proof_uri m) decode_core_proof p /\
                 length (sl_elems (cpm_recover p)) = length (core_recovers m) /\
                 length (sl_elems (cpm_deactivate p)) = length (core_deactivates m)) /\
    (cim_prov_uri m <> [] ->
       exists pi ch c0 rest,
         file_at L C (l_prov_index L) (cim_prov_uri m) decode_prov_index pi /\
         sl_elems (pim_chunks pi) = c0 :: rest /\ chm_uri c0 <> [] /\ blen (chm_uri c0) <= l_uri_len L /\
         file_at L C (l_chunk L) (chm_uri c0) decode_chunk ch /\
         length (sl_elems (ckm_deltas ch))
           = (length (core_creates m) + length (core_recovers m) + length (prov_updates pi))%nat /\
         blen (pim_proof_uri pi) <= l_uri_len L /\
         (pim_proof_uri pi <> [] <-> (0 < length (prov_updates pi))%nat) /\
         (pim_proof_uri pi <> [] ->
            exists pp, file_at L C (l_proof L) (pim_proof_uri pi) decode_prov_proof pp /\
                       length (sl_elems (ppm_update pp)) = length (prov_updates pi))).
Proof.
  intros L F C a ops H. unfold get_txn_operations_bytes in H. apply get_some in H.
  destruct H as (Hok & Hcnt & c & b & Hr & Hv & Hb & Ha).
  unfold anchor_view_of_bytes in *. destruct (parse_anchor a) as [[ok n] uri] eqn:Epa.
  cbn [a_syntax_ok a_count a_core] in *. subst ok n.
  exists uri. apply raw_of_read in Hr. destruct Hr as (e & He & Heok & Hp).
  unfold parse_core_index in Hp. destruct (decode_core_index (ce_content e)) as [m|] eqn:Em; [|discriminate].
  cbn [option_map] in Hp. inversion Hp; subst c. clear Hp. exists m.
  split; [reflexivity|]. split; [exists e; auto|].
  (* validation of the core index *)
  pose proof (proof_reference_discipline L _ Hv) as Hdisc.
  unfold validate_core_index in Hv. repeat (apply andb_true_iff in Hv; destruct Hv as [Hv ?]).
  match goal with H : uri_ok L (ci_proof _) = true |- _ => unfold uri_ok in H; apply Z.leb_le in H; cbn [ci_proof core_index_of_m] in H; rewrite uri_len_ref_of in H; rename H into Hu1 end.
  match goal with H : uri_ok L (ci_prov _) = true |- _ => unfold uri_ok in H; apply Z.leb_le in H; cbn [ci_prov core_index_of_m] in H; rewrite uri_len_ref_of in H; rename H into Hu2 end.
  split; [exact Hu1|]. split; [exact Hu2|].
  cbn [ci_proof ci_recovers ci_deactivates core_index_of_m] in Hdisc. rewrite !map_length in Hdisc.
  rewrite present_ref_of in Hdisc. split; [exact Hdisc|].
  destruct (get_batch_files_reads _ _ _ Hb) as (Hcore & Hcounts & Hp1 & Hp0 & Hv1 & Hv0).
  cbn [ci_proof ci_prov core_index_of_m] in Hp1, Hp0, Hv1, Hv0.
  unfold counts_ok in Hcounts. rewrite Hcore in Hcounts. apply andb_true_iff in Hcounts. destruct Hcounts as [Hc1 Hc2].
  cbn [ci_recovers ci_deactivates ci_creates core_index_of_m] in Hc1, Hc2. rewrite ?map_length, ?creates_of_length in Hc1, Hc2.
  split.
  - (* core proof file *)
    intros Hne. destruct (Hp1 (proj2 (present_ref_of _ _ _) Hne)) as (p & Hrp & Hbp).
    apply ref_of_read in Hrp. destruct Hrp as (_ & e' & He' & Hok' & Hpp).
    unfold parse_core_proof in Hpp. destruct (decode_core_proof (ce_content e')) as [pm|] eqn:Epm; [|discriminate].
    cbn [option_map] in Hpp. inversion Hpp; subst p. exists pm. split; [exists e'; auto|].
    rewrite Hbp in Hc1. apply andb_true_iff in Hc1. destruct Hc1 as [E1 E2]. apply Nat.eqb_eq in E1, E2.
    cbn [cp_recovers cp_deactivates core_proof_of_m] in E1, E2. rewrite proofs_of_length in E1, E2.
    rewrite ?map_length in E1. rewrite ?map_length in E2. split; congruence.
  - (* provisional files *)
    intros Hne. destruct (Hv1 (proj2 (present_ref_of _ _ _) Hne)) as ([[pi pp] ch] & Hg & Hbv).
    destruct (get_prov_files_reads _ _ _ _ _ Hg) as (Hrpi & Hvpi & Hq1 & Hq0 & c0 & rest & Hch & Hrch).
    apply ref_of_read in Hrpi. destruct Hrpi as (_ & e' & He' & Hok' & Hppi).
    unfold parse_prov_index in Hppi. destruct (decode_prov_index (ce_content e')) as [pim|] eqn:Epim; [|discriminate].
    cbn [option_map] in Hppi. inversion Hppi; subst pi. clear Hppi.
    cbn [pi_chunks pi_proof pi_updates prov_index_of_m] in *.
    destruct (sl_elems (pim_chunks pim)) as [|x xs] eqn:Ex; cbn [chunks_of] in Hch; [discriminate|].
    inversion Hch; subst c0 rest. clear Hch.
    apply ref_of_read in Hrch. destruct Hrch as (Hxne & e2 & He2 & Hok2 & Hpch).
    unfold parse_chunk in Hpch. destruct (decode_chunk (ce_content e2)) as [chm|] eqn:Echm; [|discriminate].
    cbn [option_map] in Hpch. inversion Hpch; subst ch. clear Hpch.
    exists pim, chm, x, xs. split; [exists e'; auto|]. split; [exact Ex|]. split; [exact Hxne|].
    pose proof (prov_proof_reference_discipline L _ Hvpi) as Hd2.
    cbn [pi_proof pi_updates prov_index_of_m] in Hd2. rewrite map_length, present_ref_of in Hd2.
    unfold validate_prov_index in Hvpi. repeat (apply andb_true_iff in Hvpi; destruct Hvpi as [Hvpi ?]).
    cbn [pi_chunks pi_proof prov_index_of_m] in *. rewrite Ex in *. cbn [chunks_of] in *.
    match goal with H : uri_ok L (ref_of C (chm_uri x) _) = true |- _ => unfold uri_ok in H; apply Z.leb_le in H; rewrite uri_len_ref_of in H; rename H into Hux end.
    match goal with H : uri_ok L (ref_of C (pim_proof_uri pim) _) = true |- _ => unfold uri_ok in H; apply Z.leb_le in H; rewrite uri_len_ref_of in H; rename H into Hup end.
    split; [exact Hux|]. split; [exists e2; auto|].
    rewrite Hbv in Hc2. apply andb_true_iff in Hc2. destruct Hc2 as [E1 E2]. apply Nat.eqb_eq in E2.
    cbn [pi_updates ch_deltas chunk_of_m prov_index_of_m] in E2. rewrite map_length, deltas_of_length in E2.
    rewrite creates_of_length in E2. split; [symmetry; exact E2|]. split; [exact Hup|]. split; [exact Hd2|].
    intros Hpne. destruct (Hq1 (proj2 (present_ref_of _ _ _) Hpne)) as (q & Hrq & ->).
    apply ref_of_read in Hrq. destruct Hrq as (_ & e3 & He3 & Hok3 & Hpq).
    unfold parse_prov_proof in Hpq. destruct (decode_prov_proof (ce_content e3)) as [qm|] eqn:Eqm; [|discriminate].
    cbn [option_map] in Hpq. inversion Hpq; subst q. exists qm. split; [exists e3; auto|].
    apply Nat.eqb_eq in E1. cbn [pi_updates pp_updates prov_proof_of_m prov_index_of_m] in E1.
    rewrite map_length, proofs_of_length in E1. symmetry. exact E1.
Qed.

(* -- the theorems of Batch/Safe.v on bytes -- *)

(* distinct suffixes *)
Theorem bytes_suffixes_distinct : forall L F C a ops,
  get_txn_operations_bytes L F C a = Some ops -> NoDup (map ro_sfx ops).
Proof. intros L F C a ops H. eapply suffixes_distinct. exact H. Qed.

(* count = the number written in the anchor TEXT: the anchor string splits at its only '.' into a decimal number
   without sign or leading zero and the core index URI; the number is the (positive) number of operations returned *)
Theorem bytes_count_matches_anchor_text : forall L F C a ops,
  get_txn_operations_bytes L F C a = Some ops ->
  exists digits uri, split_dot [] a = [digits; uri] /\ positive_int_text digits = true /\
                     digits_val digits 0 = Some (Z.of_nat (length ops)) /\ (0 < length ops)%nat.
Proof.
  intros L F C a ops H. destruct (bytes_success_structure _ _ _ _ _ H) as (uri & m & Hpa & _).
  destruct (parse_anchor_ok _ _ _ Hpa) as (d & Hs & Hp & Hd & Hn). exists d, uri. repeat split; auto. lia.
Qed.

Theorem bytes_bad_anchor_fails : forall L F C a n uri,
  parse_anchor a = (false, n, uri) -> get_txn_operations_bytes L F C a = None.
Proof.
  intros L F C a n uri H. unfold get_txn_operations_bytes, get_txn_operations, anchor_view_of_bytes. rewrite H. reflexivity.
Qed.

(* size / decompression limits, read failures and decoding errors, for every file that has to be read *)
Definition bad_entry {T} (L : limits) (max : Z) (dec : bytes -> option T) (oe : option cas_entry) : Prop :=
  match oe with
  | None => True                                                         (* nothing at that address *)
  | Some e => ce_read_ok e = false \/ ce_raw_size e > max \/ ce_decomp_ok e = false \/
              blen (ce_content e) > max * l_factor L \/ dec (ce_content e) = None
  end.

Lemma bad_entry_no_file : forall {T} L C max uri (dec : bytes -> option T) m,
  bad_entry L max dec (cas_get C uri) -> ~ file_at L C max uri dec m.
Proof.
  intros T L C max uri dec m Hb (e & He & (H1 & H2 & H3 & H4) & H5). rewrite He in Hb. cbn in Hb.
  destruct Hb as [Hb|[Hb|[Hb|[Hb|Hb]]]]; try congruence; lia.
Qed.

Lemma file_at_fun : forall {T} L C max uri (dec : bytes -> option T) m e m',
  file_at L C max uri dec m -> cas_get C uri = Some e -> dec (ce_content e) = Some m' -> m = m'.
Proof. intros T L C max uri dec m e m' (e0 & He0 & _ & Hd) He Hm. congruence. Qed.

(* the files GetTxnOperations has to read, one of which is bad *)
Inductive bad_file (L : limits) (C : cas) (a : bytes) : Prop :=
| bad_core_index : forall n uri,
    parse_anchor a = (true, n, uri) -> bad_entry L (l_core_index L) decode_core_index (cas_get C uri) -> bad_file L C a
| bad_core_proof : forall n uri e m,
    parse_anchor a = (true, n, uri) -> cas_get C uri = Some e -> decode_core_index (ce_content e) = Some m ->
    cim_proof_uri m <> [] -> bad_entry L (l_proof L) decode_core_proof (cas_get C (cim_proof_uri m)) -> bad_file L C a
| bad_prov_index : forall n uri e m,
    parse_anchor a = (true, n, uri) -> cas_get C uri = Some e -> decode_core_index (ce_content e) = Some m ->
    cim_prov_uri m <> [] -> bad_entry L (l_prov_index L) decode_prov_index (cas_get C (cim_prov_uri m)) -> bad_file L C a
| bad_prov_proof : forall n uri e m e' pi,
    parse_anchor a = (true, n, uri) -> cas_get C uri = Some e -> decode_core_index (ce_content e) = Some m ->
    cim_prov_uri m <> [] -> cas_get C (cim_prov_uri m) = Some e' -> decode_prov_index (ce_content e') = Some pi ->
    pim_proof_uri pi <> [] -> bad_entry L (l_proof L) decode_prov_proof (cas_get C (pim_proof_uri pi)) -> bad_file L C a
| bad_no_chunk : forall n uri e m e' pi,
    parse_anchor a = (true, n, uri) -> cas_get C uri = Some e -> decode_core_index (ce_content e) = Some m ->
    cim_prov_uri m <> [] -> cas_get C (cim_prov_uri m) = Some e' -> decode_prov_index (ce_content e') = Some pi ->
    sl_elems (pim_chunks pi) = [] -> bad_file L C a
| bad_chunk : forall n uri e m e' pi c0 rest,
    parse_anchor a = (true, n, uri) -> cas_get C uri = Some e -> decode_core_index (ce_content e) = Some m ->
    cim_prov_uri m <> [] -> cas_get C (cim_prov_uri m) = Some e' -> decode_prov_index (ce_content e') = Some pi ->
    sl_elems (pim_chunks pi) = c0 :: rest -> bad_entry L (l_chunk L) decode_chunk (cas_get C (chm_uri c0)) -> bad_file L C a.

(* MAIN (d): a file on the path of GetTxnOperations that cannot be read, is larger than its limit as served or after
   decompression, does not decompress, or whose bytes the decoder of its struct rejects, makes the transaction fail *)
Theorem bytes_bad_file_fails : forall L F C a, bad_file L C a -> get_txn_operations_bytes L F C a = None.
Proof.
  intros L F C a Hbad. destruct (get_txn_operations_bytes L F C a) as [ops|] eqn:E; [exfalso|reflexivity].
  destruct (bytes_success_structure _ _ _ _ _ E) as (uri0 & m0 & Hpa & Hcore & _ & _ & _ & Hproof & Hprov).
  destruct Hbad as [n uri Ha Hb | n uri e m Ha He Hm Hne Hb | n uri e m Ha He Hm Hne Hb
                   | n uri e m e' pi Ha He Hm Hne He' Hpi Hpne Hb | n uri e m e' pi Ha He Hm Hne He' Hpi Hnil
                   | n uri e m e' pi c0 rest Ha He Hm Hne He' Hpi Hch Hb];
    rewrite Hpa in Ha; inversion Ha; subst uri n; clear Ha.
  - exact (bad_entry_no_file _ _ _ _ _ _ Hb Hcore).
  - pose proof (file_at_fun _ _ _ _ _ _ _ _ Hcore He Hm) as ->. destruct (Hproof Hne) as (p & Hp & _).
    exact (bad_entry_no_file _ _ _ _ _ _ Hb Hp).
  - pose proof (file_at_fun _ _ _ _ _ _ _ _ Hcore He Hm) as ->. destruct (Hprov Hne) as (pi & ch & c0 & rest & Hp & _).
    exact (bad_entry_no_file _ _ _ _ _ _ Hb Hp).
  - pose proof (file_at_fun _ _ _ _ _ _ _ _ Hcore He Hm) as ->.
    destruct (Hprov Hne) as (pi0 & ch & c0 & rest & Hp & _ & _ & _ & _ & _ & _ & _ & Hpp).
    pose proof (file_at_fun _ _ _ _ _ _ _ _ Hp He' Hpi) as ->. destruct (Hpp Hpne) as (pp & Hq & _).
    exact (bad_entry_no_file _ _ _ _ _ _ Hb Hq).
  - pose proof (file_at_fun _ _ _ _ _ _ _ _ Hcore He Hm) as ->.
    destruct (Hprov Hne) as (pi0 & ch & c0 & rest & Hp & Hc & _).
    pose proof (file_at_fun _ _ _ _ _ _ _ _ Hp He' Hpi) as ->. congruence.
  - pose proof (file_at_fun _ _ _ _ _ _ _ _ Hcore He Hm) as ->.
    destruct (Hprov Hne) as (pi0 & ch & c1 & rest1 & Hp & Hc & _ & _ & Hchunk & _).
    pose proof (file_at_fun _ _ _ _ _ _ _ _ Hp He' Hpi) as ->. rewrite Hch in Hc. inversion Hc; subst c1 rest1.
    exact (bad_entry_no_file _ _ _ _ _ _ Hb Hchunk).
Qed.

(* in particular: bytes that are not the JSON text of an object (or of null) *)
Theorem not_json_object_is_bad : forall L max e,
  ~ json_object_or_null (ce_content e) ->
  bad_entry L max decode_core_index (Some e) /\ bad_entry L max decode_core_proof (Some e) /\
  bad_entry L max decode_prov_index (Some e) /\ bad_entry L max decode_prov_proof (Some e) /\
  bad_entry L max decode_chunk (Some e).
Proof.
  intros L max e Hn. destruct (decoded_is_object_or_null (ce_content e)) as (H1 & H2 & H3 & H4 & H5).
  assert (G : forall {T} (d : bytes -> option T), (d (ce_content e) <> None -> json_object_or_null (ce_content e)) ->
              bad_entry L max d (Some e)).
  { intros T d Hd. cbn. right. right. right. right. destruct (d (ce_content e)) eqn:Ed; [|reflexivity].
    exfalso. apply Hn, Hd. discriminate. }
  repeat split; apply G; assumption.
Qed.

(* oversize files, stated directly (Safe.oversize_raw_rejected / oversize_decompressed_rejected on bytes) *)
Corollary bytes_oversize_core_index_rejected : forall L F C a n uri e,
  parse_anchor a = (true, n, uri) -> cas_get C uri = Some e ->
  ce_raw_size e > l_core_index L \/ blen (ce_content e) > l_core_index L * l_factor L ->
  get_txn_operations_bytes L F C a = None.
Proof.
  intros L F C a n uri e Ha He Hs. apply bytes_bad_file_fails. eapply bad_core_index; [exact Ha|]. rewrite He. cbn. tauto.
Qed.

(* -- distinct suffixes, on the STRINGS of the files -- *)

Lemma bytes_success_chain : forall L F C a ops,
  get_txn_operations_bytes L F C a = Some ops ->
  exists n uri e m b,
    parse_anchor a = (true, n, uri) /\ cas_get C uri = Some e /\ decode_core_index (ce_content e) = Some m /\
    bf_core b = core_index_of_m F C m /\ assemble b = Some ops /\
    (cim_prov_uri m = [] -> bf_prov b = None) /\
    (cim_prov_uri m <> [] ->
       exists e' pim pp ch, cas_get C (cim_prov_uri m) = Some e' /\ decode_prov_index (ce_content e') = Some pim /\
                            bf_prov b = Some (prov_index_of_m F C pim, pp, ch)).
Proof.
  intros L F C a ops H. unfold get_txn_operations_bytes in H. apply get_some in H.
  destruct H as (Hok & Hcnt & c & b & Hr & Hv & Hb & Ha).
  unfold anchor_view_of_bytes in *. destruct (parse_anchor a) as [[ok n] uri] eqn:Epa.
  cbn [a_syntax_ok a_count a_core] in *. subst ok.
  apply raw_of_read in Hr. destruct Hr as (e & He & Heok & Hp).
  unfold parse_core_index in Hp. destruct (decode_core_index (ce_content e)) as [m|] eqn:Em; [|discriminate].
  cbn [option_map] in Hp. inversion Hp; subst c. clear Hp. exists n, uri, e, m, b.
  destruct (get_batch_files_reads _ _ _ Hb) as (Hcore & _ & _ & _ & Hv1 & Hv0).
  cbn [ci_prov core_index_of_m] in Hv1, Hv0.
  repeat split; auto.
  - intros Hnil. apply Hv0. now apply present_ref_of_false.
  - intros Hne. destruct (Hv1 (proj2 (present_ref_of _ _ _) Hne)) as ([[pi pp] ch] & Hg & Hbv).
    destruct (get_prov_files_reads _ _ _ _ _ Hg) as (Hrpi & _).
    apply ref_of_read in Hrpi. destruct Hrpi as (_ & e' & He' & _ & Hppi).
    unfold parse_prov_index in Hppi. destruct (decode_prov_index (ce_content e')) as [pim|] eqn:Epim; [|discriminate].
    cbn [option_map] in Hppi. inversion Hppi; subst pi. exists e', pim, pp, ch. auto.
Qed.

Lemma NoDup_app_tail : forall {A} (x y : list A), NoDup (x ++ y) -> NoDup y.
Proof. intros A x y. induction x as [|a r IH]; [exact (fun H => H)|]. cbn [app]. intros H. inversion H; auto. Qed.

Lemma ref_ids : forall I l, map or_sfx (map (op_ref_of I) l) = map I (map om_did l).
Proof. intros I l. rewrite !map_map. reflexivity. Qed.

(* the didSuffix STRINGS of the recover, deactivate and update references of the files of a transaction that reads
   successfully are pairwise distinct - whatever the interning [fx_id] is *)
Theorem bytes_ref_strings_distinct : forall L F C a ops,
  get_txn_operations_bytes L F C a = Some ops ->
  exists n uri e m,
    parse_anchor a = (true, n, uri) /\ cas_get C uri = Some e /\ decode_core_index (ce_content e) = Some m /\
    NoDup (map om_did (core_recovers m ++ core_deactivates m)) /\
    (cim_prov_uri m <> [] ->
       exists e' pi, cas_get C (cim_prov_uri m) = Some e' /\ decode_prov_index (ce_content e') = Some pi /\
                     NoDup (map om_did (core_recovers m ++ core_deactivates m ++ prov_updates pi))).
Proof.
  intros L F C a ops H. destruct (bytes_success_chain _ _ _ _ _ H) as (n & uri & e & m & b & Ha & He & Hm & Hcore & Has & Hv0 & Hv1).
  exists n, uri, e, m. repeat (split; [assumption|]).
  unfold assemble in Has. rewrite Hcore in Has. cbn [ci_creates ci_recovers ci_deactivates core_index_of_m] in Has.
  match type of Has with (if has_dup [] ?l then _ else _) = _ => destruct (has_dup [] l) eqn:Ed; [discriminate|] end.
  apply has_dup_false in Ed. destruct Ed as [Hnd _]. split.
  - apply NoDup_app_tail in Hnd. rewrite !ref_ids, <- map_app, <- map_app in Hnd. eapply NoDup_map_inv. exact Hnd.
  - intros Hne. destruct (Hv1 Hne) as (e' & pim & pp & ch & He' & Hpim & Hbv). exists e', pim. repeat (split; [assumption|]).
    rewrite Hbv in Has.
    match type of Has with (if has_dup [] ?l then _ else _) = _ => destruct (has_dup [] l) eqn:Ed2; [discriminate|] end.
    apply has_dup_false in Ed2. destruct Ed2 as [Hnd2 _]. cbn [pi_updates prov_index_of_m] in Hnd2.
    rewrite <- !app_assoc in Hnd2. apply NoDup_app_tail in Hnd2.
    rewrite !ref_ids, <- !map_app in Hnd2. eapply NoDup_map_inv. exact Hnd2.
Qed.

(* ================================================================================================ *)
(** * (b) round trip: the canonical text of a file struct decodes to that struct *)

(* The handler writes docutil.MarshalCanonical(file struct): json.Marshal and then the JCS transformation, i.e.
   [print_canonical] of the struct as a JSON value ([core_index_json] ... of Batch/FilesOfBytes.v).  Decoding that
   text gives the struct back, with (1) the backing arrays of its slices empty ([fresh]) and (2) the JSON values it
   embeds - anchor origins, patches - in canonical form ([cnorm]: members sorted, -0 as 0); an anchor origin that is
   the JSON null comes back as nil.  Side conditions: [text_ok] - the value has no duplicate member names, its strings
   are valid UTF-8, its numbers are printed as tokens that read back as the same double (checked by computation, see
   Json/GoJsonProofs.v), nesting depth at most 10000 - and the same well-formedness ([gwf]) for the embedded values. *)
Lemma std_parse_canonical : forall v,
  gwfb v = true -> top_shapeb v = true -> (jdepth v <=? 10000)%N = true -> std_parse (print_canonical v) = Some (ec v).
Proof.
  intros v H1 H2 H3. pose proof (gwfb_sound _ H1) as Hw. unfold std_parse, go_parse.
  assert (Hrt : forall x, gwf x -> rt x) by (apply rt_all).
  pose proof (fsize_le_g v Hw) as Hf.
  assert (Hfuel : (fsize v <= go_fuel (print_canonical v))%nat) by (unfold go_fuel; lia).
  assert (Hd : depth_fits std_limit 0 v) by (cbn [std_limit depth_fits]; apply N.leb_le in H3; lia).
  assert (E : pvalue (go_fuel (print_canonical v)) std_limit 0 (print_canonical v ++ []) = Some (ec v, [])).
  { destruct (top_shapeb_sound _ H2) as [[l ->]|[m ->]].
    - pose proof Hw as Hw'. apply gwf_arr in Hw'. apply rt_arr; try assumption.
      rewrite Forall_forall in *. intros x Hx. apply Hrt. now apply Hw'.
    - pose proof Hw as Hw'. apply gwf_obj in Hw'. destruct Hw' as [_ Hall]. apply rt_obj; try assumption.
      rewrite Forall_forall in *. intros x Hx. apply Hrt. now apply Hall. }
  rewrite app_nil_r in E. rewrite E. reflexivity.
Qed.

Definition text_ok (v : json) : Prop := gwfb v = true /\ (jdepth v <=? 10000)%N = true.

Lemma unmarshal_canonical : forall {T} (f : T -> bytes -> gj -> option T) zero m,
  text_ok (JObj m) -> unmarshal f zero (print_canonical (JObj m)) = fold_members f (map em (sort_g m)) zero.
Proof.
  intros T f zero m [H1 H2]. unfold unmarshal. rewrite std_parse_canonical by (assumption || reflexivity).
  rewrite ec_obj. reflexivity.
Qed.

Ltac ev_fields :=
  repeat match goal with
  | |- context [is_field (fold_name ?k) ?n] =>
    let r := eval vm_compute in (is_field (fold_name k) n) in change (is_field (fold_name k) n) with r
  end; cbv iota.

Ltac sort_now :=
  match goal with
  | |- context [sort_g ?L] => let x := eval vm_compute in (sort_g L) in replace (sort_g L) with x by (vm_compute; reflexivity)
  end.

Lemma dec_slice_elems_map : forall {T U} (zero : T) (dec : gj -> T -> option T) (g : U -> gj) (h : U -> T) l acc,
  (forall x, In x l -> dec (g x) zero = Some (h x)) ->
  dec_slice_elems zero dec (map g l) [] acc = Some {| sl_elems := rev acc ++ map h l; sl_stale := [] |}.
Proof.
  intros T U zero dec g h l. induction l as [|x r IH]; intros acc H; cbn [map dec_slice_elems].
  - now rewrite rev'_rev, app_nil_r.
  - cbn [tl]. rewrite (H x (or_introl eq_refl)). rewrite IH by (intros y Hy; apply H; now right).
    cbn [rev]. now rewrite <- app_assoc.
Qed.

Lemma dec_slice_map : forall {T U} (zero : T) (dec : gj -> T -> option T) (g : U -> gj) (h : U -> T) l,
  (forall x, In x l -> dec (g x) zero = Some (h x)) ->
  dec_slice zero dec (GArr (map g l)) nil_slice = Some {| sl_elems := map h l; sl_stale := [] |}.
Proof.
  intros T U zero dec g h l H. destruct l as [|x r]; [reflexivity|].
  unfold dec_slice. cbn [map]. cbn [sl_elems sl_stale nil_slice app]. 
  change (GArr (g x :: map g r)) with (GArr (map g (x :: r))).
  exact (dec_slice_elems_map zero dec g h (x :: r) [] H).
Qed.

(* string slices *)
Lemma ec_strs : forall l, map ec (map JStr l) = map GStr l.
Proof. intro l. rewrite map_map. apply map_ext. reflexivity. Qed.

Lemma dec_strings_rt : forall l, dec_strings (GArr (map GStr l)) nil_slice = Some {| sl_elems := l; sl_stale := [] |}.
Proof.
  intro l. unfold dec_strings. rewrite (dec_slice_map [] dec_str GStr (fun s => s)) by reflexivity. now rewrite map_id.
Qed.

Definition fresh {T} (s : slice T) : slice T := {| sl_elems := sl_elems s; sl_stale := [] |}.

Lemma opt_arr_map : forall {U} name (f : U -> json) l,
  opt_arr name (map f l) = match l with [] => [] | _ => [(bs name, JArr (map f l))] end.
Proof. intros U name f [|x r]; reflexivity. Qed.

Lemma sort_single : forall {A} k (v : A), sort_g [(k, v)] = [(k, v)].
Proof. reflexivity. Qed.

Ltac hide_vals :=
  repeat match goal with
  | |- context [@pair bytes json ?k ?v] => tryif is_var v then fail else (let j := fresh "jv" in remember v as j)
  end.
Ltac show_vals := repeat match goal with H : ?j = ?v |- _ => match type of j with json => is_var j; subst j end end.
Ltac sort_hidden := hide_vals; try sort_now; cbn [map]; unfold em; cbn [fst snd]; show_vals.

Theorem rt_core_proof : forall m,
  text_ok (core_proof_json m) ->
  decode_core_proof (print_canonical (core_proof_json m))
  = Some {| cpm_recover := fresh (cpm_recover m); cpm_deactivate := fresh (cpm_deactivate m) |}.
Proof.
  intros [[R Rs] [D Ds]] Hok. unfold decode_core_proof, core_proof_json, fresh in *. cbn [cpm_recover cpm_deactivate sl_elems] in *.
  rewrite unmarshal_canonical by exact Hok. rewrite sort_single. cbn [map em fst snd fold_members].
  unfold core_proof_member at 1. ev_fields.
  rewrite ec_obj, !opt_arr_map.
  destruct R as [|r0 R], D as [|d0 D]; cbn [app]; sort_hidden; cbn [dec_struct fold_members];
    unfold core_proof_ops_member; ev_fields; rewrite ?ec_arr, ?ec_strs; cbn [cpm_recover cpm_deactivate core_proof_zero];
    rewrite ?dec_strings_rt; cbn [option_map cpm_recover cpm_deactivate]; rewrite ?dec_strings_rt; reflexivity.
Qed.

Theorem rt_prov_proof : forall m,
  text_ok (prov_proof_json m) ->
  decode_prov_proof (print_canonical (prov_proof_json m)) = Some {| ppm_update := fresh (ppm_update m) |}.
Proof.
  intros [[U Us]] Hok. unfold decode_prov_proof, prov_proof_json, fresh in *. cbn [ppm_update sl_elems] in *.
  rewrite unmarshal_canonical by exact Hok. rewrite sort_single. cbn [map]. unfold em. cbn [fst snd fold_members].
  unfold prov_proof_member at 1. ev_fields.
  rewrite ec_obj, !opt_arr_map.
  destruct U as [|u0 U]; sort_hidden; cbn [dec_struct fold_members]; [reflexivity|].
  unfold prov_proof_ops_member; ev_fields. rewrite ec_arr, ec_strs. cbn [ppm_update prov_proof_zero].
  rewrite dec_strings_rt. reflexivity.
Qed.

Lemma op_ref_rt : forall o, dec_struct op_ref_member (ec (op_ref_json o)) op_ref_zero = Some o.
Proof. intros [d r]. vm_compute. reflexivity. Qed.

Lemma chunk_ref_rt : forall c, dec_struct chunk_ref_member (ec (chunk_ref_json c)) chunk_ref_zero = Some c.
Proof. intros [u]. vm_compute. reflexivity. Qed.

Lemma dec_op_refs_rt : forall l, dec_op_refs (ec (JArr (map op_ref_json l))) nil_slice = Some {| sl_elems := l; sl_stale := [] |}.
Proof.
  intro l. rewrite ec_arr, map_map. unfold dec_op_refs.
  rewrite (dec_slice_map _ _ (fun o => ec (op_ref_json o)) (fun o => o)) by (intros; apply op_ref_rt). now rewrite map_id.
Qed.

Lemma dec_chunk_refs_rt : forall l,
  dec_slice chunk_ref_zero (dec_struct chunk_ref_member) (ec (JArr (map chunk_ref_json l))) nil_slice
  = Some {| sl_elems := l; sl_stale := [] |}.
Proof.
  intro l. rewrite ec_arr, map_map.
  rewrite (dec_slice_map _ _ (fun o => ec (chunk_ref_json o)) (fun o => o)) by (intros; apply chunk_ref_rt). now rewrite map_id.
Qed.

Lemma nil_or_arr_map : forall {U} (f : U -> json) l,
  nil_or_arr (map f l) = match l with [] => JNull | _ => JArr (map f l) end.
Proof. intros U f [|x r]; reflexivity. Qed.

Lemma dec_chunk_refs_rt' : forall l,
  dec_slice chunk_ref_zero (dec_struct chunk_ref_member) (ec (nil_or_arr (map chunk_ref_json l))) nil_slice
  = Some {| sl_elems := l; sl_stale := [] |}.
Proof. intros [|c r]; [reflexivity|]. rewrite nil_or_arr_map. apply dec_chunk_refs_rt. Qed.

Lemma ec_str : forall s, ec (JStr s) = GStr s.
Proof. reflexivity. Qed.

Definition fresh_prov_ops (o : prov_ops_m) : prov_ops_m := {| pom_update := fresh (pom_update o) |}.

Lemma prov_ops_rt : forall o,
  dec_ptr prov_ops_zero prov_ops_member (ec (JObj (opt_arr "update" (map op_ref_json (sl_elems (pom_update o)))))) None
  = Some (Some (fresh_prov_ops o)).
Proof.
  intros [[U Us]]. unfold fresh_prov_ops, fresh. cbn [pom_update sl_elems]. rewrite ec_obj, opt_arr_map.
  destruct U as [|u0 U]; sort_hidden; cbn [dec_ptr fold_members option_map]; [reflexivity|].
  unfold prov_ops_member; ev_fields. cbn [pom_update prov_ops_zero]. rewrite dec_op_refs_rt. reflexivity.
Qed.

Theorem rt_prov_index : forall m,
  text_ok (prov_index_json m) ->
  decode_prov_index (print_canonical (prov_index_json m))
  = Some {| pim_proof_uri := pim_proof_uri m; pim_chunks := fresh (pim_chunks m); pim_ops := option_map fresh_prov_ops (pim_ops m) |}.
Proof.
  intros [u [Cs Css] ops] Hok. unfold decode_prov_index, prov_index_json, fresh in *. cbn [pim_proof_uri pim_chunks pim_ops sl_elems] in *.
  rewrite unmarshal_canonical by exact Hok. unfold opt_str.
  destruct u as [|u0 u], ops as [o|]; cbn [app option_map]; sort_hidden; cbn [fold_members];
    unfold prov_index_member; ev_fields; cbn [pim_proof_uri pim_chunks pim_ops prov_index_zero];
    rewrite ?dec_chunk_refs_rt'; cbn [option_map pim_proof_uri pim_chunks pim_ops];
    rewrite ?prov_ops_rt; cbn [option_map pim_proof_uri pim_chunks pim_ops]; rewrite ?ec_str; cbn [dec_str option_map]; reflexivity.
Qed.


(* -- suffix data, create references, core index -- *)
Definition norm_origin (o : option json) : option json :=
  match o with
  | Some j => match cnorm j with JNull => None | c => Some c end
  | None => None
  end.
Definition norm_suffix (s : suffix_m) : suffix_m :=
  Build_suffix_m (sm_delta_hash s) (sm_rec s) (norm_origin (sm_origin s)) (sm_type s).
Definition origin_ok (s : suffix_m) : Prop := match sm_origin s with Some j => gwf j | None => True end.

Lemma dec_any_ec : forall j, gwf j -> dec_any (ec j) = Some (norm_origin (Some j)).
Proof.
  intros j Hw. unfold dec_any, norm_origin. rewrite (to_iface_ec j Hw). unfold ec.
  destruct (cnorm j); reflexivity.
Qed.

Lemma suffix_rt : forall s, origin_ok s ->
  dec_ptr suffix_zero suffix_member (ec (suffix_json s)) None = Some (Some (norm_suffix s)).
Proof.
  intros [dh rc o ty] Hw. unfold origin_ok, norm_suffix, suffix_json, opt_str in *. cbn [sm_delta_hash sm_rec sm_origin sm_type] in *.
  rewrite ec_obj.
  destruct dh as [|d0 dh], rc as [|r0 rc], o as [j|], ty as [|t0 ty]; cbn [app]; sort_hidden; cbn [dec_ptr fold_members];
    unfold suffix_member; ev_fields; cbn [sm_delta_hash sm_rec sm_origin sm_type suffix_zero];
    rewrite ?ec_str, ?(dec_any_ec _ Hw); cbn [dec_str option_map sm_delta_hash sm_rec sm_origin sm_type];
    rewrite ?ec_str, ?(dec_any_ec _ Hw); cbn [dec_str option_map sm_delta_hash sm_rec sm_origin sm_type];
    rewrite ?ec_str, ?(dec_any_ec _ Hw); cbn [dec_str option_map sm_delta_hash sm_rec sm_origin sm_type];
    rewrite ?ec_str, ?(dec_any_ec _ Hw); cbn [dec_str option_map sm_delta_hash sm_rec sm_origin sm_type]; reflexivity.
Qed.

Definition norm_create (c : create_ref_m) : create_ref_m := Build_create_ref_m (option_map norm_suffix (crm_suffix c)).
Definition create_ok (c : create_ref_m) : Prop := match crm_suffix c with Some s => origin_ok s | None => True end.

Lemma create_ref_rt : forall c, create_ok c ->
  dec_struct create_ref_member (ec (create_ref_json c)) create_ref_zero = Some (norm_create c).
Proof.
  intros [[s|]] Hw; unfold create_ok, norm_create, create_ref_json in *; cbn [crm_suffix option_map] in *;
    rewrite ec_obj, sort_single; cbn [map]; unfold em; cbn [fst snd dec_struct fold_members];
    unfold create_ref_member; ev_fields; cbn [crm_suffix create_ref_zero].
  - rewrite (suffix_rt s Hw). reflexivity.
  - reflexivity.
Qed.

Lemma dec_creates_rt : forall l, Forall create_ok l ->
  dec_slice create_ref_zero (dec_struct create_ref_member) (ec (JArr (map create_ref_json l))) nil_slice
  = Some {| sl_elems := map norm_create l; sl_stale := [] |}.
Proof.
  intros l Hw. rewrite ec_arr, map_map.
  apply (dec_slice_map _ _ (fun o => ec (create_ref_json o)) norm_create).
  intros x Hx. apply create_ref_rt. rewrite Forall_forall in Hw. now apply Hw.
Qed.

Definition norm_core_ops (o : core_ops_m) : core_ops_m :=
  {| com_create := {| sl_elems := map norm_create (sl_elems (com_create o)); sl_stale := [] |};
     com_recover := fresh (com_recover o); com_deactivate := fresh (com_deactivate o) |}.

Lemma core_ops_rt : forall o, Forall create_ok (sl_elems (com_create o)) ->
  dec_ptr core_ops_zero core_ops_member (ec (core_ops_json o)) None = Some (Some (norm_core_ops o)).
Proof.
  intros [[Cs Css] [Rs Rss] [Ds Dss]] Hw. unfold norm_core_ops, core_ops_json, fresh in *.
  cbn [com_create com_recover com_deactivate sl_elems] in *.
  rewrite ec_obj, !opt_arr_map.
  destruct Cs as [|c0 Cs], Rs as [|r0 Rs], Ds as [|d0 Ds]; cbn [app]; sort_hidden; cbn [dec_ptr fold_members];
    unfold core_ops_member; ev_fields; cbn [com_create com_recover com_deactivate core_ops_zero];
    rewrite ?(dec_creates_rt _ Hw), ?dec_op_refs_rt; cbn [option_map com_create com_recover com_deactivate];
    rewrite ?(dec_creates_rt _ Hw), ?dec_op_refs_rt; cbn [option_map com_create com_recover com_deactivate];
    rewrite ?(dec_creates_rt _ Hw), ?dec_op_refs_rt; cbn [option_map com_create com_recover com_deactivate]; reflexivity.
Qed.

Definition norm_core_index (m : core_index_m) : core_index_m :=
  {| cim_prov_uri := cim_prov_uri m; cim_proof_uri := cim_proof_uri m; cim_ops := option_map norm_core_ops (cim_ops m) |}.

Theorem rt_core_index : forall m,
  text_ok (core_index_json m) -> Forall create_ok (core_creates m) ->
  decode_core_index (print_canonical (core_index_json m)) = Some (norm_core_index m).
Proof.
  intros [pu cu ops] Hok Hw. unfold decode_core_index, core_index_json, norm_core_index, core_creates in *.
  cbn [cim_prov_uri cim_proof_uri cim_ops] in *.
  rewrite unmarshal_canonical by exact Hok. unfold opt_str.
  destruct pu as [|p0 pu], cu as [|c0 cu], ops as [o|]; cbn [app option_map]; sort_hidden; cbn [fold_members];
    unfold core_index_member; ev_fields; cbn [cim_prov_uri cim_proof_uri cim_ops core_index_zero];
    rewrite ?ec_str, ?(core_ops_rt _ Hw); cbn [dec_str option_map cim_prov_uri cim_proof_uri cim_ops];
    rewrite ?ec_str, ?(core_ops_rt _ Hw); cbn [dec_str option_map cim_prov_uri cim_proof_uri cim_ops];
    rewrite ?ec_str, ?(core_ops_rt _ Hw); cbn [dec_str option_map cim_prov_uri cim_proof_uri cim_ops]; reflexivity.
Qed.

(* -- deltas, chunk file -- *)
Definition norm_patch (p : patchv) : patchv :=
  match p with Some m => Some (sort_g (map_snd cnorm m)) | None => None end.
Definition patch_ok (p : patchv) : Prop := match p with Some m => gwf (JObj m) | None => True end.
Definition norm_delta (d : delta_m) : delta_m := Build_delta_m (dm_upd d) (map norm_patch (dm_patches d)) [].

Lemma to_iface_obj_members : forall ms, to_iface (GObj ms) = option_map JObj (patch_members ms []).
Proof.
  intro ms. reflexivity.
Qed.

Lemma patch_rt : forall p, patch_ok p -> dec_patch (ec (patch_json p)) None = Some (norm_patch p).
Proof.
  intros [m|] Hw; [|reflexivity]. unfold patch_json, norm_patch.
  pose proof (to_iface_ec (JObj m) Hw) as H. rewrite ec_obj in *. rewrite to_iface_obj_members, cnorm_obj in H.
  cbn [dec_patch]. destruct (patch_members (map em (sort_g m)) []) as [x|]; cbn [option_map] in *; [|discriminate].
  inversion H. reflexivity.
Qed.

Lemma dec_elems_map : forall {U} (g : U -> gj) (h : U -> patchv) l acc,
  (forall x, In x l -> dec_patch (g x) None = Some (h x)) ->
  dec_elems (map g l) [] acc = Some (rev acc ++ map h l, []).
Proof.
  intros U g h l. induction l as [|x r IH]; intros acc H; cbn [map dec_elems].
  - now rewrite rev'_rev, app_nil_r.
  - rewrite (H x (or_introl eq_refl)). rewrite IH by (intros y Hy; apply H; now right).
    cbn [rev]. now rewrite <- app_assoc.
Qed.

Lemma delta_rt : forall d, Forall patch_ok (dm_patches d) ->
  dec_ptr delta_zero delta_member (ec (delta_json d)) None = Some (Some (norm_delta d)).
Proof.
  intros [upd ps st] Hw. unfold norm_delta, delta_json, opt_str in *. cbn [dm_upd dm_patches dm_stale] in *.
  rewrite ec_obj.
  assert (Hel : forall x, In x ps -> dec_patch (ec (patch_json x)) None = Some (norm_patch x)).
  { intros x Hx. apply patch_rt. rewrite Forall_forall in Hw. now apply Hw. }
  destruct upd as [|u0 upd], ps as [|p0 ps]; cbn [app]; sort_hidden; cbn [dec_ptr fold_members];
    unfold delta_member; ev_fields; cbn [dm_upd dm_patches dm_stale delta_zero];
    rewrite ?ec_str; cbn [dec_str option_map dm_upd dm_patches dm_stale]; try reflexivity;
    rewrite ec_arr, map_map; cbn [map app]; cbv iota;
    change (ec (patch_json p0) :: map (fun x => ec (patch_json x)) ps) with (map (fun x => ec (patch_json x)) (p0 :: ps));
    rewrite (dec_elems_map _ norm_patch (p0 :: ps) [] Hel); cbn [rev app map option_map dm_upd dm_patches dm_stale];
    rewrite ?ec_str; cbn [dec_str option_map dm_upd dm_patches dm_stale]; reflexivity.
Qed.

Definition delta_ok (d : option delta_m) : Prop := match d with Some x => Forall patch_ok (dm_patches x) | None => True end.
Definition delta_opt_json (d : option delta_m) : json := match d with Some x => delta_json x | None => JNull end.

Lemma delta_opt_rt : forall d, delta_ok d ->
  dec_ptr delta_zero delta_member (ec (delta_opt_json d)) None = Some (option_map norm_delta d).
Proof. intros [x|] Hw; [exact (delta_rt x Hw) | reflexivity]. Qed.

Theorem rt_chunk : forall m,
  text_ok (chunk_json m) -> Forall delta_ok (sl_elems (ckm_deltas m)) ->
  decode_chunk (print_canonical (chunk_json m))
  = Some {| ckm_deltas := {| sl_elems := map (option_map norm_delta) (sl_elems (ckm_deltas m)); sl_stale := [] |} |}.
Proof.
  intros [[Ds Dss]] Hok Hw. unfold decode_chunk, chunk_json in *. cbn [ckm_deltas sl_elems] in *.
  rewrite unmarshal_canonical by exact Hok. rewrite sort_single. cbn [map]. unfold em. cbn [fst snd fold_members].
  unfold chunk_member; ev_fields. cbn [ckm_deltas chunk_zero].
  change (fun d : option delta_m => match d with Some x => delta_json x | None => JNull end) with delta_opt_json.
  destruct Ds as [|d0 Ds]; [reflexivity|]. rewrite nil_or_arr_map.
  rewrite ec_arr, map_map.
  rewrite (dec_slice_map None (dec_ptr delta_zero delta_member) (fun d => ec (delta_opt_json d)) (option_map norm_delta)).
  - reflexivity.
  - intros x Hx. apply delta_opt_rt. rewrite Forall_forall in Hw. now apply Hw.
Qed.

(* -- the side conditions as computable checks -- *)
Definition text_okb (v : json) : bool := gwfb v && (jdepth v <=? 10000)%N.
Lemma text_okb_sound : forall v, text_okb v = true -> text_ok v.
Proof. intros v H. apply andb_true_iff in H. exact H. Qed.

Definition create_okb (c : create_ref_m) : bool :=
  match crm_suffix c with Some s => match sm_origin s with Some j => gwfb j | None => true end | None => true end.
Lemma creates_okb_sound : forall l, forallb create_okb l = true -> Forall create_ok l.
Proof.
  intros l H. rewrite forallb_forall in H. apply Forall_forall. intros c Hc. specialize (H c Hc).
  unfold create_okb, create_ok, origin_ok in *. destruct (crm_suffix c) as [s|]; [|exact I].
  destruct (sm_origin s) as [j|]; [now apply gwfb_sound | exact I].
Qed.

Definition delta_okb (d : option delta_m) : bool :=
  match d with
  | Some x => forallb (fun p => match p with Some m => gwfb (JObj m) | None => true end) (dm_patches x)
  | None => true
  end.
Lemma deltas_okb_sound : forall l, forallb delta_okb l = true -> Forall delta_ok l.
Proof.
  intros l H. rewrite forallb_forall in H. apply Forall_forall. intros d Hd. specialize (H d Hd).
  unfold delta_okb, delta_ok in *. destruct d as [x|]; [|exact I].
  rewrite forallb_forall in H. apply Forall_forall. intros p Hp. specialize (H p Hp).
  unfold patch_ok. destruct p as [m|]; [now apply gwfb_sound | exact I].
Qed.

(* -- the [f_parsed] facts of Batch/Files.v for files the handler wrote: the projection of the struct -- *)
Corollary written_core_index_parsed : forall F C m,
  text_ok (core_index_json m) -> Forall create_ok (core_creates m) ->
  parse_core_index F C (print_canonical (core_index_json m)) = Some (core_index_of_m F C (norm_core_index m)).
Proof. intros F C m H1 H2. unfold parse_core_index. now rewrite rt_core_index. Qed.

Corollary written_core_proof_parsed : forall F m,
  text_ok (core_proof_json m) ->
  parse_core_proof F (print_canonical (core_proof_json m))
  = Some {| cp_recovers := proofs_of (fx_id F) (sl_elems (cpm_recover m)) (fx_cp_recover F);
            cp_deactivates := proofs_of (fx_id F) (sl_elems (cpm_deactivate m)) (fx_cp_deactivate F) |}.
Proof. intros F m H. unfold parse_core_proof. now rewrite rt_core_proof. Qed.

Corollary written_prov_proof_parsed : forall F m,
  text_ok (prov_proof_json m) ->
  parse_prov_proof F (print_canonical (prov_proof_json m))
  = Some {| pp_updates := proofs_of (fx_id F) (sl_elems (ppm_update m)) (fx_pp_update F) |}.
Proof. intros F m H. unfold parse_prov_proof. now rewrite rt_prov_proof. Qed.

Corollary written_prov_index_parsed : forall F C m,
  text_ok (prov_index_json m) ->
  parse_prov_index F C (print_canonical (prov_index_json m))
  = Some {| pi_proof := ref_of C (pim_proof_uri m) (parse_prov_proof F);
            pi_chunks := chunks_of F C (sl_elems (pim_chunks m));
            pi_updates := map (op_ref_of (fx_id F)) (prov_updates m) |}.
Proof.
  intros F C m H. unfold parse_prov_index. rewrite rt_prov_index by exact H. cbn [option_map]. f_equal.
  unfold prov_index_of_m, prov_updates. cbn [pim_proof_uri pim_chunks pim_ops fresh sl_elems]. f_equal.
  destruct (pim_ops m) as [o|]; reflexivity.
Qed.

Corollary written_chunk_parsed : forall F m,
  text_ok (chunk_json m) -> Forall delta_ok (sl_elems (ckm_deltas m)) ->
  parse_chunk F (print_canonical (chunk_json m))
  = Some {| ch_deltas := deltas_of (fx_id F) (map (option_map norm_delta) (sl_elems (ckm_deltas m))) (fx_deltas F) |}.
Proof. intros F m H1 H2. unfold parse_chunk. now rewrite rt_chunk. Qed.

(* ================================================================================================ *)
(** * Examples on a real file set (harness/cmd/gen_files -seed 1: a batch of a create, a recover and an update written by
      the real OperationHandler; anchor string "3.cas0628") *)
Local Open Scope string_scope.

Definition ex_id (s : bytes) : Z := fold_left (fun h b => (h * 131 + bZ b + 1) mod 2305843009213693951) s 0.

Definition ex_core : bytes := unhex "7b22636f726550726f6f6646696c65557269223a2263617330363237222c226f7065726174696f6e73223a7b22637265617465223a5b7b2273756666697844617461223a7b22616e63686f724f726967696e223a7b2261223a2262222c226e223a317d2c2264656c746148617368223a2245694462487a48513879496171325f636d37674162424634336e6f776b355358774e68743461516c32636a725967222c227265636f76657279436f6d6d69746d656e74223a2245694376575f51484b5349746254337959414a4a36784239684441633241527036626f414d3375516f3348697667227d7d5d2c227265636f766572223a5b7b22646964537566666978223a22456944506f34776e58744d657165453958393848764a6275337641464e6a796631314b77374f4b67534465713667222c2272657665616c56616c7565223a2245694335415859664a566b39623161324559415865484f7a45703735746c74686a50326758414e61456d48674551227d5d7d2c2270726f766973696f6e616c496e64657846696c65557269223a2263617330363236227d".
Definition ex_cproof : bytes := unhex "7b226f7065726174696f6e73223a7b227265636f766572223a5b2265794a68624763694f694a465a45525451534a392e65794a6b5a57783059556868633267694f694a4661554e3461305a4d623234354c5735444d46467a51576733616d5274614751784d6e5a47613070534e55307a646a52355457463454305a6e5956425249697769636d566a62335a6c636e6c4462323174615852745a573530496a6f6952576c4552474531526d7845536d6c36644468765958424b4f5751324f45387a556e70366232354854324e4e5254524c4f55464f4e5759334d445a555a794973496e4a6c593239325a584a3553325635496a7037496d4e7964694936496b566b4d6a55314d546b694c434a7264486b694f694a50533141694c434a34496a6f694e305668576d314d64586472543251315a4656326256683554465676536b56345258457953476b745445783556475a6f616e4633587a633051534973496e6b694f6949696658302e4d326c7a6e6c30754649564d613561737568324c50513562786378354c32446e42596556484763506b31654e6846346a7a6d485165536b4d4256704c744b6b4e505155367771324945364e3555496538793477344251225d7d7d".
Definition ex_pindex : bytes := unhex "7b226368756e6b73223a5b7b226368756e6b46696c65557269223a2263617330363234227d5d2c226f7065726174696f6e73223a7b22757064617465223a5b7b22646964537566666978223a224569426a4b6a4c6241506e436f57673669435a574d4275693969624d303442516f6c70435f455f4f655236596377222c2272657665616c56616c7565223a224569444232373838634e503277776f3156456657744e7a52374764476e436375624263466d6a5f59586a75643977227d5d7d2c2270726f766973696f6e616c50726f6f6646696c65557269223a2263617330363235227d".
Definition ex_pproof : bytes := unhex "7b226f7065726174696f6e73223a7b22757064617465223a5b2265794a68624763694f694a46557a49314e694a392e65794a6b5a57783059556868633267694f694a4661554a75524577745755637762586836513278516543317064476f7956575a6f61485642545555315956564a643231765747526b5954424b63584e33496977696458426b5958526c53325635496a7037496d4e7964694936496c41744d6a55324969776961335235496a6f6952554d694c434a34496a6f69516e64324c546c4d4c575a7a5447787061586847545770434f485248533055356546527953444e456156397255455645546c51746557307962794973496e6b694f694a5365576c76513151326147787661574e4d524578425230785063557033626a4a334e586b785830316c536e565257556c464e32643161334642496e31392e423571744d5865387457307459715262686a774b6a4e4744756a6670794d56666f507354546b482d6676344c6d66574f6a376c542d7755414b6b6a6c37674f666f416c32312d6179355f544e64796b4d37646a635041225d7d7d".
Definition ex_chunk : bytes := unhex "7b2264656c746173223a5b7b2270617463686573223a5b7b22616374696f6e223a226164642d7075626c69632d6b657973222c227075626c69634b657973223a5b7b226964223a226b31303430222c227075626c69634b65794a776b223a7b22637276223a22502d323536222c226b7479223a224543222c2278223a225055796d49716474465f717861417150414253772d432d6f7754314b59595162734d4b464d2d4c39664a41222c2279223a226e4d38346a4448434d4f544754685f5a64487134644242646f345a35506b454f57396a41387a3849734763227d2c22707572706f736573223a5b2261757468656e7469636174696f6e225d2c2274797065223a224a736f6e5765624b657932303230227d5d7d5d2c22757064617465436f6d6d69746d656e74223a224569436c7459345a3155636c393961457a356f58415269516c5f46725f76675754723644516b674f306943526441227d2c7b2270617463686573223a5b7b22616374696f6e223a226164642d7075626c69632d6b657973222c227075626c69634b657973223a5b7b226964223a226b31303036222c227075626c69634b65794a776b223a7b22637276223a22502d323536222c226b7479223a224543222c2278223a225055796d49716474465f717861417150414253772d432d6f7754314b59595162734d4b464d2d4c39664a41222c2279223a226e4d38346a4448434d4f544754685f5a64487134644242646f345a35506b454f57396a41387a3849734763227d2c22707572706f736573223a5b2261757468656e7469636174696f6e225d2c2274797065223a224a736f6e5765624b657932303230227d5d7d2c7b22616374696f6e223a226164642d7365727669636573222c227365727669636573223a5b7b226964223a2273766331303036222c2273657276696365456e64706f696e74223a2268747470733a2f2f6578616d706c65313030362e636f6d222c2274797065223a224c696e6b6564446f6d61696e73227d5d7d5d2c22757064617465436f6d6d69746d656e74223a22456942507364765473377a376c47566a624171766d5635615a77557178424f315a784b307950744e766a794c6177227d2c7b2270617463686573223a5b7b22616374696f6e223a226164642d7075626c69632d6b657973222c227075626c69634b657973223a5b7b226964223a226b31303533222c227075626c69634b65794a776b223a7b22637276223a22502d323536222c226b7479223a224543222c2278223a225055796d49716474465f717861417150414253772d432d6f7754314b59595162734d4b464d2d4c39664a41222c2279223a226e4d38346a4448434d4f544754685f5a64487134644242646f345a35506b454f57396a41387a3849734763227d2c22707572706f736573223a5b2261757468656e7469636174696f6e225d2c2274797065223a224a736f6e5765624b657932303230227d5d7d5d2c22757064617465436f6d6d69746d656e74223a2245694147787843525a4d5444547559673865666734695a39364d666e576e53645845313275754850653444753577227d5d7d".
Definition ex_cas : cas := [(unhex "63617330363238", Build_cas_entry true 341 true ex_core); (unhex "63617330363237", Build_cas_entry true 395 true ex_cproof); (unhex "63617330363236", Build_cas_entry true 215 true ex_pindex); (unhex "63617330363235", Build_cas_entry true 365 true ex_pproof); (unhex "63617330363234", Build_cas_entry true 459 true ex_chunk)].
Definition ex_anchor : bytes := unhex "332e63617330363238".
Definition ex_facts : facts :=
  {| fx_id := ex_id; fx_creates := [(Build_create_fact true 8%Z 26%Z)]; fx_cp_recover := [(Build_proof_fact true 0%Z)]; fx_cp_deactivate := [];
     fx_pp_update := [(Build_proof_fact true 0%Z)]; fx_deltas := [true; true; true] |}.


Definition ex_limits : limits :=
  {| l_hash_len := 100; l_uri_len := 120; l_core_index := 5000; l_proof := 6000; l_prov_index := 4000; l_chunk := 9000; l_factor := 3 |}.

(* non-vacuity of the hypothesis of (c): the transaction reads, from bytes *)
Example ex_reads :
  option_map (map ro_ty) (get_txn_operations_bytes ex_limits ex_facts ex_cas ex_anchor) = Some [Create; Recover; Update].
Proof. vm_compute. reflexivity. Qed.

Example ex_anchor_text : parse_anchor ex_anchor = (true, 3, bs "cas0628").
Proof. vm_compute. reflexivity. Qed.

Definition or_zero {T} (zero : T) (o : option T) : T := match o with Some x => x | None => zero end.
Definition ex_core_m : core_index_m := or_zero core_index_zero (decode_core_index ex_core).
Definition ex_cproof_m : core_proof_m := or_zero core_proof_zero (decode_core_proof ex_cproof).
Definition ex_pindex_m : prov_index_m := or_zero prov_index_zero (decode_prov_index ex_pindex).
Definition ex_pproof_m : prov_proof_m := or_zero prov_proof_zero (decode_prov_proof ex_pproof).
Definition ex_chunk_m : chunk_m := or_zero chunk_zero (decode_chunk ex_chunk).

(* non-vacuity of (b): the bytes the real handler wrote ARE the canonical text of the struct they decode to, the side
   conditions hold, and the struct is in normal form *)
Example ex_core_index_written :
  decode_core_index ex_core = Some ex_core_m /\ print_canonical (core_index_json ex_core_m) = ex_core /\
  text_okb (core_index_json ex_core_m) = true /\ forallb create_okb (core_creates ex_core_m) = true /\
  norm_core_index ex_core_m = ex_core_m /\
  (length (core_creates ex_core_m), length (core_recovers ex_core_m), length (core_deactivates ex_core_m)) = (1, 1, 0)%nat.
Proof. vm_compute. repeat split; reflexivity. Qed.

Example ex_core_proof_written :
  decode_core_proof ex_cproof = Some ex_cproof_m /\ print_canonical (core_proof_json ex_cproof_m) = ex_cproof /\
  text_okb (core_proof_json ex_cproof_m) = true /\ length (sl_elems (cpm_recover ex_cproof_m)) = 1%nat.
Proof. vm_compute. repeat split; reflexivity. Qed.

Example ex_prov_index_written :
  decode_prov_index ex_pindex = Some ex_pindex_m /\ print_canonical (prov_index_json ex_pindex_m) = ex_pindex /\
  text_okb (prov_index_json ex_pindex_m) = true /\ length (prov_updates ex_pindex_m) = 1%nat.
Proof. vm_compute. repeat split; reflexivity. Qed.

Example ex_prov_proof_written :
  decode_prov_proof ex_pproof = Some ex_pproof_m /\ print_canonical (prov_proof_json ex_pproof_m) = ex_pproof /\
  text_okb (prov_proof_json ex_pproof_m) = true.
Proof. vm_compute. repeat split; reflexivity. Qed.

Example ex_chunk_written :
  decode_chunk ex_chunk = Some ex_chunk_m /\ print_canonical (chunk_json ex_chunk_m) = ex_chunk /\
  text_okb (chunk_json ex_chunk_m) = true /\ forallb delta_okb (sl_elems (ckm_deltas ex_chunk_m)) = true /\
  map (option_map norm_delta) (sl_elems (ckm_deltas ex_chunk_m)) = sl_elems (ckm_deltas ex_chunk_m) /\
  length (sl_elems (ckm_deltas ex_chunk_m)) = 3%nat.
Proof. vm_compute. repeat split; reflexivity. Qed.

(* (b) instantiated: decoding what was written gives the struct back *)
Example ex_round_trip : decode_core_index (print_canonical (core_index_json ex_core_m)) = Some ex_core_m.
Proof.
  destruct ex_core_index_written as (_ & _ & H1 & H2 & H3 & _).
  rewrite rt_core_index; [now rewrite H3 | now apply text_okb_sound | now apply creates_okb_sound].
Qed.

(* non-vacuity of (d): the same CAS with the chunk file replaced by bytes that are not an object *)
Definition ex_cas_bad_chunk : cas :=
  map (fun kv => if bytes_eqb (fst kv) (bs "cas0624") then (fst kv, Build_cas_entry true 30 true (bs "[{""deltas"":[]}]")) else kv) ex_cas.

Example ex_bad_chunk : bad_file ex_limits ex_cas_bad_chunk ex_anchor.
Proof.
  eapply bad_chunk; try (vm_compute; reflexivity).
  - discriminate.
  - vm_compute. tauto.
Qed.

Example ex_bad_chunk_fails : get_txn_operations_bytes ex_limits ex_facts ex_cas_bad_chunk ex_anchor = None.
Proof. apply bytes_bad_file_fails. exact ex_bad_chunk. Qed.

(* ... and the limit of (d): a chunk file whose content is the four bytes "null" is accepted (observed on the real provider:
   gen_files, crafted:chunk-for-deactivate-only).  A batch of one deactivate, with a provisional index file that
   has no operations. *)
Definition ex_null_cas : cas :=
  [(bs "c", Build_cas_entry true 10 true
              (bs "{""coreProofFileUri"":""p"",""operations"":{""deactivate"":[{""didSuffix"":""EiA"",""revealValue"":""EiB""}]},""provisionalIndexFileUri"":""i""}"));
   (bs "p", Build_cas_entry true 10 true (bs "{""operations"":{""deactivate"":[""a.b.c""]}}"));
   (bs "i", Build_cas_entry true 10 true (bs "{""chunks"":[{""chunkFileUri"":""k""}]}"));
   (bs "k", Build_cas_entry true 4 true (bs "null"))].

Definition ex_null_facts : facts :=
  {| fx_id := ex_id; fx_creates := []; fx_cp_recover := []; fx_cp_deactivate := [Build_proof_fact true 0]; fx_pp_update := [];
     fx_deltas := [] |}.
Definition ex_null_anchor : bytes := bs "1.c".

Example ex_null_chunk_accepted :
  option_map (map ro_ty) (get_txn_operations_bytes ex_limits ex_null_facts ex_null_cas ex_null_anchor) = Some [Deactivate].
Proof. vm_compute. reflexivity. Qed.
