(* The batch-file view of Batch/Files.v computed from BYTES (C13, C14).  Definitions only.

   Batch/Files.v works on files "after JSON decoding": the [f_parsed] component of a [raw] is a fact.  Here that
   component is computed: for each of the five files, what encoding/json's Unmarshal (Json/GoJson.v) makes of the
   DECOMPRESSED bytes for the file's Go struct (pkg/versions/1_0/txnprovider/models), and for the anchor string what
   ParseAnchorData makes of its text.  What stays a fact:
     - the CAS and gzip: per URI, whether content could be read (locally or from an alternate source), its size as
       served, whether it decompressed, and the decompressed bytes                                     ([cas])
     - the verdicts of the operation parser on what is embedded in the files, in file order: ValidateSuffixData per
       create reference, ParseSignedDataFor<type> per compact JWS, ValidateDelta per delta             ([facts])
     - identities: [fx_id] interns strings (didSuffix, revealValue, compact JWS, canonical JSON of a delta or of
       suffix data) as numbers; the unique suffix of a create reference (a hash), the identity of anchor origins
       (a JSON value that the harness interns through json.Marshal when it is a scalar) come with the verdicts.

   Layers
   1. struct models and member functions for the five files ([core_index_m] ...), decoding INTO an existing value as
      encoding/json does: a repeated "operations" member decodes into the struct the first one allocated, a repeated
      array decodes element i into the element that is already at index i of the backing array - including the
      stale elements beyond the length an earlier, longer array left there ([slice], [dec_slice]); null is a no-op
      on strings and structs (so [null] as an array element keeps the stale element) and nil for pointers and slices.
   2. [decode_core_index] ... [decode_chunk]: json.Unmarshal(content, &File{}) == nil ? the struct : error
   3. projection to the records of Batch/Files.v over a CAS, following the references as ViewBuilder does
      (harness/internal/world/batchview.go): [anchor_view_of_bytes]. *)
From Coq Require Import String List ZArith NArith Bool.
From Coq.Strings Require Import Byte.
From SV Require Import Base.Bytes Json.Ast Json.Utf Json.Num Json.Jcs Json.GoJson Resolve.Op Batch.Files.
Import ListNotations.
Local Open Scope Z_scope.

Definition blen (s : bytes) : Z := Z.of_nat (length s).

(* ================================================================================================ *)
(** * 1. Slices *)

(* a Go slice: the elements, and the rest of the backing array (what an earlier, longer array left beyond len) *)
Record slice (T : Type) := { sl_elems : list T; sl_stale : list T }.
Arguments sl_elems {T}. Arguments sl_stale {T}.
Definition nil_slice {T} : slice T := {| sl_elems := []; sl_stale := [] |}.

(* decodeState.array on a slice: element i decodes into backing[i] (SetLen exposes it as it is); beyond the backing
   array the elements are fresh (zero).  SetLen(i) at the end leaves the rest of the backing array in place. *)
Fixpoint dec_slice_elems {T} (zero : T) (dec : gj -> T -> option T) (l : list gj) (backing acc : list T)
  : option (slice T) :=
  match l with
  | [] => Some {| sl_elems := rev' acc; sl_stale := backing |}
  | g :: r =>
    let old := match backing with o :: _ => o | [] => zero end in
    match dec g old with
    | Some x => dec_slice_elems zero dec r (tl backing) (x :: acc)
    | None => None
    end
  end.

Definition dec_slice {T} (zero : T) (dec : gj -> T -> option T) (g : gj) (old : slice T) : option (slice T) :=
  match g with
  | GNull => Some nil_slice                                   (* nil slice *)
  | GArr [] => Some nil_slice                                 (* reflect.MakeSlice(t, 0, 0) *)
  | GArr l => dec_slice_elems zero dec l (sl_elems old ++ sl_stale old) []
  | _ => None                                                 (* UnmarshalTypeError *)
  end.

(* ================================================================================================ *)
(** * 2. The structs *)

(* models.OperationReference *)
Record op_ref_m := { om_did : bytes; om_reveal : bytes }.
Definition op_ref_zero : op_ref_m := Build_op_ref_m [] [].

Definition op_ref_member (st : op_ref_m) (fk : bytes) (v : gj) : option op_ref_m :=
  if is_field fk "DIDSUFFIX" then option_map (fun s => Build_op_ref_m s (om_reveal st)) (dec_str v (om_did st))
  else if is_field fk "REVEALVALUE" then option_map (fun s => Build_op_ref_m (om_did st) s) (dec_str v (om_reveal st))
  else Some st.

Definition dec_op_refs : gj -> slice op_ref_m -> option (slice op_ref_m) :=
  dec_slice op_ref_zero (dec_struct op_ref_member).

(* models.CreateReference *)
Record create_ref_m := { crm_suffix : option suffix_m }.
Definition create_ref_zero : create_ref_m := Build_create_ref_m None.

Definition create_ref_member (st : create_ref_m) (fk : bytes) (v : gj) : option create_ref_m :=
  if is_field fk "SUFFIXDATA" then option_map Build_create_ref_m (dec_ptr suffix_zero suffix_member v (crm_suffix st))
  else Some st.

(* models.CoreOperations *)
Record core_ops_m := { com_create : slice create_ref_m; com_recover : slice op_ref_m; com_deactivate : slice op_ref_m }.
Definition core_ops_zero : core_ops_m := Build_core_ops_m nil_slice nil_slice nil_slice.

Definition core_ops_member (st : core_ops_m) (fk : bytes) (v : gj) : option core_ops_m :=
  if is_field fk "CREATE" then
    option_map (fun s => Build_core_ops_m s (com_recover st) (com_deactivate st))
               (dec_slice create_ref_zero (dec_struct create_ref_member) v (com_create st))
  else if is_field fk "RECOVER" then
    option_map (fun s => Build_core_ops_m (com_create st) s (com_deactivate st)) (dec_op_refs v (com_recover st))
  else if is_field fk "DEACTIVATE" then
    option_map (fun s => Build_core_ops_m (com_create st) (com_recover st) s) (dec_op_refs v (com_deactivate st))
  else Some st.

(* models.CoreIndexFile *)
Record core_index_m := { cim_prov_uri : bytes; cim_proof_uri : bytes; cim_ops : option core_ops_m }.
Definition core_index_zero : core_index_m := Build_core_index_m [] [] None.

Definition core_index_member (st : core_index_m) (fk : bytes) (v : gj) : option core_index_m :=
  if is_field fk "PROVISIONALINDEXFILEURI" then
    option_map (fun s => Build_core_index_m s (cim_proof_uri st) (cim_ops st)) (dec_str v (cim_prov_uri st))
  else if is_field fk "COREPROOFFILEURI" then
    option_map (fun s => Build_core_index_m (cim_prov_uri st) s (cim_ops st)) (dec_str v (cim_proof_uri st))
  else if is_field fk "OPERATIONS" then
    option_map (fun p => Build_core_index_m (cim_prov_uri st) (cim_proof_uri st) p)
               (dec_ptr core_ops_zero core_ops_member v (cim_ops st))
  else Some st.

(* models.CoreProofFile { Operations CoreProofOperations } - a struct, not a pointer: null leaves it alone *)
Record core_proof_m := { cpm_recover : slice bytes; cpm_deactivate : slice bytes }.
Definition core_proof_zero : core_proof_m := Build_core_proof_m nil_slice nil_slice.

Definition dec_strings : gj -> slice bytes -> option (slice bytes) := dec_slice [] dec_str.

Definition core_proof_ops_member (st : core_proof_m) (fk : bytes) (v : gj) : option core_proof_m :=
  if is_field fk "RECOVER" then option_map (fun s => Build_core_proof_m s (cpm_deactivate st)) (dec_strings v (cpm_recover st))
  else if is_field fk "DEACTIVATE" then option_map (fun s => Build_core_proof_m (cpm_recover st) s) (dec_strings v (cpm_deactivate st))
  else Some st.

Definition core_proof_member (st : core_proof_m) (fk : bytes) (v : gj) : option core_proof_m :=
  if is_field fk "OPERATIONS" then dec_struct core_proof_ops_member v st else Some st.

(* models.ProvisionalProofFile { Operations ProvisionalProofOperations } *)
Record prov_proof_m := { ppm_update : slice bytes }.
Definition prov_proof_zero : prov_proof_m := Build_prov_proof_m nil_slice.

Definition prov_proof_ops_member (st : prov_proof_m) (fk : bytes) (v : gj) : option prov_proof_m :=
  if is_field fk "UPDATE" then option_map Build_prov_proof_m (dec_strings v (ppm_update st)) else Some st.

Definition prov_proof_member (st : prov_proof_m) (fk : bytes) (v : gj) : option prov_proof_m :=
  if is_field fk "OPERATIONS" then dec_struct prov_proof_ops_member v st else Some st.

(* models.ProvisionalIndexFile *)
Record chunk_ref_m := { chm_uri : bytes }.
Definition chunk_ref_zero : chunk_ref_m := Build_chunk_ref_m [].

Definition chunk_ref_member (st : chunk_ref_m) (fk : bytes) (v : gj) : option chunk_ref_m :=
  if is_field fk "CHUNKFILEURI" then option_map Build_chunk_ref_m (dec_str v (chm_uri st)) else Some st.

Record prov_ops_m := { pom_update : slice op_ref_m }.
Definition prov_ops_zero : prov_ops_m := Build_prov_ops_m nil_slice.

Definition prov_ops_member (st : prov_ops_m) (fk : bytes) (v : gj) : option prov_ops_m :=
  if is_field fk "UPDATE" then option_map Build_prov_ops_m (dec_op_refs v (pom_update st)) else Some st.

Record prov_index_m := { pim_proof_uri : bytes; pim_chunks : slice chunk_ref_m; pim_ops : option prov_ops_m }.
Definition prov_index_zero : prov_index_m := Build_prov_index_m [] nil_slice None.

Definition prov_index_member (st : prov_index_m) (fk : bytes) (v : gj) : option prov_index_m :=
  if is_field fk "PROVISIONALPROOFFILEURI" then
    option_map (fun s => Build_prov_index_m s (pim_chunks st) (pim_ops st)) (dec_str v (pim_proof_uri st))
  else if is_field fk "CHUNKS" then
    option_map (fun s => Build_prov_index_m (pim_proof_uri st) s (pim_ops st))
               (dec_slice chunk_ref_zero (dec_struct chunk_ref_member) v (pim_chunks st))
  else if is_field fk "OPERATIONS" then
    option_map (fun p => Build_prov_index_m (pim_proof_uri st) (pim_chunks st) p)
               (dec_ptr prov_ops_zero prov_ops_member v (pim_ops st))
  else Some st.

(* models.ChunkFile { Deltas []*model.DeltaModel } *)
Record chunk_m := { ckm_deltas : slice (option delta_m) }.
Definition chunk_zero : chunk_m := Build_chunk_m nil_slice.

Definition chunk_member (st : chunk_m) (fk : bytes) (v : gj) : option chunk_m :=
  if is_field fk "DELTAS" then
    option_map Build_chunk_m (dec_slice None (dec_ptr delta_zero delta_member) v (ckm_deltas st))
  else Some st.

(* models.Parse<File>: json.Unmarshal(content, &File{}); None = error *)
Definition decode_core_index (b : bytes) : option core_index_m := unmarshal core_index_member core_index_zero b.
Definition decode_core_proof (b : bytes) : option core_proof_m := unmarshal core_proof_member core_proof_zero b.
Definition decode_prov_index (b : bytes) : option prov_index_m := unmarshal prov_index_member prov_index_zero b.
Definition decode_prov_proof (b : bytes) : option prov_proof_m := unmarshal prov_proof_member prov_proof_zero b.
Definition decode_chunk (b : bytes) : option chunk_m := unmarshal chunk_member chunk_zero b.

(* ================================================================================================ *)
(** * 3. Anchor string *)

(* strings.Split(s, ".") *)
Fixpoint split_dot (cur : bytes) (l : bytes) : list bytes :=
  match l with
  | [] => [rev' cur]
  | c :: r => if Byte.eqb c x2e then rev' cur :: split_dot [] r else split_dot (c :: cur) r
  end.

(* ^[1-9]\d*$ *)
Definition positive_int_text (s : bytes) : bool :=
  match s with
  | c :: r => (49 <=? bZ c) && (bZ c <=? 57) && forallb is_digit_b r
  | [] => false
  end.

Definition max_int : Z := two63 - 1.

(* ParseAnchorData: (ok, number of operations, core index URI).  When the digits do not fit an int, strconv.Atoi
   returns the largest int together with its error; the harness view records that number. *)
Definition parse_anchor (s : bytes) : bool * Z * bytes :=
  match split_dot [] s with
  | [n; uri] =>
    if positive_int_text n then
      match digits_val n 0 with
      | Some v => if v <? two63 then (true, v, uri) else (false, max_int, uri)
      | None => (false, 0, [])
      end
    else (false, 0, [])
  | _ => (false, 0, [])
  end.

(* ================================================================================================ *)
(** * 4. Facts *)

(* what the layers below the provider say about one CAS address *)
Record cas_entry := {
  ce_read_ok : bool;          (* cas.Read, or an alternate source, returned content *)
  ce_raw_size : Z;            (* its size *)
  ce_decomp_ok : bool;        (* it decompressed *)
  ce_content : bytes }.       (* the decompressed bytes *)

Definition cas := list (bytes * cas_entry).                   (* no entry: nothing can be read there *)

Fixpoint cas_get (c : cas) (uri : bytes) : option cas_entry :=
  match c with
  | [] => None
  | (k, e) :: r => if bytes_eqb k uri then Some e else cas_get r uri
  end.

Record create_fact := {
  cf_valid : bool;            (* parser.ValidateSuffixData(suffixData) == nil *)
  cf_sfx : Z;                 (* identity of model.GetUniqueSuffix(suffixData) (0: it failed) *)
  cf_origin : Z }.            (* identity of suffixData.AnchorOrigin *)

Record proof_fact := {
  pf_ok : bool;               (* parser.ParseSignedDataFor<type>(compact JWS) == nil *)
  pf_origin : Z }.            (* recover, parsed: identity of the anchor origin inside the signed data *)

Record facts := {
  fx_id : bytes -> Z;                       (* interning of strings; "" is 0 *)
  fx_creates : list create_fact;            (* core index file, per create reference with suffix data *)
  fx_cp_recover : list proof_fact;          (* core proof file *)
  fx_cp_deactivate : list proof_fact;
  fx_pp_update : list proof_fact;           (* provisional proof file *)
  fx_deltas : list bool }.                  (* chunk file: parser.ValidateDelta(delta) == nil, per non-nil delta *)

Definition dflt_create_fact : create_fact := Build_create_fact false 0 0.
Definition dflt_proof_fact : proof_fact := Build_proof_fact false 0.

(* ================================================================================================ *)
(** * 5. Projection to the records of Batch/Files.v *)

Definition op_ref_of (I : bytes -> Z) (o : op_ref_m) : op_ref :=
  {| or_sfx := I (om_did o); or_sfx_len := blen (om_did o); or_reveal := I (om_reveal o); or_reveal_len := blen (om_reveal o) |}.

(* facts are consumed by the create references that have suffix data, in order *)
Fixpoint creates_of (I : bytes -> Z) (l : list create_ref_m) (fs : list create_fact) : list create_ref :=
  match l with
  | [] => []
  | c :: r =>
    match crm_suffix c with
    | None => {| cc_sd_present := false; cc_sd_valid := false; cc_sfx := 0; cc_sdata := 0; cc_origin := 0 |} :: creates_of I r fs
    | Some s =>
      let f := hd dflt_create_fact fs in
      {| cc_sd_present := true; cc_sd_valid := cf_valid f; cc_sfx := cf_sfx f;
         cc_sdata := I (canonical_of (suffix_json s)); cc_origin := cf_origin f |} :: creates_of I r (tl fs)
    end
  end.

Fixpoint proofs_of (I : bytes -> Z) (l : list bytes) (fs : list proof_fact) : list proof_entry :=
  match l with
  | [] => []
  | s :: r =>
    let f := hd dflt_proof_fact fs in
    {| pe_signed := I s; pe_parse_ok := pf_ok f; pe_origin := pf_origin f |} :: proofs_of I r (tl fs)
  end.

(* ValidateDelta(nil) is an error ("missing delta"); verdicts are consumed by the non-nil deltas *)
Fixpoint deltas_of (I : bytes -> Z) (l : list (option delta_m)) (fs : list bool) : list delta_entry :=
  match l with
  | [] => []
  | None :: r => {| de_delta := 0; de_valid := false |} :: deltas_of I r fs
  | Some d :: r => {| de_delta := I (canonical_of (delta_json d)); de_valid := hd false fs |} :: deltas_of I r (tl fs)
  end.

Definition unreadable {A} : raw A :=
  {| f_read_ok := false; f_raw_size := 0; f_decomp_ok := false; f_size := 0; f_parsed := None |}.

(* ViewBuilder.raw: read, decompress, decode *)
Definition raw_of {A} (e : option cas_entry) (parse : bytes -> option A) : raw A :=
  match e with
  | None => unreadable
  | Some e =>
    if negb (ce_read_ok e) then unreadable
    else if negb (ce_decomp_ok e) then
      {| f_read_ok := true; f_raw_size := ce_raw_size e; f_decomp_ok := false; f_size := 0; f_parsed := None |}
    else {| f_read_ok := true; f_raw_size := ce_raw_size e; f_decomp_ok := true; f_size := blen (ce_content e);
            f_parsed := parse (ce_content e) |}
  end.

(* ViewBuilder.ref: an empty URI points nowhere (no CAS address is empty) *)
Definition ref_of {A} (C : cas) (uri : bytes) (parse : bytes -> option A) : ref A :=
  match uri with
  | [] => {| uri_len := 0; target := None |}
  | _ => {| uri_len := blen uri; target := Some (raw_of (cas_get C uri) parse) |}
  end.

Definition chunk_of_m (F : facts) (m : chunk_m) : chunk_file :=
  {| ch_deltas := deltas_of (fx_id F) (sl_elems (ckm_deltas m)) (fx_deltas F) |}.

Definition prov_proof_of_m (F : facts) (m : prov_proof_m) : prov_proof_file :=
  {| pp_updates := proofs_of (fx_id F) (sl_elems (ppm_update m)) (fx_pp_update F) |}.

Definition core_proof_of_m (F : facts) (m : core_proof_m) : core_proof_file :=
  {| cp_recovers := proofs_of (fx_id F) (sl_elems (cpm_recover m)) (fx_cp_recover F);
     cp_deactivates := proofs_of (fx_id F) (sl_elems (cpm_deactivate m)) (fx_cp_deactivate F) |}.

Definition parse_chunk (F : facts) (b : bytes) : option chunk_file := option_map (chunk_of_m F) (decode_chunk b).
Definition parse_prov_proof (F : facts) (b : bytes) : option prov_proof_file := option_map (prov_proof_of_m F) (decode_prov_proof b).
Definition parse_core_proof (F : facts) (b : bytes) : option core_proof_file := option_map (core_proof_of_m F) (decode_core_proof b).

(* only the first chunk reference is ever followed; the others are kept for their number *)
Definition chunks_of (F : facts) (C : cas) (l : list chunk_ref_m) : list (ref chunk_file) :=
  match l with
  | [] => []
  | c :: r => ref_of C (chm_uri c) (parse_chunk F) :: map (fun x => {| uri_len := blen (chm_uri x); target := None |}) r
  end.

Definition prov_updates (m : prov_index_m) : list op_ref_m :=
  match pim_ops m with Some o => sl_elems (pom_update o) | None => [] end.

Definition prov_index_of_m (F : facts) (C : cas) (m : prov_index_m) : prov_index_file :=
  {| pi_proof := ref_of C (pim_proof_uri m) (parse_prov_proof F);
     pi_chunks := chunks_of F C (sl_elems (pim_chunks m));
     pi_updates := map (op_ref_of (fx_id F)) (prov_updates m) |}.

Definition parse_prov_index (F : facts) (C : cas) (b : bytes) : option prov_index_file :=
  option_map (prov_index_of_m F C) (decode_prov_index b).

Definition core_creates (m : core_index_m) : list create_ref_m :=
  match cim_ops m with Some o => sl_elems (com_create o) | None => [] end.
Definition core_recovers (m : core_index_m) : list op_ref_m :=
  match cim_ops m with Some o => sl_elems (com_recover o) | None => [] end.
Definition core_deactivates (m : core_index_m) : list op_ref_m :=
  match cim_ops m with Some o => sl_elems (com_deactivate o) | None => [] end.

Definition core_index_of_m (F : facts) (C : cas) (m : core_index_m) : core_index_file :=
  {| ci_proof := ref_of C (cim_proof_uri m) (parse_core_proof F);
     ci_prov := ref_of C (cim_prov_uri m) (parse_prov_index F C);
     ci_creates := creates_of (fx_id F) (core_creates m) (fx_creates F);
     ci_recovers := map (op_ref_of (fx_id F)) (core_recovers m);
     ci_deactivates := map (op_ref_of (fx_id F)) (core_deactivates m) |}.

Definition parse_core_index (F : facts) (C : cas) (b : bytes) : option core_index_file :=
  option_map (core_index_of_m F C) (decode_core_index b).

(* ViewBuilder.Anchor *)
Definition anchor_view_of_bytes (F : facts) (C : cas) (anchor_string : bytes) : anchor :=
  let '(ok, n, uri) := parse_anchor anchor_string in
  {| a_syntax_ok := ok; a_count := n;
     a_core := if ok then raw_of (cas_get C uri) (parse_core_index F C) else unreadable |}.

(* GetTxnOperations on bytes *)
Definition get_txn_operations_bytes (L : limits) (F : facts) (C : cas) (anchor_string : bytes) : option (list rop) :=
  get_txn_operations L (anchor_view_of_bytes F C anchor_string).

(* ================================================================================================ *)
(** * 6. What json.Marshal makes of the structs, as values (the handler writes the canonical text of these) *)

Definition op_ref_json (o : op_ref_m) : json := JObj [(bs "didSuffix", JStr (om_did o)); (bs "revealValue", JStr (om_reveal o))].

Definition opt_arr (name : String.string) (l : list json) : list (bytes * json) :=
  match l with [] => [] | _ => [(bs name, JArr l)] end.   (* slice field with omitempty *)

Definition create_ref_json (c : create_ref_m) : json :=
  JObj [(bs "suffixData", match crm_suffix c with Some s => suffix_json s | None => JNull end)].

Definition core_ops_json (o : core_ops_m) : json :=
  JObj (opt_arr "create" (map create_ref_json (sl_elems (com_create o)))
        ++ opt_arr "recover" (map op_ref_json (sl_elems (com_recover o)))
        ++ opt_arr "deactivate" (map op_ref_json (sl_elems (com_deactivate o)))).

Definition core_index_json (m : core_index_m) : json :=
  JObj (opt_str "provisionalIndexFileUri" (cim_prov_uri m) ++ opt_str "coreProofFileUri" (cim_proof_uri m)
        ++ match cim_ops m with Some o => [(bs "operations", core_ops_json o)] | None => [] end).

(* a struct-valued field is never "empty" for omitempty *)
Definition core_proof_json (m : core_proof_m) : json :=
  JObj [(bs "operations", JObj (opt_arr "recover" (map JStr (sl_elems (cpm_recover m)))
                               ++ opt_arr "deactivate" (map JStr (sl_elems (cpm_deactivate m)))))].

Definition prov_proof_json (m : prov_proof_m) : json :=
  JObj [(bs "operations", JObj (opt_arr "update" (map JStr (sl_elems (ppm_update m)))))].

Definition chunk_ref_json (c : chunk_ref_m) : json := JObj [(bs "chunkFileUri", JStr (chm_uri c))].

(* a slice field without omitempty: the handler builds its slices with append from nil, so a slice without elements is
   a nil slice, which json.Marshal writes as null (observed: {"deltas":null} for a batch whose included operations are
   all deactivates while other queued operations were deferred) *)
Definition nil_or_arr (l : list json) : json := match l with [] => JNull | _ => JArr l end.

(* "chunks" has no omitempty (the handler always writes one chunk) *)
Definition prov_index_json (m : prov_index_m) : json :=
  JObj (opt_str "provisionalProofFileUri" (pim_proof_uri m)
        ++ [(bs "chunks", nil_or_arr (map chunk_ref_json (sl_elems (pim_chunks m))))]
        ++ match pim_ops m with
           | Some o => [(bs "operations", JObj (opt_arr "update" (map op_ref_json (sl_elems (pom_update o)))))]
           | None => []
           end).

Definition chunk_json (m : chunk_m) : json :=
  JObj [(bs "deltas", nil_or_arr (map (fun d => match d with Some x => delta_json x | None => JNull end) (sl_elems (ckm_deltas m))))].

(* ================================================================================================ *)
(** * 7. Examples: decoder behaviour observed on the real decoders (harness/cmd/gen_files) *)

(* a second "operations" decodes INTO the first; [{}] and [null] keep the element that is there *)
Example ex_merge_create :
  option_map (fun m => map (fun c => option_map sm_delta_hash (crm_suffix c)) (core_creates m))
    (decode_core_index (bs "{""operations"":{""create"":[{""suffixData"":{""deltaHash"":""A""}}]},""operations"":{""create"":[null]}}"))
  = Some [Some (bs "A")].
Proof. vm_compute. reflexivity. Qed.

(* stale elements of the backing array come back *)
Example ex_stale_refs :
  option_map (fun m => map (fun o => (om_did o, om_reveal o)) (core_recovers m))
    (decode_core_index (bs ("{""operations"":{""recover"":[{""didSuffix"":""a"",""revealValue"":""b""},{""didSuffix"":""c"",""revealValue"":""d""}]},"
                           ++ """operations"":{""recover"":[{""didSuffix"":""x""}]},""operations"":{""recover"":[null,null]}}")))
  = Some [(bs "x", bs "b"); (bs "c", bs "d")].
Proof. vm_compute. reflexivity. Qed.

Example ex_stale_strings :
  option_map (fun m => sl_elems (cpm_recover m))
    (decode_core_proof (bs "{""operations"":{""recover"":[""a"",""b"",""c""]},""operations"":{""recover"":[""x""]},""operations"":{""recover"":[null,null,null]}}"))
  = Some [bs "x"; bs "b"; bs "c"].
Proof. vm_compute. reflexivity. Qed.

(* null after an array makes the slice nil and drops the backing array; so does [] *)
Example ex_null_resets :
  option_map (fun m => map (fun o => (om_did o, om_reveal o)) (core_recovers m))
    (decode_core_index (bs "{""operations"":{""recover"":[{""didSuffix"":""a"",""revealValue"":""b""}]},""operations"":{""recover"":null},""operations"":{""recover"":[{}]}}"))
  = Some [([], [])].
Proof. vm_compute. reflexivity. Qed.

(* the top-level value null is accepted by every file decoder: an empty struct *)
Example ex_null_file :
  (decode_core_index (bs "null"), decode_chunk (bs " null "), decode_core_index (bs "[]"), decode_chunk (bs "{""deltas"":{}}"))
  = (Some core_index_zero, Some chunk_zero, None, None).
Proof. vm_compute. reflexivity. Qed.

Example ex_anchor :
  map parse_anchor [bs "12.uri"; bs "0.uri"; bs "1.a.b"; bs "1"; bs "01.u"; bs "9223372036854775807.u"; bs "9223372036854775808.u"; bs "3."]
  = [(true, 12, bs "uri"); (false, 0, []); (false, 0, []); (false, 0, []); (false, 0, []); (true, 9223372036854775807, bs "u");
     (false, 9223372036854775807, bs "u"); (true, 3, [])].
Proof. vm_compute. reflexivity. Qed.
