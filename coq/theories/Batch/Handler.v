(* OperationHandler.PrepareTxnFiles: from queued operations to batch files (C13).
   Definitions only. *)
From Coq Require Import List ZArith Bool.
From SV Require Import Resolve.Op Batch.Files.
Import ListNotations.
Local Open Scope Z_scope.

(* a queued operation as the handler sees it after parser.ParseOperation(batch=false) *)
Record qbop := {
  bq_id : Z; bq_ty : optype; bq_sfx : Z; bq_sfx_len : Z; bq_reveal : Z; bq_reveal_len : Z;
  bq_signed : Z; bq_delta : Z; bq_sdata : Z; bq_origin : Z;
  bq_expired : bool }.   (* the parser's time validator answered ErrOperationExpired *)

Record parsed := { p_included : list qbop; p_additional : list qbop; p_expired : list qbop }.

(* parseOperations: expired ones are dropped, the first operation per suffix is included, further
   ones are handed back as additional *)
Fixpoint parse_ops (seen : list Z) (l : list qbop) : parsed :=
  match l with
  | [] => {| p_included := []; p_additional := []; p_expired := [] |}
  | o :: r =>
    if bq_expired o then
      let p := parse_ops seen r in
      {| p_included := p_included p; p_additional := p_additional p; p_expired := o :: p_expired p |}
    else if memZ (bq_sfx o) seen then
      let p := parse_ops seen r in
      {| p_included := p_included p; p_additional := o :: p_additional p; p_expired := p_expired p |}
    else
      let p := parse_ops (bq_sfx o :: seen) r in
      {| p_included := o :: p_included p; p_additional := p_additional p; p_expired := p_expired p |}
  end.

Definition of_type (t : optype) (l : list qbop) : list qbop := filter (fun o => optype_eqb (bq_ty o) t) l.

Definition served {A} (x : A) : raw A :=
  {| f_read_ok := true; f_raw_size := 0; f_decomp_ok := true; f_size := 0; f_parsed := Some x |}.
Definition no_ref {A} : ref A := {| uri_len := 0; target := None |}.
Definition ref_to {A} (u : Z) (x : A) : ref A := {| uri_len := u; target := Some (served x) |}.

Definition to_op_ref (o : qbop) : op_ref :=
  {| or_sfx := bq_sfx o; or_sfx_len := bq_sfx_len o; or_reveal := bq_reveal o; or_reveal_len := bq_reveal_len o |}.
Definition to_proof (o : qbop) : proof_entry :=
  {| pe_signed := bq_signed o; pe_parse_ok := true; pe_origin := bq_origin o |}.
Definition to_delta (o : qbop) : delta_entry := {| de_delta := bq_delta o; de_valid := true |}.
Definition to_create_ref (o : qbop) : create_ref :=
  {| cc_sd_present := true; cc_sd_valid := true; cc_sfx := bq_sfx o; cc_sdata := bq_sdata o; cc_origin := bq_origin o |}.

(* the files, given the included operations per type; [u]: length of the CAS addresses *)
Definition core_proof_of (re de : list qbop) : core_proof_file :=
  {| cp_recovers := map to_proof re; cp_deactivates := map to_proof de |}.
Definition chunk_of (cr re up : list qbop) : chunk_file := {| ch_deltas := map to_delta (cr ++ re ++ up) |}.
Definition prov_proof_of (up : list qbop) : prov_proof_file := {| pp_updates := map to_proof up |}.
Definition prov_index_of (u : Z) (cr re up : list qbop) : prov_index_file :=
  {| pi_proof := match up with [] => no_ref | _ => ref_to u (prov_proof_of up) end;
     pi_chunks := [ref_to u (chunk_of cr re up)];
     pi_updates := map to_op_ref up |}.
Definition core_index_of (u : Z) (with_prov : bool) (cr re up de : list qbop) : core_index_file :=
  {| ci_proof := match re ++ de with [] => no_ref | _ => ref_to u (core_proof_of re de) end;
     ci_prov := if with_prov then ref_to u (prov_index_of u cr re up) else no_ref;
     ci_creates := map to_create_ref cr;
     ci_recovers := map to_op_ref re;
     ci_deactivates := map to_op_ref de |}.

Definition anchor_of (u : Z) (with_prov : bool) (cr re up de : list qbop) (n : nat) : anchor :=
  {| a_syntax_ok := 0 <? Z.of_nat n; a_count := Z.of_nat n; a_core := served (core_index_of u with_prov cr re up de) |}.

(* special case in PrepareTxnFiles: no chunk / provisional files when every queued operation is an
   included deactivate *)
Definition prepare_files (u : Z) (ops : list qbop) (p : parsed) : anchor :=
  let inc := p_included p in
  let de := of_type Deactivate inc in
  anchor_of u (negb (Nat.eqb (length de) (length ops)))
            (of_type Create inc) (of_type Recover inc) (of_type Update inc) de (length inc).

(* F16 (repaired code): when every queued operation has expired (parsedOps.Size() == 0) PrepareTxnFiles writes NO file
   and returns an EMPTY anchor string (with the expired operations): no file to read, a string that is not
   "<positive integer>.<uri>", count 0 - nothing to read back.  The batch writer anchors nothing for it. *)
Definition no_file {A} : raw A :=
  {| f_read_ok := false; f_raw_size := 0; f_decomp_ok := false; f_size := 0; f_parsed := None |}.
Definition no_anchor : anchor := {| a_syntax_ok := false; a_count := 0; a_core := no_file |}.

Definition prepare (u : Z) (ops : list qbop) : anchor * parsed :=
  let p := parse_ops [] ops in
  match p_included p with
  | [] => (no_anchor, p)
  | _ :: _ => (prepare_files u ops p, p)
  end.

(* what must be read back *)
Definition expect (o : qbop) : rop :=
  {| ro_ty := bq_ty o; ro_sfx := bq_sfx o;
     ro_reveal := match bq_ty o with Create => 0 | _ => bq_reveal o end;
     ro_signed := match bq_ty o with Create => 0 | _ => bq_signed o end;
     ro_delta := match bq_ty o with Deactivate => 0 | _ => bq_delta o end;
     ro_sdata := match bq_ty o with Create => bq_sdata o | _ => 0 end;
     ro_origin := match bq_ty o with Create | Recover => bq_origin o | _ => 0 end |}.

Definition read_back_order (inc : list qbop) : list qbop :=
  of_type Create inc ++ of_type Recover inc ++ of_type Update inc ++ of_type Deactivate inc.
