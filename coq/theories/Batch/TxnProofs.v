(* C15: effect of transactions and intake on the stores. *)
From Coq Require Import List ZArith Bool Lia.
From SV Require Import Resolve.Op Batch.Files Batch.Safe Batch.TxnProc.
Import ListNotations.
Local Open Scope Z_scope.

Lemma first_per_suffix_nodup : forall l seen,
  NoDup (map ro_sfx (first_per_suffix seen l)) /\
  (forall o, In o (first_per_suffix seen l) -> ~ In (ro_sfx o) seen /\ In o l).
Proof.
  induction l as [|o r IH]; intros seen; cbn [first_per_suffix]; [split; [constructor | intros ? []]|].
  destruct (memZ (ro_sfx o) seen) eqn:Em.
  - destruct (IH seen) as [Hn Hi]. split; [exact Hn|]. intros x Hx. destruct (Hi x Hx). split; [assumption | right; assumption].
  - destruct (IH (ro_sfx o :: seen)) as [Hn Hi]. split.
    + cbn [map]. constructor; [|exact Hn]. intros Hin. apply in_map_iff in Hin. destruct Hin as (x & Hx & Hin).
      destruct (Hi x Hin) as [Hns _]. apply Hns. left. symmetry. exact Hx.
    + intros x [<-|Hx].
      * split; [|left; reflexivity]. intros Hin. apply memZ_In in Hin. congruence.
      * destruct (Hi x Hx) as [Hns ?]. split; [|right; assumption]. intros Hin. apply Hns. right. exact Hin.
Qed.

(* all-or-nothing, one operation per suffix, every stored operation stamped with the transaction *)
Theorem txn_store_effect store put_ok del_ok t store' res :
  process_txn store put_ok del_ok t = (store', res) ->
  (store' = store \/
   exists ops, tx_ops t = Some ops /\ put_ok = true /\
     store' = store ++ map (stamp t) (first_per_suffix [] ops) /\
     NoDup (map ro_sfx (first_per_suffix [] ops))) /\
  (tx_ops t = None \/ put_ok = false -> store' = store /\ res = PErr) /\
  (forall n, res = POk n -> exists ops, tx_ops t = Some ops /\ store' = store ++ map (stamp t) (first_per_suffix [] ops)
                                        /\ n = length (first_per_suffix [] ops)).
Proof.
  unfold process_txn. destruct (tx_ops t) as [ops|].
  - destruct put_ok; cbn [negb].
    + destruct del_ok; cbn [negb]; intros H; inversion H; subst; (split; [|split]).
      * right. exists ops. repeat split; auto. apply first_per_suffix_nodup.
      * intros [?|?]; discriminate.
      * intros n Hn. inversion Hn; subst. exists ops. rewrite map_length. auto.
      * right. exists ops. repeat split; auto. apply first_per_suffix_nodup.
      * intros [?|?]; discriminate.
      * intros n Hn. discriminate.
    + intros H; inversion H; subst. split; [left; reflexivity|]. split; [auto | intros n Hn; discriminate].
  - intros H; inversion H; subst. split; [left; reflexivity|]. split; [auto | intros n Hn; discriminate].
Qed.

Theorem stamped_fields t o :
  let s := stamp t o in
  so_time s = tx_time t /\ so_num s = tx_num t /\ so_pver s = tx_pver t /\ so_cref s = tx_cref t /\ so_eqv s = tx_eqv t
  /\ so_ty s = ro_ty o /\ so_sfx s = ro_sfx o /\ so_req s = o.
Proof. cbn. auto 10. Qed.

(* a transaction that cannot be processed contributes nothing and does not stop later ones *)
Theorem observer_isolation store t put_ok del_ok rest :
  observe store ((t, put_ok, del_ok) :: rest) = observe (observe_one store put_ok del_ok t) rest.
Proof. reflexivity. Qed.

Theorem failing_txn_contributes_nothing store t put_ok del_ok :
  tx_ns_ok t = false \/ tx_version_ok t = false \/ tx_ops t = None \/ put_ok = false ->
  observe_one store put_ok del_ok t = store.
Proof.
  unfold observe_one, process_txn. intros H.
  destruct (tx_ns_ok t); [|reflexivity]. destruct (tx_version_ok t); [|reflexivity]. cbn [andb].
  destruct (tx_ops t); [|reflexivity]. destruct put_ok; [|reflexivity].
  destruct H as [H|[H|[H|H]]]; discriminate.
Qed.

Lemma observe_app store a b : observe store (a ++ b) = observe (observe store a) b.
Proof. revert store. induction a as [|[[t p] d] r IH]; intros store; cbn [observe app]; [reflexivity | apply IH]. Qed.

(* the store only grows, by whole transactions *)
Theorem observe_extends store txns : exists added, observe store txns = store ++ added.
Proof.
  revert store. induction txns as [|[[t p] d] r IH]; intros store; cbn [observe].
  - exists []. rewrite app_nil_r. reflexivity.
  - unfold observe_one at 1. destruct (tx_ns_ok t && tx_version_ok t); [|apply IH].
    unfold process_txn. destruct (tx_ops t) as [ops|]; [|apply IH].
    destruct p; cbn [negb fst]; [|apply IH].
    destruct d; cbn [negb fst]; destruct (IH (store ++ map (stamp t) (first_per_suffix [] ops))) as [ad Ha];
      exists (map (stamp t) (first_per_suffix [] ops) ++ ad); rewrite Ha, app_assoc; reflexivity.
Qed.

(* intake: a refused or failed submission leaves no trace *)
Lemma remove_one_snoc x l : ~ In x l -> remove_one x (l ++ [x]) = l.
Proof.
  induction l as [|y r IH]; intros Hn; cbn.
  - rewrite Z.eqb_refl. reflexivity.
  - destruct (y =? x) eqn:E; [apply Z.eqb_eq in E; subst; elim Hn; left; reflexivity|].
    f_equal. apply IH. intros Hi. apply Hn. right. exact Hi.
Qed.

Theorem intake_no_trace s r s' :
  process_operation s r = (s', false) -> ~ In (ir_id r) (i_unpub s) ->
  i_queue s' = i_queue s /\ i_unpub s' = i_unpub s.
Proof.
  unfold process_operation. intros H Hfresh.
  destruct (ir_accepted r); cbn [negb] in H; [|inversion H; auto].
  destruct (ir_unpub_type r).
  - destruct (ir_put_ok r); [|inversion H; auto].
    destruct (ir_add_ok r); [discriminate|]. inversion H; subst. cbn. split; [reflexivity|].
    apply remove_one_snoc. exact Hfresh.
  - destruct (ir_add_ok r); [discriminate|]. inversion H; auto.
Qed.

Theorem intake_accept_effect s r s' :
  process_operation s r = (s', true) ->
  ir_accepted r = true /\ ir_add_ok r = true /\ i_queue s' = i_queue s ++ [ir_id r] /\
  i_unpub s' = if ir_unpub_type r then i_unpub s ++ [ir_id r] else i_unpub s.
Proof.
  unfold process_operation. intros H.
  destruct (ir_accepted r); cbn [negb] in H; [|discriminate].
  destruct (ir_unpub_type r).
  - destruct (ir_put_ok r); [|discriminate]. destruct (ir_add_ok r); [|discriminate]. inversion H; subst. cbn. auto.
  - destruct (ir_add_ok r); [|discriminate]. inversion H; subst. cbn. auto.
Qed.
