(* C15 - "a failing transaction contributes nothing, later ones proceed": list-level isolation for the
   observer model [observe] of Batch/TxnProc.v (proofs only; the model is unchanged).

   An element of the observer's input is (t, put_ok, del_ok): the transaction record with the facts of
   the protocol client and the operation provider, and the verdicts of the two store calls made for it.

   - [failing]                     what makes Observer.process skip a transaction / TxnProcessor.Process
                                   return before or at OpStore.Put.  It does not depend on the store.
   - observe_closed_form           observe st txns = st ++ concat (map contribution txns)
   - failing_txn_removable         a failing transaction can be removed from the list, anywhere
   - removable_iff_no_contribution exact condition for removability (failing, or an empty transaction)
   - later_txns_proceed            the transactions after a failing one are processed from the same store
   - observe_grows / stored_op_origin
                                   the store only grows; every new operation stems from a non-failing
                                   transaction of the list, is one of its operations and carries its
                                   coordinates; operations of the initial store are kept, in place
   - one_op_per_suffix_and_txn     over observe [] txns: at most one stored operation per
                                   (suffix, transaction time, transaction number) when the coordinates of
                                   the transactions are pairwise distinct
   - delete_failure_is_not_isolated (Example) Process returns an ERROR when DeleteAll on the unpublished
                                   store fails, but the operations are already stored: "returned an
                                   error" is NOT "contributes nothing" (as in the code: Put precedes DeleteAll) *)
From Coq Require Import List ZArith Bool Lia.
From SV Require Import Resolve.Op Batch.Files Batch.Safe Batch.TxnProc Batch.TxnProofs.
Import ListNotations.
Local Open Scope Z_scope.

Definition entry : Type := (stxn * bool * bool)%type.
Definition e_txn (e : entry) : stxn := fst (fst e).
Definition e_put_ok (e : entry) : bool := snd (fst e).

(* the transaction is skipped by the observer (no protocol client for the namespace, no protocol
   version for the transaction), its operations cannot be retrieved, or the operation store's Put fails *)
Definition failing (e : entry) : Prop :=
  tx_ns_ok (e_txn e) = false \/ tx_version_ok (e_txn e) = false \/ tx_ops (e_txn e) = None \/ e_put_ok e = false.

Definition failingb (e : entry) : bool :=
  negb (tx_ns_ok (e_txn e) && tx_version_ok (e_txn e) && match tx_ops (e_txn e) with Some _ => true | None => false end
        && e_put_ok e).

Lemma failingb_spec e : failingb e = true <-> failing e.
Proof.
  unfold failingb, failing. destruct (tx_ns_ok (e_txn e)), (tx_version_ok (e_txn e)), (tx_ops (e_txn e)), (e_put_ok e);
    cbn; split; intros H; try discriminate; try reflexivity; auto;
    destruct H as [H|[H|[H|H]]]; discriminate.
Qed.

Lemma not_failing e : failingb e = false <->
  tx_ns_ok (e_txn e) = true /\ tx_version_ok (e_txn e) = true /\ (exists ops, tx_ops (e_txn e) = Some ops) /\ e_put_ok e = true.
Proof.
  unfold failingb. destruct (tx_ns_ok (e_txn e)), (tx_version_ok (e_txn e)), (tx_ops (e_txn e)) as [ops|], (e_put_ok e);
    cbn; split; intros H; try discriminate; try reflexivity;
    try (destruct H as (H1 & H2 & (o & H3) & H4); discriminate).
  repeat split; auto. exists ops. reflexivity.
Qed.

(* what one element of the list adds to the operation store *)
Definition contribution (e : entry) : list sop :=
  if failingb e then []
  else match tx_ops (e_txn e) with
       | Some ops => map (stamp (e_txn e)) (first_per_suffix [] ops)
       | None => []
       end.

Lemma observe_one_contribution store t p d : observe_one store p d t = store ++ contribution (t, p, d).
Proof.
  unfold observe_one, contribution, failingb, process_txn, e_txn, e_put_ok. cbn [fst snd].
  destruct (tx_ns_ok t); cbn [andb negb]; [|rewrite app_nil_r; reflexivity].
  destruct (tx_version_ok t); cbn [andb negb]; [|rewrite app_nil_r; reflexivity].
  destruct (tx_ops t) as [ops|]; cbn [andb negb fst]; [|rewrite app_nil_r; reflexivity].
  destruct p; cbn [andb negb fst]; [|rewrite app_nil_r; reflexivity].
  destruct d; reflexivity.
Qed.

(* the observer's effect on the store, in closed form *)
Theorem observe_closed_form : forall txns store, observe store txns = store ++ concat (map contribution txns).
Proof.
  induction txns as [|[[t p] d] r IH]; intros store; cbn [observe map concat]; [rewrite app_nil_r; reflexivity|].
  rewrite IH, observe_one_contribution, app_assoc. reflexivity.
Qed.

Lemma failing_no_contribution e : failing e -> contribution e = [].
Proof. intros H. apply failingb_spec in H. unfold contribution. rewrite H. reflexivity. Qed.

Lemma first_per_suffix_nil_iff ops : first_per_suffix [] ops = [] <-> ops = [].
Proof. destruct ops as [|o r]; cbn [first_per_suffix memZ]; split; intros H; try reflexivity; discriminate. Qed.

(* a transaction adds nothing exactly when it fails or holds no operation *)
Lemma contribution_nil_iff e : contribution e = [] <-> failing e \/ tx_ops (e_txn e) = Some [].
Proof.
  unfold contribution. destruct (failingb e) eqn:Ef.
  - split; [intros _; left; apply failingb_spec; exact Ef | reflexivity].
  - assert (Hnf : ~ failing e) by (intros Hf; apply failingb_spec in Hf; congruence).
    apply not_failing in Ef. destruct Ef as (_ & _ & (ops & Ho) & _). rewrite Ho. split.
    + intros H. right. apply map_eq_nil in H. apply (proj1 (first_per_suffix_nil_iff ops)) in H. subst. reflexivity.
    + intros [Hf|Hs]; [elim Hnf; exact Hf | inversion Hs; reflexivity].
Qed.

(* ---------------------------------------------------------------------------------------------- *)
(* isolation                                                                                      *)
(* ---------------------------------------------------------------------------------------------- *)

(* a failing transaction can be removed from the list without changing the result, from any store *)
Theorem failing_txn_removable store l1 e l2 :
  failing e -> observe store (l1 ++ e :: l2) = observe store (l1 ++ l2).
Proof.
  intros Hf. rewrite !observe_closed_form, !map_app, !concat_app. cbn [map concat].
  rewrite (failing_no_contribution e Hf). reflexivity.
Qed.

(* exactly the transactions without contribution can be removed *)
Theorem removable_iff_no_contribution store l1 e l2 :
  observe store (l1 ++ e :: l2) = observe store (l1 ++ l2) <-> failing e \/ tx_ops (e_txn e) = Some [].
Proof.
  rewrite <- contribution_nil_iff. rewrite !observe_closed_form, !map_app, !concat_app. cbn [map concat]. split.
  - intros H. apply app_inv_head in H. apply app_inv_head in H.
    apply (f_equal (@length sop)) in H. rewrite app_length in H.
    destruct (contribution e); [reflexivity | cbn [length] in H; lia].
  - intros ->. reflexivity.
Qed.

(* the transactions after a failing one are processed as if it had not been there *)
Theorem later_txns_proceed store l1 e l2 :
  failing e -> observe store (l1 ++ e :: l2) = observe (observe store l1) l2.
Proof. intros Hf. rewrite failing_txn_removable by exact Hf. apply observe_app. Qed.

(* all failing transactions at once *)
Theorem failing_txns_filtered : forall txns store,
  observe store txns = observe store (filter (fun e => negb (failingb e)) txns).
Proof.
  intros txns store. rewrite !observe_closed_form. f_equal.
  induction txns as [|e r IH]; cbn [filter map concat]; [reflexivity|].
  destruct (failingb e) eqn:Ef; cbn [negb map concat].
  - apply failingb_spec in Ef. rewrite (failing_no_contribution e Ef). exact IH.
  - rewrite IH. reflexivity.
Qed.

(* ---------------------------------------------------------------------------------------------- *)
(* the store only grows; where stored operations come from                                        *)
(* ---------------------------------------------------------------------------------------------- *)

(* along a list the store only grows, at its end: what was stored stays, in place (for every prefix) *)
Theorem observe_grows store l1 l2 : exists added, observe store (l1 ++ l2) = observe store l1 ++ added.
Proof. rewrite observe_app. apply observe_extends. Qed.

Lemma in_contribution s e :
  In s (contribution e) <->
  ~ failing e /\ exists ops o, tx_ops (e_txn e) = Some ops /\ In o (first_per_suffix [] ops) /\ s = stamp (e_txn e) o.
Proof.
  unfold contribution. destruct (failingb e) eqn:Ef.
  - split; [intros [] | intros [Hn _]; elim Hn; apply failingb_spec; exact Ef].
  - assert (Hnf : ~ failing e) by (intros Hf; apply failingb_spec in Hf; congruence).
    destruct (tx_ops (e_txn e)) as [ops|] eqn:Ho.
    + rewrite in_map_iff. split.
      * intros (o & <- & Hi). split; [exact Hnf|]. exists ops, o. auto.
      * intros (_ & ops' & o & Hs & Hi & ->). inversion Hs; subst ops'. exists o. auto.
    + split; [intros [] | intros (_ & ops & o & Hs & _); discriminate].
Qed.

(* every stored operation was in the initial store or stems from a NON-failing transaction of the list:
   it is one of the operations the provider returned for it (the first one for its suffix) and carries
   the transaction's coordinates *)
Theorem stored_op_origin store txns s :
  In s (observe store txns) ->
  In s store \/
  exists e ops o,
    In e txns /\ ~ failing e /\ tx_ops (e_txn e) = Some ops /\ In o ops /\ In o (first_per_suffix [] ops) /\
    so_req s = o /\ so_ty s = ro_ty o /\ so_sfx s = ro_sfx o /\
    so_time s = tx_time (e_txn e) /\ so_num s = tx_num (e_txn e) /\ so_pver s = tx_pver (e_txn e) /\
    so_cref s = tx_cref (e_txn e) /\ so_eqv s = tx_eqv (e_txn e).
Proof.
  rewrite observe_closed_form. intros Hi. apply in_app_or in Hi. destruct Hi as [Hi|Hi]; [left; exact Hi|]. right.
  apply in_concat in Hi. destruct Hi as (c & Hc & Hs). apply in_map_iff in Hc. destruct Hc as (e & <- & He).
  apply in_contribution in Hs. destruct Hs as (Hnf & ops & o & Ho & Hio & ->).
  exists e, ops, o. split; [exact He|]. split; [exact Hnf|]. split; [exact Ho|].
  split; [apply (proj2 (first_per_suffix_nodup ops []) o Hio)|]. split; [exact Hio|].
  cbn. repeat split; reflexivity.
Qed.

(* conversely every operation kept from a non-failing transaction is stored *)
Theorem non_failing_txn_stored store txns e ops o :
  In e txns -> ~ failing e -> tx_ops (e_txn e) = Some ops -> In o (first_per_suffix [] ops) ->
  In (stamp (e_txn e) o) (observe store txns).
Proof.
  intros He Hnf Ho Hi. rewrite observe_closed_form. apply in_or_app. right. apply in_concat.
  exists (contribution e). split; [apply in_map; exact He|]. apply in_contribution. split; [exact Hnf|]. exists ops, o. auto.
Qed.

(* ---------------------------------------------------------------------------------------------- *)
(* at most one stored operation per (suffix, transaction time, transaction number)                *)
(* ---------------------------------------------------------------------------------------------- *)

Definition coord (e : entry) : Z * Z := (tx_time (e_txn e), tx_num (e_txn e)).
Definition op_key (s : sop) : Z * Z * Z := (so_sfx s, so_time s, so_num s).

Lemma NoDup_app_intro {A} (a b : list A) :
  NoDup a -> NoDup b -> (forall x, In x a -> ~ In x b) -> NoDup (a ++ b).
Proof.
  induction a as [|x r IH]; intros Ha Hb Hd; cbn [app]; [exact Hb|]. inversion Ha as [|? ? Hx Hr]; subst.
  constructor.
  - intros Hi. apply in_app_or in Hi. destruct Hi as [Hi|Hi]; [exact (Hx Hi) | exact (Hd x (or_introl eq_refl) Hi)].
  - apply IH; [exact Hr | exact Hb | intros y Hy; apply Hd; right; exact Hy].
Qed.

Lemma contribution_keys_nodup e : NoDup (map op_key (contribution e)).
Proof.
  unfold contribution. destruct (failingb e); [constructor|]. destruct (tx_ops (e_txn e)) as [ops|]; [|constructor].
  apply (NoDup_map_inv (fun k : Z * Z * Z => fst (fst k))). rewrite !map_map. cbn [op_key stamp so_sfx fst].
  apply first_per_suffix_nodup.
Qed.

Lemma contribution_key_coord e s : In s (contribution e) -> (so_time s, so_num s) = coord e /\ failingb e = false.
Proof.
  intros Hi. apply in_contribution in Hi. destruct Hi as (Hnf & ops & o & _ & _ & ->). split; [reflexivity|].
  destruct (failingb e) eqn:Ef; [|reflexivity]. elim Hnf. apply failingb_spec. exact Ef.
Qed.

(* Only the coordinates of the NON-failing transactions have to be distinct (a failing transaction may
   share them, e.g. one that is delivered again). *)
Theorem one_op_per_suffix_and_txn txns :
  NoDup (map coord (filter (fun e => negb (failingb e)) txns)) ->
  NoDup (map op_key (observe [] txns)).
Proof.
  rewrite observe_closed_form. cbn [app]. induction txns as [|e r IH]; cbn [filter map concat]; [constructor|].
  intros Hn. rewrite map_app. apply NoDup_app_intro.
  - apply contribution_keys_nodup.
  - apply IH. destruct (negb (failingb e)); [inversion Hn; assumption | exact Hn].
  - intros k Hk Hk'. apply in_map_iff in Hk. destruct Hk as (s & <- & Hs).
    apply in_map_iff in Hk'. destruct Hk' as (s' & Hkey & Hs').
    apply in_concat in Hs'. destruct Hs' as (c & Hc & Hs'). apply in_map_iff in Hc. destruct Hc as (e' & <- & He').
    destruct (contribution_key_coord _ _ Hs) as [Hco Hnf]. destruct (contribution_key_coord _ _ Hs') as [Hco' Hnf'].
    rewrite Hnf in Hn. cbn [negb map] in Hn. inversion Hn as [|? ? Hx _]; subst. apply Hx.
    apply in_map_iff. exists e'. split.
    + rewrite <- Hco, <- Hco'. unfold op_key in Hkey. inversion Hkey. reflexivity.
    + apply filter_In. split; [exact He' | rewrite Hnf'; reflexivity].
Qed.

Lemma map_filter_sub_nodup {A B} (f : A -> B) (p : A -> bool) l : NoDup (map f l) -> NoDup (map f (filter p l)).
Proof.
  induction l as [|x r IH]; cbn [map filter]; intros Hn; [constructor|]. inversion Hn as [|? ? Hx Hr]; subst.
  destruct (p x); [|apply IH; exact Hr]. cbn [map]. constructor; [|apply IH; exact Hr].
  intros Hi. apply Hx. apply in_map_iff in Hi. destruct Hi as (y & Hy & Hin). apply filter_In in Hin.
  apply in_map_iff. exists y. tauto.
Qed.

(* the form asked for: transaction coordinates pairwise distinct *)
Corollary one_op_per_suffix_and_txn_all txns :
  NoDup (map coord txns) -> NoDup (map op_key (observe [] txns)).
Proof. intros Hn. apply one_op_per_suffix_and_txn. apply map_filter_sub_nodup. exact Hn. Qed.

(* read as "at most one": two stored operations with the same suffix and coordinates are the same entry *)
Corollary same_key_same_op txns i j :
  NoDup (map coord (filter (fun e => negb (failingb e)) txns)) ->
  (i < length (observe [] txns))%nat -> (j < length (observe [] txns))%nat ->
  op_key (nth i (observe [] txns) (stamp (Build_stxn 0 0 0 0 0 false false None) (Build_rop Create 0 0 0 0 0 0))) =
  op_key (nth j (observe [] txns) (stamp (Build_stxn 0 0 0 0 0 false false None) (Build_rop Create 0 0 0 0 0 0))) ->
  i = j.
Proof.
  intros Hn Hi Hj Hk. pose proof (one_op_per_suffix_and_txn txns Hn) as Hnd.
  set (d := stamp (Build_stxn 0 0 0 0 0 false false None) (Build_rop Create 0 0 0 0 0 0)) in *.
  rewrite <- (map_nth op_key _ d i), <- (map_nth op_key _ d j) in Hk.
  apply (proj1 (NoDup_nth (map op_key (observe [] txns)) (op_key d)) Hnd); rewrite ?map_length; assumption.
Qed.

(* ---------------------------------------------------------------------------------------------- *)
(* examples                                                                                       *)
(* ---------------------------------------------------------------------------------------------- *)

Definition xop (t : optype) (sfx : Z) : rop :=
  {| ro_ty := t; ro_sfx := sfx; ro_reveal := 0; ro_signed := 0; ro_delta := sfx * 10; ro_sdata := 0; ro_origin := 0 |}.
Definition xtxn (time num : Z) (ns ver : bool) (ops : option (list rop)) : stxn :=
  {| tx_time := time; tx_num := num; tx_pver := 0; tx_cref := num + 1; tx_eqv := 0; tx_ns_ok := ns; tx_version_ok := ver;
     tx_ops := ops |}.

Definition good1 : entry := (xtxn 10 0 true true (Some [xop Create 1; xop Create 2; xop Update 1]), true, true).
Definition good2 : entry := (xtxn 10 1 true true (Some [xop Update 2; xop Create 3]), true, true).
Definition bad_unreadable : entry := (xtxn 11 2 true true None, true, true).
Definition bad_namespace : entry := (xtxn 11 3 false true (Some [xop Create 9]), true, true).
Definition bad_version : entry := (xtxn 11 4 true false (Some [xop Create 9]), true, true).
Definition bad_put : entry := (xtxn 11 5 true true (Some [xop Create 9]), false, true).
Definition bad_delete : entry := (xtxn 12 6 true true (Some [xop Create 7]), true, false).

Example failing_examples :
  map failingb [good1; good2; bad_unreadable; bad_namespace; bad_version; bad_put; bad_delete]
  = [false; false; true; true; true; true; false].
Proof. vm_compute. reflexivity. Qed.

(* failing transactions in between change nothing; the later good one is processed *)
Example isolation_example :
  observe [] [bad_namespace; good1; bad_unreadable; bad_version; bad_put; good2] = observe [] [good1; good2] /\
  map op_key (observe [] [good1; good2]) = [(1, 10, 0); (2, 10, 0); (2, 10, 1); (3, 10, 1)].
Proof. vm_compute. split; reflexivity. Qed.

(* hypothesis of one_op_per_suffix_and_txn holds for this list (and fails to be needed for failing ones:
   a failing transaction re-using coordinates (10, 0) does no harm) *)
Example coords_distinct_example :
  let txns := [bad_namespace; good1; (xtxn 10 0 true true None, true, true); good2] in
  NoDup (map coord (filter (fun e => negb (failingb e)) txns)) /\ ~ NoDup (map coord txns).
Proof.
  cbn zeta. split.
  - vm_compute. constructor; [intros [H|[]]; discriminate|]. constructor; [intros []|constructor].
  - intros Hn. vm_compute in Hn. inversion Hn as [|? ? _ Hr]; subst. inversion Hr as [|? ? Hx _]; subst.
    apply Hx. left. reflexivity.
Qed.

(* the pairwise-distinct hypothesis is needed: the same transaction delivered twice is stored twice *)
Example duplicate_coords_refuted :
  map op_key (observe [] [good2; good2]) = [(2, 10, 1); (3, 10, 1); (2, 10, 1); (3, 10, 1)].
Proof. vm_compute. reflexivity. Qed.

(* DEVIATION from "a failing transaction contributes nothing": when DeleteAll on the unpublished-operation
   store fails, Process returns an error (the observer logs it and goes on) but OpStore.Put has already
   stored the operations. *)
Example delete_failure_is_not_isolated :
  process_txn [] true false (e_txn bad_delete) = ([stamp (e_txn bad_delete) (xop Create 7)], PErr) /\
  observe [] [bad_delete] <> observe [] [].
Proof. vm_compute. split; [reflexivity | discriminate]. Qed.

Print Assumptions observe_closed_form.
Print Assumptions failing_txn_removable.
Print Assumptions removable_iff_no_contribution.
Print Assumptions later_txns_proceed.
Print Assumptions failing_txns_filtered.
Print Assumptions observe_grows.
Print Assumptions stored_op_origin.
Print Assumptions non_failing_txn_stored.
Print Assumptions one_op_per_suffix_and_txn.
Print Assumptions one_op_per_suffix_and_txn_all.
Print Assumptions same_key_same_op.
