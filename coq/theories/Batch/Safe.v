(* C14: what GetTxnOperations guarantees about whatever CAS serves. *)
From Coq Require Import List ZArith Bool Lia Arith Permutation.
From SV Require Import Resolve.Op Batch.Files.
Import ListNotations.
Local Open Scope Z_scope.

Lemma memZ_In x l : memZ x l = true <-> In x l.
Proof.
  induction l as [|y r IH]; cbn [memZ In]; [split; [discriminate | tauto]|].
  rewrite orb_true_iff, Z.eqb_eq, IH. split; intros [H|H]; auto.
Qed.

Lemma has_dup_false seen l : has_dup seen l = false -> NoDup l /\ (forall x, In x l -> ~ In x seen).
Proof.
  revert seen. induction l as [|x r IH]; intros seen H; cbn [has_dup] in H.
  - split; [constructor | intros ? []].
  - apply orb_false_iff in H. destruct H as [Hm Hr]. destruct (IH _ Hr) as [Hnd Hns]. split.
    + constructor; [|exact Hnd]. intros Hi. apply (Hns x Hi). left. reflexivity.
    + intros y [<-|Hy].
      * intros Hi. apply memZ_In in Hi. congruence.
      * intros Hi. apply (Hns y Hy). right. exact Hi.
Qed.

Lemma nodup_has_dup l : NoDup l -> forall seen, (forall x, In x l -> ~ In x seen) -> has_dup seen l = false.
Proof.
  induction 1 as [|x r Hx Hnd IH]; intros seen Hs; cbn [has_dup]; [reflexivity|].
  apply orb_false_iff. split.
  - destruct (memZ x seen) eqn:E; [|reflexivity]. apply memZ_In in E. elim (Hs x (or_introl eq_refl) E).
  - apply IH. intros y Hy [<-|Hi]; [contradiction | apply (Hs y (or_intror Hy) Hi)].
Qed.

(* -- size and reference discipline -- *)
Theorem oversize_raw_rejected {A} L max (r : raw A) : f_raw_size r > max -> read_file L max r = None.
Proof.
  intros H. unfold read_file. destruct (f_read_ok r); cbn [negb]; [|reflexivity].
  destruct (f_raw_size r >? max) eqn:E; [reflexivity|]. rewrite Z.gtb_ltb in E. apply Z.ltb_ge in E. lia.
Qed.

Theorem oversize_decompressed_rejected {A} L max (r : raw A) :
  f_size r > max * l_factor L -> read_file L max r = None.
Proof.
  intros H. unfold read_file. destruct (f_read_ok r); cbn [negb]; [|reflexivity].
  destruct (f_raw_size r >? max); [reflexivity|]. destruct (f_decomp_ok r); cbn [negb]; [|reflexivity].
  destruct (f_size r >? max * l_factor L) eqn:E; [reflexivity|]. rewrite Z.gtb_ltb in E. apply Z.ltb_ge in E. lia.
Qed.

Theorem read_file_some {A} L max (r : raw A) x :
  read_file L max r = Some x ->
  f_read_ok r = true /\ f_raw_size r <= max /\ f_decomp_ok r = true /\ f_size r <= max * l_factor L /\ f_parsed r = Some x.
Proof.
  unfold read_file. destruct (f_read_ok r); cbn [negb]; [|discriminate].
  destruct (f_raw_size r >? max) eqn:E1; [discriminate|]. destruct (f_decomp_ok r); cbn [negb]; [|discriminate].
  destruct (f_size r >? max * l_factor L) eqn:E2; [discriminate|]. intros H.
  rewrite Z.gtb_ltb in E1, E2. apply Z.ltb_ge in E1, E2. auto.
Qed.

(* structure of a successful read *)
Theorem get_some L a ops :
  get_txn_operations L a = Some ops ->
  a_syntax_ok a = true /\ Z.of_nat (length ops) = a_count a /\
  exists c b, read_file L (l_core_index L) (a_core a) = Some c /\ validate_core_index L c = true /\
              get_batch_files L c = Some b /\ assemble b = Some ops.
Proof.
  unfold get_txn_operations. destruct (a_syntax_ok a); cbn [negb]; [|discriminate].
  destruct (read_file L (l_core_index L) (a_core a)) as [c|]; [|discriminate].
  destruct (validate_core_index L c) eqn:Ev; cbn [negb]; [|discriminate].
  destruct (get_batch_files L c) as [b|] eqn:Eb; [|discriminate].
  destruct (assemble b) as [o|] eqn:Ea; [|discriminate].
  destruct (Z.of_nat (length o) =? a_count a) eqn:Ec; [|discriminate]. intros H; inversion H; subst.
  apply Z.eqb_eq in Ec. split; [reflexivity|]. split; [exact Ec|]. exists c, b. auto.
Qed.

Theorem count_matches_anchor L a ops :
  get_txn_operations L a = Some ops -> Z.of_nat (length ops) = a_count a.
Proof. intros H. apply get_some in H. tauto. Qed.

Theorem long_uri_rejected L a ops c :
  get_txn_operations L a = Some ops -> read_file L (l_core_index L) (a_core a) = Some c ->
  uri_len (ci_proof c) <= l_uri_len L /\ uri_len (ci_prov c) <= l_uri_len L.
Proof.
  intros H Hr. apply get_some in H. destruct H as (_ & _ & c' & b & Hr' & Hv & _). rewrite Hr in Hr'. inversion Hr'; subst c'.
  unfold validate_core_index, uri_ok in Hv. repeat (apply andb_true_iff in Hv; destruct Hv as [Hv ?]).
  split; apply Z.leb_le; assumption.
Qed.

Theorem proof_reference_discipline L c :
  validate_core_index L c = true ->
  (present (ci_proof c) = true <-> (0 < length (ci_recovers c) + length (ci_deactivates c))%nat).
Proof.
  unfold validate_core_index. intros Hv. repeat (apply andb_true_iff in Hv; destruct Hv as [Hv ?]).
  destruct (0 <? length (ci_recovers c) + length (ci_deactivates c))%nat eqn:E.
  - apply Nat.ltb_lt in E. tauto.
  - apply Nat.ltb_ge in E. apply negb_true_iff in Hv. rewrite Hv. split; [discriminate | lia].
Qed.

Theorem prov_proof_reference_discipline L p :
  validate_prov_index L p = true ->
  (present (pi_proof p) = true <-> (0 < length (pi_updates p))%nat).
Proof.
  unfold validate_prov_index. intros Hv. repeat (apply andb_true_iff in Hv; destruct Hv as [Hv ?]).
  destruct (0 <? length (pi_updates p))%nat eqn:E.
  - apply Nat.ltb_lt in E. tauto.
  - apply Nat.ltb_ge in E. apply negb_true_iff in Hv. rewrite Hv. split; [discriminate | lia].
Qed.

(* -- counts make every positional access in range -- *)
Lemma get_batch_files_some L c b :
  get_batch_files L c = Some b ->
  bf_core b = c /\ counts_ok b = true /\
  (present (ci_proof c) = true -> exists p, bf_core_proof b = Some p /\ validate_core_proof p = true) /\
  (present (ci_proof c) = false -> bf_core_proof b = None) /\
  (present (ci_prov c) = false -> bf_prov b = None) /\
  (present (ci_prov c) = true -> exists pi pp ch, bf_prov b = Some (pi, pp, ch) /\ validate_prov_index L pi = true /\
        validate_chunk ch = true /\
        (present (pi_proof pi) = true -> exists q, pp = Some q /\ validate_prov_proof q = true) /\
        (present (pi_proof pi) = false -> pp = None)).
Proof.
  unfold get_batch_files. intros H.
  destruct (present (ci_proof c)) eqn:Ep.
  - destruct (read_ref L (l_proof L) (ci_proof c)) as [p|]; [|discriminate].
    destruct (validate_core_proof p) eqn:Evp; [|discriminate].
    destruct (present (ci_prov c)) eqn:Epv.
    + destruct (get_prov_files L (ci_prov c)) as [[[pi pp] ch]|] eqn:Eg; [|discriminate].
      match type of H with (if ?x then _ else _) = _ => destruct x eqn:Ec; [|discriminate] end.
      inversion H; subst. cbn. repeat split; eauto; try discriminate.
      intros _. exists pi, pp, ch. split; [reflexivity|].
      unfold get_prov_files in Eg. destruct (read_ref L (l_prov_index L) (ci_prov c)) as [pi'|]; [|discriminate].
      destruct (validate_prov_index L pi') eqn:Evi; cbn [negb] in Eg; [|discriminate].
      destruct (present (pi_proof pi')) eqn:Epp.
      * destruct (read_ref L (l_proof L) (pi_proof pi')) as [q|]; [|discriminate].
        destruct (validate_prov_proof q) eqn:Evq; [|discriminate].
        destruct (pi_chunks pi') as [|cc ?]; [discriminate|].
        destruct (read_ref L (l_chunk L) cc) as [ch'|]; [|discriminate].
        destruct (validate_chunk ch') eqn:Evc; [|discriminate]. inversion Eg; subst.
        repeat split; auto; [intros _; exists q; auto | rewrite Epp; discriminate].
      * destruct (pi_chunks pi') as [|cc ?]; [discriminate|].
        destruct (read_ref L (l_chunk L) cc) as [ch'|]; [|discriminate].
        destruct (validate_chunk ch') eqn:Evc; [|discriminate]. inversion Eg; subst.
        repeat split; auto; rewrite Epp; discriminate.
    + match type of H with (if ?x then _ else _) = _ => destruct x eqn:Ec; [|discriminate] end.
      inversion H; subst. cbn. repeat split; eauto; discriminate.
  - destruct (present (ci_prov c)) eqn:Epv.
    + destruct (get_prov_files L (ci_prov c)) as [[[pi pp] ch]|] eqn:Eg; [|discriminate].
      match type of H with (if ?x then _ else _) = _ => destruct x eqn:Ec; [|discriminate] end.
      inversion H; subst. cbn. repeat split; eauto; try discriminate.
      intros _. exists pi, pp, ch. split; [reflexivity|].
      unfold get_prov_files in Eg. destruct (read_ref L (l_prov_index L) (ci_prov c)) as [pi'|]; [|discriminate].
      destruct (validate_prov_index L pi') eqn:Evi; cbn [negb] in Eg; [|discriminate].
      destruct (present (pi_proof pi')) eqn:Epp.
      * destruct (read_ref L (l_proof L) (pi_proof pi')) as [q|]; [|discriminate].
        destruct (validate_prov_proof q) eqn:Evq; [|discriminate].
        destruct (pi_chunks pi') as [|cc ?]; [discriminate|].
        destruct (read_ref L (l_chunk L) cc) as [ch'|]; [|discriminate].
        destruct (validate_chunk ch') eqn:Evc; [|discriminate]. inversion Eg; subst.
        repeat split; auto; [intros _; exists q; auto | rewrite Epp; discriminate].
      * destruct (pi_chunks pi') as [|cc ?]; [discriminate|].
        destruct (read_ref L (l_chunk L) cc) as [ch'|]; [|discriminate].
        destruct (validate_chunk ch') eqn:Evc; [|discriminate]. inversion Eg; subst.
        repeat split; auto; rewrite Epp; discriminate.
    + match type of H with (if ?x then _ else _) = _ => destruct x eqn:Ec; [|discriminate] end.
      inversion H; subst. cbn. repeat split; eauto; discriminate.
Qed.

(* zipping with enough proofs never touches the default: every signed-data blob is a real entry *)
Lemma zip_ops_in_range ty refs proofs :
  (length refs <= length proofs)%nat ->
  Forall (fun o => ro_ty o = ty /\ exists p, In p proofs /\ ro_signed o = pe_signed p) (zip_ops ty refs proofs)
  /\ map ro_sfx (zip_ops ty refs proofs) = map or_sfx refs.
Proof.
  revert proofs. induction refs as [|r rs IH]; intros proofs Hl; cbn [zip_ops]; [split; [constructor | reflexivity]|].
  destruct proofs as [|p ps]; [cbn in Hl; lia|]. cbn [hd tl]. cbn [length] in Hl.
  destruct (IH ps ltac:(lia)) as [Hf Hm]. split.
  - constructor; [cbn; split; [reflexivity | exists p; split; [left; reflexivity | reflexivity]]|].
    eapply Forall_impl; [|exact Hf]. cbn. intros o (Ht & q & Hq & Hs). split; [exact Ht|]. exists q. split; [right; exact Hq | exact Hs].
  - cbn [map ro_sfx]. f_equal. exact Hm.
Qed.

Lemma with_deltas_in_range ops ds :
  (length ops <= length ds)%nat ->
  map ro_sfx (with_deltas ops ds) = map ro_sfx ops /\
  Forall (fun o => exists d, In d ds /\ ro_delta o = de_delta d) (with_deltas ops ds).
Proof.
  revert ds. induction ops as [|o r IH]; intros ds Hl; cbn [with_deltas]; [split; [reflexivity | constructor]|].
  destruct ds as [|d dr]; [cbn in Hl; lia|]. cbn [hd tl]. cbn [length] in Hl.
  destruct (IH dr ltac:(lia)) as [Hm Hf]. split.
  - cbn [map ro_sfx]. f_equal. exact Hm.
  - constructor; [cbn; exists d; split; [left; reflexivity | reflexivity]|].
    eapply Forall_impl; [|exact Hf]. cbn. intros x (q & Hq & Hs). exists q. split; [right; exact Hq | exact Hs].
Qed.

(* MAIN: a successful read returns pairwise distinct suffixes *)
Theorem suffixes_distinct L a ops : get_txn_operations L a = Some ops -> NoDup (map ro_sfx ops).
Proof.
  intros H. apply get_some in H. destruct H as (_ & _ & c & b & Hr & Hv & Hb & Ha).
  destruct (get_batch_files_some _ _ _ Hb) as (Hc & Hcnt & Hp1 & Hp0 & Hv0 & Hv1). subst c.
  unfold assemble in Ha.
  set (core_sfx := map cc_sfx (ci_creates (bf_core b)) ++ map or_sfx (ci_recovers (bf_core b)) ++ map or_sfx (ci_deactivates (bf_core b))) in *.
  destruct (has_dup [] core_sfx) eqn:Ed; [discriminate|].
  assert (Hcounts : forall p, bf_core_proof b = Some p ->
            length (ci_recovers (bf_core b)) = length (cp_recovers p) /\ length (ci_deactivates (bf_core b)) = length (cp_deactivates p)).
  { intros p Hp. unfold counts_ok in Hcnt. rewrite Hp in Hcnt. apply andb_true_iff in Hcnt. destruct Hcnt as [Hx _].
    apply andb_true_iff in Hx. destruct Hx as [H1 H2]. apply Nat.eqb_eq in H1, H2. auto. }
  (* deactivates need a proof file whenever there are any *)
  assert (Hde : map ro_sfx (zip_ops Deactivate (ci_deactivates (bf_core b))
                    (cp_deactivates match bf_core_proof b with Some p => p | None => {| cp_recovers := []; cp_deactivates := [] |} end))
                = map or_sfx (ci_deactivates (bf_core b))).
  { destruct (bf_core_proof b) as [p|] eqn:Ep.
    - apply zip_ops_in_range. destruct (Hcounts p eq_refl). lia.
    - destruct (present (ci_proof (bf_core b))) eqn:Epr; [destruct (Hp1 eq_refl) as (p & Hp & _); congruence|].
      pose proof (proof_reference_discipline L _ Hv) as Hd. rewrite Epr in Hd.
      destruct (ci_deactivates (bf_core b)) as [|x r] eqn:Ede; [reflexivity|].
      exfalso. assert (Hf : false = true) by (apply Hd; cbn; lia). discriminate Hf. }
  destruct (has_dup_false _ _ Ed) as [Hnd _].
  destruct (bf_prov b) as [[[pi pp] ch]|] eqn:Epv.
  - destruct (has_dup [] (core_sfx ++ map or_sfx (pi_updates pi))) eqn:Ed2; [discriminate|].
    destruct (negb _) in Ha; [discriminate|].
    match type of Ha with (if negb (Nat.eqb ?x ?y) then _ else _) = _ => destruct (Nat.eqb x y) eqn:El; cbn [negb] in Ha; [|discriminate] end.
    inversion Ha; subst ops. apply Nat.eqb_eq in El.
    destruct (has_dup_false _ _ Ed2) as [Hnd2 _].
    rewrite map_app, Hde.
    destruct (with_deltas_in_range _ (ch_deltas ch) ltac:(rewrite El; lia)) as [Hm _]. rewrite Hm.
    rewrite !map_app.
    (* recover and update zips *)
    assert (Hre : map ro_sfx (zip_ops Recover (ci_recovers (bf_core b))
                      (cp_recovers match bf_core_proof b with Some p => p | None => {| cp_recovers := []; cp_deactivates := [] |} end))
                  = map or_sfx (ci_recovers (bf_core b))).
    { destruct (bf_core_proof b) as [p|] eqn:Ep.
      - apply zip_ops_in_range. destruct (Hcounts p eq_refl). lia.
      - destruct (present (ci_proof (bf_core b))) eqn:Epr; [destruct (Hp1 eq_refl) as (p & Hp & _); congruence|].
        pose proof (proof_reference_discipline L _ Hv) as Hd. rewrite Epr in Hd.
        destruct (ci_recovers (bf_core b)) as [|x r] eqn:Ere; [reflexivity|].
        exfalso. assert (Hf : false = true) by (apply Hd; cbn; lia). discriminate Hf. }
    assert (Hup : map ro_sfx (zip_ops Update (pi_updates pi) match pp with Some p => pp_updates p | None => [] end)
                  = map or_sfx (pi_updates pi)).
    { destruct (present (ci_prov (bf_core b))) eqn:Eprv; [|discriminate (Hv0 eq_refl)].
      destruct (Hv1 eq_refl) as (pi' & pp' & ch' & Hsome & Hvi & _ & Hq1 & Hq0). inversion Hsome; subst pi' pp' ch'.
      destruct pp as [q|].
      - apply zip_ops_in_range. unfold counts_ok in Hcnt. rewrite Epv in Hcnt. apply andb_true_iff in Hcnt. destruct Hcnt as [_ Hx].
        apply andb_true_iff in Hx. destruct Hx as [Hx _]. apply Nat.eqb_eq in Hx. lia.
      - destruct (present (pi_proof pi)) eqn:Epp; [destruct (Hq1 eq_refl) as (q & Hq & _); discriminate|].
        pose proof (prov_proof_reference_discipline L _ Hvi) as Hd. rewrite Epp in Hd.
        destruct (pi_updates pi) as [|x r]; [reflexivity|]. exfalso. assert (Hf : false = true) by (apply Hd; cbn; lia). discriminate Hf. }
    rewrite Hre, Hup. unfold create_ops. rewrite map_map. cbn [ro_sfx].
    (* rearrange: creates ++ recovers ++ updates ++ deactivates is a permutation of core_sfx ++ updates *)
    eapply Permutation_NoDup; [|exact Hnd2]. unfold core_sfx.
    rewrite <- !app_assoc. apply Permutation_app_head. apply Permutation_app_head.
    apply Permutation_app_comm.
  - inversion Ha; subst ops. rewrite Hde.
    unfold core_sfx in Hnd. rewrite app_assoc in Hnd.
    clear -Hnd. induction (map cc_sfx (ci_creates (bf_core b)) ++ map or_sfx (ci_recovers (bf_core b))) as [|x r IH]; [exact Hnd|].
    cbn [app] in Hnd. inversion Hnd; auto.
Qed.
