(* Per-type size limits at the level of the whole provider: every file a successful read of a batch went
   through met the limit of ITS OWN type (compressed and decompressed), whatever the other limits are.
   The provider model is a function of (limits, CAS content as seen through the references, anchor): it has no
   state, so "whatever the provider has read before" cannot matter in the model; the correspondence drives one
   real provider through the same object in two roles (harness: two_roles) to check that for the code. *)
From Coq Require Import List ZArith Bool Arith Lia.
From SV Require Import Parser.Protocol Resolve.Op Batch.Files Batch.Safe.
Import ListNotations.
Local Open Scope Z_scope.

Definition within {A} (L : limits) (max : Z) (r : ref A) (x : A) : Prop :=
  exists f, target r = Some f /\ f_read_ok f = true /\ f_raw_size f <= max /\ f_decomp_ok f = true /\
            f_size f <= max * l_factor L /\ f_parsed f = Some x.

Lemma read_ref_within {A} L max (r : ref A) x : read_ref L max r = Some x -> within L max r x.
Proof.
  unfold read_ref, within. destruct (target r) as [f|] eqn:Et; [|discriminate].
  intros H. apply read_file_some in H. exists f. split; [reflexivity|]. tauto.
Qed.

Lemma prov_files_within_limits L r pi pp ch :
  get_prov_files L r = Some (pi, pp, ch) ->
  within L (l_prov_index L) r pi /\
  (forall q, pp = Some q -> within L (l_proof L) (pi_proof pi) q) /\
  exists c rest, pi_chunks pi = c :: rest /\ within L (l_chunk L) c ch.
Proof.
  unfold get_prov_files. destruct (read_ref L (l_prov_index L) r) as [pi0|] eqn:Er; [|discriminate].
  destruct (negb (validate_prov_index L pi0)); [discriminate|].
  destruct (present (pi_proof pi0)) eqn:Ep.
  - destruct (read_ref L (l_proof L) (pi_proof pi0)) as [q0|] eqn:Eq; [|discriminate].
    destruct (validate_prov_proof q0); [|discriminate].
    destruct (pi_chunks pi0) as [|c rest] eqn:Ec; [discriminate|].
    destruct (read_ref L (l_chunk L) c) as [ch0|] eqn:Eh; [|discriminate].
    destruct (validate_chunk ch0); [|discriminate].
    intros H. inversion H; subst. split; [apply read_ref_within; exact Er|]. split.
    + intros q Hq. inversion Hq; subst. apply read_ref_within; exact Eq.
    + exists c, rest. split; [exact Ec|apply read_ref_within; exact Eh].
  - destruct (pi_chunks pi0) as [|c rest] eqn:Ec; [discriminate|].
    destruct (read_ref L (l_chunk L) c) as [ch0|] eqn:Eh; [|discriminate].
    destruct (validate_chunk ch0); [|discriminate].
    intros H. inversion H; subst. split; [apply read_ref_within; exact Er|]. split.
    + intros q Hq. discriminate.
    + exists c, rest. split; [exact Ec|apply read_ref_within; exact Eh].
Qed.

(* the contrapositive the two-roles cases exercise: the object named as first chunk file is larger than the
   chunk-file limit - the read of the provisional files fails, however generous the other limits are *)
Lemma oversize_chunk_rejected L r pi c rest f :
  read_ref L (l_prov_index L) r = Some pi -> pi_chunks pi = c :: rest -> target c = Some f ->
  f_raw_size f > l_chunk L -> get_prov_files L r = None.
Proof.
  intros Hr Hc Ht Hs. destruct (get_prov_files L r) as [[[pi' pp] ch]|] eqn:E; [|reflexivity].
  exfalso. pose proof (prov_files_within_limits _ _ _ _ _ E) as [Hw [_ [c' [rest' [Hc' [f' [Ht' [_ [Hsz _]]]]]]]]].
  assert (pi' = pi) as ->.
  { destruct Hw as [g [Hg [_ [_ [_ [_ Hp]]]]]]. unfold read_ref in Hr. rewrite Hg in Hr.
    apply read_file_some in Hr. destruct Hr as [_ [_ [_ [_ Hp']]]]. congruence. }
  rewrite Hc in Hc'. inversion Hc'; subst. rewrite Ht in Ht'. inversion Ht'; subst. lia.
Qed.

Lemma batch_files_within_limits L c b :
  get_batch_files L c = Some b ->
  (forall p, bf_core_proof b = Some p -> within L (l_proof L) (ci_proof c) p) /\
  (forall pi pp ch, bf_prov b = Some (pi, pp, ch) ->
     within L (l_prov_index L) (ci_prov c) pi /\
     (forall q, pp = Some q -> within L (l_proof L) (pi_proof pi) q) /\
     exists k rest, pi_chunks pi = k :: rest /\ within L (l_chunk L) k ch).
Proof.
  unfold get_batch_files.
  destruct (present (ci_proof c)) eqn:Ep.
  - destruct (read_ref L (l_proof L) (ci_proof c)) as [p0|] eqn:Er; [|discriminate].
    destruct (validate_core_proof p0); [|discriminate].
    destruct (present (ci_prov c)) eqn:Ev.
    + destruct (get_prov_files L (ci_prov c)) as [[[pi0 pp0] ch0]|] eqn:Eg; [|discriminate].
      match goal with |- (if ?x then _ else _) = _ -> _ => destruct x end; [|discriminate].
      intros H. inversion H; subst; cbn. split.
      * intros p Hp. inversion Hp; subst. apply read_ref_within; exact Er.
      * intros pi pp ch Hq. inversion Hq; subst. apply prov_files_within_limits; exact Eg.
    + match goal with |- (if ?x then _ else _) = _ -> _ => destruct x end; [|discriminate].
      intros H. inversion H; subst; cbn. split.
      * intros p Hp. inversion Hp; subst. apply read_ref_within; exact Er.
      * intros pi pp ch Hq. discriminate.
  - destruct (present (ci_prov c)) eqn:Ev.
    + destruct (get_prov_files L (ci_prov c)) as [[[pi0 pp0] ch0]|] eqn:Eg; [|discriminate].
      match goal with |- (if ?x then _ else _) = _ -> _ => destruct x end; [|discriminate].
      intros H. inversion H; subst; cbn. split.
      * intros p Hp. discriminate.
      * intros pi pp ch Hq. inversion Hq; subst. apply prov_files_within_limits; exact Eg.
    + match goal with |- (if ?x then _ else _) = _ -> _ => destruct x end; [|discriminate].
      intros H. inversion H; subst; cbn. split.
      * intros p Hp. discriminate.
      * intros pi pp ch Hq. discriminate.
Qed.

(* non-vacuity: the two-roles situation as a concrete state. One object of 511 bytes is named as first chunk file; under a
   chunk-file limit of 510 the provisional files are refused although every other limit (and the core-index limit the same
   object would meet) is generous; under a limit of 511 the same state is read. *)
Definition ex_L (chunk : Z) : limits :=
  {| l_hash_len := 100; l_uri_len := 100; l_core_index := 1000000; l_proof := 1000000; l_prov_index := 1000000;
     l_chunk := chunk; l_factor := 3 |}.
Definition ex_chunk_raw : raw chunk_file :=
  {| f_read_ok := true; f_raw_size := 511; f_decomp_ok := true; f_size := 700;
     f_parsed := Some {| ch_deltas := [ {| de_delta := 1; de_valid := true |} ] |} |}.
Definition ex_pi : prov_index_file :=
  {| pi_proof := {| uri_len := 0; target := None |};
     pi_chunks := [ {| uri_len := 46; target := Some ex_chunk_raw |} ]; pi_updates := [] |}.
Definition ex_pi_ref : ref prov_index_file :=
  {| uri_len := 46; target := Some {| f_read_ok := true; f_raw_size := 120; f_decomp_ok := true; f_size := 150; f_parsed := Some ex_pi |} |}.

Example ex_two_roles_hypotheses :
  read_ref (ex_L 510) (l_prov_index (ex_L 510)) ex_pi_ref = Some ex_pi /\
  f_raw_size ex_chunk_raw > l_chunk (ex_L 510) /\ f_raw_size ex_chunk_raw <= l_core_index (ex_L 510).
Proof. split; [vm_compute; reflexivity|]. cbn. lia. Qed.

Example ex_two_roles_refused : get_prov_files (ex_L 510) ex_pi_ref = None.
Proof. vm_compute. reflexivity. Qed.

Example ex_two_roles_read_at_the_limit : exists pp ch, get_prov_files (ex_L 511) ex_pi_ref = Some (ex_pi, pp, ch).
Proof. eexists. eexists. vm_compute. reflexivity. Qed.
