(* TxnProcessor.Process, Observer.process and DocumentHandler.ProcessOperation as far as their
   effect on the stores is concerned (C15).  Definitions only. *)
From Coq Require Import List ZArith Bool.
From SV Require Import Resolve.Op Batch.Files.
Import ListNotations.
Local Open Scope Z_scope.

(* a Sidetree transaction as the observer receives it; [tx_ops] is what the operation provider
   answers for its anchor string (None = cannot be read / parsed) *)
Record stxn := {
  tx_time : Z; tx_num : Z; tx_pver : Z; tx_cref : Z; tx_eqv : Z;
  tx_ns_ok : bool;          (* a protocol client exists for the namespace *)
  tx_version_ok : bool;     (* the client has a version for tx_pver *)
  tx_ops : option (list rop) }.

(* an operation in the operation store *)
Record sop := {
  so_ty : optype; so_sfx : Z; so_req : rop;
  so_time : Z; so_num : Z; so_pver : Z; so_cref : Z; so_eqv : Z }.

Definition stamp (t : stxn) (o : rop) : sop :=
  {| so_ty := ro_ty o; so_sfx := ro_sfx o; so_req := o;
     so_time := tx_time t; so_num := tx_num t; so_pver := tx_pver t; so_cref := tx_cref t; so_eqv := tx_eqv t |}.

(* duplicate suffixes inside one transaction: only the first operation is kept *)
Fixpoint first_per_suffix (seen : list Z) (l : list rop) : list rop :=
  match l with
  | [] => []
  | o :: r => if memZ (ro_sfx o) seen then first_per_suffix seen r
              else o :: first_per_suffix (ro_sfx o :: seen) r
  end.

Inductive presult := PErr | POk (n : nat).

(* [put_ok]: the store's Put succeeds (it is one call: all or nothing by the store's contract);
   [del_ok]: deleting the now published operations from the unpublished store succeeds *)
Definition process_txn (store : list sop) (put_ok del_ok : bool) (t : stxn) : list sop * presult :=
  match tx_ops t with
  | None => (store, PErr)
  | Some ops =>
    let kept := map (stamp t) (first_per_suffix [] ops) in
    if negb put_ok then (store, PErr)
    else if negb del_ok then (store ++ kept, PErr)
    else (store ++ kept, POk (length kept))
  end.

(* Observer.process: transactions one after the other; a failing one is skipped *)
Definition observe_one (store : list sop) (put_ok del_ok : bool) (t : stxn) : list sop :=
  if tx_ns_ok t && tx_version_ok t then fst (process_txn store put_ok del_ok t) else store.

Fixpoint observe (store : list sop) (txns : list (stxn * bool * bool)) : list sop :=
  match txns with
  | [] => store
  | (t, put_ok, del_ok) :: r => observe (observe_one store put_ok del_ok t) r
  end.

(* -- intake -- *)
Record intake_state := { i_queue : list Z; i_unpub : list Z }.   (* request identities *)

Record intake_req := {
  ir_id : Z;
  ir_accepted : bool;      (* protocol lookup, Parse, validation, decoration and - for a create - building the response document
                              all succeed; all of this happens before anything is stored or queued (F15) *)
  ir_unpub_type : bool;    (* its type is configured for the unpublished-operation store *)
  ir_put_ok : bool;        (* unpublished store Put succeeds *)
  ir_add_ok : bool }.      (* batch writer Add succeeds *)

Definition remove_one (x : Z) (l : list Z) : list Z :=
  (fix go (l : list Z) : list Z :=
     match l with [] => [] | y :: r => if y =? x then r else y :: go r end) l.

Definition process_operation (s : intake_state) (r : intake_req) : intake_state * bool :=
  if negb (ir_accepted r) then (s, false)
  else
    let s1 := if ir_unpub_type r
              then (if ir_put_ok r then Some {| i_queue := i_queue s; i_unpub := i_unpub s ++ [ir_id r] |} else None)
              else Some s in
    match s1 with
    | None => (s, false)
    | Some s1 =>
      if ir_add_ok r then ({| i_queue := i_queue s1 ++ [ir_id r]; i_unpub := i_unpub s1 |}, true)
      else if ir_unpub_type r then ({| i_queue := i_queue s; i_unpub := remove_one (ir_id r) (i_unpub s1) |}, false)
      else (s, false)
    end.
