(* C13: files written for a batch read back as exactly that batch. *)
From Coq Require Import List ZArith Bool Lia Arith Permutation.
From SV Require Import Resolve.Op Batch.Files Batch.Handler Batch.Safe.
Import ListNotations.
Local Open Scope Z_scope.

(* -- accounting -- *)
Lemma parse_ops_perm : forall l seen,
  let p := parse_ops seen l in Permutation l (p_included p ++ p_additional p ++ p_expired p).
Proof.
  induction l as [|o r IH]; intros seen; cbn [parse_ops]; [reflexivity|].
  destruct (bq_expired o); cbn [p_included p_additional p_expired].
  - rewrite app_assoc. apply Permutation_cons_app. rewrite <- app_assoc. apply IH.
  - destruct (memZ (bq_sfx o) seen); cbn [p_included p_additional p_expired].
    + cbn [app]. apply Permutation_cons_app. apply IH.
    + cbn [app]. constructor. apply IH.
Qed.

Lemma parse_ops_included : forall l seen,
  NoDup (map bq_sfx (p_included (parse_ops seen l))) /\
  (forall o, In o (p_included (parse_ops seen l)) -> ~ In (bq_sfx o) seen /\ bq_expired o = false /\ In o l).
Proof.
  induction l as [|o r IH]; intros seen; cbn [parse_ops]; [split; [constructor | intros ? []]|].
  destruct (bq_expired o) eqn:Ee; cbn [p_included].
  - destruct (IH seen) as [Hn Hi]. split; [exact Hn|]. intros x Hx. destruct (Hi x Hx) as (? & ? & ?). repeat split; auto. right; assumption.
  - destruct (memZ (bq_sfx o) seen) eqn:Em; cbn [p_included].
    + destruct (IH seen) as [Hn Hi]. split; [exact Hn|]. intros x Hx. destruct (Hi x Hx) as (? & ? & ?). repeat split; auto. right; assumption.
    + destruct (IH (bq_sfx o :: seen)) as [Hn Hi]. split.
      * cbn [map]. constructor; [|exact Hn]. intros Hin. apply in_map_iff in Hin. destruct Hin as (x & Hx & Hin).
        destruct (Hi x Hin) as (Hns & _). apply Hns. left. symmetry. exact Hx.
      * intros x [<-|Hx].
        -- repeat split; [|assumption | left; reflexivity]. intros Hin. apply memZ_In in Hin. congruence.
        -- destruct (Hi x Hx) as (Hns & ? & ?). repeat split; auto; [intros Hin; apply Hns; right; exact Hin | right; assumption].
Qed.

(* the first queued operation of every suffix that has a non-expired operation is the included one *)
Lemma of_type_partition inc :
  Permutation inc (of_type Create inc ++ of_type Recover inc ++ of_type Update inc ++ of_type Deactivate inc).
Proof.
  unfold of_type. induction inc as [|o r IH]; [reflexivity|]. cbn [filter].
  set (A := filter (fun o => optype_eqb (bq_ty o) Create) r) in *.
  set (B := filter (fun o => optype_eqb (bq_ty o) Recover) r) in *.
  set (C := filter (fun o => optype_eqb (bq_ty o) Update) r) in *.
  set (D := filter (fun o => optype_eqb (bq_ty o) Deactivate) r) in *.
  destruct (bq_ty o); cbn [optype_eqb app].
  - constructor. exact IH.
  - (* update *) rewrite (app_assoc A B). apply Permutation_cons_app. rewrite <- app_assoc. exact IH.
  - (* recover *) apply Permutation_cons_app. exact IH.
  - (* deactivate *) rewrite (app_assoc A), (app_assoc (A ++ B)). apply Permutation_cons_app. rewrite <- !app_assoc. exact IH.
Qed.

(* -- the zips over files produced from the same list -- *)
Definition valid_ref (L : limits) (o : qbop) : Prop :=
  mh_ok L (bq_sfx_len o) = true /\ mh_ok L (bq_reveal_len o) = true.

Lemma zip_ops_same ty l :
  zip_ops ty (map to_op_ref l) (map to_proof l) =
  map (fun o => {| ro_ty := ty; ro_sfx := bq_sfx o; ro_reveal := bq_reveal o; ro_signed := bq_signed o; ro_delta := 0;
                   ro_sdata := 0; ro_origin := match ty with Recover => bq_origin o | _ => 0 end |}) l.
Proof. induction l as [|o r IH]; [reflexivity|]. cbn [map zip_ops hd tl]. f_equal. exact IH. Qed.

Lemma with_deltas_same (f : qbop -> rop) l :
  with_deltas (map f l) (map to_delta l) =
  map (fun o => {| ro_ty := ro_ty (f o); ro_sfx := ro_sfx (f o); ro_reveal := ro_reveal (f o); ro_signed := ro_signed (f o);
                   ro_delta := bq_delta o; ro_sdata := ro_sdata (f o); ro_origin := ro_origin (f o) |}) l.
Proof. induction l as [|o r IH]; [reflexivity|]. cbn [map with_deltas hd tl to_delta de_delta]. f_equal. exact IH. Qed.

Lemma firstn_incl {A} n (l : list A) x : In x (firstn n l) -> In x l.
Proof.
  revert l. induction n as [|n IH]; intros l H; [destruct H|]. destruct l as [|y r]; [destruct H|].
  cbn in H. destruct H as [<-|H]; [left; reflexivity | right; apply IH; exact H].
Qed.

Lemma with_deltas_app a b da db :
  length a = length da -> with_deltas (a ++ b) (da ++ db) = with_deltas a da ++ with_deltas b db.
Proof.
  revert da. induction a as [|x r IH]; intros da Hl; destruct da as [|d dr]; cbn in Hl; try discriminate; [reflexivity|].
  cbn [app with_deltas hd tl]. f_equal. apply IH. lia.
Qed.

Lemma of_type_ty t l o : In o (of_type t l) -> bq_ty o = t.
Proof.
  unfold of_type. intros H. apply filter_In in H. destruct H as [_ H]. destruct (bq_ty o), t; cbn in H; congruence.
Qed.

Lemma map_ext_in' {A B} (f g : A -> B) l : (forall x, In x l -> f x = g x) -> map f l = map g l.
Proof. apply map_ext_in. Qed.

Lemma forallb_map_true {A B} (f : B -> bool) (g : A -> B) l : (forall x, In x l -> f (g x) = true) -> forallb f (map g l) = true.
Proof. intros H. apply forallb_forall. intros y Hy. apply in_map_iff in Hy. destruct Hy as (x & <- & Hx). auto. Qed.

Lemma filter_len_le {A} (f : A -> bool) l : (length (filter f l) <= length l)%nat.
Proof. induction l as [|x r IH]; cbn; [lia|]. destruct (f x); cbn; lia. Qed.

Lemma filter_none {A} (p : A -> bool) l : (forall x, In x l -> p x = false) -> filter p l = [].
Proof.
  induction l as [|x r IH]; intros H; [reflexivity|]. cbn [filter].
  rewrite (H x (or_introl eq_refl)). apply IH. intros y Hy. apply H. right. exact Hy.
Qed.

Lemma NoDup_drop_middle {A} (x m y : list A) : NoDup (x ++ m ++ y) -> NoDup (x ++ y).
Proof.
  induction m as [|a r IH]; [exact (fun H => H)|]. cbn [app]. intros H. apply IH. eapply NoDup_remove_1. exact H.
Qed.

Section RT.
  Variable L : limits.
  Variable u : Z.
  Hypothesis Hu : 0 < u <= l_uri_len L.
  Hypothesis Hlim : 0 <= l_core_index L /\ 0 <= l_proof L /\ 0 <= l_prov_index L /\ 0 <= l_chunk L /\ 0 <= l_factor L.

  Lemma read_served {A} max (x : A) : 0 <= max -> read_file L max (served x) = Some x.
  Proof.
    intros Hm. unfold read_file, served. cbn.
    destruct (0 >? max) eqn:E1; [rewrite Z.gtb_ltb in E1; apply Z.ltb_lt in E1; lia|].
    destruct (0 >? max * l_factor L) eqn:E2; [rewrite Z.gtb_ltb in E2; apply Z.ltb_lt in E2; nia | reflexivity].
  Qed.

  Lemma read_ref_to {A} max (x : A) : 0 <= max -> read_ref L max (ref_to u x) = Some x.
  Proof. intros. unfold read_ref, ref_to. cbn. apply read_served. assumption. Qed.

  Lemma present_ref_to {A} (x : A) : present (ref_to u x) = true.
  Proof. unfold present, ref_to. cbn. destruct (u =? 0) eqn:E; [apply Z.eqb_eq in E; lia | reflexivity]. Qed.

  Lemma present_no_ref {A} : present (@no_ref A) = false.
  Proof. reflexivity. Qed.

  Lemma uri_ok_ref_to {A} (x : A) : uri_ok L (ref_to u x) = true.
  Proof. unfold uri_ok, ref_to. cbn. apply Z.leb_le. lia. Qed.

  Lemma uri_ok_no_ref {A} : uri_ok L (@no_ref A) = true.
  Proof. unfold uri_ok, no_ref. cbn. apply Z.leb_le. lia. Qed.

  Variables cr re up de : list qbop.
  Hypothesis Hvalid : Forall (valid_ref L) (re ++ up ++ de).
  Hypothesis Hnd : NoDup (map bq_sfx (cr ++ re ++ up ++ de)).

  Lemma refs_ok l : incl l (re ++ up ++ de) -> forallb (op_ref_ok L) (map to_op_ref l) = true.
  Proof.
    intros Hi. apply forallb_map_true. intros o Ho. rewrite Forall_forall in Hvalid.
    destruct (Hvalid o (Hi o Ho)) as [H1 H2]. unfold op_ref_ok, to_op_ref. cbn. rewrite H1, H2. reflexivity.
  Qed.

  Lemma incl_re : incl re (re ++ up ++ de). Proof. intros x Hx. apply in_or_app. left. exact Hx. Qed.
  Lemma incl_up : incl up (re ++ up ++ de). Proof. intros x Hx. apply in_or_app. right. apply in_or_app. left. exact Hx. Qed.
  Lemma incl_de : incl de (re ++ up ++ de). Proof. intros x Hx. apply in_or_app. right. apply in_or_app. right. exact Hx. Qed.

  Lemma core_index_valid wp : validate_core_index L (core_index_of u wp cr re up de) = true.
  Proof.
    unfold validate_core_index, core_index_of. cbn [ci_proof ci_prov ci_creates ci_recovers ci_deactivates].
    rewrite !map_length.
    assert (Hp : (if (0 <? length re + length de)%nat
                  then present match re ++ de with [] => no_ref | _ => ref_to u (core_proof_of re de) end
                  else negb (present match re ++ de with [] => no_ref | _ => ref_to u (core_proof_of re de) end)) = true).
    { destruct re as [|r0 rr]; [destruct de as [|d0 dd]|]; cbn [app length Nat.add Nat.ltb Nat.leb];
        [reflexivity | apply present_ref_to | apply present_ref_to]. }
    rewrite Hp. cbn [andb].
    assert (H1 : uri_ok L match re ++ de with [] => no_ref | _ => ref_to u (core_proof_of re de) end = true)
      by (destruct (re ++ de); [apply uri_ok_no_ref | apply uri_ok_ref_to]).
    assert (H2 : uri_ok L (if wp then ref_to u (prov_index_of u cr re up) else no_ref) = true)
      by (destruct wp; [apply uri_ok_ref_to | apply uri_ok_no_ref]).
    rewrite H1, H2, (refs_ok re incl_re), (refs_ok de incl_de). cbn [andb].
    rewrite !andb_true_r. apply forallb_map_true. intros; reflexivity.
  Qed.

  Lemma core_proof_valid : validate_core_proof (core_proof_of re de) = true.
  Proof.
    unfold validate_core_proof, core_proof_of. cbn. apply andb_true_iff. split; apply forallb_map_true; intros; reflexivity.
  Qed.

  Lemma prov_index_valid : validate_prov_index L (prov_index_of u cr re up) = true.
  Proof.
    unfold validate_prov_index, prov_index_of. cbn [pi_proof pi_chunks pi_updates]. rewrite map_length.
    rewrite (refs_ok up incl_up), uri_ok_ref_to, andb_true_r, andb_true_r.
    destruct up as [|x r]; cbn [length Nat.ltb Nat.leb]; [rewrite (@uri_ok_no_ref prov_proof_file); reflexivity | rewrite present_ref_to, uri_ok_ref_to; reflexivity].
  Qed.

  Definition files_of (wp : bool) : batch_files :=
    {| bf_core := core_index_of u wp cr re up de;
       bf_core_proof := match re ++ de with [] => None | _ => Some (core_proof_of re de) end;
       bf_prov := if wp then Some (prov_index_of u cr re up, match up with [] => None | _ => Some (prov_proof_of up) end, chunk_of cr re up)
                  else None |}.

  Lemma prov_files_read :
    get_prov_files L (ref_to u (prov_index_of u cr re up))
    = Some (prov_index_of u cr re up, match up with [] => None | _ => Some (prov_proof_of up) end, chunk_of cr re up).
  Proof.
    unfold get_prov_files. rewrite read_ref_to by apply Hlim. rewrite prov_index_valid. cbn [negb].
    assert (Hch : validate_chunk (chunk_of cr re up) = true) by (unfold validate_chunk, chunk_of; cbn; apply forallb_map_true; intros; reflexivity).
    unfold prov_index_of at 1 2 3. cbn [pi_proof pi_chunks].
    destruct up as [|x r].
    - rewrite present_no_ref. rewrite read_ref_to by apply Hlim. rewrite Hch. reflexivity.
    - rewrite present_ref_to. rewrite read_ref_to by apply Hlim.
      assert (Hpp : validate_prov_proof (prov_proof_of (x :: r)) = true) by (unfold validate_prov_proof, prov_proof_of; cbn [pp_updates]; apply forallb_map_true; intros; reflexivity).
      rewrite Hpp. rewrite read_ref_to by apply Hlim. rewrite Hch. reflexivity.
  Qed.

  Lemma counts_ok_files wp : counts_ok (files_of wp) = true.
  Proof.
    unfold counts_ok, files_of. cbn [bf_core bf_core_proof bf_prov core_index_of ci_recovers ci_deactivates ci_creates].
    apply andb_true_iff. split.
    - destruct (re ++ de); [reflexivity|]. unfold core_proof_of. cbn. rewrite !map_length, !Nat.eqb_refl. reflexivity.
    - destruct wp; [|reflexivity]. unfold prov_index_of, chunk_of. cbn [pi_updates ch_deltas].
      rewrite !map_length, !app_length. rewrite Nat.add_assoc, Nat.eqb_refl, andb_true_r.
      destruct up; [reflexivity|]. unfold prov_proof_of. cbn [pp_updates]. rewrite !map_length. apply Nat.eqb_refl.
  Qed.

  Lemma batch_files_read wp : get_batch_files L (core_index_of u wp cr re up de) = Some (files_of wp).
  Proof.
    unfold get_batch_files. cbn [ci_proof ci_prov core_index_of].
    assert (Hcp : (if present match re ++ de with [] => no_ref | _ => ref_to u (core_proof_of re de) end
                   then match read_ref L (l_proof L) match re ++ de with [] => no_ref | _ => ref_to u (core_proof_of re de) end with
                        | Some p => if validate_core_proof p then Some (Some p) else None
                        | None => None end
                   else Some None)
                  = Some match re ++ de with [] => None | _ => Some (core_proof_of re de) end).
    { destruct (re ++ de); [reflexivity|]. rewrite present_ref_to, read_ref_to by apply Hlim. rewrite core_proof_valid. reflexivity. }
    rewrite Hcp.
    destruct wp.
    - rewrite present_ref_to, prov_files_read. fold (files_of true). rewrite (counts_ok_files true). reflexivity.
    - rewrite present_no_ref. fold (files_of false). rewrite (counts_ok_files false). reflexivity.
  Qed.

  Hypothesis Hcr : forall o, In o cr -> bq_ty o = Create.
  Hypothesis Hre : forall o, In o re -> bq_ty o = Recover.
  Hypothesis Hup : forall o, In o up -> bq_ty o = Update.
  Hypothesis Hde : forall o, In o de -> bq_ty o = Deactivate.

  Lemma expect_zip t l : (forall o, In o l -> bq_ty o = t) -> t <> Create ->
    forall delta_of,
    (forall o, delta_of o = match t with Deactivate => 0 | _ => bq_delta o end) ->
    map (fun o => {| ro_ty := t; ro_sfx := bq_sfx o; ro_reveal := bq_reveal o; ro_signed := bq_signed o;
                     ro_delta := delta_of o; ro_sdata := 0; ro_origin := match t with Recover => bq_origin o | _ => 0 end |}) l
    = map expect l.
  Proof.
    intros Hl Hnc dof Hd. apply map_ext_in. intros o Ho. unfold expect. rewrite (Hl o Ho), Hd.
    destruct t; try congruence; reflexivity.
  Qed.

  Lemma assemble_files wp :
    (wp = false -> cr = [] /\ re = [] /\ up = []) ->
    assemble (files_of wp) = Some (map expect (cr ++ re ++ up ++ de)).
  Proof.
    intros Hwp. unfold assemble, files_of. cbn [bf_core bf_core_proof bf_prov core_index_of ci_creates ci_recovers ci_deactivates].
    rewrite !map_map. cbn [cc_sfx to_create_ref or_sfx to_op_ref].
    assert (Hnd3 : NoDup (map bq_sfx cr ++ map bq_sfx re ++ map bq_sfx de)).
    { rewrite !map_app in Hnd. rewrite app_assoc in Hnd. rewrite app_assoc. eapply NoDup_drop_middle. exact Hnd. }
    rewrite (nodup_has_dup _ Hnd3) by (intros ? ? []).
    assert (Hcp : (cp_deactivates match match re ++ de with [] => None | _ => Some (core_proof_of re de) end with
                                  | Some p => p | None => {| cp_recovers := []; cp_deactivates := [] |} end) = map to_proof de
                  /\ (cp_recovers match match re ++ de with [] => None | _ => Some (core_proof_of re de) end with
                                  | Some p => p | None => {| cp_recovers := []; cp_deactivates := [] |} end) = map to_proof re).
    { destruct re as [|r0 rr]; [destruct de as [|d0 dd]|]; cbn; auto. }
    destruct Hcp as [Hcd Hcr']. rewrite Hcd, Hcr'. rewrite !zip_ops_same.
    destruct wp.
    - assert (Hnd4 : NoDup ((map bq_sfx cr ++ map bq_sfx re ++ map bq_sfx de) ++ map bq_sfx up)).
      { rewrite !map_app in Hnd. eapply Permutation_NoDup; [|exact Hnd]. rewrite <- !app_assoc.
        apply Permutation_app_head. apply Permutation_app_head. apply Permutation_app_comm. }
      cbn [pi_updates prov_index_of]. rewrite (map_map to_op_ref or_sfx).
      match goal with |- context [has_dup [] ?l] =>
        assert (Hd : has_dup [] l = false) by (apply nodup_has_dup; [exact Hnd4 | intros ? ? []]); rewrite Hd end.
      assert (Hall : forallb pe_parse_ok (firstn (length (map to_op_ref re)) (map to_proof re)) = true).
      { apply forallb_forall. intros x Hx. apply firstn_incl in Hx. apply in_map_iff in Hx. destruct Hx as (? & <- & _). reflexivity. }
      rewrite Hall. cbn [negb].
      assert (Hpp : match match up with [] => None | _ => Some (prov_proof_of up) end with Some p => pp_updates p | None => [] end = map to_proof up)
        by (destruct up; reflexivity).
      rewrite Hpp, zip_ops_same. unfold chunk_of. cbn [ch_deltas].
      unfold create_ops. rewrite map_map. cbn [cc_sfx cc_sdata cc_origin to_create_ref].
      repeat rewrite ?app_length, ?map_length. rewrite Nat.eqb_refl. cbn [negb].
      rewrite !map_app.
      rewrite with_deltas_app by (rewrite !map_length; reflexivity).
      rewrite with_deltas_app by (rewrite !map_length; reflexivity).
      rewrite !with_deltas_same. cbn [ro_ty ro_sfx ro_reveal ro_signed ro_sdata ro_origin].
      rewrite <- !app_assoc. f_equal. f_equal; [|f_equal; [|f_equal]].
      + apply map_ext_in. intros o Ho. unfold expect. rewrite (Hcr o Ho). reflexivity.
      + apply (expect_zip Recover); [exact Hre | discriminate | reflexivity].
      + apply (expect_zip Update); [exact Hup | discriminate | reflexivity].
      + apply (expect_zip Deactivate); [exact Hde | discriminate | reflexivity].
    - destruct (Hwp eq_refl) as (-> & -> & ->). cbn [app map].
      f_equal. apply (expect_zip Deactivate); [exact Hde | discriminate | reflexivity].
  Qed.

  (* reading the prepared files back *)
  Theorem read_prepared wp n :
    (wp = false -> cr = [] /\ re = [] /\ up = []) ->
    n = length (cr ++ re ++ up ++ de) -> (0 < n)%nat ->
    get_txn_operations L (anchor_of u wp cr re up de n) = Some (map expect (cr ++ re ++ up ++ de)).
  Proof.
    intros Hwp Hn Hpos. unfold get_txn_operations, anchor_of. cbn [a_syntax_ok a_core a_count].
    destruct (0 <? Z.of_nat n) eqn:E; [|apply Z.ltb_ge in E; lia]. cbn [negb].
    rewrite read_served by apply Hlim. rewrite core_index_valid. cbn [negb].
    rewrite batch_files_read, (assemble_files wp Hwp). rewrite map_length, <- Hn, Z.eqb_refl. reflexivity.
  Qed.
End RT.

(* F16: PrepareTxnFiles on a batch whose operations have all expired *)
Lemma prepare_snd u ops : snd (prepare u ops) = parse_ops [] ops.
Proof. unfold prepare. cbv zeta. destruct (p_included (parse_ops [] ops)); reflexivity. Qed.

Lemma prepare_nonempty u ops :
  p_included (parse_ops [] ops) <> [] -> prepare u ops = (prepare_files u ops (parse_ops [] ops), parse_ops [] ops).
Proof. unfold prepare. cbv zeta. destruct (p_included (parse_ops [] ops)); [congruence | reflexivity]. Qed.

Lemma parse_ops_additional_behind : forall l seen o,
  In o (p_additional (parse_ops seen l)) ->
  In (bq_sfx o) seen \/ exists i, In i (p_included (parse_ops seen l)) /\ bq_sfx i = bq_sfx o.
Proof.
  induction l as [|h r IH]; intros seen o; cbn [parse_ops]; [intros []|].
  destruct (bq_expired h); cbn [p_included p_additional]; [apply IH|].
  destruct (memZ (bq_sfx h) seen) eqn:Em; cbn [p_included p_additional].
  - intros [<-|Hin]; [|apply IH; exact Hin]. left.
    clear -Em. induction seen as [|y s IHs]; cbn [memZ In] in *; [discriminate|].
    apply orb_true_iff in Em. destruct Em as [E|E]; [left; symmetry; apply Z.eqb_eq; exact E | right; apply IHs; exact E].
  - intros Hin. destruct (IH _ _ Hin) as [[Hs|Hs]|(i & Hi & Hs)].
    + right. exists h. split; [left; reflexivity | exact Hs].
    + left. exact Hs.
    + right. exists i. split; [right; exact Hi | exact Hs].
Qed.

(* nothing included (every operation expired) -> no file, no anchor string, nothing to read back, nothing deferred:
   the whole batch is in the expired list *)
Theorem prepare_all_expired L u ops :
  let a := fst (prepare u ops) in let p := snd (prepare u ops) in
  p_included p = [] ->
  a = no_anchor /\ a_count a = 0 /\ get_txn_operations L a = None /\ p_additional p = [] /\ Permutation ops (p_expired p).
Proof.
  cbv zeta. rewrite prepare_snd. intros Hi.
  assert (Ha : p_additional (parse_ops [] ops) = []).
  { destruct (p_additional (parse_ops [] ops)) as [|o r] eqn:Ea; [reflexivity|].
    destruct (parse_ops_additional_behind ops [] o) as [[]|(i & Hin & _)]; [rewrite Ea; left; reflexivity|].
    rewrite Hi in Hin. destruct Hin. }
  unfold prepare. cbv zeta. rewrite Hi. cbn [fst].
  split; [reflexivity|]. split; [reflexivity|]. split; [reflexivity|]. split; [exact Ha|].
  pose proof (parse_ops_perm ops []) as Hp. cbv zeta in Hp. rewrite Hi, Ha in Hp. exact Hp.
Qed.

(* MAIN: whatever is queued, the files written by PrepareTxnFiles read back as exactly the included
   operations - the first non-expired one per suffix - ordered create, recover, update, deactivate;
   the anchor count is their number; every queued operation is included, deferred or expired *)
Theorem roundtrip L u ops :
  0 < u <= l_uri_len L ->
  0 <= l_core_index L /\ 0 <= l_proof L /\ 0 <= l_prov_index L /\ 0 <= l_chunk L /\ 0 <= l_factor L ->
  Forall (valid_ref L) ops ->
  let a := fst (prepare u ops) in let p := snd (prepare u ops) in
  p_included p <> [] ->
  get_txn_operations L a = Some (map expect (read_back_order (p_included p))) /\
  a_count a = Z.of_nat (length (p_included p)) /\
  NoDup (map bq_sfx (p_included p)) /\
  Permutation ops (p_included p ++ p_additional p ++ p_expired p).
Proof.
  intros Hu Hlim Hvalid. cbv zeta. rewrite prepare_snd. intros Hne. rewrite (prepare_nonempty u ops Hne).
  unfold prepare_files. cbn [fst snd]. set (p := parse_ops [] ops) in *. set (inc := p_included p) in *.
  destruct (parse_ops_included ops []) as [Hnd Hin]. fold p in Hnd, Hin. fold inc in Hnd, Hin.
  split; [|split; [reflexivity | split; [exact Hnd | apply parse_ops_perm]]].
  assert (Hsub : forall t o, In o (of_type t inc) -> In o inc).
  { intros t o Ho. unfold of_type in Ho. apply filter_In in Ho. apply Ho. }
  unfold read_back_order. fold inc.
  apply read_prepared; try assumption.
  - apply Forall_forall. intros o Ho. rewrite Forall_forall in Hvalid. apply Hvalid. apply (Hin o).
    apply in_app_or in Ho. destruct Ho as [Ho|Ho]; [eapply Hsub; exact Ho|].
    apply in_app_or in Ho. destruct Ho as [Ho|Ho]; eapply Hsub; exact Ho.
  - eapply Permutation_NoDup; [|exact Hnd]. apply Permutation_map. apply of_type_partition.
  - intros o Ho. eapply of_type_ty. exact Ho.
  - intros o Ho. eapply of_type_ty. exact Ho.
  - intros o Ho. eapply of_type_ty. exact Ho.
  - intros o Ho. eapply of_type_ty. exact Ho.
  - (* no provisional files only when every queued operation is an included deactivate *)
    intros Hwp. apply negb_false_iff, Nat.eqb_eq in Hwp.
    assert (Hle : (length inc <= length ops)%nat).
    { pose proof (parse_ops_perm ops []) as Hp. fold p in Hp. cbn zeta in Hp. apply Permutation_length in Hp.
      rewrite !app_length in Hp. unfold inc. lia. }
    assert (Hde_all : of_type Deactivate inc = inc).
    { unfold of_type in *.
      assert (Hl : (length (filter (fun o => optype_eqb (bq_ty o) Deactivate) inc) = length inc)%nat).
      { pose proof (filter_len_le (fun o => optype_eqb (bq_ty o) Deactivate) inc). lia. }
      clear -Hl. induction inc as [|o r IH]; [reflexivity|]. cbn [filter] in *.
      destruct (optype_eqb (bq_ty o) Deactivate); cbn [length] in Hl.
      - f_equal. apply IH. lia.
      - pose proof (filter_len_le (fun o => optype_eqb (bq_ty o) Deactivate) r). lia. }
    assert (Hty : forall o, In o inc -> bq_ty o = Deactivate) by (intros o Ho; rewrite <- Hde_all in Ho; eapply of_type_ty; exact Ho).
    unfold of_type. repeat split; apply filter_none; intros o Ho; rewrite (Hty o Ho); reflexivity.
  - apply Permutation_length. apply of_type_partition.
  - clearbody inc. destruct inc; [congruence | cbn; lia].
Qed.
