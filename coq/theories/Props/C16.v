(* C16 - The batch writer anchors every accepted operation exactly once.
   Writer/Machine.v models Writer.processAvailable + BatchCutter.Cut + MemQueue at the granularity
   of one queue / handler / anchor-writer call per event; client Adds are events too, so a list of
   events is an interleaving, and EPrepare false / EAnchor false are the fault placements.  The
   theorems quantify over every event list. *)
From Coq Require Import List ZArith Bool Arith Permutation.
From SV Require Import Parser.Protocol Writer.Machine Writer.Invariants Gen.Kernels GenTie.Cutter.
Import ListNotations.
Local Open Scope Z_scope.

(* none lost: every accepted operation is in the queue, in flight, anchored or discarded as
   expired - exactly once *)
Theorem C16_conservation : forall max q es,
  let s := run max (init q) es in
  Permutation (ids (accepted s)) (ids (queue s ++ inflight (wpc s) ++ anchored_ops s ++ discarded s)).
Proof. exact conservation. Qed.
Print Assumptions C16_conservation.

(* none duplicated: with distinct submissions no operation is anchored twice, and an anchored
   operation is nowhere else *)
Theorem C16_exactly_once : forall max q es,
  let s := run max (init q) es in
  NoDup (ids (accepted s)) ->
  NoDup (ids (anchored_ops s)) /\ incl (ids (anchored_ops s)) (ids (accepted s)) /\
  (forall i, In i (ids (anchored_ops s)) ->
     ~ In i (ids (queue s)) /\ ~ In i (ids (inflight (wpc s))) /\ ~ In i (ids (discarded s))).
Proof. exact exactly_once. Qed.
Print Assumptions C16_exactly_once.

(* the handler's split: every operation of a batch is included, deferred or expired, exactly once;
   one operation per suffix is included *)
Theorem C16_batch_accounting : forall f l seen,
  let sp := split_batch f seen l in
  Permutation l (included sp ++ additional sp ++ expired_ops sp).
Proof. exact split_batch_perm. Qed.
Print Assumptions C16_batch_accounting.

(* no batch exceeds the maximum, mixes protocol versions or carries two operations of one DID; a
   batch smaller than the maximum was cut on batch timeout or at a protocol-version boundary *)
Theorem C16_batch_shape : forall max q es,
  let s := run max (init q) es in
  Forall (fun b => (length (ab_removed b) <= max)%nat /\
                   Forall (fun o => q_ver o = ab_ver b) (ab_removed b) /\
                   incl (ab_included b) (ab_removed b) /\ NoDup (map q_sfx (ab_included b)) /\
                   ((length (ab_removed b) < max)%nat -> ab_forced b = true \/ ab_boundary b = true))
         (anchored s).
Proof. exact batch_shape. Qed.
Print Assumptions C16_batch_shape.

(* FIFO: operations leave at the head; a failed batch returns to the head in its original order;
   submissions go to the tail *)
Theorem C16_remove_takes_head : forall max s tf cf n ver,
  wpc s = AtRemove tf cf n ver ->
  let s' := wstep max s ERemove in
  exists batch, wpc s' = AtPrepare tf cf batch ver /\ queue s = batch ++ queue s'.
Proof. exact remove_takes_head. Qed.
Print Assumptions C16_remove_takes_head.

Theorem C16_failed_batch_returns_to_head : forall max s tf cf batch,
  wpc s = AtNack tf cf batch ->
  let s' := wstep max s ENack in queue s' = batch ++ queue s /\ wpc s' = Idle.
Proof. exact nack_restores_head. Qed.
Print Assumptions C16_failed_batch_returns_to_head.

Theorem C16_submission_appends : forall max s o,
  let s' := wstep max s (EAdd o) in
  queue s' = queue s ++ [o] /\ wpc s' = wpc s /\ anchored s' = anchored s.
Proof. exact add_appends. Qed.
Print Assumptions C16_submission_appends.

(* the cutter's arithmetic in the source (re-translated on every run) is the model's *)
Theorem C16_code_cut_guard : forall p force (pending max : nat),
  gen_cutter_cutGuard p force (Z.of_nat pending) (Z.of_nat max) = negb force && (pending <? max)%nat.
Proof. exact cutter_cutGuard_tie. Qed.
Print Assumptions C16_code_cut_guard.

Theorem C16_code_batch_size : forall p (pending max : nat),
  gen_cutter_batchSize p (Z.of_nat pending) (Z.of_nat max) = Z.of_nat (Nat.min pending max)
  /\ gen_cutter_maxOps p = MaxOperationCount p.
Proof. exact (fun p a b => conj (cutter_batchSize_tie p a b) (cutter_maxOps_tie p)). Qed.
Print Assumptions C16_code_batch_size.
