(* C16 - The batch writer anchors every accepted operation exactly once.
   Writer/Machine.v models Writer.processAvailable + BatchCutter.Cut + MemQueue at the granularity
   of one queue / handler / anchor-writer call per event; client Adds are events too, so a list of
   events is an interleaving, and EPrepare false / EAnchor false are the fault placements.  The
   theorems quantify over every event list. *)
From Coq Require Import List ZArith Bool Arith Permutation.
From SV Require Import Parser.Protocol Writer.Machine Writer.Invariants Writer.LivenessLemmas Writer.Liveness Gen.Kernels GenTie.Cutter.
Import ListNotations.
Local Open Scope Z_scope.

(* none lost: every accepted operation is in the queue, in flight, anchored or discarded as
   expired - exactly once *)
Theorem C16_conservation : forall max q es,
  let s := run max (init q) es in
  Permutation (ids (accepted s)) (ids (queue s ++ inflight (wpc s) ++ anchored_ops s ++ discarded s)).
Proof. exact conservation. Qed.
Print Assumptions C16_conservation.

(* none duplicated: with distinct submissions no operation is anchored twice, and an anchored
   operation is nowhere else *)
Theorem C16_exactly_once : forall max q es,
  let s := run max (init q) es in
  NoDup (ids (accepted s)) ->
  NoDup (ids (anchored_ops s)) /\ incl (ids (anchored_ops s)) (ids (accepted s)) /\
  (forall i, In i (ids (anchored_ops s)) ->
     ~ In i (ids (queue s)) /\ ~ In i (ids (inflight (wpc s))) /\ ~ In i (ids (discarded s))).
Proof. exact exactly_once. Qed.
Print Assumptions C16_exactly_once.

(* the handler's split: every operation of a batch is included, deferred or expired, exactly once;
   one operation per suffix is included *)
Theorem C16_batch_accounting : forall f l seen,
  let sp := split_batch f seen l in
  Permutation l (included sp ++ additional sp ++ expired_ops sp).
Proof. exact split_batch_perm. Qed.
Print Assumptions C16_batch_accounting.

(* no batch exceeds the maximum, mixes protocol versions or carries two operations of one DID; a
   batch smaller than the maximum was cut on batch timeout or at a protocol-version boundary *)
Theorem C16_batch_shape : forall max q es,
  let s := run max (init q) es in
  Forall (fun b => (length (ab_removed b) <= max)%nat /\
                   Forall (fun o => q_ver o = ab_ver b) (ab_removed b) /\
                   incl (ab_included b) (ab_removed b) /\ NoDup (map q_sfx (ab_included b)) /\
                   ((length (ab_removed b) < max)%nat -> ab_forced b = true \/ ab_boundary b = true))
         (anchored s).
Proof. exact batch_shape. Qed.
Print Assumptions C16_batch_shape.

(* F16: an anchor is written only for a batch with at least one included operation: a batch whose operations have all
   expired is committed without an anchor write (the handler returns no anchor string) *)
Theorem C16_no_empty_anchor : forall max q es,
  let s := run max (init q) es in Forall (fun b => ab_included b <> []) (anchored s).
Proof. exact anchored_nonempty. Qed.
Print Assumptions C16_no_empty_anchor.

Theorem C16_all_expired_split_defers_nothing : forall f l,
  included (split_batch f [] l) = [] -> additional (split_batch f [] l) = [].
Proof. exact split_batch_included_nil_additional_nil. Qed.
Print Assumptions C16_all_expired_split_defers_nothing.

(* FIFO: operations leave at the head; a failed batch returns to the head in its original order;
   submissions go to the tail *)
Theorem C16_remove_takes_head : forall max s tf cf n ver,
  wpc s = AtRemove tf cf n ver ->
  let s' := wstep max s ERemove in
  exists batch, wpc s' = AtPrepare tf cf batch ver /\ queue s = batch ++ queue s'.
Proof. exact remove_takes_head. Qed.
Print Assumptions C16_remove_takes_head.

Theorem C16_failed_batch_returns_to_head : forall max s tf cf batch,
  wpc s = AtNack tf cf batch ->
  let s' := wstep max s ENack in queue s' = batch ++ queue s /\ wpc s' = Idle.
Proof. exact nack_restores_head. Qed.
Print Assumptions C16_failed_batch_returns_to_head.

Theorem C16_submission_appends : forall max s o,
  let s' := wstep max s (EAdd o) in
  queue s' = queue s ++ [o] /\ wpc s' = wpc s /\ anchored s' = anchored s.
Proof. exact add_appends. Qed.
Print Assumptions C16_submission_appends.

(* the cutter's arithmetic in the source (re-translated on every run) is the model's *)
Theorem C16_code_cut_guard : forall p force (pending max : nat),
  gen_cutter_cutGuard p force (Z.of_nat max) (Z.of_nat pending) = negb force && (pending <? max)%nat.
Proof. exact cutter_cutGuard_tie. Qed.
Print Assumptions C16_code_cut_guard.

Theorem C16_code_batch_size : forall p (pending max : nat),
  gen_cutter_batchSize p (Z.of_nat max) (Z.of_nat pending) = Z.of_nat (Nat.min pending max)
  /\ gen_cutter_maxOps p = MaxOperationCount p.
Proof. exact (fun p a b => conj (cutter_batchSize_tie p a b) (cutter_maxOps_tie p)). Qed.
Print Assumptions C16_code_batch_size.

Local Close Scope Z_scope.

(* PROGRESS (ends up in exactly one anchored batch).  The writer thread has exactly one enabled event in every state: its continuation is determined *)
Theorem C16_writer_thread_is_deterministic :
  forall (max : nat) (o : oracle) (s : wstate) (e : event),
         stuck s = false ->
         (forall a : qop, e <> EAdd a) ->
         stuck (wstep max s e) = false ->
         match next_ev o s with
         | Some e' => same_kind e e' = true
         | None => exists f : bool, e = ETick f
         end.
Proof. exact next_ev_is_the_enabled_event. Qed.
Print Assumptions C16_writer_thread_is_deterministic.

(* from every reachable state, whatever the handler and the anchor writer answer, the tick in progress returns to Idle *)
Theorem C16_tick_always_completes :
  forall (max : nat) (o : oracle) (q : list qop) (es : list event),
         let s := run max (init q) es in
         let s' := run max (init q) (es ++ finish_events max o s) in
         wpc s' = Idle /\ stuck s' = stuck s /\ accepted s' = accepted s /\ work s' <= work s.
Proof. exact thread_finishes. Qed.
Print Assumptions C16_tick_always_completes.

(* a failure-free tick that is forced (batch timeout) or finds a full batch strictly shrinks the queue (measured after the deferred operations were re-queued) and settles at least one operation *)
Theorem C16_tick_progress :
  forall (max : nat) (o : oracle) (f : bool) (q : list qop) (es : list event),
         let s := run max (init q) es in
         0 < max ->
         failure_free o ->
         wpc s = Idle ->
         queue s <> [] ->
         f = true \/ max <= Datatypes.length (queue s) ->
         let s' := run max (init q) (es ++ tick_events max o f s) in
         wpc s' = Idle /\
         stuck s' = stuck s /\
         accepted s' = accepted s /\
         Datatypes.length (queue s') < Datatypes.length (queue s) /\ settled s < settled s'.
Proof. exact tick_progress. Qed.
Print Assumptions C16_tick_progress.

(* a tick whose cuts all fail (handler failure, or anchor-write failure for a batch that is not entirely expired - an
   entirely expired batch is committed without an anchor write since F16) leaves queue, anchored batches and discarded
   operations exactly as they were *)
Theorem C16_failed_tick_is_transparent :
  forall (max : nat) (o : oracle) (f : bool) (q : list qop) (es : list event),
         let s := run max (init q) es in
         cut_fails o ->
         wpc s = Idle ->
         let s' := run max (init q) (es ++ tick_events max o f s) in
         queue s' = queue s /\
         anchored s' = anchored s /\
         discarded s' = discarded s /\
         wpc s' = Idle /\ stuck s' = stuck s /\ accepted s' = accepted s.
Proof. exact failed_tick_transparent. Qed.
Print Assumptions C16_failed_tick_is_transparent.

(* from ANY reachable state (mid-tick, client submissions anywhere before), finishing the tick and then as many failure-free batch timeouts as there are pending operations empties the queue, and every accepted operation is then in exactly one anchored batch or discarded as expired *)
Theorem C16_every_accepted_operation_is_eventually_anchored :
  forall (max : nat) (q : list qop) (es : list event) (o0 : oracle) (os : list oracle),
         let s := run max (init q) es in
         let s1 := run max s (finish_events max o0 s) in
         0 < max ->
         Forall failure_free os ->
         work s <= Datatypes.length os ->
         all_settled s (run max (init q) (es ++ finish_events max o0 s ++ drain_events max os s1)).
Proof. exact drain_from_anywhere. Qed.
Print Assumptions C16_every_accepted_operation_is_eventually_anchored.

(* the number of operations ever accepted bounds the number of batch timeouts needed *)
Theorem C16_drain_bound_is_the_number_accepted :
  forall (max : nat) (q : list qop) (es : list event) (o0 : oracle) (os : list oracle),
         let s := run max (init q) es in
         let s1 := run max s (finish_events max o0 s) in
         0 < max ->
         Forall failure_free os ->
         Datatypes.length (accepted s) <= Datatypes.length os ->
         all_settled s (run max (init q) (es ++ finish_events max o0 s ++ drain_events max os s1)).
Proof. exact drain_bound_accepted. Qed.
Print Assumptions C16_drain_bound_is_the_number_accepted.

(* any finite prefix of failing ticks followed by failure-free batch timeouts still drains *)
Theorem C16_failures_only_delay :
  forall (max : nat) (q : list qop) (es : list event) (pre : list (oracle * bool))
           (os : list oracle),
         let s := run max (init q) es in
         let s1 := run max s (ticks_events max pre s) in
         0 < max ->
         Forall failure_free os ->
         wpc s = Idle ->
         Datatypes.length (queue s) <= Datatypes.length os ->
         all_settled s (run max (init q) (es ++ ticks_events max pre s ++ drain_events max os s1)).
Proof. exact drain_after_failures. Qed.
Print Assumptions C16_failures_only_delay.

(* the hypotheses are needed: monitor ticks never cut an undersized batch (this is also the property's last clause) *)
Theorem C16_only_timeouts_or_full_batches_drain :
  forall (max : nat) (q : list qop) (es : list event) (os : list oracle),
         let s := run max (init q) es in
         wpc s = Idle ->
         Datatypes.length (queue s) < max ->
         let s' := run max (init q) (es ++ ticks_events max (unforced os) s) in
         queue s' = queue s /\ anchored s' = anchored s /\ discarded s' = discarded s.
Proof. exact unforced_never_drains. Qed.
Print Assumptions C16_only_timeouts_or_full_batches_drain.

(* and a handler / anchor writer that always fails (no batch found entirely expired) keeps every operation queued (nothing is skipped, nothing is lost) *)
Theorem C16_persistent_failure_blocks :
  forall (max : nat) (q : list qop) (es : list event) (l : list (oracle * bool)),
         let s := run max (init q) es in
         wpc s = Idle ->
         Forall (fun of : oracle * bool => cut_fails (fst of)) l ->
         let s' := run max (init q) (es ++ ticks_events max l s) in
         queue s' = queue s /\ anchored s' = anchored s /\ discarded s' = discarded s.
Proof. exact failing_never_drains. Qed.
Print Assumptions C16_persistent_failure_blocks.

(* F16: after a successful prepare the thread writes an anchor iff the handler included an operation; a batch found
   entirely expired goes straight to Ack with its operations discarded *)
Theorem C16_all_expired_batch_is_committed_without_anchor :
  forall (max : nat) (o : oracle) (s : wstate) (tf cf : bool) (b : list qop) (ver : Z),
         wpc s = AtPrepare tf cf b ver ->
         o_ok o s = true ->
         let s' := wstep max s (EPrepare (o_ok o s) (o_expired o s)) in
         match included (split_batch (fun i : Z => memZ i (o_expired o s)) [] b) with
         | [] =>
             next_ev o s' = Some EAck /\
             anchored s' = anchored s /\ Permutation (discarded s') (discarded s ++ b)
         | _ :: _ =>
             next_ev o s' = Some (EAnchor (o_ok o s')) /\
             anchored s' = anchored s /\ discarded s' = discarded s
         end.
Proof. exact no_anchor_event_after_all_expired_prepare. Qed.
Print Assumptions C16_all_expired_batch_is_committed_without_anchor.

(* the anchor writer being down is not enough for "nothing changes" *)
Theorem C16_anchor_failure_alone_is_not_enough :
  ~ (forall (max : nat) (o : oracle) (f : bool) (q : list qop) (es : list event),
       let s := run max (init q) es in
       (forall s0, match wpc s0 with AtAnchor _ _ _ _ _ => o_ok o s0 = false | _ => True end) -> wpc s = Idle ->
       discarded (run max (init q) (es ++ tick_events max o f s)) = discarded s).
Proof. exact anchor_failure_alone_is_not_enough. Qed.
Print Assumptions C16_anchor_failure_alone_is_not_enough.
