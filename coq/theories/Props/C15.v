(* C15 - Transactions store one stamped operation per DID, all-or-nothing. *)
From Coq Require Import List ZArith Bool.
From SV Require Import Resolve.Op Batch.Files Batch.TxnProc Batch.TxnProofs.
Import ListNotations.
Local Open Scope Z_scope.

Theorem C15_txn_store_effect : forall store put_ok del_ok t store' res,
  process_txn store put_ok del_ok t = (store', res) ->
  (store' = store \/
   exists ops, tx_ops t = Some ops /\ put_ok = true /\
     store' = store ++ map (stamp t) (first_per_suffix [] ops) /\
     NoDup (map ro_sfx (first_per_suffix [] ops))) /\
  (tx_ops t = None \/ put_ok = false -> store' = store /\ res = PErr) /\
  (forall n, res = POk n -> exists ops, tx_ops t = Some ops /\ store' = store ++ map (stamp t) (first_per_suffix [] ops)
                                        /\ n = length (first_per_suffix [] ops)).
Proof. exact txn_store_effect. Qed.
Print Assumptions C15_txn_store_effect.

(* every stored operation carries the transaction's time, number, protocol version and canonical /
   equivalent references *)
Theorem C15_stamped : forall t o,
  let s := stamp t o in
  so_time s = tx_time t /\ so_num s = tx_num t /\ so_pver s = tx_pver t /\ so_cref s = tx_cref t /\ so_eqv s = tx_eqv t
  /\ so_ty s = ro_ty o /\ so_sfx s = ro_sfx o /\ so_req s = o.
Proof. exact stamped_fields. Qed.
Print Assumptions C15_stamped.

Theorem C15_one_operation_per_suffix : forall l seen,
  NoDup (map ro_sfx (first_per_suffix seen l)) /\
  (forall o, In o (first_per_suffix seen l) -> ~ In (ro_sfx o) seen /\ In o l).
Proof. exact first_per_suffix_nodup. Qed.
Print Assumptions C15_one_operation_per_suffix.

(* observer: per-transaction isolation *)
Theorem C15_observer_processes_one_after_the_other : forall store t put_ok del_ok rest,
  observe store ((t, put_ok, del_ok) :: rest) = observe (observe_one store put_ok del_ok t) rest.
Proof. exact observer_isolation. Qed.
Print Assumptions C15_observer_processes_one_after_the_other.

Theorem C15_failing_transaction_contributes_nothing : forall store t put_ok del_ok,
  tx_ns_ok t = false \/ tx_version_ok t = false \/ tx_ops t = None \/ put_ok = false ->
  observe_one store put_ok del_ok t = store.
Proof. exact failing_txn_contributes_nothing. Qed.
Print Assumptions C15_failing_transaction_contributes_nothing.

Theorem C15_store_only_grows : forall store txns, exists added, observe store txns = store ++ added.
Proof. exact observe_extends. Qed.
Print Assumptions C15_store_only_grows.

(* intake: a refused or failed submission leaves no trace in queue or unpublished store *)
Theorem C15_intake_no_trace : forall s r s',
  process_operation s r = (s', false) -> ~ In (ir_id r) (i_unpub s) ->
  i_queue s' = i_queue s /\ i_unpub s' = i_unpub s.
Proof. exact intake_no_trace. Qed.
Print Assumptions C15_intake_no_trace.

Theorem C15_intake_accept_effect : forall s r s',
  process_operation s r = (s', true) ->
  ir_accepted r = true /\ ir_add_ok r = true /\ i_queue s' = i_queue s ++ [ir_id r] /\
  i_unpub s' = if ir_unpub_type r then i_unpub s ++ [ir_id r] else i_unpub s.
Proof. exact intake_accept_effect. Qed.
Print Assumptions C15_intake_accept_effect.
