(* C15 - Transactions store one stamped operation per DID, all-or-nothing. *)
From Coq Require Import List ZArith Bool.
From SV Require Import Resolve.Op Batch.Files Batch.TxnProc Batch.TxnProofs.
Import ListNotations.
Local Open Scope Z_scope.

Theorem C15_txn_store_effect : forall store put_ok del_ok t store' res,
  process_txn store put_ok del_ok t = (store', res) ->
  (store' = store \/
   exists ops, tx_ops t = Some ops /\ put_ok = true /\
     store' = store ++ map (stamp t) (first_per_suffix [] ops) /\
     NoDup (map ro_sfx (first_per_suffix [] ops))) /\
  (tx_ops t = None \/ put_ok = false -> store' = store /\ res = PErr) /\
  (forall n, res = POk n -> exists ops, tx_ops t = Some ops /\ store' = store ++ map (stamp t) (first_per_suffix [] ops)
                                        /\ n = length (first_per_suffix [] ops)).
Proof. exact txn_store_effect. Qed.
Print Assumptions C15_txn_store_effect.

(* every stored operation carries the transaction's time, number, protocol version and canonical /
   equivalent references *)
Theorem C15_stamped : forall t o,
  let s := stamp t o in
  so_time s = tx_time t /\ so_num s = tx_num t /\ so_pver s = tx_pver t /\ so_cref s = tx_cref t /\ so_eqv s = tx_eqv t
  /\ so_ty s = ro_ty o /\ so_sfx s = ro_sfx o /\ so_req s = o.
Proof. exact stamped_fields. Qed.
Print Assumptions C15_stamped.

Theorem C15_one_operation_per_suffix : forall l seen,
  NoDup (map ro_sfx (first_per_suffix seen l)) /\
  (forall o, In o (first_per_suffix seen l) -> ~ In (ro_sfx o) seen /\ In o l).
Proof. exact first_per_suffix_nodup. Qed.
Print Assumptions C15_one_operation_per_suffix.

(* observer: per-transaction isolation *)
Theorem C15_observer_processes_one_after_the_other : forall store t put_ok del_ok rest,
  observe store ((t, put_ok, del_ok) :: rest) = observe (observe_one store put_ok del_ok t) rest.
Proof. exact observer_isolation. Qed.
Print Assumptions C15_observer_processes_one_after_the_other.

Theorem C15_failing_transaction_contributes_nothing : forall store t put_ok del_ok,
  tx_ns_ok t = false \/ tx_version_ok t = false \/ tx_ops t = None \/ put_ok = false ->
  observe_one store put_ok del_ok t = store.
Proof. exact failing_txn_contributes_nothing. Qed.
Print Assumptions C15_failing_transaction_contributes_nothing.

Theorem C15_store_only_grows : forall store txns, exists added, observe store txns = store ++ added.
Proof. exact observe_extends. Qed.
Print Assumptions C15_store_only_grows.

(* intake: a refused or failed submission leaves no trace in queue or unpublished store *)
Theorem C15_intake_no_trace : forall s r s',
  process_operation s r = (s', false) -> ~ In (ir_id r) (i_unpub s) ->
  i_queue s' = i_queue s /\ i_unpub s' = i_unpub s.
Proof. exact intake_no_trace. Qed.
Print Assumptions C15_intake_no_trace.

Theorem C15_intake_accept_effect : forall s r s',
  process_operation s r = (s', true) ->
  ir_accepted r = true /\ ir_add_ok r = true /\ i_queue s' = i_queue s ++ [ir_id r] /\
  i_unpub s' = if ir_unpub_type r then i_unpub s ++ [ir_id r] else i_unpub s.
Proof. exact intake_accept_effect. Qed.
Print Assumptions C15_intake_accept_effect.

From SV Require Import Resolve.Op Batch.Files Batch.TxnProc Batch.TxnProofs Batch.TxnIsolation.
Local Close Scope Z_scope.

(* the observer's effect on the store: the initial store followed by the contribution of each transaction, in order *)
Theorem C15_observer_closed_form :
  forall (txns : list (stxn * bool * bool)) (store : list sop),
         observe store txns = store ++ concat (map contribution txns).
Proof. exact observe_closed_form. Qed.
Print Assumptions C15_observer_closed_form.

(* a failing transaction (no protocol client, no protocol version, operations unreadable, Put fails) can be removed from the list, at any position, from any store *)
Theorem C15_failing_txn_removable :
  forall (store : list sop) (l1 : list entry) (e : entry) (l2 : list entry),
         failing e -> observe store (l1 ++ e :: l2) = observe store (l1 ++ l2).
Proof. exact failing_txn_removable. Qed.
Print Assumptions C15_failing_txn_removable.

(* exactly the failing and the empty transactions can be removed *)
Theorem C15_removable_iff_no_contribution :
  forall (store : list sop) (l1 : list (stxn * bool * bool)) (e : stxn * bool * bool)
           (l2 : list (stxn * bool * bool)),
         observe store (l1 ++ e :: l2) = observe store (l1 ++ l2) <->
         failing e \/ tx_ops (e_txn e) = Some [].
Proof. exact removable_iff_no_contribution. Qed.
Print Assumptions C15_removable_iff_no_contribution.

(* the transactions after a failing one are processed from the store the earlier ones left *)
Theorem C15_later_txns_proceed :
  forall (store : list sop) (l1 : list entry) (e : entry) (l2 : list entry),
         failing e -> observe store (l1 ++ e :: l2) = observe (observe store l1) l2.
Proof. exact later_txns_proceed. Qed.
Print Assumptions C15_later_txns_proceed.

(* all failing transactions at once *)
Theorem C15_failing_txns_filtered :
  forall (txns : list (stxn * bool * bool)) (store : list sop),
         observe store txns = observe store (filter (fun e : entry => negb (failingb e)) txns).
Proof. exact failing_txns_filtered. Qed.
Print Assumptions C15_failing_txns_filtered.

(* along the list the store only grows at its end *)
Theorem C15_store_grows_along_list :
  forall (store : list sop) (l1 l2 : list (stxn * bool * bool)),
         exists added : list sop, observe store (l1 ++ l2) = observe store l1 ++ added.
Proof. exact observe_grows. Qed.
Print Assumptions C15_store_grows_along_list.

(* every stored operation was there before or is an operation of a NON-failing transaction of the list and carries its coordinates *)
Theorem C15_stored_op_origin :
  forall (store : list sop) (txns : list (stxn * bool * bool)) (s : sop),
         In s (observe store txns) ->
         In s store \/
         (exists (e : stxn * bool * bool) (ops : list rop) (o : rop),
            In e txns /\
            ~ failing e /\
            tx_ops (e_txn e) = Some ops /\
            In o ops /\
            In o (first_per_suffix [] ops) /\
            so_req s = o /\
            so_ty s = ro_ty o /\
            so_sfx s = ro_sfx o /\
            so_time s = tx_time (e_txn e) /\
            so_num s = tx_num (e_txn e) /\
            so_pver s = tx_pver (e_txn e) /\
            so_cref s = tx_cref (e_txn e) /\ so_eqv s = tx_eqv (e_txn e)).
Proof. exact stored_op_origin. Qed.
Print Assumptions C15_stored_op_origin.

(* every kept operation of a non-failing transaction is stored *)
Theorem C15_non_failing_txn_stored :
  forall (store : list sop) (txns : list entry) (e : entry) (ops : list rop) (o : rop),
         In e txns ->
         ~ failing e ->
         tx_ops (e_txn e) = Some ops ->
         In o (first_per_suffix [] ops) -> In (stamp (e_txn e) o) (observe store txns).
Proof. exact non_failing_txn_stored. Qed.
Print Assumptions C15_non_failing_txn_stored.

(* from the empty store: at most one stored operation per (suffix, transaction time, number) when the coordinates of the non-failing transactions are distinct *)
Theorem C15_one_op_per_suffix_and_txn :
  forall txns : list entry,
         NoDup (map coord (filter (fun e : entry => negb (failingb e)) txns)) ->
         NoDup (map op_key (observe [] txns)).
Proof. exact one_op_per_suffix_and_txn. Qed.
Print Assumptions C15_one_op_per_suffix_and_txn.

(* the same under pairwise distinct coordinates of all transactions *)
Theorem C15_one_op_per_suffix_and_txn_all :
  forall txns : list entry, NoDup (map coord txns) -> NoDup (map op_key (observe [] txns)).
Proof. exact one_op_per_suffix_and_txn_all. Qed.
Print Assumptions C15_one_op_per_suffix_and_txn_all.
