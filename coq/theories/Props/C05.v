(* C05 - Operations take effect only inside their signed anchoring-time window.
   Property theorems only; each is closed by [exact] and followed by Print Assumptions. *)
From Coq Require Import List ZArith Bool String.
From SV Require Import Parser.Protocol Parser.Window Parser.WindowProofs Resolve.Op Resolve.Apply
  Resolve.WindowEffects Gen.Kernels GenTie.Window.
Import ListNotations.
Local Open Scope Z_scope.

(* anchorFrom <= anchoring time <= anchorUntil, a missing anchorUntil defaulting to
   anchorFrom + MaxOperationTimeDelta; declaring neither is always in window *)
Theorem C05_window_exact : forall d f u a,
  in_window d f u a = true <-> (f = 0 /\ u = 0) \/ (f <= a /\ a <= eff_until d f u).
Proof. exact in_window_spec. Qed.
Print Assumptions C05_window_exact.

Theorem C05_default_until : forall d f a,
  f <> 0 -> (in_window d f 0 a = true <-> f <= a <= f + d).
Proof. exact in_window_default. Qed.
Print Assumptions C05_default_until.

Theorem C05_explicit_until : forall d f u a,
  u <> 0 -> (in_window d f u a = true <-> f <= a <= u).
Proof. exact in_window_explicit. Qed.
Print Assumptions C05_explicit_until.

Theorem C05_no_window_always_in : forall d a, in_window d 0 0 a = true.
Proof. exact in_window_none. Qed.
Print Assumptions C05_no_window_always_in.

(* the code's own window test (translated from operationapplier on every run) is that function of
   MaxOperationTimeDelta, and of no other protocol parameter *)
Theorem C05_code_window_is_model : forall p f u a,
  small (MaxOperationTimeDelta p) -> small a ->
  gen_applier_verifyAnchoringTimeRange p f u a = in_window (MaxOperationTimeDelta p) f u a.
Proof. exact applier_verify_tie. Qed.
Print Assumptions C05_code_window_is_model.

(* intake hands the same effective window to the server-time validator *)
Theorem C05_intake_same_window : forall p f u,
  small (MaxOperationTimeDelta p) ->
  gen_parser_getAnchorUntil p f u = eff_until (MaxOperationTimeDelta p) f u
  /\ gen_parser_getAnchorUntil p f u = gen_applier_getAnchorUntil p f u.
Proof.
  exact (fun p f u H => conj (parser_getAnchorUntil_tie p f u H)
           (eq_trans (parser_getAnchorUntil_tie p f u H) (eq_sym (applier_getAnchorUntil_tie p f u H)))).
Qed.
Print Assumptions C05_intake_same_window.

(* outside the window an update still consumes its commitment but leaves the document alone *)
Theorem C05_update_outside : forall o s s',
  ty o = Update -> apply o s = Some s' -> op_in_window o = false ->
  doc s' = doc s /\ upd s' = upd_c o /\ rec s' = rec s /\ deact s' = false.
Proof. exact update_outside. Qed.
Print Assumptions C05_update_outside.

Theorem C05_update_accepted_regardless_of_window : forall o s,
  ty o = Update ->
  (apply o s <> None <->
   doc s <> None /\ mdelta o <> None /\ parse_ok o = true /\ dhash_ok o = true /\ sig_ok o = true /\ dvalid o = true).
Proof. exact update_accept_window_free. Qed.
Print Assumptions C05_update_accepted_regardless_of_window.

Theorem C05_update_inside : forall o s s' d,
  ty o = Update -> apply o s = Some s' -> op_in_window o = true -> patch_ok o = true -> doc s = Some d ->
  doc s' = Some (add_content d (delta o)) /\ upd s' = upd_c o /\ rec s' = rec s.
Proof. exact update_inside. Qed.
Print Assumptions C05_update_inside.

(* outside the window a recover consumes its commitment and does not populate the document *)
Theorem C05_recover_outside : forall o s s',
  ty o = Recover -> apply o s = Some s' -> op_in_window o = false ->
  doc s' = Some [] /\ rec s' = rec_c o /\ deact s' = false /\
  (dhash_ok o = true -> dvalid o = true -> upd s' = upd_c o).
Proof. exact recover_outside. Qed.
Print Assumptions C05_recover_outside.

Theorem C05_recover_inside : forall o s s',
  ty o = Recover -> apply o s = Some s' -> op_in_window o = true ->
  dhash_ok o = true -> dvalid o = true -> patch_ok o = true ->
  doc s' = Some [delta o] /\ rec s' = rec_c o /\ upd s' = upd_c o.
Proof. exact recover_inside. Qed.
Print Assumptions C05_recover_inside.

(* outside the window a deactivate is ignored; when it applies it was inside *)
Theorem C05_deactivate_outside_ignored : forall o s,
  ty o = Deactivate -> op_in_window o = false -> apply o s = None.
Proof. exact deactivate_outside. Qed.
Print Assumptions C05_deactivate_outside_ignored.

Theorem C05_deactivate_applied_inside : forall o s s',
  ty o = Deactivate -> apply o s = Some s' ->
  op_in_window o = true /\ deact s' = true /\ doc s' = Some [] /\ upd s' = 0 /\ rec s' = 0.
Proof. exact deactivate_inside. Qed.
Print Assumptions C05_deactivate_applied_inside.

(* the window an operation is tested against *)
Theorem C05_operation_window : forall o d,
  mdelta o = Some d ->
  (op_in_window o = true <->
   (a_from o = 0 /\ a_until o = 0) \/ (a_from o <= time o /\ time o <= eff_until d (a_from o) (a_until o))).
Proof. exact op_in_window_spec. Qed.
Print Assumptions C05_operation_window.

(* the only protocol parameter the window kernels read is MaxOperationTimeDelta *)
Theorem C05_window_parameter_table :
  map (fun k => (k, GenTie.Table.assoc_params k))
      ["applier_getAnchorUntil"; "applier_verifyAnchoringTimeRange"; "parser_getAnchorUntil"]%string
  = [("applier_getAnchorUntil", ["MaxOperationTimeDelta"]); ("applier_verifyAnchoringTimeRange", []);
     ("parser_getAnchorUntil", ["MaxOperationTimeDelta"])]%string.
Proof. exact window_param_table. Qed.
Print Assumptions C05_window_parameter_table.
