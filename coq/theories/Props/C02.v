(* C02 - Earliest anchored valid operation wins; resolution ignores storage order. *)
From Coq Require Import List ZArith Bool Permutation Sorted.
From SV Require Import Parser.Protocol Resolve.Op Resolve.Apply Resolve.Process Resolve.Order Resolve.Chain
  Resolve.Inert Resolve.Prepare Resolve.Auth Resolve.Spec Resolve.Refine Resolve.MetaOps Gen.Kernels GenTie.Order.
Import ListNotations.
Local Open Scope Z_scope.

(* key_inj l: distinct operations of l carry distinct (transaction time, transaction number) *)

(* resolution (state, returned operation lists, errors) is a function of the set of stored
   operations: any permutation of what the stores return gives the identical outcome *)
Theorem C02_store_order_irrelevant : forall pub pub' unpub unpub' opts,
  Permutation pub pub' -> Permutation unpub unpub' ->
  key_inj (pub ++ added_pub pub (o_additional opts)) ->
  key_inj (unpub ++ added_unpub (o_additional opts)) ->
  resolve pub unpub opts = resolve pub' unpub' opts.
Proof. exact resolve_perm_invariant. Qed.
Print Assumptions C02_store_order_irrelevant.

(* the chronological arrangement is unique, whatever algorithm sorts *)
Theorem C02_sorted_arrangement_unique : forall l1 l2,
  key_inj l1 -> StronglySorted op_le l1 -> StronglySorted op_le l2 -> Permutation l1 l2 -> l1 = l2.
Proof. exact sorted_perm_unique. Qed.
Print Assumptions C02_sorted_arrangement_unique.

Theorem C02_sort_is_chronological : forall l, StronglySorted op_le (sort_ops l) /\ Permutation (sort_ops l) l.
Proof. exact (fun l => conj (sort_ops_sorted l) (sort_ops_perm l)). Qed.
Print Assumptions C02_sort_is_chronological.

(* time first, then number: the order relation *)
Theorem C02_order_is_time_then_number : forall a b,
  op_lt a b = true <-> time a < time b \/ (time a = time b /\ num a < num b).
Proof. exact op_lt_spec. Qed.
Print Assumptions C02_order_is_time_then_number.

(* the comparators in the source (re-translated on every run) are that order / that partition *)
Theorem C02_code_comparators : forall a b,
  gen_processor_sortLess a b = op_lt a b /\ gen_metadata_sortLess a b = op_lt a b /\
  gen_processor_createLess a b = (published a && negb (published b)).
Proof. exact (fun a b => conj (processor_sortLess_tie a b) (conj (metadata_sortLess_tie a b) (processor_createLess_tie a b))). Qed.
Print Assumptions C02_code_comparators.

Theorem C02_stable_create_sort_is_published_first : forall l,
  isort gen_processor_createLess l = creates_published_first l.
Proof. exact stable_sort_creates_is_partition. Qed.
Print Assumptions C02_stable_create_sort_is_published_first.

(* processing order: published operations chronologically, then the unpublished ones *)
Theorem C02_published_before_unpublished : forall pub unpub,
  prepare pub unpub no_opts = inr (sort_ops pub, sort_ops unpub, sort_ops pub ++ sort_ops unpub).
Proof. exact prepare_no_opts. Qed.
Print Assumptions C02_published_before_unpublished.

(* among the operations competing for the commitment in force, the first eligible one in
   processing order is applied ... *)
Theorem C02_first_eligible_wins : forall sel s consumed ops o s',
  first_valid (candidates (sel s) ops) s (sel s) consumed = Some (o, s') ->
  exists before after, ops = before ++ o :: after /\
    (forall x, In x before -> ~ eligible sel s consumed x) /\ eligible sel s consumed o /\ step s o s'.
Proof. exact first_valid_first_eligible. Qed.
Print Assumptions C02_first_eligible_wins.

(* ... and the others have no effect: removing any non-applied operations changes nothing *)
Theorem C02_losers_have_no_effect : forall (q : aop -> bool) pub unpub c0 s ap,
  key_inj pub -> key_inj unpub ->
  resolve_full pub unpub no_opts = inr (Some (c0, s, ap)) ->
  q c0 = true -> Forall (fun o => q o = true) ap ->
  resolve_full (filter q pub) (filter q unpub) no_opts = inr (Some (c0, s, ap)).
Proof. exact unapplied_ops_inert. Qed.
Print Assumptions C02_losers_have_no_effect.

(* the earliest acceptable create defines the DID *)
Theorem C02_earliest_create_defines : forall fops c0 s ap,
  resolve_core fops = inr (Some (c0, s, ap)) ->
  exists before after,
    creates_published_first (filter (is_ty Create) fops) = before ++ c0 :: after /\
    Forall (fun c => apply c init_state = None) before /\ apply c0 init_state <> None.
Proof. exact chosen_create_is_first. Qed.
Print Assumptions C02_earliest_create_defines.

(* document metadata: the published-operation list does not depend on input order either *)
Theorem C02_metadata_lists_order_irrelevant : forall l l',
  Permutation l l' -> key_inj l -> published_ops_view l = published_ops_view l'.
Proof. exact (fun l l' Hp Hk => f_equal (fun x => map oid (dedup_cref [] x)) (sort_ops_perm_invariant l l' Hp Hk)). Qed.
Print Assumptions C02_metadata_lists_order_irrelevant.
