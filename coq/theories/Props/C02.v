(* C02 - Earliest anchored valid operation wins; resolution ignores storage order. *)
From Coq Require Import List ZArith Bool Permutation Sorted.
From SV Require Import Parser.Protocol Resolve.Op Resolve.Apply Resolve.Process Resolve.Order Resolve.Chain
  Resolve.Inert Resolve.Prepare Resolve.Auth Resolve.Spec Resolve.Refine Resolve.MetaOps Gen.Kernels GenTie.Order.
Import ListNotations.
Local Open Scope Z_scope.

(* key_inj l: distinct operations of l carry distinct (transaction time, transaction number) *)

(* resolution (state, returned operation lists, errors) is a function of the set of stored
   operations: any permutation of what the stores return gives the identical outcome *)
Theorem C02_store_order_irrelevant : forall pub pub' unpub unpub' opts,
  Permutation pub pub' -> Permutation unpub unpub' ->
  key_inj (pub ++ added_pub pub (o_additional opts)) ->
  key_inj (unpub ++ added_unpub (o_additional opts)) ->
  resolve pub unpub opts = resolve pub' unpub' opts.
Proof. exact resolve_perm_invariant. Qed.
Print Assumptions C02_store_order_irrelevant.

(* the chronological arrangement is unique, whatever algorithm sorts *)
Theorem C02_sorted_arrangement_unique : forall l1 l2,
  key_inj l1 -> StronglySorted op_le l1 -> StronglySorted op_le l2 -> Permutation l1 l2 -> l1 = l2.
Proof. exact sorted_perm_unique. Qed.
Print Assumptions C02_sorted_arrangement_unique.

Theorem C02_sort_is_chronological : forall l, StronglySorted op_le (sort_ops l) /\ Permutation (sort_ops l) l.
Proof. exact (fun l => conj (sort_ops_sorted l) (sort_ops_perm l)). Qed.
Print Assumptions C02_sort_is_chronological.

(* time first, then number: the order relation *)
Theorem C02_order_is_time_then_number : forall a b,
  op_lt a b = true <-> time a < time b \/ (time a = time b /\ num a < num b).
Proof. exact op_lt_spec. Qed.
Print Assumptions C02_order_is_time_then_number.

(* the comparators in the source (re-translated on every run) are that order / that partition *)
Theorem C02_code_comparators : forall a b,
  gen_processor_sortLess a b = op_lt a b /\ gen_metadata_sortLess a b = op_lt a b /\
  gen_processor_createLess a b = (published a && negb (published b)).
Proof. exact (fun a b => conj (processor_sortLess_tie a b) (conj (metadata_sortLess_tie a b) (processor_createLess_tie a b))). Qed.
Print Assumptions C02_code_comparators.

Theorem C02_stable_create_sort_is_published_first : forall l,
  isort gen_processor_createLess l = creates_published_first l.
Proof. exact stable_sort_creates_is_partition. Qed.
Print Assumptions C02_stable_create_sort_is_published_first.

(* processing order: published operations chronologically, then the unpublished ones *)
Theorem C02_published_before_unpublished : forall pub unpub,
  prepare pub unpub no_opts = inr (sort_ops pub, sort_ops unpub, sort_ops pub ++ sort_ops unpub).
Proof. exact prepare_no_opts. Qed.
Print Assumptions C02_published_before_unpublished.

(* among the operations competing for the commitment in force, the first eligible one in
   processing order is applied ... *)
Theorem C02_first_eligible_wins : forall sel s consumed ops o s',
  first_valid (candidates (sel s) ops) s (sel s) consumed = Some (o, s') ->
  exists before after, ops = before ++ o :: after /\
    (forall x, In x before -> ~ eligible sel s consumed x) /\ eligible sel s consumed o /\ step s o s'.
Proof. exact first_valid_first_eligible. Qed.
Print Assumptions C02_first_eligible_wins.

(* ... and the others have no effect: removing any non-applied operations changes nothing *)
Theorem C02_losers_have_no_effect : forall (q : aop -> bool) pub unpub c0 s ap,
  key_inj pub -> key_inj unpub ->
  resolve_full pub unpub no_opts = inr (Some (c0, s, ap)) ->
  q c0 = true -> Forall (fun o => q o = true) ap ->
  resolve_full (filter q pub) (filter q unpub) no_opts = inr (Some (c0, s, ap)).
Proof. exact unapplied_ops_inert. Qed.
Print Assumptions C02_losers_have_no_effect.

(* the earliest acceptable create defines the DID *)
Theorem C02_earliest_create_defines : forall fops c0 s ap,
  resolve_core fops = inr (Some (c0, s, ap)) ->
  exists before after,
    creates_published_first (filter (is_ty Create) fops) = before ++ c0 :: after /\
    Forall (fun c => apply c init_state = None) before /\ apply c0 init_state <> None.
Proof. exact chosen_create_is_first. Qed.
Print Assumptions C02_earliest_create_defines.

(* document metadata: the published-operation list does not depend on input order either *)
Theorem C02_metadata_lists_order_irrelevant : forall l l',
  Permutation l l' -> key_inj l -> published_ops_view l = published_ops_view l'.
Proof. exact (fun l l' Hp Hk => f_equal (fun x => map oid (dedup_cref [] x)) (sort_ops_perm_invariant l l' Hp Hk)). Qed.
Print Assumptions C02_metadata_lists_order_irrelevant.

From SV Require Import Resolve.Op Resolve.Apply Resolve.Process Resolve.Order Resolve.Chain Resolve.Inert Resolve.Prepare Resolve.Spec Resolve.Refine Resolve.Extend Resolve.Earliest.
Local Close Scope Z_scope.

(* whatever the resolution options (additional operations, version id, version time), the list handed to the core of Resolve has the published operations in chronological order followed by the unpublished ones (stores_ok: the operation store returns operations with a canonical reference, the unpublished store operations without) *)
Theorem C02_prepared_list_in_processing_order :
  forall (pub unpub : list aop) (opts : ropts) (rp ru fops : list aop),
         stores_ok pub unpub -> prepare pub unpub opts = inr (rp, ru, fops) -> processing_order fops.
Proof. exact prepare_processing_order. Qed.
Print Assumptions C02_prepared_list_in_processing_order.

(* every applied operation was applied at a point (applied_at): by the recovery or the update chain, in the state that is the fold of Apply over the create and the operations applied before it, with the commitments consumed earlier in that chain, competing with the recover/deactivate operations resp. with the updates that are unpublished or anchored after the replay point *)
Theorem C02_applied_has_point :
  forall (fops : list aop) (c0 : aop) (s : state) (ap : list aop) (o : aop),
         resolve_core fops = inr (Some (c0, s, ap)) ->
         In o ap ->
         exists (sel : state -> Z) (st : state) (consumed : list Z) (comp : aop -> Prop),
           applied_at c0 ap o sel st consumed comp.
Proof. exact applied_has_point. Qed.
Print Assumptions C02_applied_has_point.

(* at its point an applied operation is eligible (reveals the commitment in force, commits to a different one not consumed before, Apply accepts it) and every competitor that precedes it in the prepared list is not eligible *)
Theorem C02_applied_is_first_eligible :
  forall (fops : list aop) (c0 : aop) (s : state) (ap : list aop) 
           (o : aop) (sel : state -> Z) (st : state) (consumed : list Z) 
           (comp : aop -> Prop),
         resolve_core fops = inr (Some (c0, s, ap)) ->
         applied_at c0 ap o sel st consumed comp ->
         eligible sel st consumed o /\
         comp o /\
         (exists before after : list aop,
            fops = before ++ o :: after /\
            (forall q : aop, In q before -> comp q -> ~ eligible sel st consumed q)).
Proof. exact applied_is_first_eligible. Qed.
Print Assumptions C02_applied_is_first_eligible.

(* the earliest anchored eligible operation wins: if q is a published competitor eligible at the point where o was applied, then o is published and q is not anchored before o *)
Theorem C02_applied_is_earliest :
  forall (fops : list aop) (c0 : aop) (s : state) (ap : list aop) 
           (o : aop) (sel : state -> Z) (st : state) (consumed : list Z) 
           (comp : aop -> Prop),
         processing_order fops ->
         resolve_core fops = inr (Some (c0, s, ap)) ->
         applied_at c0 ap o sel st consumed comp ->
         forall q : aop,
         In q fops ->
         comp q ->
         published q = true -> eligible sel st consumed q -> published o = true /\ op_lt q o = false.
Proof. exact applied_is_earliest. Qed.
Print Assumptions C02_applied_is_earliest.

(* with distinct anchoring coordinates the applied operation is strictly earlier than every other eligible published competitor *)
Theorem C02_applied_is_strictly_earliest :
  forall (fops : list aop) (c0 : aop) (s : state) (ap : list aop) 
           (o : aop) (sel : state -> Z) (st : state) (consumed : list Z) 
           (comp : aop -> Prop),
         processing_order fops ->
         key_inj fops ->
         resolve_core fops = inr (Some (c0, s, ap)) ->
         applied_at c0 ap o sel st consumed comp ->
         forall q : aop,
         In q fops ->
         comp q -> published q = true -> eligible sel st consumed q -> q <> o -> op_lt o q = true.
Proof. exact applied_is_strictly_earliest. Qed.
Print Assumptions C02_applied_is_strictly_earliest.

(* an unpublished operation is applied only when no published competitor is eligible at that point *)
Theorem C02_published_preferred_to_unpublished :
  forall (fops : list aop) (c0 : aop) (s : state) (ap : list aop) 
           (o : aop) (sel : state -> Z) (st : state) (consumed : list Z) 
           (comp : aop -> Prop),
         processing_order fops ->
         resolve_core fops = inr (Some (c0, s, ap)) ->
         applied_at c0 ap o sel st consumed comp ->
         published o = false ->
         forall q : aop, In q fops -> comp q -> eligible sel st consumed q -> published q = false.
Proof. exact published_preferred. Qed.
Print Assumptions C02_published_preferred_to_unpublished.

(* the three statements for resolve_full under any resolution options, competitors ranging over the list prepare returns *)
Theorem C02_earliest_wins_resolve :
  forall (pub unpub : list aop) (opts : ropts) (c0 : aop) (s : state) (ap : list aop),
         stores_ok pub unpub ->
         resolve_full pub unpub opts = inr (Some (c0, s, ap)) ->
         exists rp ru fops : list aop,
           prepare pub unpub opts = inr (rp, ru, fops) /\
           (forall (o : aop) (sel : state -> Z) (st : state) (consumed : list Z) (comp : aop -> Prop),
            applied_at c0 ap o sel st consumed comp ->
            eligible sel st consumed o /\
            (forall q : aop,
             In q fops ->
             comp q ->
             eligible sel st consumed q ->
             (published q = true -> published o = true /\ op_lt q o = false) /\
             (published o = false -> published q = false))).
Proof. exact earliest_wins_resolve. Qed.
Print Assumptions C02_earliest_wins_resolve.

(* the three statements for resolve_full without options, competitors ranging over everything the two stores hold *)
Theorem C02_earliest_wins_store :
  forall (pub unpub : list aop) (c0 : aop) (s : state) (ap : list aop),
         stores_ok pub unpub ->
         resolve_full pub unpub no_opts = inr (Some (c0, s, ap)) ->
         forall (o : aop) (sel : state -> Z) (st : state) (consumed : list Z) (comp : aop -> Prop),
         applied_at c0 ap o sel st consumed comp ->
         eligible sel st consumed o /\
         (forall q : aop,
          In q (pub ++ unpub) ->
          comp q ->
          eligible sel st consumed q ->
          (published q = true -> published o = true /\ op_lt q o = false) /\
          (published o = false -> published q = false)).
Proof. exact earliest_wins_store. Qed.
Print Assumptions C02_earliest_wins_store.

(* non-vacuity: a fork (three updates reveal the same commitment: anchored at (12,0), anchored at (11,5), unpublished with time 9) returned by the stores in arbitrary order *)
Theorem C02_nonvacuous_fork_resolves :
  resolve_full f_pub f_unp no_opts = inr (Some (f_create, f_state, [f_early; f_next42])).
Proof. exact fork_resolves. Qed.
Print Assumptions C02_nonvacuous_fork_resolves.

(* the point at which the winner was applied *)
Theorem C02_nonvacuous_fork_point :
  applied_at f_create [f_early; f_next42] f_early upd f_s0 []
           (fun q : aop => ty q = Update /\ after_replay_point f_create [f_early; f_next42] q = true).
Proof. exact fork_point. Qed.
Print Assumptions C02_nonvacuous_fork_point.

(* the two losers are eligible at that point *)
Theorem C02_nonvacuous_fork_competitors_eligible :
  eligible upd f_s0 [] f_late /\ eligible upd f_s0 [] f_unpub.
Proof. exact fork_competitors_eligible. Qed.
Print Assumptions C02_nonvacuous_fork_competitors_eligible.

(* earliest_wins_store instantiated on the fork *)
Theorem C02_nonvacuous_fork_earliest_wins :
  published f_early = true /\ op_lt f_late f_early = false.
Proof. exact fork_earliest_wins. Qed.
Print Assumptions C02_nonvacuous_fork_earliest_wins.

(* preference, not exclusion: without anchored competitors the unpublished update is applied *)
Theorem C02_nonvacuous_unpublished_applied_when_alone :
  resolve_full [f_create] f_unp no_opts =
         inr
           (Some
              (f_create,
               {|
                 doc := Some [101%Z; 104%Z];
                 upd := 43;
                 rec := 30;
                 deact := false;
                 last_t := 9;
                 last_n := 0;
                 created := 10;
                 updated := 9;
                 vid := 0;
                 canon := 1;
                 aorigin := 1
               |}, [f_unpub])).
Proof. exact unpublished_applied_when_alone. Qed.
Print Assumptions C02_nonvacuous_unpublished_applied_when_alone.
