(* C09 - JWS verification accepts exactly what the given key signed.
   Jws/Compact.v models internal/jws (parseCompacted, signingInput, VerifySignature, JWK decoding
   for secp256k1).  The signature primitives (ECDSA over P-256/384/521/secp256k1, Ed25519), JSON
   decoding of the protected header and go-jose's JWK decoding are oracles: [crypto_ok] is the
   primitive's verdict on (public key, signing input computed by the model, signature). *)
From Coq Require Import String List ZArith Bool.
From SV Require Import Base.Bytes Hash.B64 Jws.Compact Jws.CompactProofs.
Import ListNotations.
Local Open Scope string_scope.
Local Open Scope list_scope.
Local Open Scope Z_scope.

(* acceptance means: the primitive verified the signature over exactly
   base64url(re-serialised protected header) "." base64url(payload), under the given JWK, which
   decoded, and (EC) the signature has the fixed size 2 x coordinate size of the curve *)
Theorem C09_verify_sound : forall s hf k crypto_ok,
  verify_jws s hf k crypto_ok = true ->
  exists payload sig msg,
    parse_compact s hf = Some (payload, sig) /\ signing_input hf payload = Some msg /\
    crypto_ok = true /\ jwk_decodes k = true /\ payload <> [] /\ sig <> [] /\
    h_json_ok hf = true /\ h_has_alg hf = true /\ h_b64 hf <> B64NotBool /\
    ((eqs (k_kty k) "EC" = true /\ exists n, ec_key_size (k_crv k) = Some n /\ Z.of_nat (length sig) = 2 * n)
     \/ (eqs (k_kty k) "EC" = false /\ eqs (k_kty k) "OKP" = true)).
Proof. exact verify_sound. Qed.
Print Assumptions C09_verify_sound.

(* any change to the decoded protected header or payload changes the message the key must have
   signed: the signing input determines both *)
Theorem C09_signing_input_injective : forall hf hf' p p' m,
  h_b64 hf <> B64False -> h_b64 hf' <> B64False ->
  signing_input hf p = Some m -> signing_input hf' p' = Some m ->
  h_marshal hf = h_marshal hf' /\ p = p'.
Proof. exact signing_input_injective. Qed.
Print Assumptions C09_signing_input_injective.

Theorem C09_signing_input_determines_header : forall hf hf' p p' m,
  signing_input hf p = Some m -> signing_input hf' p' = Some m -> h_marshal hf = h_marshal hf'.
Proof. exact signing_input_header_determined. Qed.
Print Assumptions C09_signing_input_determines_header.

(* a JWS created by signing (primitive correct: crypto_ok = true on its own output) verifies *)
Theorem C09_sign_then_verify : forall header payload sig hf k msg,
  header <> [] -> payload <> [] -> sig <> [] ->
  h_json_ok hf = true -> h_has_alg hf = true -> signing_input hf payload = Some msg ->
  jwk_decodes k = true ->
  (eqs (k_kty k) "EC" = true /\ exists n, ec_key_size (k_crv k) = Some n /\ Z.of_nat (length sig) = 2 * n)
  \/ (eqs (k_kty k) "EC" = false /\ eqs (k_kty k) "OKP" = true) ->
  verify_jws (compact header payload sig) hf k true = true.
Proof. exact sign_then_verify. Qed.
Print Assumptions C09_sign_then_verify.

Theorem C09_compact_roundtrip : forall header payload sig hf,
  header <> [] -> payload <> [] -> sig <> [] -> h_json_ok hf = true -> h_has_alg hf = true ->
  parse_compact (compact header payload sig) hf = Some (payload, sig).
Proof. exact compact_parses. Qed.
Print Assumptions C09_compact_roundtrip.

(* never acceptance without the primitive's approval: forged, corrupted, truncated signatures *)
Theorem C09_forged_signature_rejected : forall s hf k, verify_jws s hf k false = false.
Proof. exact forged_signature_rejected. Qed.
Print Assumptions C09_forged_signature_rejected.

Theorem C09_wrong_signature_size_rejected : forall k sig c n,
  eqs (k_kty k) "EC" = true -> ec_key_size (k_crv k) = Some n -> Z.of_nat (length sig) <> 2 * n ->
  verify_signature k sig c = false.
Proof. exact wrong_signature_size_rejected. Qed.
Print Assumptions C09_wrong_signature_size_rejected.

(* malformed input: an error, never acceptance *)
Theorem C09_missing_alg_rejected : forall s hf k c, h_has_alg hf = false -> verify_jws s hf k c = false.
Proof. exact missing_alg_rejected. Qed.
Print Assumptions C09_missing_alg_rejected.

Theorem C09_header_not_an_object_rejected : forall s hf k c, h_json_ok hf = false -> verify_jws s hf k c = false.
Proof. exact header_not_json_rejected. Qed.
Print Assumptions C09_header_not_an_object_rejected.

Theorem C09_non_boolean_b64_rejected : forall s hf k c, h_b64 hf = B64NotBool -> verify_jws s hf k c = false.
Proof. exact non_boolean_b64_rejected. Qed.
Print Assumptions C09_non_boolean_b64_rejected.

Theorem C09_not_three_parts_rejected : forall s hf k c, length (split_dots s) <> 3%nat -> verify_jws s hf k c = false.
Proof. exact wrong_part_count_rejected. Qed.
Print Assumptions C09_not_three_parts_rejected.

Theorem C09_unknown_key_type_rejected : forall k sig c,
  eqs (k_kty k) "EC" = false -> eqs (k_kty k) "OKP" = false -> verify_signature k sig c = false.
Proof. exact unknown_key_type_rejected. Qed.
Print Assumptions C09_unknown_key_type_rejected.

Theorem C09_unknown_curve_rejected : forall k sig c,
  eqs (k_kty k) "EC" = true -> ec_key_size (k_crv k) = None -> verify_signature k sig c = false.
Proof. exact unknown_curve_rejected. Qed.
Print Assumptions C09_unknown_curve_rejected.

Theorem C09_undecodable_jwk_rejected : forall k sig c, jwk_decodes k = false -> verify_signature k sig c = false.
Proof. exact bad_jwk_rejected. Qed.
Print Assumptions C09_undecodable_jwk_rejected.

(* secp256k1 (handled by the repository itself): coordinate length and on-curve checks *)
Theorem C09_secp256k1_jwk_checks : forall k,
  eq_fold (k_kty k) "EC" = true -> eq_fold (k_crv k) "secp256k1" = true ->
  (jwk_decodes k = true <-> k_x_len k = 32 /\ k_y_len k = 32 /\ k_on_curve k = true).
Proof. exact secp256k1_jwk_checks. Qed.
Print Assumptions C09_secp256k1_jwk_checks.
