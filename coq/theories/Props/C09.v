(* C09 - JWS verification accepts exactly what the given key signed.
   Jws/Compact.v models internal/jws (parseCompacted, signingInput, VerifySignature, JWK decoding
   for secp256k1).  The signature primitives (ECDSA over P-256/384/521/secp256k1, Ed25519), JSON
   decoding of the protected header and go-jose's JWK decoding are oracles: [crypto_ok] is the
   primitive's verdict on (public key, signing input computed by the model, signature). *)
From Coq Require Import String List ZArith Bool.
From SV Require Import Base.Bytes Hash.B64 Jws.Compact Jws.CompactProofs.
Import ListNotations.
Local Open Scope string_scope.
Local Open Scope list_scope.
Local Open Scope Z_scope.

(* acceptance means: the primitive verified the signature over exactly
   base64url(re-serialised protected header) "." base64url(payload), under the given JWK, which
   decoded, and (EC) the signature has the fixed size 2 x coordinate size of the curve *)
Theorem C09_verify_sound : forall s hf k crypto_ok,
  verify_jws s hf k crypto_ok = true ->
  exists payload sig msg,
    parse_compact s hf = Some (payload, sig) /\ signing_input hf payload = Some msg /\
    crypto_ok = true /\ jwk_decodes k = true /\ payload <> [] /\ sig <> [] /\
    h_json_ok hf = true /\ h_has_alg hf = true /\ h_b64 hf <> B64NotBool /\
    ((eqs (k_kty k) "EC" = true /\ exists n, ec_key_size (k_crv k) = Some n /\ Z.of_nat (length sig) = 2 * n)
     \/ (eqs (k_kty k) "EC" = false /\ eqs (k_kty k) "OKP" = true)).
Proof. exact verify_sound. Qed.
Print Assumptions C09_verify_sound.

(* any change to the decoded protected header or payload changes the message the key must have
   signed: the signing input determines both *)
Theorem C09_signing_input_injective : forall hf hf' p p' m,
  h_b64 hf <> B64False -> h_b64 hf' <> B64False ->
  signing_input hf p = Some m -> signing_input hf' p' = Some m ->
  h_marshal hf = h_marshal hf' /\ p = p'.
Proof. exact signing_input_injective. Qed.
Print Assumptions C09_signing_input_injective.

Theorem C09_signing_input_determines_header : forall hf hf' p p' m,
  signing_input hf p = Some m -> signing_input hf' p' = Some m -> h_marshal hf = h_marshal hf'.
Proof. exact signing_input_header_determined. Qed.
Print Assumptions C09_signing_input_determines_header.

(* a JWS created by signing (primitive correct: crypto_ok = true on its own output) verifies *)
Theorem C09_sign_then_verify : forall header payload sig hf k msg,
  header <> [] -> payload <> [] -> sig <> [] ->
  h_json_ok hf = true -> h_has_alg hf = true -> signing_input hf payload = Some msg ->
  jwk_decodes k = true ->
  (eqs (k_kty k) "EC" = true /\ exists n, ec_key_size (k_crv k) = Some n /\ Z.of_nat (length sig) = 2 * n)
  \/ (eqs (k_kty k) "EC" = false /\ eqs (k_kty k) "OKP" = true) ->
  verify_jws (compact header payload sig) hf k true = true.
Proof. exact sign_then_verify. Qed.
Print Assumptions C09_sign_then_verify.

Theorem C09_compact_roundtrip : forall header payload sig hf,
  header <> [] -> payload <> [] -> sig <> [] -> h_json_ok hf = true -> h_has_alg hf = true ->
  parse_compact (compact header payload sig) hf = Some (payload, sig).
Proof. exact compact_parses. Qed.
Print Assumptions C09_compact_roundtrip.

(* never acceptance without the primitive's approval: forged, corrupted, truncated signatures *)
Theorem C09_forged_signature_rejected : forall s hf k, verify_jws s hf k false = false.
Proof. exact forged_signature_rejected. Qed.
Print Assumptions C09_forged_signature_rejected.

Theorem C09_wrong_signature_size_rejected : forall k sig c n,
  eqs (k_kty k) "EC" = true -> ec_key_size (k_crv k) = Some n -> Z.of_nat (length sig) <> 2 * n ->
  verify_signature k sig c = false.
Proof. exact wrong_signature_size_rejected. Qed.
Print Assumptions C09_wrong_signature_size_rejected.

(* malformed input: an error, never acceptance *)
Theorem C09_missing_alg_rejected : forall s hf k c, h_has_alg hf = false -> verify_jws s hf k c = false.
Proof. exact missing_alg_rejected. Qed.
Print Assumptions C09_missing_alg_rejected.

Theorem C09_header_not_an_object_rejected : forall s hf k c, h_json_ok hf = false -> verify_jws s hf k c = false.
Proof. exact header_not_json_rejected. Qed.
Print Assumptions C09_header_not_an_object_rejected.

Theorem C09_non_boolean_b64_rejected : forall s hf k c, h_b64 hf = B64NotBool -> verify_jws s hf k c = false.
Proof. exact non_boolean_b64_rejected. Qed.
Print Assumptions C09_non_boolean_b64_rejected.

Theorem C09_not_three_parts_rejected : forall s hf k c, length (split_dots s) <> 3%nat -> verify_jws s hf k c = false.
Proof. exact wrong_part_count_rejected. Qed.
Print Assumptions C09_not_three_parts_rejected.

Theorem C09_unknown_key_type_rejected : forall k sig c,
  eqs (k_kty k) "EC" = false -> eqs (k_kty k) "OKP" = false -> verify_signature k sig c = false.
Proof. exact unknown_key_type_rejected. Qed.
Print Assumptions C09_unknown_key_type_rejected.

Theorem C09_unknown_curve_rejected : forall k sig c,
  eqs (k_kty k) "EC" = true -> ec_key_size (k_crv k) = None -> verify_signature k sig c = false.
Proof. exact unknown_curve_rejected. Qed.
Print Assumptions C09_unknown_curve_rejected.

Theorem C09_undecodable_jwk_rejected : forall k sig c, jwk_decodes k = false -> verify_signature k sig c = false.
Proof. exact bad_jwk_rejected. Qed.
Print Assumptions C09_undecodable_jwk_rejected.

(* secp256k1 (handled by the repository itself): coordinate length and on-curve checks *)
Theorem C09_secp256k1_jwk_checks : forall k,
  eq_fold (k_kty k) "EC" = true -> eq_fold (k_crv k) "secp256k1" = true ->
  (jwk_decodes k = true <-> k_x_len k = 32 /\ k_y_len k = 32 /\ k_on_curve k = true).
Proof. exact secp256k1_jwk_checks. Qed.
Print Assumptions C09_secp256k1_jwk_checks.

From SV Require Import Base.Bytes Hash.B64 Jws.Compact Jws.CompactProofs Jws.Primitive.
Local Close Scope Z_scope.

(* VerifyJWS with the signature primitive as a function V (oracle for crypto/ecdsa, btcec, ed25519) is the existing model with crypto_ok := V key signing-input decoded-signature; it rejects when there is no signing input or signature *)
Theorem C09_primitive_layer_agrees_with_model :
  forall (V : jwk -> bytes -> bytes -> bool) (s : bytes) (hf : hdr_facts) (k : jwk),
         verify_jws_with V s hf k =
         match jws_message s hf with
         | Some (msg, sig) => verify_jws s hf k (V k msg sig)
         | None => false
         end.
Proof. exact verify_with_spec. Qed.
Print Assumptions C09_primitive_layer_agrees_with_model.

(* the same, given the parsed payload, signature and the signing input *)
Theorem C09_primitive_layer_agrees_given_message :
  forall (V : jwk -> bytes -> bytes -> bool) (s : bytes) (hf : hdr_facts) 
           (k : jwk) (payload sig msg : bytes),
         parse_compact s hf = Some (payload, sig) ->
         signing_input hf payload = Some msg ->
         verify_jws_with V s hf k = verify_jws s hf k (V k msg sig).
Proof. exact verify_with_agrees. Qed.
Print Assumptions C09_primitive_layer_agrees_given_message.

(* no signing input / decoded signature: rejected by both models whatever the primitive would say *)
Theorem C09_no_message_rejected :
  forall (V : jwk -> bytes -> bytes -> bool) (s : bytes) (hf : hdr_facts) (k : jwk),
         jws_message s hf = None ->
         verify_jws_with V s hf k = false /\ (forall c : bool, verify_jws s hf k c = false).
Proof. exact verify_with_no_message. Qed.
Print Assumptions C09_no_message_rejected.

(* acceptance implies: the primitive accepted, under this key and with the decoded signature, exactly base64url(re-serialised header).payload-part computed from the decoded header and payload of the string *)
Theorem C09_acceptance_means_primitive_accepted_signing_input :
  forall (V : jwk -> bytes -> bytes -> bool) (s : bytes) (hf : hdr_facts) (k : jwk),
         verify_jws_with V s hf k = true ->
         exists payload sig msg : bytes,
           parse_compact s hf = Some (payload, sig) /\
           signing_input hf payload = Some msg /\
           msg = b64_encode (h_marshal hf) ++ [dot] ++ payload_part hf payload /\
           V k msg sig = true /\
           jwk_decodes k = true /\
           payload <> [] /\
           sig <> [] /\
           h_json_ok hf = true /\
           h_has_alg hf = true /\
           h_b64 hf <> B64NotBool /\
           (eqs (k_kty k) "EC" = true /\
            (exists n : Z,
               ec_key_size (k_crv k) = Some n /\ Z.of_nat (Datatypes.length sig) = (2 * n)%Z) \/
            eqs (k_kty k) "EC" = false /\ eqs (k_kty k) "OKP" = true).
Proof. exact accept_means_primitive_accepted. Qed.
Print Assumptions C09_acceptance_means_primitive_accepted_signing_input.

(* the signing input determines re-serialised header and payload when both sides use the same b64 mode *)
Theorem C09_signing_input_injective_same_mode :
  forall (hf hf' : hdr_facts) (p p' m : bytes),
         raw_payload hf = raw_payload hf' ->
         signing_input hf p = Some m ->
         signing_input hf' p' = Some m -> h_marshal hf = h_marshal hf' /\ p = p'.
Proof. exact signing_input_injective_same_mode. Qed.
Print Assumptions C09_signing_input_injective_same_mode.

(* two compact strings that both verify under k and differ in re-serialised header or payload: the primitive accepted two DIFFERENT messages under k *)
Theorem C09_tamper_evident :
  forall (V : jwk -> bytes -> bytes -> bool) (s s' : bytes) (hf hf' : hdr_facts) 
           (k : jwk) (p g p' g' : bytes),
         verify_jws_with V s hf k = true ->
         verify_jws_with V s' hf' k = true ->
         parse_compact s hf = Some (p, g) ->
         parse_compact s' hf' = Some (p', g') ->
         h_marshal hf <> h_marshal hf' \/ p <> p' /\ raw_payload hf = raw_payload hf' ->
         exists m m' : bytes,
           m <> m' /\
           jws_message s hf = Some (m, g) /\
           jws_message s' hf' = Some (m', g') /\ V k m g = true /\ V k m' g' = true.
Proof. exact tamper_evident. Qed.
Print Assumptions C09_tamper_evident.

(* if under k the primitive accepts one message only, everything that verifies under k carries the same header and payload *)
Theorem C09_unforgeable_primitive_at_most_one_message :
  forall (V : jwk -> bytes -> bytes -> bool) (s s' : bytes) (hf hf' : hdr_facts) 
           (k : jwk) (m0 p g p' g' : bytes),
         (forall m sig : bytes, V k m sig = true -> m = m0) ->
         verify_jws_with V s hf k = true ->
         verify_jws_with V s' hf' k = true ->
         parse_compact s hf = Some (p, g) ->
         parse_compact s' hf' = Some (p', g') ->
         h_marshal hf = h_marshal hf' /\ (raw_payload hf = raw_payload hf' -> p = p').
Proof. exact unforgeable_at_most_one_message. Qed.
Print Assumptions C09_unforgeable_primitive_at_most_one_message.

(* acceptance under another key k' means the primitive accepted that very message and signature under k' *)
Theorem C09_key_binding :
  forall (V : jwk -> bytes -> bytes -> bool) (s : bytes) (hf : hdr_facts) 
           (k' : jwk) (msg sig : bytes),
         jws_message s hf = Some (msg, sig) ->
         verify_jws_with V s hf k' = true -> V k' msg sig = true.
Proof. exact other_key_accepts_same_message. Qed.
Print Assumptions C09_key_binding.

(* a key under which the primitive rejects (message, signature) rejects the JWS *)
Theorem C09_rejected_under_key_that_does_not_verify :
  forall (V : jwk -> bytes -> bytes -> bool) (s : bytes) (hf : hdr_facts) 
           (k' : jwk) (msg sig : bytes),
         jws_message s hf = Some (msg, sig) ->
         V k' msg sig = false -> verify_jws_with V s hf k' = false.
Proof. exact rejected_under_key_that_does_not_verify. Qed.
Print Assumptions C09_rejected_under_key_that_does_not_verify.

(* the message handed to the primitive does not depend on the key *)
Theorem C09_message_independent_of_key :
  forall (V : jwk -> bytes -> bytes -> bool) (s : bytes) (hf : hdr_facts) (k k' : jwk),
         verify_jws_with V s hf k = true ->
         verify_jws_with V s hf k' = true ->
         exists msg sig : bytes,
           jws_message s hf = Some (msg, sig) /\ V k msg sig = true /\ V k' msg sig = true.
Proof. exact message_independent_of_key. Qed.
Print Assumptions C09_message_independent_of_key.

(* a compact JWS built from header, payload and sign(signing input) verifies when the primitive accepts the signer's signature (correctness of the primitive for the key pair) *)
Theorem C09_sign_then_verify_with_primitive :
  forall (V : jwk -> bytes -> bytes -> bool) (sign : bytes -> bytes)
           (header payload : list Byte.byte) (hf : hdr_facts) (k : jwk) (msg : bytes),
         V k msg (sign msg) = true ->
         header <> [] ->
         payload <> [] ->
         sign msg <> [] ->
         h_json_ok hf = true ->
         h_has_alg hf = true ->
         signing_input hf payload = Some msg ->
         jwk_decodes k = true ->
         eqs (k_kty k) "EC" = true /\
         (exists n : Z,
            ec_key_size (k_crv k) = Some n /\ Z.of_nat (Datatypes.length (sign msg)) = (2 * n)%Z) \/
         eqs (k_kty k) "EC" = false /\ eqs (k_kty k) "OKP" = true ->
         verify_jws_with V (compact header payload (sign msg)) hf k = true.
Proof. exact sign_then_verify_with. Qed.
Print Assumptions C09_sign_then_verify_with_primitive.

(* and the message extracted from it is the signing input that was signed *)
Theorem C09_built_jws_carries_signed_message :
  forall (header payload sig : list Byte.byte) (hf : hdr_facts) (msg : bytes),
         header <> [] ->
         payload <> [] ->
         sig <> [] ->
         h_json_ok hf = true ->
         h_has_alg hf = true ->
         signing_input hf payload = Some msg ->
         jws_message (compact header payload sig) hf = Some (msg, sig).
Proof. exact built_jws_message. Qed.
Print Assumptions C09_built_jws_carries_signed_message.

From SV Require Import Base.Bytes Hash.B64 Json.GoJson Jws.Compact Jws.CompactProofs Parser.ViewOfBytes Jws.FromBytes.
Local Close Scope Z_scope.

(* VerifyJWS as a function of the compact string alone (the protected-header facts are computed in Coq by the encoding/json + go-jose decoder model, not supplied by the harness): acceptance implies a three-part string whose payload and signature are non-empty, a signing input exists, the key decodes and the primitive accepted *)
Theorem C09_verify_from_bytes_sound :
  forall (s : bytes) (k : jwk) (crypto_ok : bool),
         verify_jws_bytes s k crypto_ok = true ->
         exists payload sig msg : bytes,
           parse_compact s (hdr_of_compact s) = Some (payload, sig) /\
           signing_input (hdr_of_compact s) payload = Some msg /\
           crypto_ok = true /\ jwk_decodes k = true /\ payload <> [] /\ sig <> [].
Proof. exact verify_bytes_sound. Qed.
Print Assumptions C09_verify_from_bytes_sound.

(* whatever the bytes, when the primitive rejects, VerifyJWS rejects *)
Theorem C09_forged_bytes_rejected :
  forall (s : bytes) (k : jwk), verify_jws_bytes s k false = false.
Proof. exact forged_bytes_rejected. Qed.
Print Assumptions C09_forged_bytes_rejected.

From SV Require Import Jws.Detached.
Local Close Scope Z_scope.

(* the detached-payload option (WithJWSDetachedPayload): acceptance means that the signature primitive accepted the signing input built from the header and the payload THE CALLER SUPPLIED; the payload segment plays no role (harness: cases detached:*, real verifier called through the hook verifhooks.VerifyJWSDetached) *)
Theorem C09_detached_payload_sound :
  forall (s : Bytes.bytes) (d : list Byte.byte) (hf : Compact.hdr_facts) 
           (k : Compact.jwk) (crypto_ok : bool),
         d <> [] ->
         verify_jws_detached s d hf k crypto_ok = true ->
         exists h p g sig msg : Bytes.bytes,
           Compact.split_dots s = [h; p; g] /\
           B64.b64_decode g = Some sig /\
           sig <> [] /\
           Compact.signing_input hf d = Some msg /\ crypto_ok = true /\ Compact.jwk_decodes k = true.
Proof. exact detached_sound. Qed.
Print Assumptions C09_detached_payload_sound.

(* under the option the verdict does not depend on the payload segment (empty, another payload, not base64url) *)
Theorem C09_detached_payload_ignores_segment :
  forall (h p p' g d : list Byte.byte) (hf : Compact.hdr_facts) (k : Compact.jwk)
           (crypto_ok : bool),
         d <> [] ->
         ~ In Compact.dot h ->
         ~ In Compact.dot p ->
         ~ In Compact.dot p' ->
         ~ In Compact.dot g ->
         verify_jws_detached (h ++ [Compact.dot] ++ p ++ [Compact.dot] ++ g) d hf k crypto_ok =
         verify_jws_detached (h ++ [Compact.dot] ++ p' ++ [Compact.dot] ++ g) d hf k crypto_ok.
Proof. exact detached_ignores_segment. Qed.
Print Assumptions C09_detached_payload_ignores_segment.

(* a signature the primitive refuses is refused, whatever segment and detached payload *)
Theorem C09_detached_forged_rejected :
  forall (s d : Bytes.bytes) (hf : Compact.hdr_facts) (k : Compact.jwk),
         verify_jws_detached s d hf k false = false.
Proof. exact detached_forged_rejected. Qed.
Print Assumptions C09_detached_forged_rejected.

(* an empty detached payload is the absent option *)
Theorem C09_detached_without_option :
  forall (s : Bytes.bytes) (hf : Compact.hdr_facts) (k : Compact.jwk) (crypto_ok : bool),
         verify_jws_detached s [] hf k crypto_ok = Compact.verify_jws s hf k crypto_ok.
Proof. exact detached_without_option. Qed.
Print Assumptions C09_detached_without_option.
