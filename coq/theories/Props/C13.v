(* C13 - Batch files written for a batch read back as exactly that batch.
   Batch/Handler.v models OperationHandler.PrepareTxnFiles (prepare), Batch/Files.v models
   OperationProvider.GetTxnOperations over decoded files. *)
From Coq Require Import List ZArith Bool Permutation.
From SV Require Import Resolve.Op Batch.Files Batch.Handler Batch.Safe Batch.RoundTrip.
Import ListNotations.
Local Open Scope Z_scope.

(* For every queue content (any mix and order of types, repeated suffixes, expired operations):
   reading the files written for it returns one operation per included suffix - the first
   non-expired queued operation of that suffix - with the same type, suffix, reveal value, signed
   data, delta, suffix data and (create/recover) anchor origin, ordered create, recover, update,
   deactivate; the anchor count is their number; every queued operation is included, deferred or
   expired exactly once. *)
Theorem C13_roundtrip : forall L u ops,
  0 < u <= l_uri_len L ->
  0 <= l_core_index L /\ 0 <= l_proof L /\ 0 <= l_prov_index L /\ 0 <= l_chunk L /\ 0 <= l_factor L ->
  Forall (valid_ref L) ops ->
  let a := fst (prepare u ops) in let p := snd (prepare u ops) in
  p_included p <> [] ->
  get_txn_operations L a = Some (map expect (read_back_order (p_included p))) /\
  a_count a = Z.of_nat (length (p_included p)) /\
  NoDup (map bq_sfx (p_included p)) /\
  Permutation ops (p_included p ++ p_additional p ++ p_expired p).
Proof. exact roundtrip. Qed.
Print Assumptions C13_roundtrip.

(* which operations are included: not expired, first of their suffix, and queued *)
Theorem C13_included_are_first_per_suffix : forall l seen,
  NoDup (map bq_sfx (p_included (parse_ops seen l))) /\
  (forall o, In o (p_included (parse_ops seen l)) -> ~ In (bq_sfx o) seen /\ bq_expired o = false /\ In o l).
Proof. exact parse_ops_included. Qed.
Print Assumptions C13_included_are_first_per_suffix.

Theorem C13_accounting : forall l seen,
  let p := parse_ops seen l in Permutation l (p_included p ++ p_additional p ++ p_expired p).
Proof. exact parse_ops_perm. Qed.
Print Assumptions C13_accounting.

(* the read-back order is a rearrangement of the included operations by type only *)
Theorem C13_order_is_by_type : forall inc, Permutation inc (read_back_order inc).
Proof. exact of_type_partition. Qed.
Print Assumptions C13_order_is_by_type.
