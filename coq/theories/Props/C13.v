(* C13 - Batch files written for a batch read back as exactly that batch.
   Batch/Handler.v models OperationHandler.PrepareTxnFiles (prepare), Batch/Files.v models
   OperationProvider.GetTxnOperations over decoded files. *)
From Coq Require Import List ZArith Bool Permutation.
From SV Require Import Resolve.Op Batch.Files Batch.Handler Batch.Safe Batch.RoundTrip.
Import ListNotations.
Local Open Scope Z_scope.

(* For every queue content (any mix and order of types, repeated suffixes, expired operations):
   reading the files written for it returns one operation per included suffix - the first
   non-expired queued operation of that suffix - with the same type, suffix, reveal value, signed
   data, delta, suffix data and (create/recover) anchor origin, ordered create, recover, update,
   deactivate; the anchor count is their number; every queued operation is included, deferred or
   expired exactly once. *)
Theorem C13_roundtrip : forall L u ops,
  0 < u <= l_uri_len L ->
  0 <= l_core_index L /\ 0 <= l_proof L /\ 0 <= l_prov_index L /\ 0 <= l_chunk L /\ 0 <= l_factor L ->
  Forall (valid_ref L) ops ->
  let a := fst (prepare u ops) in let p := snd (prepare u ops) in
  p_included p <> [] ->
  get_txn_operations L a = Some (map expect (read_back_order (p_included p))) /\
  a_count a = Z.of_nat (length (p_included p)) /\
  NoDup (map bq_sfx (p_included p)) /\
  Permutation ops (p_included p ++ p_additional p ++ p_expired p).
Proof. exact roundtrip. Qed.
Print Assumptions C13_roundtrip.

(* which operations are included: not expired, first of their suffix, and queued *)
Theorem C13_included_are_first_per_suffix : forall l seen,
  NoDup (map bq_sfx (p_included (parse_ops seen l))) /\
  (forall o, In o (p_included (parse_ops seen l)) -> ~ In (bq_sfx o) seen /\ bq_expired o = false /\ In o l).
Proof. exact parse_ops_included. Qed.
Print Assumptions C13_included_are_first_per_suffix.

Theorem C13_accounting : forall l seen,
  let p := parse_ops seen l in Permutation l (p_included p ++ p_additional p ++ p_expired p).
Proof. exact parse_ops_perm. Qed.
Print Assumptions C13_accounting.

(* the read-back order is a rearrangement of the included operations by type only *)
Theorem C13_order_is_by_type : forall inc, Permutation inc (read_back_order inc).
Proof. exact of_type_partition. Qed.
Print Assumptions C13_order_is_by_type.

From SV Require Import Base.Bytes Json.Ast Json.Jcs Json.GoJson Json.GoJsonProofs Resolve.Op Batch.Files Batch.FilesOfBytes Batch.FilesOfBytesProofs.
Local Close Scope Z_scope.

(* decoding the canonical JSON text of a core index file struct (what the handler writes: docutil.MarshalCanonical) gives the struct back, slices with empty backing arrays, embedded anchor origins in canonical form *)
Theorem C13_bytes_roundtrip_core_index :
  forall m : core_index_m,
         text_ok (core_index_json m) ->
         Forall create_ok (core_creates m) ->
         decode_core_index (print_canonical (core_index_json m)) = Some (norm_core_index m).
Proof. exact rt_core_index. Qed.
Print Assumptions C13_bytes_roundtrip_core_index.

(* the same for the core proof file *)
Theorem C13_bytes_roundtrip_core_proof :
  forall m : core_proof_m,
         text_ok (core_proof_json m) ->
         decode_core_proof (print_canonical (core_proof_json m)) =
         Some {| cpm_recover := fresh (cpm_recover m); cpm_deactivate := fresh (cpm_deactivate m) |}.
Proof. exact rt_core_proof. Qed.
Print Assumptions C13_bytes_roundtrip_core_proof.

(* the same for the provisional index file *)
Theorem C13_bytes_roundtrip_prov_index :
  forall m : prov_index_m,
         text_ok (prov_index_json m) ->
         decode_prov_index (print_canonical (prov_index_json m)) =
         Some
           {|
             pim_proof_uri := pim_proof_uri m;
             pim_chunks := fresh (pim_chunks m);
             pim_ops := option_map fresh_prov_ops (pim_ops m)
           |}.
Proof. exact rt_prov_index. Qed.
Print Assumptions C13_bytes_roundtrip_prov_index.

(* the same for the provisional proof file *)
Theorem C13_bytes_roundtrip_prov_proof :
  forall m : prov_proof_m,
         text_ok (prov_proof_json m) ->
         decode_prov_proof (print_canonical (prov_proof_json m)) =
         Some {| ppm_update := fresh (ppm_update m) |}.
Proof. exact rt_prov_proof. Qed.
Print Assumptions C13_bytes_roundtrip_prov_proof.

(* the same for the chunk file; patches come back in canonical form *)
Theorem C13_bytes_roundtrip_chunk :
  forall m : chunk_m,
         text_ok (chunk_json m) ->
         Forall delta_ok (sl_elems (ckm_deltas m)) ->
         decode_chunk (print_canonical (chunk_json m)) =
         Some
           {|
             ckm_deltas :=
               {|
                 sl_elems := map (option_map norm_delta) (sl_elems (ckm_deltas m)); sl_stale := []
               |}
           |}.
Proof. exact rt_chunk. Qed.
Print Assumptions C13_bytes_roundtrip_chunk.

(* the f_parsed fact of Batch/Files.v for a written core index file is the projection of its struct *)
Theorem C13_bytes_written_core_index_parsed :
  forall (F : facts) (C : cas) (m : core_index_m),
         text_ok (core_index_json m) ->
         Forall create_ok (core_creates m) ->
         parse_core_index F C (print_canonical (core_index_json m)) =
         Some (core_index_of_m F C (norm_core_index m)).
Proof. exact written_core_index_parsed. Qed.
Print Assumptions C13_bytes_written_core_index_parsed.

(* the same for the core proof file *)
Theorem C13_bytes_written_core_proof_parsed :
  forall (F : facts) (m : core_proof_m),
         text_ok (core_proof_json m) ->
         parse_core_proof F (print_canonical (core_proof_json m)) =
         Some
           {|
             cp_recovers := proofs_of (fx_id F) (sl_elems (cpm_recover m)) (fx_cp_recover F);
             cp_deactivates := proofs_of (fx_id F) (sl_elems (cpm_deactivate m)) (fx_cp_deactivate F)
           |}.
Proof. exact written_core_proof_parsed. Qed.
Print Assumptions C13_bytes_written_core_proof_parsed.

(* the same for the provisional index file *)
Theorem C13_bytes_written_prov_index_parsed :
  forall (F : facts) (C : cas) (m : prov_index_m),
         text_ok (prov_index_json m) ->
         parse_prov_index F C (print_canonical (prov_index_json m)) =
         Some
           {|
             pi_proof := ref_of C (pim_proof_uri m) (parse_prov_proof F);
             pi_chunks := chunks_of F C (sl_elems (pim_chunks m));
             pi_updates := map (op_ref_of (fx_id F)) (prov_updates m)
           |}.
Proof. exact written_prov_index_parsed. Qed.
Print Assumptions C13_bytes_written_prov_index_parsed.

(* the same for the provisional proof file *)
Theorem C13_bytes_written_prov_proof_parsed :
  forall (F : facts) (m : prov_proof_m),
         text_ok (prov_proof_json m) ->
         parse_prov_proof F (print_canonical (prov_proof_json m)) =
         Some {| pp_updates := proofs_of (fx_id F) (sl_elems (ppm_update m)) (fx_pp_update F) |}.
Proof. exact written_prov_proof_parsed. Qed.
Print Assumptions C13_bytes_written_prov_proof_parsed.

(* the same for the chunk file *)
Theorem C13_bytes_written_chunk_parsed :
  forall (F : facts) (m : chunk_m),
         text_ok (chunk_json m) ->
         Forall delta_ok (sl_elems (ckm_deltas m)) ->
         parse_chunk F (print_canonical (chunk_json m)) =
         Some
           {|
             ch_deltas :=
               deltas_of (fx_id F) (map (option_map norm_delta) (sl_elems (ckm_deltas m)))
                 (fx_deltas F)
           |}.
Proof. exact written_chunk_parsed. Qed.
Print Assumptions C13_bytes_written_chunk_parsed.

(* non-vacuity: the bytes of a core index file written by the real handler are the canonical text of the struct they decode to, the side conditions hold, the struct is in normal form *)
Theorem C13_bytes_roundtrip_nonvacuous_core_index :
  decode_core_index ex_core = Some ex_core_m /\
         print_canonical (core_index_json ex_core_m) = ex_core /\
         text_okb (core_index_json ex_core_m) = true /\
         forallb create_okb (core_creates ex_core_m) = true /\
         norm_core_index ex_core_m = ex_core_m /\
         (Datatypes.length (core_creates ex_core_m), Datatypes.length (core_recovers ex_core_m),
          Datatypes.length (core_deactivates ex_core_m)) = (1, 1, 0).
Proof. exact ex_core_index_written. Qed.
Print Assumptions C13_bytes_roundtrip_nonvacuous_core_index.

(* the same for the chunk file of that batch (three deltas) *)
Theorem C13_bytes_roundtrip_nonvacuous_chunk :
  decode_chunk ex_chunk = Some ex_chunk_m /\
         print_canonical (chunk_json ex_chunk_m) = ex_chunk /\
         text_okb (chunk_json ex_chunk_m) = true /\
         forallb delta_okb (sl_elems (ckm_deltas ex_chunk_m)) = true /\
         map (option_map norm_delta) (sl_elems (ckm_deltas ex_chunk_m)) =
         sl_elems (ckm_deltas ex_chunk_m) /\ Datatypes.length (sl_elems (ckm_deltas ex_chunk_m)) = 3.
Proof. exact ex_chunk_written. Qed.
Print Assumptions C13_bytes_roundtrip_nonvacuous_chunk.

(* the round trip theorem applied to that file *)
Theorem C13_bytes_roundtrip_instance :
  decode_core_index (print_canonical (core_index_json ex_core_m)) = Some ex_core_m.
Proof. exact ex_round_trip. Qed.
Print Assumptions C13_bytes_roundtrip_instance.

From SV Require Import Resolve.Op Batch.Files Batch.Handler Batch.RoundTrip.
Local Close Scope Z_scope.

(* a batch whose operations have all expired (F16, repaired): no anchor string, no file, count 0, nothing deferred, and every queued operation is accounted for as expired *)
Theorem C13_all_expired_batch_prepares_nothing :
  forall (L : limits) (u : Z) (ops : list qbop),
         let a := fst (prepare u ops) in
         let p := snd (prepare u ops) in
         p_included p = [] ->
         a = no_anchor /\
         a_count a = 0%Z /\
         get_txn_operations L a = None /\ p_additional p = [] /\ Permutation ops (p_expired p).
Proof. exact prepare_all_expired. Qed.
Print Assumptions C13_all_expired_batch_prepares_nothing.
