(* C01 - Only the holder of the committed key can change a DID's resolved state.
   Property theorems only; each closed by [exact] and followed by Print Assumptions.
   resolve_full pub unpub opts = what processor.Resolve computes from the published and the
   unpublished store: error, or (chosen create, final state, applied operations in order). *)
From Coq Require Import List ZArith Bool Permutation.
From SV Require Import Resolve.Op Resolve.Apply Resolve.Process Resolve.Order Resolve.Chain Resolve.Inert
  Resolve.Prepare Resolve.Auth.
Import ListNotations.
Local Open Scope Z_scope.

(* authorised o: the request parses (its reveal value is the hash of the key inside the signed
   data), and for update/recover/deactivate the JWS verifies under that key (deactivate: and the
   signed suffix is the DID's).  Anything else is rejected by Apply in every state. *)
Theorem C01_unauthorised_never_applies : forall o s, authorised o = false -> apply o s = None.
Proof. exact unauthorised_never_applies. Qed.
Print Assumptions C01_unauthorised_never_applies.

(* every applied operation is authorised, and revealed exactly the commitment that was in force
   when it was applied (the consumed commitments are the reveal commitments of the applied ops) *)
Theorem C01_applied_are_authorised : forall fops c0 s ap,
  resolve_core fops = inr (Some (c0, s, ap)) ->
  authorised c0 = true /\ Forall (fun o => authorised o = true) ap.
Proof. exact resolve_core_applied_authorised. Qed.
Print Assumptions C01_applied_are_authorised.

Theorem C01_applied_reveal_commitment_in_force : forall fuel sel ops s consumed s' cs ap,
  chain fuel sel ops s consumed = Some (s', cs, ap) -> cs = consumed ++ map reveal_c ap.
Proof. exact chain_applied_reveal. Qed.
Print Assumptions C01_applied_reveal_commitment_in_force.

(* adding (equivalently: dropping) any number of unauthorised update / recover / deactivate
   operations anywhere in the published or unpublished history leaves the result unchanged:
   same chosen create, same final state, same applied operations; errors included *)
Theorem C01_forged_operations_inert : forall (q : aop -> bool) pub unpub,
  key_inj pub -> key_inj unpub ->
  (forall o, In o (pub ++ unpub) -> q o = false -> ty o <> Create /\ authorised o = false) ->
  resolve_full (filter q pub) (filter q unpub) no_opts = resolve_full pub unpub no_opts.
Proof. exact forged_ops_inert. Qed.
Print Assumptions C01_forged_operations_inert.

(* further creates - same request, other delta, no delta - other than the chosen one are inert *)
Theorem C01_other_creates_inert : forall (q : aop -> bool) pub unpub c0 s ap,
  key_inj pub -> key_inj unpub ->
  resolve_full pub unpub no_opts = inr (Some (c0, s, ap)) ->
  q c0 = true -> (forall o, q o = false -> ty o = Create) ->
  resolve_full (filter q pub) (filter q unpub) no_opts = inr (Some (c0, s, ap)).
Proof. exact other_creates_inert. Qed.
Print Assumptions C01_other_creates_inert.

(* the chosen create is the first one in processing order (published creates in anchoring order,
   then unpublished ones) that the applier accepts; acceptance depends on the suffix data only *)
Theorem C01_chosen_create_is_first : forall fops c0 s ap,
  resolve_core fops = inr (Some (c0, s, ap)) ->
  exists before after,
    creates_published_first (filter (is_ty Create) fops) = before ++ c0 :: after /\
    Forall (fun c => apply c init_state = None) before /\ apply c0 init_state <> None.
Proof. exact chosen_create_is_first. Qed.
Print Assumptions C01_chosen_create_is_first.

Theorem C01_create_acceptance_ignores_delta : forall c, ty c = Create ->
  (apply c init_state <> None <-> parse_ok c = true /\ mdelta c <> None).
Proof. exact create_accepted_iff. Qed.
Print Assumptions C01_create_acceptance_ignores_delta.

(* general form: the result is determined by the chosen create and the applied operations alone *)
Theorem C01_state_determined_by_applied : forall (q : aop -> bool) pub unpub c0 s ap,
  key_inj pub -> key_inj unpub ->
  resolve_full pub unpub no_opts = inr (Some (c0, s, ap)) ->
  q c0 = true -> Forall (fun o => q o = true) ap ->
  resolve_full (filter q pub) (filter q unpub) no_opts = inr (Some (c0, s, ap)).
Proof. exact unapplied_ops_inert. Qed.
Print Assumptions C01_state_determined_by_applied.

From Coq Require Import String NArith. From SV Require Import Base.Bytes Hash.Multihash Jws.Compact Resolve.Op Parser.Accept Parser.AcceptProofs Resolve.Apply Resolve.Inert Resolve.Spec Resolve.FromView Resolve.FromViewProofs.
Local Close Scope Z_scope.

(* an operation the resolution model treats as well signed satisfies the signed-request rules (reveal = hash of signing key, allowed alg/headers/key), consumes the commitment of that key, and the signature primitive accepted the signing input under that key *)
Theorem C01_authorised_view_sound :
  forall (p : pproto) (v : req_view) (kf : key_facts) (crypto_ok patch_applies : bool)
           (c : coords) (intern : bytes -> Z),
         let o := aop_of_view p v kf crypto_ok patch_applies c intern in
         let s := rv_signed v in
         let k := jwk_of_view (sv_key s) kf in
         ty o <> Create ->
         well_signed o ->
         (rv_len v <= pp_max_op_size p)%Z /\
         rv_schema_ok v = true /\
         rv_struct_ok v = true /\
         signed_rules p v /\
         (ty o = Update -> hash_field_ok p (sv_delta_hash s)) /\
         (ty o = Recover ->
          hash_field_ok p (sv_delta_hash s) /\
          hash_field_ok p (sv_recovery_commitment s) /\
          (exists (code : N) (c' : bytes),
             get_multihash_code (sv_recovery_commitment s) = Some code /\
             get_commitment (jv_canonical (sv_key s)) code = Some c' /\
             c' <> sv_recovery_commitment s)) /\
         (ty o = Deactivate -> sv_did_suffix s = rv_did_suffix v) /\
         (exists (code : N) (kc : bytes),
            get_multihash_code (rv_reveal v) = Some code /\
            get_commitment (jv_canonical (sv_key s)) code = Some kc /\ reveal_c o = intern kc) /\
         (exists payload sig msg : bytes,
            parse_compact (sv_compact s) (sv_hdr s) = Some (payload, sig) /\
            signing_input (sv_hdr s) payload = Some msg /\
            crypto_ok = true /\
            jwk_decodes k = true /\
            payload <> [] /\
            sig <> [] /\
            h_json_ok (sv_hdr s) = true /\
            h_has_alg (sv_hdr s) = true /\
            h_b64 (sv_hdr s) <> B64NotBool /\
            (eqs (k_kty k) "EC" = true /\
             (exists n : Z,
                ec_key_size (k_crv k) = Some n /\ Z.of_nat (Datatypes.length sig) = (2 * n)%Z) \/
             eqs (k_kty k) "EC" = false /\ eqs (k_kty k) "OKP" = true)).
Proof. exact authorised_view_sound. Qed.
Print Assumptions C01_authorised_view_sound.

(* the boolean authorised of the inertness theorems gives well_signed (and sfx_ok for deactivate) on operations computed from views *)
Theorem C01_authorised_implies_well_signed :
  forall (p : pproto) (v : req_view) (kf : key_facts) (crypto_ok patch_applies : bool)
           (c : coords) (intern : bytes -> Z),
         let o := aop_of_view p v kf crypto_ok patch_applies c intern in
         ty o <> Create ->
         authorised o = true -> well_signed o /\ (ty o = Deactivate -> sfx_ok o = true).
Proof. exact authorised_view_well_signed. Qed.
Print Assumptions C01_authorised_implies_well_signed.

(* a non-create request whose signature the primitive refuses is rejected by Apply in every state *)
Theorem C01_forged_view_never_applies :
  forall (p : pproto) (v : req_view) (kf : key_facts) (patch_applies : bool) 
           (c : coords) (intern : bytes -> Z) (s : state),
         ty_of_view v <> Create -> apply (aop_of_view p v kf false patch_applies c intern) s = None.
Proof. exact forged_view_never_applies. Qed.
Print Assumptions C01_forged_view_never_applies.

(* an accepted non-create request always has a non-empty recomputed commitment (never the empty id 0) *)
Theorem C01_parsed_reveal_nonzero :
  forall (p : pproto) (v : req_view) (kf : key_facts) (crypto_ok patch_applies : bool)
           (c : coords) (intern : bytes -> Z),
         intern_ok intern ->
         ty_of_view v <> Create ->
         view_parse_ok p v = true ->
         reveal_c (aop_of_view p v kf crypto_ok patch_applies c intern) <> 0%Z.
Proof. exact parsed_reveal_nonzero. Qed.
Print Assumptions C01_parsed_reveal_nonzero.
