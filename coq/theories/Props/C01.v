(* C01 - Only the holder of the committed key can change a DID's resolved state.
   Property theorems only; each closed by [exact] and followed by Print Assumptions.
   resolve_full pub unpub opts = what processor.Resolve computes from the published and the
   unpublished store: error, or (chosen create, final state, applied operations in order). *)
From Coq Require Import List ZArith Bool Permutation.
From SV Require Import Resolve.Op Resolve.Apply Resolve.Process Resolve.Order Resolve.Chain Resolve.Inert
  Resolve.Prepare Resolve.Auth.
Import ListNotations.
Local Open Scope Z_scope.

(* authorised o: the request parses (its reveal value is the hash of the key inside the signed
   data), and for update/recover/deactivate the JWS verifies under that key (deactivate: and the
   signed suffix is the DID's).  Anything else is rejected by Apply in every state. *)
Theorem C01_unauthorised_never_applies : forall o s, authorised o = false -> apply o s = None.
Proof. exact unauthorised_never_applies. Qed.
Print Assumptions C01_unauthorised_never_applies.

(* every applied operation is authorised, and revealed exactly the commitment that was in force
   when it was applied (the consumed commitments are the reveal commitments of the applied ops) *)
Theorem C01_applied_are_authorised : forall fops c0 s ap,
  resolve_core fops = inr (Some (c0, s, ap)) ->
  authorised c0 = true /\ Forall (fun o => authorised o = true) ap.
Proof. exact resolve_core_applied_authorised. Qed.
Print Assumptions C01_applied_are_authorised.

Theorem C01_applied_reveal_commitment_in_force : forall fuel sel ops s consumed s' cs ap,
  chain fuel sel ops s consumed = Some (s', cs, ap) -> cs = consumed ++ map reveal_c ap.
Proof. exact chain_applied_reveal. Qed.
Print Assumptions C01_applied_reveal_commitment_in_force.

(* adding (equivalently: dropping) any number of unauthorised update / recover / deactivate
   operations anywhere in the published or unpublished history leaves the result unchanged:
   same chosen create, same final state, same applied operations; errors included *)
Theorem C01_forged_operations_inert : forall (q : aop -> bool) pub unpub,
  key_inj pub -> key_inj unpub ->
  (forall o, In o (pub ++ unpub) -> q o = false -> ty o <> Create /\ authorised o = false) ->
  resolve_full (filter q pub) (filter q unpub) no_opts = resolve_full pub unpub no_opts.
Proof. exact forged_ops_inert. Qed.
Print Assumptions C01_forged_operations_inert.

(* further creates - same request, other delta, no delta - other than the chosen one are inert *)
Theorem C01_other_creates_inert : forall (q : aop -> bool) pub unpub c0 s ap,
  key_inj pub -> key_inj unpub ->
  resolve_full pub unpub no_opts = inr (Some (c0, s, ap)) ->
  q c0 = true -> (forall o, q o = false -> ty o = Create) ->
  resolve_full (filter q pub) (filter q unpub) no_opts = inr (Some (c0, s, ap)).
Proof. exact other_creates_inert. Qed.
Print Assumptions C01_other_creates_inert.

(* the chosen create is the first one in processing order (published creates in anchoring order,
   then unpublished ones) that the applier accepts; acceptance depends on the suffix data only *)
Theorem C01_chosen_create_is_first : forall fops c0 s ap,
  resolve_core fops = inr (Some (c0, s, ap)) ->
  exists before after,
    creates_published_first (filter (is_ty Create) fops) = before ++ c0 :: after /\
    Forall (fun c => apply c init_state = None) before /\ apply c0 init_state <> None.
Proof. exact chosen_create_is_first. Qed.
Print Assumptions C01_chosen_create_is_first.

Theorem C01_create_acceptance_ignores_delta : forall c, ty c = Create ->
  (apply c init_state <> None <-> parse_ok c = true /\ mdelta c <> None).
Proof. exact create_accepted_iff. Qed.
Print Assumptions C01_create_acceptance_ignores_delta.

(* general form: the result is determined by the chosen create and the applied operations alone *)
Theorem C01_state_determined_by_applied : forall (q : aop -> bool) pub unpub c0 s ap,
  key_inj pub -> key_inj unpub ->
  resolve_full pub unpub no_opts = inr (Some (c0, s, ap)) ->
  q c0 = true -> Forall (fun o => q o = true) ap ->
  resolve_full (filter q pub) (filter q unpub) no_opts = inr (Some (c0, s, ap)).
Proof. exact unapplied_ops_inert. Qed.
Print Assumptions C01_state_determined_by_applied.

From Coq Require Import String NArith. From SV Require Import Base.Bytes Hash.Multihash Jws.Compact Resolve.Op Parser.Accept Parser.AcceptProofs Resolve.Apply Resolve.Inert Resolve.Spec Resolve.FromView Resolve.FromViewProofs.
Local Close Scope Z_scope.

(* an operation the resolution model treats as well signed satisfies the signed-request rules (reveal = hash of signing key, allowed alg/headers/key), consumes the commitment of that key, and the signature primitive accepted the signing input under that key *)
Theorem C01_authorised_view_sound :
  forall (p : pproto) (v : req_view) (kf : key_facts) (crypto_ok patch_applies : bool)
           (c : coords) (intern : bytes -> Z),
         let o := aop_of_view p v kf crypto_ok patch_applies c intern in
         let s := rv_signed v in
         let k := jwk_of_view (sv_key s) kf in
         ty o <> Create ->
         well_signed o ->
         (rv_len v <= pp_max_op_size p)%Z /\
         rv_schema_ok v = true /\
         rv_struct_ok v = true /\
         signed_rules p v /\
         (ty o = Update -> hash_field_ok p (sv_delta_hash s)) /\
         (ty o = Recover ->
          hash_field_ok p (sv_delta_hash s) /\
          hash_field_ok p (sv_recovery_commitment s) /\
          (exists (code : N) (c' : bytes),
             get_multihash_code (sv_recovery_commitment s) = Some code /\
             get_commitment (jv_canonical (sv_key s)) code = Some c' /\
             c' <> sv_recovery_commitment s)) /\
         (ty o = Deactivate -> sv_did_suffix s = rv_did_suffix v) /\
         (exists (code : N) (kc : bytes),
            get_multihash_code (rv_reveal v) = Some code /\
            get_commitment (jv_canonical (sv_key s)) code = Some kc /\ reveal_c o = intern kc) /\
         (exists payload sig msg : bytes,
            parse_compact (sv_compact s) (sv_hdr s) = Some (payload, sig) /\
            signing_input (sv_hdr s) payload = Some msg /\
            crypto_ok = true /\
            jwk_decodes k = true /\
            payload <> [] /\
            sig <> [] /\
            h_json_ok (sv_hdr s) = true /\
            h_has_alg (sv_hdr s) = true /\
            h_b64 (sv_hdr s) <> B64NotBool /\
            (eqs (k_kty k) "EC" = true /\
             (exists n : Z,
                ec_key_size (k_crv k) = Some n /\ Z.of_nat (Datatypes.length sig) = (2 * n)%Z) \/
             eqs (k_kty k) "EC" = false /\ eqs (k_kty k) "OKP" = true)).
Proof. exact authorised_view_sound. Qed.
Print Assumptions C01_authorised_view_sound.

(* the boolean authorised of the inertness theorems gives well_signed (and sfx_ok for deactivate) on operations computed from views *)
Theorem C01_authorised_implies_well_signed :
  forall (p : pproto) (v : req_view) (kf : key_facts) (crypto_ok patch_applies : bool)
           (c : coords) (intern : bytes -> Z),
         let o := aop_of_view p v kf crypto_ok patch_applies c intern in
         ty o <> Create ->
         authorised o = true -> well_signed o /\ (ty o = Deactivate -> sfx_ok o = true).
Proof. exact authorised_view_well_signed. Qed.
Print Assumptions C01_authorised_implies_well_signed.

(* a non-create request whose signature the primitive refuses is rejected by Apply in every state *)
Theorem C01_forged_view_never_applies :
  forall (p : pproto) (v : req_view) (kf : key_facts) (patch_applies : bool) 
           (c : coords) (intern : bytes -> Z) (s : state),
         ty_of_view v <> Create -> apply (aop_of_view p v kf false patch_applies c intern) s = None.
Proof. exact forged_view_never_applies. Qed.
Print Assumptions C01_forged_view_never_applies.

(* an accepted non-create request always has a non-empty recomputed commitment (never the empty id 0) *)
Theorem C01_parsed_reveal_nonzero :
  forall (p : pproto) (v : req_view) (kf : key_facts) (crypto_ok patch_applies : bool)
           (c : coords) (intern : bytes -> Z),
         intern_ok intern ->
         ty_of_view v <> Create ->
         view_parse_ok p v = true ->
         reveal_c (aop_of_view p v kf crypto_ok patch_applies c intern) <> 0%Z.
Proof. exact parsed_reveal_nonzero. Qed.
Print Assumptions C01_parsed_reveal_nonzero.

From Coq Require Import String NArith List. From SV Require Import Base.Bytes Hash.Multihash Jws.Compact Resolve.Op Parser.Accept Parser.AcceptProofs Parser.ViewOfBytes Resolve.Apply Resolve.Process Resolve.Inert Resolve.Spec Resolve.FromView Resolve.FromViewProofs Resolve.FromBytes Resolve.FromBytesProofs.
Local Close Scope Z_scope.

(* authorised_view_sound for the operation computed from the request BYTES (decoders of Parser/ViewOfBytes.v in front of the bridge): a well signed non-create operation satisfies the size gate on the length of the bytes, the signed-request rules on what the decoders make of the bytes, consumes the commitment of the signing key, and the primitive accepted the signing input under a key that decodes *)
Theorem C01_authorised_bytes_sound :
  forall (p : pproto) (b : bytes) (valid : list bool) (origin : bool) 
           (kf : key_facts) (crypto_ok patch_applies : bool) (c : coords) 
           (intern : bytes -> Z),
         let o := aop_of_bytes p b valid origin kf crypto_ok patch_applies c intern in
         let v := view_of_request b valid origin in
         let s := rv_signed v in
         let k := jwk_of_view (sv_key s) kf in
         ty o <> Create ->
         well_signed o ->
         rv_len v = Z.of_nat (Datatypes.length b) /\
         (rv_len v <= pp_max_op_size p)%Z /\
         rv_schema_ok v = true /\
         rv_struct_ok v = true /\
         signed_rules p v /\
         (ty o = Update -> hash_field_ok p (sv_delta_hash s)) /\
         (ty o = Recover ->
          hash_field_ok p (sv_delta_hash s) /\
          hash_field_ok p (sv_recovery_commitment s) /\
          (exists (code : N) (c' : bytes),
             get_multihash_code (sv_recovery_commitment s) = Some code /\
             get_commitment (jv_canonical (sv_key s)) code = Some c' /\
             c' <> sv_recovery_commitment s)) /\
         (ty o = Deactivate -> sv_did_suffix s = rv_did_suffix v) /\
         (exists (code : N) (kc : bytes),
            get_multihash_code (rv_reveal v) = Some code /\
            get_commitment (jv_canonical (sv_key s)) code = Some kc /\ reveal_c o = intern kc) /\
         (exists payload sig msg : bytes,
            parse_compact (sv_compact s) (sv_hdr s) = Some (payload, sig) /\
            signing_input (sv_hdr s) payload = Some msg /\
            crypto_ok = true /\
            jwk_decodes k = true /\
            payload <> [] /\
            sig <> [] /\
            h_json_ok (sv_hdr s) = true /\
            h_has_alg (sv_hdr s) = true /\
            h_b64 (sv_hdr s) <> B64NotBool /\
            (eqs (k_kty k) "EC" = true /\
             (exists n : Z,
                ec_key_size (k_crv k) = Some n /\ Z.of_nat (Datatypes.length sig) = (2 * n)%Z) \/
             eqs (k_kty k) "EC" = false /\ eqs (k_kty k) "OKP" = true)).
Proof. exact authorised_bytes_sound. Qed.
Print Assumptions C01_authorised_bytes_sound.

(* the boolean authorised of the inertness theorems gives well_signed (and sfx_ok for deactivate) on operations computed from bytes *)
Theorem C01_authorised_bytes_implies_well_signed :
  forall (p : pproto) (b : bytes) (valid : list bool) (origin : bool) 
           (kf : key_facts) (crypto_ok patch_applies : bool) (c : coords) 
           (intern : bytes -> Z),
         let o := aop_of_bytes p b valid origin kf crypto_ok patch_applies c intern in
         ty o <> Create ->
         authorised o = true -> well_signed o /\ (ty o = Deactivate -> sfx_ok o = true).
Proof. exact authorised_bytes_well_signed. Qed.
Print Assumptions C01_authorised_bytes_implies_well_signed.

(* whatever the request bytes are: a non-create operation whose signature the primitive refuses is rejected by Apply in every state *)
Theorem C01_forged_bytes_never_applies :
  forall (p : pproto) (b : bytes) (valid : list bool) (origin : bool) 
           (kf : key_facts) (patch_applies : bool) (c : coords) (intern : bytes -> Z) 
           (s : state),
         ty (aop_of_bytes p b valid origin kf false patch_applies c intern) <> Create ->
         apply (aop_of_bytes p b valid origin kf false patch_applies c intern) s = None.
Proof. exact forged_bytes_never_applies. Qed.
Print Assumptions C01_forged_bytes_never_applies.

(* the same when the JWK inside the signed data does not decode (secp256k1 point off curve or wrong coordinate length, go-jose refuses) *)
Theorem C01_undecodable_key_never_applies :
  forall (p : pproto) (b : bytes) (valid : list bool) (origin : bool) 
           (kf : key_facts) (crypto_ok patch_applies : bool) (c : coords) 
           (intern : bytes -> Z) (s : state),
         let o := aop_of_bytes p b valid origin kf crypto_ok patch_applies c intern in
         ty o <> Create ->
         jwk_decodes (jwk_of_view (sv_key (rv_signed (view_of_request b valid origin))) kf) = false ->
         apply o s = None.
Proof. exact undecodable_key_never_applies. Qed.
Print Assumptions C01_undecodable_key_never_applies.

(* processor level: every non-create operation that resolution of the stored operation bytes applies is the image of a stored operation whose signature the primitive accepted under a key that decodes *)
Theorem C01_resolution_of_stored_bytes_applies_signed_operations_only :
  forall (p : pproto) (intern : bytes -> Z) (pub unpub : list stored_op) 
           (c0 : aop) (s : state) (ap : list aop),
         resolve_full (map (aop_of_stored p intern) pub) (map (aop_of_stored p intern) unpub) no_opts =
         inr (Some (c0, s, ap)) ->
         Forall
           (fun o : aop =>
            exists so : stored_op,
              In so (pub ++ unpub) /\
              o = aop_of_stored p intern so /\
              ty o <> Create /\
              so_crypto_ok so = true /\
              jwk_decodes
                (jwk_of_view
                   (sv_key (rv_signed (view_of_request (so_bytes so) (so_valid so) (so_origin so))))
                   (so_kf so)) = true) ap.
Proof. exact resolve_bytes_applied_signed. Qed.
Print Assumptions C01_resolution_of_stored_bytes_applies_signed_operations_only.

(* a well formed commitment table (world.Table: no empty key, no id 0, no id twice) names the empty string 0 and is injective on the empty string and its keys; the bridge cases check per operation that every commitment string is covered *)
Theorem C01_table_interning_injective_on_covered_strings :
  forall t : list (bytes * Z),
         tbl_ok t = true ->
         intern_tbl t [] = 0%Z /\
         (forall a b : bytes,
          tbl_covers t a = true -> tbl_covers t b = true -> intern_tbl t a = intern_tbl t b -> a = b).
Proof. exact intern_tbl_ok_on. Qed.
Print Assumptions C01_table_interning_injective_on_covered_strings.

(* with such a table covering the operation's commitment strings, an accepted non-create request has a non-zero recomputed commitment *)
Theorem C01_parsed_bytes_reveal_named :
  forall (p : pproto) (b : bytes) (valid : list bool) (origin : bool) 
           (kf : key_facts) (crypto_ok patch_applies : bool) (c : coords) 
           (t : list (bytes * Z)),
         let v := view_of_request b valid origin in
         tbl_ok t = true ->
         forallb (tbl_covers t) (commitments_of_view v) = true ->
         ty_of_view v <> Create ->
         view_parse_ok p v = true ->
         reveal_c (aop_of_bytes p b valid origin kf crypto_ok patch_applies c (intern_tbl t)) <> 0%Z.
Proof. exact parsed_bytes_reveal_named. Qed.
Print Assumptions C01_parsed_bytes_reveal_named.

(* Apply computes the same from an operation and from its normal form (create: sig_ok; update/recover: sfx_ok; deactivate: delta verdicts; delta hash mismatch: dvalid, delta content; signature refused: window) - the fields in which the harness's by-construction statement differs from what the real code determines on the bytes *)
Theorem C01_apply_blind_to_normal_form :
  forall (o : aop) (s : state), apply (aop_norm o) s = apply o s.
Proof. exact apply_norm. Qed.
Print Assumptions C01_apply_blind_to_normal_form.

(* processor.Resolve (state, error, returned and applied operation lists) is the same on a store content and on its normal form, for every resolution option *)
Theorem C01_resolution_blind_to_normal_form :
  forall (pub unpub : list aop) (opts : ropts),
         resolve (map aop_norm pub) (map aop_norm unpub) (norm_opts opts) = resolve pub unpub opts.
Proof. exact resolve_norm. Qed.
Print Assumptions C01_resolution_blind_to_normal_form.

(* histories whose operations agree pairwise up to the normal form (the comparison of Corr/Bridge.v) resolve identically *)
Theorem C01_equal_up_to_normal_form_same_resolution :
  forall (pub pub' unpub unpub' : list aop) (opts opts' : ropts),
         Forall2 eq_upto_norm pub pub' ->
         Forall2 eq_upto_norm unpub unpub' ->
         o_vid opts = o_vid opts' ->
         o_vtime opts = o_vtime opts' ->
         Forall2 eq_upto_norm (o_additional opts) (o_additional opts') ->
         resolve pub unpub opts = resolve pub' unpub' opts'.
Proof. exact resolve_eq_upto_norm. Qed.
Print Assumptions C01_equal_up_to_normal_form_same_resolution.

(* if every stored operation passes the bridge comparison against the operation the harness states for it, the processor model run on the BYTES equals the processor model run on the harness's statements (the ones C01-C06/C12 compare with the real processor) *)
Theorem C01_bridge_checked_history :
  forall (p : pproto) (intern : bytes -> Z) (pub unpub : list stored_op) 
           (o : bopts) (spub sunpub sadd : list aop),
         Forall2 (fun (so : stored_op) (st : aop) => eq_upto_norm (aop_of_stored p intern so) st) pub
           spub ->
         Forall2 (fun (so : stored_op) (st : aop) => eq_upto_norm (aop_of_stored p intern so) st)
           unpub sunpub ->
         Forall2 (fun (so : stored_op) (st : aop) => eq_upto_norm (aop_of_stored p intern so) st)
           (bo_additional o) sadd ->
         resolve_bytes p intern pub unpub o =
         resolve spub sunpub {| o_vid := bo_vid o; o_vtime := bo_vtime o; o_additional := sadd |}.
Proof. exact bridge_checked_history. Qed.
Print Assumptions C01_bridge_checked_history.
