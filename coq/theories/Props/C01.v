(* C01 - Only the holder of the committed key can change a DID's resolved state.
   Property theorems only; each closed by [exact] and followed by Print Assumptions.
   resolve_full pub unpub opts = what processor.Resolve computes from the published and the
   unpublished store: error, or (chosen create, final state, applied operations in order). *)
From Coq Require Import List ZArith Bool Permutation.
From SV Require Import Resolve.Op Resolve.Apply Resolve.Process Resolve.Order Resolve.Chain Resolve.Inert
  Resolve.Prepare Resolve.Auth.
Import ListNotations.
Local Open Scope Z_scope.

(* authorised o: the request parses (its reveal value is the hash of the key inside the signed
   data), and for update/recover/deactivate the JWS verifies under that key (deactivate: and the
   signed suffix is the DID's).  Anything else is rejected by Apply in every state. *)
Theorem C01_unauthorised_never_applies : forall o s, authorised o = false -> apply o s = None.
Proof. exact unauthorised_never_applies. Qed.
Print Assumptions C01_unauthorised_never_applies.

(* every applied operation is authorised, and revealed exactly the commitment that was in force
   when it was applied (the consumed commitments are the reveal commitments of the applied ops) *)
Theorem C01_applied_are_authorised : forall fops c0 s ap,
  resolve_core fops = inr (Some (c0, s, ap)) ->
  authorised c0 = true /\ Forall (fun o => authorised o = true) ap.
Proof. exact resolve_core_applied_authorised. Qed.
Print Assumptions C01_applied_are_authorised.

Theorem C01_applied_reveal_commitment_in_force : forall fuel sel ops s consumed s' cs ap,
  chain fuel sel ops s consumed = Some (s', cs, ap) -> cs = consumed ++ map reveal_c ap.
Proof. exact chain_applied_reveal. Qed.
Print Assumptions C01_applied_reveal_commitment_in_force.

(* adding (equivalently: dropping) any number of unauthorised update / recover / deactivate
   operations anywhere in the published or unpublished history leaves the result unchanged:
   same chosen create, same final state, same applied operations; errors included *)
Theorem C01_forged_operations_inert : forall (q : aop -> bool) pub unpub,
  key_inj pub -> key_inj unpub ->
  (forall o, In o (pub ++ unpub) -> q o = false -> ty o <> Create /\ authorised o = false) ->
  resolve_full (filter q pub) (filter q unpub) no_opts = resolve_full pub unpub no_opts.
Proof. exact forged_ops_inert. Qed.
Print Assumptions C01_forged_operations_inert.

(* further creates - same request, other delta, no delta - other than the chosen one are inert *)
Theorem C01_other_creates_inert : forall (q : aop -> bool) pub unpub c0 s ap,
  key_inj pub -> key_inj unpub ->
  resolve_full pub unpub no_opts = inr (Some (c0, s, ap)) ->
  q c0 = true -> (forall o, q o = false -> ty o = Create) ->
  resolve_full (filter q pub) (filter q unpub) no_opts = inr (Some (c0, s, ap)).
Proof. exact other_creates_inert. Qed.
Print Assumptions C01_other_creates_inert.

(* the chosen create is the first one in processing order (published creates in anchoring order,
   then unpublished ones) that the applier accepts; acceptance depends on the suffix data only *)
Theorem C01_chosen_create_is_first : forall fops c0 s ap,
  resolve_core fops = inr (Some (c0, s, ap)) ->
  exists before after,
    creates_published_first (filter (is_ty Create) fops) = before ++ c0 :: after /\
    Forall (fun c => apply c init_state = None) before /\ apply c0 init_state <> None.
Proof. exact chosen_create_is_first. Qed.
Print Assumptions C01_chosen_create_is_first.

Theorem C01_create_acceptance_ignores_delta : forall c, ty c = Create ->
  (apply c init_state <> None <-> parse_ok c = true /\ mdelta c <> None).
Proof. exact create_accepted_iff. Qed.
Print Assumptions C01_create_acceptance_ignores_delta.

(* general form: the result is determined by the chosen create and the applied operations alone *)
Theorem C01_state_determined_by_applied : forall (q : aop -> bool) pub unpub c0 s ap,
  key_inj pub -> key_inj unpub ->
  resolve_full pub unpub no_opts = inr (Some (c0, s, ap)) ->
  q c0 = true -> Forall (fun o => q o = true) ap ->
  resolve_full (filter q pub) (filter q unpub) no_opts = inr (Some (c0, s, ap)).
Proof. exact unapplied_ops_inert. Qed.
Print Assumptions C01_state_determined_by_applied.
