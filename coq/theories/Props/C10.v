(* C10 - An accepted operation request satisfies every protocol rule and limit.
   Parser/Accept.v models operationparser over the decoded view of a request; hashing, base64url
   and multihash framing are computed by the model on the actual strings. *)
From Coq Require Import String List ZArith NArith Bool.
From SV Require Import Base.Bytes Parser.Protocol Hash.B64 Hash.Multihash Jws.Compact Resolve.Op Parser.Accept Parser.AcceptProofs
  Gen.Kernels GenTie.Parser GenTie.Table.
Import ListNotations.
Local Open Scope string_scope.
Local Open Scope list_scope.
Local Open Scope Z_scope.

(* the size gate comes before anything else, inclusive at the limit *)
Theorem C10_request_size : forall p b t v o, parse_operation p b t v = Some o -> rv_len v <= pp_max_op_size p.
Proof. exact accepted_request_within_size. Qed.
Print Assumptions C10_request_size.

Theorem C10_oversize_request_rejected : forall p b t v, rv_len v > pp_max_op_size p -> parse_operation p b t v = None.
Proof. exact oversize_request_rejected. Qed.
Print Assumptions C10_oversize_request_rejected.

Theorem C10_dispatch : forall p b t v o,
  parse_operation p b t v = Some o ->
  rv_schema_ok v = true /\
  ((eqs (rv_type v) "create" = true /\ parse_create p b v = Some o) \/
   (eqs (rv_type v) "update" = true /\ parse_update p b t v = Some o) \/
   (eqs (rv_type v) "deactivate" = true /\ parse_deactivate p b t v = Some o) \/
   (eqs (rv_type v) "recover" = true /\ parse_recover p b t v = Some o)).
Proof. exact parse_operation_dispatch. Qed.
Print Assumptions C10_dispatch.

(* intake acceptance implies all rules at once, per type.
   hash_field_ok  : length <= MaxOperationHashLength, well-formed multihash of an allowed algorithm
   delta_ok       : canonical delta <= MaxDeltaSize, non-empty patch list, every action enabled and
                    every patch valid, update commitment a valid hash field
   signed_rules   : suffix non-empty, reveal value a valid hash field, compact JWS with only alg/kid in
                    the protected header and an allowed algorithm, signing key present with allowed
                    curve and a nonce of NonceSize bytes, reveal value = hash of the signing key *)
Theorem C10_update_rules : forall p t v o,
  parse_update p false t v = Some o ->
  signed_rules p v /\ t = true /\ delta_ok p (rv_delta v) /\ hash_field_ok p (sv_delta_hash (rv_signed v)) /\
  (exists code c, get_multihash_code (dv_update_commitment (rv_delta v)) = Some code /\
                  get_commitment (jv_canonical (sv_key (rv_signed v))) code = Some c /\
                  c <> dv_update_commitment (rv_delta v)) /\
  po_ty o = Update /\ po_suffix o = rv_did_suffix v.
Proof. exact update_accept_implies_rules. Qed.
Print Assumptions C10_update_rules.

Theorem C10_recover_rules : forall p t v o,
  parse_recover p false t v = Some o ->
  signed_rules p v /\ t = true /\ sv_origin_ok (rv_signed v) = true /\ delta_ok p (rv_delta v) /\
  hash_field_ok p (sv_delta_hash (rv_signed v)) /\ hash_field_ok p (sv_recovery_commitment (rv_signed v)) /\
  (exists code c, get_multihash_code (sv_recovery_commitment (rv_signed v)) = Some code /\
                  get_commitment (jv_canonical (sv_key (rv_signed v))) code = Some c /\
                  c <> sv_recovery_commitment (rv_signed v)) /\
  dv_update_commitment (rv_delta v) <> sv_recovery_commitment (rv_signed v) /\
  po_ty o = Recover /\ po_suffix o = rv_did_suffix v.
Proof. exact recover_accept_implies_rules. Qed.
Print Assumptions C10_recover_rules.

Theorem C10_deactivate_rules : forall p t v o,
  parse_deactivate p false t v = Some o ->
  signed_rules p v /\ t = true /\ sv_did_suffix (rv_signed v) = rv_did_suffix v /\
  po_ty o = Deactivate /\ po_suffix o = rv_did_suffix v.
Proof. exact deactivate_accept_implies_rules. Qed.
Print Assumptions C10_deactivate_rules.

Theorem C10_create_rules : forall p v o,
  parse_create p false v = Some o ->
  sf_present (rv_suffix v) = true /\ hash_field_ok p (sf_recovery_commitment (rv_suffix v)) /\
  hash_field_ok p (sf_delta_hash (rv_suffix v)) /\ sf_origin_ok (rv_suffix v) = true /\
  delta_ok p (rv_delta v) /\
  is_valid_model_multihash (dv_canonical (rv_delta v)) (sf_delta_hash (rv_suffix v)) = true /\
  dv_update_commitment (rv_delta v) <> sf_recovery_commitment (rv_suffix v) /\
  po_ty o = Create /\ unique_suffix (sf_canonical (rv_suffix v)) (pp_hash_algs p) = Some (po_suffix o).
Proof. exact create_accept_implies_rules. Qed.
Print Assumptions C10_create_rules.

(* limits are inclusive and exact *)
Theorem C10_hash_length_limit : forall p mh, blen mh > pp_max_hash_len p -> validate_multihash p mh = false.
Proof. exact over_long_hash_rejected. Qed.
Print Assumptions C10_hash_length_limit.

Theorem C10_delta_size_limit : forall p d, blen (dv_canonical d) > pp_max_delta_size p -> validate_delta p d = false.
Proof. exact oversize_delta_rejected. Qed.
Print Assumptions C10_delta_size_limit.

(* the guards in the source (re-translated on every run) are these comparisons, each reading its
   own protocol parameter and no other *)
Theorem C10_code_guards : forall p len,
  small (MaxOperationSize p) -> small (MaxOperationHashLength p) -> small (MaxDeltaSize p) -> small (NonceSize p) ->
  gen_parser_opSizeGuard p len = (len >? MaxOperationSize p) /\
  gen_parser_hashLenGuard p len = (len >? MaxOperationHashLength p) /\
  gen_parser_deltaSizeGuard p len = (len >? MaxDeltaSize p) /\
  gen_parser_nonceGuard p len = negb (len =? NonceSize p).
Proof.
  exact (fun p len H1 H2 H3 H4 => conj (parser_opSizeGuard_tie p len H1) (conj (parser_hashLenGuard_tie p len H2)
           (conj (parser_deltaSizeGuard_tie p len H3) (parser_nonceGuard_tie p len H4)))).
Qed.
Print Assumptions C10_code_guards.

Theorem C10_each_limit_its_own_parameter :
  map (fun k => (k, assoc_params k)) ["parser_opSizeGuard"; "parser_hashLenGuard"; "parser_deltaSizeGuard"; "parser_nonceGuard"]
  = [("parser_opSizeGuard", ["MaxOperationSize"]); ("parser_hashLenGuard", ["MaxOperationHashLength"]);
     ("parser_deltaSizeGuard", ["MaxDeltaSize"]); ("parser_nonceGuard", ["NonceSize"])].
Proof. exact parser_param_table. Qed.
Print Assumptions C10_each_limit_its_own_parameter.
